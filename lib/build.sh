#!/bin/bash
# Build (or bring up to date) everything the checks need, from files on disk only.
#   build.sh coq       Coq development (full .vo build) + extraction + OCaml driver
#   build.sh harness [features]   Rust harness against /repo's current working tree
#   build.sh all
set -e
V=$(cd "$(dirname "$0")/.." && pwd)
C=$V/.cache
export CARGO_NET_OFFLINE=true
mkdir -p $C/ocaml $C/logs

build_coq() {
  cd $V/coq
  [ -f Makefile ] && [ Makefile -nt _CoqProject ] || coq_makefile -f _CoqProject -o Makefile > /dev/null
  timeout 1800 make -j16 > $C/logs/coq_build.log 2>&1 || { tail -30 $C/logs/coq_build.log; echo "COQ BUILD FAILED"; return 1; }
  # extraction + driver, only when the model or the driver changed
  local stamp=$C/ocaml/stamp
  local cur
  cur=$(cat theories/Base.v theories/Machine.v theories/Ops.v theories/Spec.v theories/Driver.v theories/Threads.v theories/ThreadSpec.v theories/ThreadsFine.v theories/ThreadsTakeMerge.v theories/ThreadsTakeCombine.v theories/ThreadsTakeMergeFine.v theories/Chain.v theories/Tree.v theories/TreePrograms.v theories/NetDriver.v theories/TraceEnv.v theories/LivenessG.v theories/PipeNetG.v theories/Extract.v $V/driver/main.ml 2>/dev/null | sha1sum | cut -d' ' -f1)
  if [ ! -x $C/ocaml/driver ] || [ "$(cat $stamp 2>/dev/null)" != "$cur" ]; then
    cd $C/ocaml
    timeout 600 coqc -Q $V/coq/theories CB $V/coq/theories/Extract.v -o $C/ocaml/Extract.vo > $C/logs/extract.log 2>&1 || { cat $C/logs/extract.log; echo "EXTRACTION FAILED"; return 1; }
    cp $V/driver/main.ml $C/ocaml/main.ml
    ocamlfind ocamlopt -O2 -w -a model.mli model.ml main.ml -o driver.bin > $C/logs/ocaml.log 2>&1 || { cat $C/logs/ocaml.log; echo "OCAML BUILD FAILED"; return 1; }
    # the extracted functions recurse on lists and unary numbers: run with an unlimited stack
    printf '#!/bin/bash\nulimit -s unlimited 2>/dev/null || ulimit -s 4000000 2>/dev/null\nexec "$(dirname "$0")/driver.bin" "$@"\n' > driver
    chmod +x driver
    echo "$cur" > $stamp
  fi
}

# $1 = variant name (plain|tracing|subscriber|hooked), rest = cargo args / env
build_harness() {
  local variant=${1:-plain}
  local repo=${VERIF_REPO:-/repo}
  if [ "$repo" != "/repo" ]; then
    # a copy of the repository (e.g. a snapshot for a background run): same harness, other path dependency
    rm -rf $C/harness-alt && mkdir -p $C/harness-alt && cp -r $V/harness/src $V/harness/Cargo.toml $V/harness/Cargo.lock $V/harness/.cargo $C/harness-alt/
    sed -i "s|path = \"/repo\"|path = \"$repo\"|" $C/harness-alt/Cargo.toml
    cd $C/harness-alt
  else
    cd $V/harness
  fi
  [ -f Cargo.lock ] || cp $repo/Cargo.lock Cargo.lock
  local feat="" tdir=$C/target rf=""
  case $variant in
    plain) ;;
    tracing) tdir=$C/target-tracing; feat="--features tracing" ;;
    subscriber) tdir=$C/target-subscriber; feat="--features subscriber" ;;
    hooked) tdir=$C/target-hooked; rf="--cfg callbag_verif" ;;
  esac
  RUSTFLAGS="$rf" CARGO_TARGET_DIR=$tdir timeout 1800 cargo build --offline $feat > $C/logs/harness_$variant.log 2>&1 \
    || { tail -40 $C/logs/harness_$variant.log; echo "HARNESS BUILD FAILED ($variant)"; return 1; }
  mkdir -p $C/bin
  cp $tdir/debug/cbharness $C/bin/cbharness-$variant
}

case "$1" in
  coq) build_coq ;;
  harness) shift; build_harness "$@" ;;
  all) build_coq; build_harness plain; build_harness tracing; build_harness subscriber; build_harness hooked ;;
  *) echo "usage: build.sh coq|harness [variant]|all"; exit 2 ;;
esac
