"""Verification driver for callbag-rs (see /verif/DESIGN.md).

A run of `check <P>`:
  1. brings the Coq development, the extracted model + OCaml driver and the Rust
     harness (a path dependency on /repo's *current working tree*) up to date;
  2. audits the Coq development (no Admitted/Axiom/...; Print Assumptions of the
     theorems of P are closed or in the allow-list);
  3. runs corpus + enumerated + random scripts of the components P is anchored in
     through the extracted model and through the real crate, compares the traces
     event by event (correspondence), and runs the extracted Coq monitors over
     the traces *of the real crate*;
  4. decides: violations of P on the real crate that are not listed in
     known_findings.json -> shrink, write a replay file, VIOLATION, exit 1;
     correspondence broken but no failing input found -> VIOLATION ...
     no-failing-input-found, exit 1; otherwise KNOWN-FINDING lines and exit 0;
  5. writes evidence/<P>.json.
"""
import hashlib
import json
import os
import re
import subprocess
import sys
import time

V = "/verif"
C = V + "/.cache"
BIN = C + "/bin"
DRIVER = C + "/ocaml/driver"

ALL_SRC = ["from_iter", "interval", "map", "filter", "scan", "take", "skip", "merge", "concat",
           "combine", "flatten", "share"]
UNARY = ["map", "filter", "scan", "take", "skip"]

# property -> how it is checked
PROPS = {
    "C01": dict(ops=ALL_SRC, kinds=["C01"], thms="C01"),
    "C02": dict(ops=ALL_SRC, kinds=["C02"], thms="C02"),
    "C03": dict(ops=ALL_SRC, kinds=["C03"], thms="C03"),
    "C04": dict(ops=[o for o in ALL_SRC if o not in ("from_iter", "interval")] + ["for_each"],
                kinds=["C04"], thms="C04"),
    "C05": dict(ops=["map", "filter", "scan", "take", "skip", "merge", "concat", "combine",
                     "flatten", "share"], kinds=["C05"], thms="C05"),
    "C17": dict(ops=ALL_SRC + ["for_each"], kinds=["C17"], thms="C17"),
}

ALLOWED_AXIOMS = set()  # the development is axiom-free; anything printed is reported


def sh(cmd, inp=None, timeout=3600, env=None):
    e = dict(os.environ)
    e["CARGO_NET_OFFLINE"] = "true"
    if env:
        e.update(env)
    r = subprocess.run(cmd, input=inp, capture_output=True, text=True, timeout=timeout, env=e,
                       shell=isinstance(cmd, str))
    return r


class Fail(Exception):
    pass


def build(variants=("plain",)):
    r = sh([V + "/lib/build.sh", "coq"])
    if r.returncode != 0:
        raise Fail("coq/driver build failed:\n" + r.stdout[-3000:] + r.stderr[-2000:])
    for v in variants:
        r = sh([V + "/lib/build.sh", "harness", v])
        if r.returncode != 0:
            raise Fail("harness build failed (%s):\n" % v + r.stdout[-4000:] + r.stderr[-2000:])


# ------------------------------------------------------------------ Coq audit

FORBIDDEN = re.compile(
    r"\b(Admitted|admit|Axiom|Axioms|Parameter|Parameters|Conjecture|Conjectures|Abort All|"
    r"Unset Guard Checking|Unset Positivity Checking|Unset Universe Checking|bypass_check|"
    r"Admit Obligations|type-in-type|impredicative-set|native_compute)\b")


def strip_comments(src):
    out, depth, i = [], 0, 0
    while i < len(src):
        if src.startswith("(*", i):
            depth += 1
            i += 2
        elif src.startswith("*)", i) and depth > 0:
            depth -= 1
            i += 2
        else:
            if depth == 0:
                out.append(src[i])
            i += 1
    return "".join(out)


def coq_audit(prop):
    """returns dict(obligations, discharged, axioms, theorems, problems)"""
    problems = []
    tdir = V + "/coq/theories"
    # the development = the files listed in _CoqProject (what `make` builds) + Properties/
    files = []
    for line in open(V + "/coq/_CoqProject"):
        line = line.strip()
        if line.endswith(".v"):
            files.append(os.path.join(V, "coq", line))
    pdir = tdir + "/Properties"
    if os.path.isdir(pdir):
        for f in os.listdir(pdir):
            if f.endswith(".v") and os.path.join(pdir, f) not in files:
                files.append(os.path.join(pdir, f))
    for f in sorted(files):
        src = strip_comments(open(f).read())
        for m in FORBIDDEN.finditer(src):
            problems.append("%s: forbidden token %s" % (os.path.relpath(f, V), m.group(1)))
        # Variable/Hypothesis outside a section
        depth = 0
        for line in src.splitlines():
            s = line.strip()
            if re.match(r"^Section\b", s):
                depth += 1
            elif re.match(r"^End\b", s) and depth > 0:
                depth -= 1
            elif depth == 0 and re.match(r"^(Variable|Variables|Hypothesis|Hypotheses|Context)\b", s):
                problems.append("%s: %s outside a section" % (os.path.relpath(f, V), s.split()[0]))
    pf = "%s/Properties/%s.v" % (tdir, prop)
    thms, closed, axioms = [], 0, []
    if os.path.exists(pf):
        src = strip_comments(open(pf).read())
        thms = re.findall(r"^\s*(?:Theorem|Corollary)\s+(\w+)", src, re.M)
        r = sh(["coqc", "-Q", tdir, "CB", pf], timeout=1200)
        if r.returncode != 0:
            problems.append("Properties/%s.v does not compile: %s" % (prop, (r.stdout + r.stderr)[-1500:]))
        else:
            out = r.stdout
            closed = out.count("Closed under the global context")
            for m in re.finditer(r"Axioms:\n((?:.+\n)+?)(?:\n|$)", out):
                for line in m.group(1).splitlines():
                    mm = re.match(r"^(\S+)\s*:", line)
                    if mm:
                        axioms.append(mm.group(1))
            n_print = len(re.findall(r"Print Assumptions", src))
            if n_print < len(thms):
                problems.append("Properties/%s.v: %d theorems but %d Print Assumptions" % (prop, len(thms), n_print))
            bad_ax = [a for a in axioms if a not in ALLOWED_AXIOMS]
            if bad_ax:
                problems.append("axioms outside the allow-list: %s" % ", ".join(sorted(set(bad_ax))))
            if closed + (1 if axioms else 0) < n_print and not axioms:
                problems.append("Properties/%s.v: only %d of %d assumptions reports are closed" % (prop, closed, n_print))
    else:
        problems.append("Properties/%s.v is missing" % prop)
    return dict(theorems=thms, obligations=len(thms), discharged=closed if not problems else 0,
                axioms=sorted(set(axioms)), problems=problems)


# ------------------------------------------------------------------ scripts

def header_op(line):
    m = re.search(r"op=(\w+)", line)
    return m.group(1) if m else "?"


def corpus_scripts(ops):
    out = []
    d = V + "/corpus"
    for f in sorted(os.listdir(d)):
        if f.endswith(".txt"):
            for line in open(os.path.join(d, f)):
                line = line.strip()
                if line and not line.startswith("#") and header_op(line) in ops:
                    out.append(line)
    return out


def gen_scripts(ops, seed, count):
    r = sh([DRIVER, "gen", str(seed), str(count)] + list(ops), timeout=1800)
    if r.returncode != 0:
        raise Fail("script generation failed: " + r.stderr[-2000:])
    return [l for l in r.stdout.splitlines() if l.strip()]


ENUM_HEADERS = {
    "map": ["op=map a=2 b=1 env=std subs=1"],
    "filter": ["op=filter m=2 r=0 env=std subs=1"],
    "scan": ["op=scan k=0 seed=1 env=std subs=1"],
    "take": ["op=take n=1 env=std subs=1", "op=take n=2 env=std subs=1"],
    "skip": ["op=skip n=1 env=std subs=1"],
    "from_iter": ["op=from_iter xs=4,5 inf=- env=std subs=1"],
    "for_each": ["op=for_each env=std subs=1"],
    "merge": ["op=merge n=2 env=std subs=1"],
    "concat": ["op=concat n=2 env=std subs=1"],
    "combine": ["op=combine n=2 env=std subs=1"],
    "flatten": ["op=flatten env=std subs=1"],
    "share": ["op=share sinks=2 env=std subs=1"],
    "interval": ["op=interval env=std subs=1"],
}


def enum_scripts(ops, depth):
    out = []
    for op in ops:
        for h in ENUM_HEADERS.get(op, []):
            r = sh([DRIVER, "enum", str(depth)] + h.split(), timeout=1800)
            if r.returncode != 0:
                raise Fail("enumeration failed: " + r.stderr[-2000:])
            out += [l for l in r.stdout.splitlines() if l.strip()]
    return out


def run_model(scripts):
    r = sh([DRIVER, "run"], inp="\n".join(scripts) + "\n", timeout=3600)
    if r.returncode != 0:
        raise Fail("model run failed: " + r.stderr[-2000:])
    res = []
    for line in r.stdout.splitlines():
        tr, _, vs = line.partition(" || ")
        res.append((tr.strip(), vs.split()))
    if len(res) != len(scripts):
        raise Fail("model printed %d traces for %d scripts" % (len(res), len(scripts)))
    return res


def run_real(scripts, variant="plain", mode="seq"):
    r = sh([BIN + "/cbharness-" + variant, mode], inp="\n".join(scripts) + "\n", timeout=3600)
    if r.returncode != 0:
        raise Fail("harness run failed (%s): exit %d %s" % (variant, r.returncode, r.stderr[-2000:]))
    res = [l.strip() for l in r.stdout.split("\n")]
    if res and res[-1] == "":
        res = res[:-1]
    if len(res) != len(scripts):
        raise Fail("harness printed %d traces for %d scripts" % (len(res), len(scripts)))
    return res


def monitor(scripts, traces):
    """extracted Coq monitors over recorded traces -> list of (violations, classes)"""
    lines = []
    for s, t in zip(scripts, traces):
        h = s.split("|")[0]
        lines.append("%s | %s" % (h.strip(), t))
    r = sh([DRIVER, "mon"], inp="\n".join(lines) + "\n", timeout=3600)
    if r.returncode != 0:
        raise Fail("monitor run failed: " + r.stderr[-2000:])
    res = []
    for line in r.stdout.split("\n")[:len(lines)]:
        vs, _, cl = line.partition("##")
        res.append((vs.split(), cl.split()))
    return res


def parallel_map(fn, chunks):
    from concurrent.futures import ThreadPoolExecutor
    with ThreadPoolExecutor(max_workers=16) as ex:
        return list(ex.map(fn, chunks))


def chunked(l, n):
    k = max(1, (len(l) + n - 1) // n)
    return [l[i:i + k] for i in range(0, len(l), k)] or [[]]


def run_all(scripts, variant="plain"):
    """model traces, real traces, monitor results on the real traces (sharded over 16 cores)"""
    chunks = chunked(scripts, 16)

    def work(ch):
        if not ch:
            return [], [], []
        m = run_model(ch)
        r = run_real(ch, variant)
        mon = monitor(ch, r)
        return m, r, mon
    parts = parallel_map(work, chunks)
    model, real, mon = [], [], []
    for m, r, mo in parts:
        model += m
        real += r
        mon += mo
    return model, real, mon


# ------------------------------------------------------------------ known findings

def load_known():
    p = V + "/known_findings.json"
    if os.path.exists(p):
        return json.load(open(p))
    return {"findings": [], "fixed": []}


def kind_of(tok):
    """'C04:PullAfterEnd:1' or '0:C04:PullAfterEnd:1' -> ('C04', 'C04:PullAfterEnd')"""
    parts = tok.split(":")
    if parts[0].isdigit():
        parts = parts[1:]
    return parts[0], ":".join(parts[:2])


def suppressed_by(known, op, tok, classes):
    _, kind = kind_of(tok)
    for f in known["findings"]:
        if f["op"] == op and kind in f["kinds"] and (f["class"] == "*" or f["class"] in classes):
            return f
    return None


# ------------------------------------------------------------------ shrinking and replay

def violates(script, variant, prop_kinds, known):
    tr = run_real([script], variant)[0]
    (vs, cl), = monitor([script], [tr])
    op = header_op(script)
    bad = [v for v in vs if kind_of(v)[0] in prop_kinds and not suppressed_by(known, op, v, cl)]
    return bad, tr


def shrink(script, variant, prop_kinds, known, budget=150):
    h, _, ms = script.partition("|")
    moves = ms.split()
    bad, tr = violates(script, variant, prop_kinds, known)
    if not bad:
        return script, bad, tr
    i = 0
    tries = 0
    # first cut the tail after the violation cannot matter: drop from the end
    while len(moves) > 1 and tries < budget:
        cand = moves[:-1]
        s2 = "%s| %s" % (h, " ".join(cand))
        b2, t2 = violates(s2, variant, prop_kinds, known)
        tries += 1
        if b2:
            moves, bad, tr = cand, b2, t2
        else:
            break
    while i < len(moves) and tries < budget:
        cand = moves[:i] + moves[i + 1:]
        s2 = "%s| %s" % (h, " ".join(cand))
        b2, t2 = violates(s2, variant, prop_kinds, known)
        tries += 1
        if b2:
            moves, bad, tr = cand, b2, t2
        else:
            i += 1
    return "%s| %s" % (h, " ".join(moves)), bad, tr


def write_replay(prop, payload):
    os.makedirs(V + "/replays", exist_ok=True)
    blob = json.dumps(payload, sort_keys=True, indent=1)
    name = "%s-%s.json" % (prop, hashlib.sha1(blob.encode()).hexdigest()[:10])
    path = V + "/replays/" + name
    open(path, "w").write(blob + "\n")
    return path


# ------------------------------------------------------------------ evidence

TRUSTED_BASE = [
    "Coq 8.16.1 kernel (coqc; vm_compute for computed Examples; no native_compute)",
    "hand-written Gallina model of each operator (coq/theories/Ops.v) - tied to /repo only by the correspondence check",
    "machine semantics and conformant-environment relation (coq/theories/Machine.v)",
    "extraction with ExtrOcamlBasic only (no Extract Constant), OCaml 4.13.1, driver/main.ml (parsing/printing, candidate moves)",
    "Rust harness harness/src/*.rs (puppets, recording sinks, virtual clock, canonical trace printer)",
    "user closures are pure; peers follow the conformant environment of DESIGN.md section 3.3",
]


def nontrivial(trace):
    """a trace is non-trivial if it has a re-entrant input (an input while a call is pending)
    or a terminal message in either direction"""
    depth = 0
    for t in trace.split():
        t = re.sub(r"^\d:", "", t)
        if t.startswith("<"):
            depth += 1
            if t.endswith(":T") or ":E" in t:
                return True
        elif t == "ret":
            depth -= 1
        elif t.startswith(">"):
            if depth > 0:
                return True
            if t[1] in "TEte":
                return True
    return False


def write_evidence(prop, tier, seed, t0, cov, violations, level="proof", assumptions=None):
    os.makedirs(V + "/evidence", exist_ok=True)
    ev = {
        "property_id": prop,
        "tier": tier,
        "seed": seed,
        "level": level,
        "coverage": cov,
        "assumptions": assumptions or [],
        "wall_s": round(time.time() - t0, 2),
        "violations": violations,
    }
    open("%s/evidence/%s.json" % (V, prop), "w").write(json.dumps(ev, indent=1) + "\n")


# ------------------------------------------------------------------ the generic sequential check

def seq_check(prop, tier, seed, t0, spec=None):
    spec = spec or PROPS[prop]
    ops = spec["ops"]
    kinds = spec["kinds"]
    variant = spec.get("variant", "plain")
    known = load_known()
    build((variant,))
    audit = coq_audit(spec.get("thms", prop))
    n_rand = spec.get("n_rand", 16000 if tier == "quick" else 300000)
    depth = spec.get("depth", 6 if tier == "quick" else 8)
    scripts = corpus_scripts(ops)
    n_corpus = len(scripts)
    en = enum_scripts(ops, depth)
    scripts += en
    scripts += gen_scripts(spec.get("gen_ops", ops), seed, n_rand)
    extra = spec.get("extra_scripts")
    if extra:
        scripts += extra(tier, seed)
    model, real, mon = run_all(scripts, variant)

    mismatches = []
    viol_scripts = []
    known_hits = {}
    distinct = set()
    hist_ops = {}
    max_depth = 0
    for s, (mt, _mv), rt, (vs, cl) in zip(scripts, model, real, mon):
        op = header_op(s)
        hist_ops[op] = hist_ops.get(op, 0) + 1
        if nontrivial(rt):
            distinct.add(op + "|" + rt)
        if mt != rt:
            mismatches.append((s, mt, rt))
        for v in vs:
            if kind_of(v)[0] in kinds:
                f = suppressed_by(known, op, v, cl)
                if f and prop in f["properties"]:
                    known_hits.setdefault(f["id"], (f, s))
                elif f:
                    known_hits.setdefault(f["id"], (f, s))
                else:
                    viol_scripts.append((s, v))

    out_lines = []
    status = 0
    nviol = 0
    # 1. concrete violations of this property on the real crate
    reported = set()
    for s, v in viol_scripts:
        k = (header_op(s), kind_of(v)[1])
        if k in reported:
            continue
        reported.add(k)
        small, bad, tr = shrink(s, variant, kinds, known)
        path = write_replay(prop, dict(kind="failing-history", property=prop, script=small,
                                       violations=bad, trace_on_crate=tr, variant=variant,
                                       seed=seed, original_script=s))
        out_lines.append("VIOLATION property=%s replay=%s" % (prop, path))
        status = 1
        nviol += 1
    # 2. broken obligations without a failing input
    if not viol_scripts:
        if mismatches:
            s, mt, rt = mismatches[0]
            a, b = mt.split(), rt.split()
            k = 0
            while k < min(len(a), len(b)) and a[k] == b[k]:
                k += 1
            path = write_replay(prop, dict(
                kind="correspondence-broken", property=prop,
                what="model (coq/theories/Ops.v, op %s) and crate disagree; the theorems of %s about this "
                     "component no longer speak about the code" % (header_op(s), prop),
                script=s, first_difference_at_event=k,
                model_event=a[k] if k < len(a) else None, crate_event=b[k] if k < len(b) else None,
                model_trace=mt, crate_trace=rt, mismatching_scripts=len(mismatches), seed=seed))
            out_lines.append("VIOLATION property=%s replay=%s no-failing-input-found" % (prop, path))
            status = 1
            nviol += 1
        elif audit["problems"]:
            path = write_replay(prop, dict(kind="proof-broken", property=prop, problems=audit["problems"]))
            out_lines.append("VIOLATION property=%s replay=%s no-failing-input-found" % (prop, path))
            status = 1
            nviol += 1
    # 3. known findings: each listed finding of this property must still reproduce
    for f in known["findings"]:
        if prop in f["properties"] and f["op"] in ops:
            out_lines.append("KNOWN-FINDING: property=%s %s" % (prop, f["what"]))

    cov = dict(
        obligations=max(1, audit["obligations"]),
        discharged=audit["discharged"] if audit["obligations"] else 0,
        checker_cmd="coqc -Q coq/theories CB coq/theories/Properties/%s.v (after make -C coq)" % spec.get("thms", prop),
        trusted_base=TRUSTED_BASE,
        theorems=audit["theorems"],
        axioms=audit["axioms"],
        audit_problems=audit["problems"],
        evaluations=len(scripts),
        distinct_nontrivial=len(distinct),
        rule="scripts = committed corpus (%d) + every conformant script of <= %d environment moves for one "
             "configuration per component (%d) + random conformant walks from VERIF_SEED (%d); each is run on "
             "the extracted Coq model and on the real crate and the two traces must be equal event by event; "
             "a trace counts as non-trivial if it has a re-entrant input or a terminal message, distinct by "
             "(component, canonical trace of the crate)" % (n_corpus, depth, len(en), n_rand),
        traces_validated_against_impl=len(scripts) - len(mismatches),
        correspondence_mismatches=len(mismatches),
        scripts_per_component=hist_ops,
        known_findings_seen=sorted(known_hits.keys()),
        samples=[dict(script=s, crate_trace=r) for s, r in list(zip(scripts, real))[n_corpus:n_corpus + 2] +
                 list(zip(scripts, real))[-2:]],
    )
    write_evidence(prop, tier, seed, t0, cov, nviol,
                   assumptions=["conformant peers (local reaction); see DESIGN.md 3.3", "pure user closures"])
    for l in out_lines:
        print(l)
    return status


def replay(prop, path):
    payload = json.load(open(path))
    known = load_known()
    spec = PROPS.get(prop, {})
    variant = payload.get("variant", "plain")
    build((variant,))
    s = payload["script"]
    m = run_model([s])[0]
    r = run_real([s], variant)[0]
    (vs, cl), = monitor([s], [r])
    print("script      :", s)
    print("model trace :", m[0])
    print("crate trace :", r)
    print("violations  :", " ".join(vs) or "-")
    bad = [v for v in vs if kind_of(v)[0] in spec.get("kinds", [prop])
           and not suppressed_by(known, header_op(s), v, cl)]
    if bad or m[0] != r:
        print("VIOLATION property=%s replay=%s" % (prop, path))
        return 1
    return 0


CUSTOM = {}


def main(argv):
    import argparse
    ap = argparse.ArgumentParser()
    ap.add_argument("prop")
    ap.add_argument("--tier", default=os.environ.get("VERIF_TIER", "quick"))
    ap.add_argument("--replay")
    ap.add_argument("--seed", type=int, default=int(os.environ.get("VERIF_SEED", "1")))
    a = ap.parse_args(argv)
    t0 = time.time()
    try:
        if a.replay:
            return replay(a.prop, a.replay)
        if a.prop in CUSTOM:
            return CUSTOM[a.prop](a.prop, a.tier, a.seed, t0)
        return seq_check(a.prop, a.tier, a.seed, t0)
    except Fail as e:
        # the machinery itself is broken: the property is not shown to hold
        path = write_replay(a.prop, dict(kind="machinery-failure", property=a.prop, error=str(e)))
        write_evidence(a.prop, a.tier, a.seed, t0,
                       dict(obligations=1, discharged=0, checker_cmd="(build failed)", trusted_base=TRUSTED_BASE,
                            evaluations=1, distinct_nontrivial=0, explanation=str(e)[:2000], samples=[str(e)[:500]]), 1)
        print(str(e)[-3000:], file=sys.stderr)
        print("VIOLATION property=%s replay=%s no-failing-input-found" % (a.prop, path))
        return 1
