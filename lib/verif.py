"""Verification driver for callbag-rs (see /verif/DESIGN.md).

A run of `check <P>`:
  1. brings the Coq development, the extracted model + OCaml driver and the Rust
     harness (a path dependency on /repo's *current working tree*) up to date;
  2. audits the Coq development (no Admitted/Axiom/...; Print Assumptions of the
     theorems of P are closed or in the allow-list);
  3. runs corpus + enumerated + random scripts of the components P is anchored in
     through the extracted model and through the real crate, compares the traces
     event by event (correspondence), and runs the extracted Coq monitors over
     the traces *of the real crate*;
  4. decides: violations of P on the real crate that are not listed in
     known_findings.json -> shrink, write a replay file, VIOLATION, exit 1;
     correspondence broken but no failing input found -> VIOLATION ...
     no-failing-input-found, exit 1; otherwise KNOWN-FINDING lines and exit 0;
  5. writes evidence/<P>.json.
"""
import hashlib
import json
import os
import random
import re
import subprocess
import sys
import time

V = os.path.dirname(os.path.dirname(os.path.abspath(__file__)))
REPO = os.environ.get("VERIF_REPO", "/repo")
C = V + "/.cache"
BIN = C + "/bin"
DRIVER = C + "/ocaml/driver"

ALL_SRC = ["from_iter", "interval", "map", "filter", "scan", "take", "skip", "merge", "concat",
           "combine", "flatten", "share"]
UNARY = ["map", "filter", "scan", "take", "skip"]

# property -> how it is checked
PROPS = {
    "C01": dict(ops=ALL_SRC, kinds=["C01"], thms="C01", trees="std"),
    "C02": dict(ops=ALL_SRC, kinds=["C02"], thms="C02", trees="std"),
    "C03": dict(ops=ALL_SRC, kinds=["C03"], thms="C03", trees="std"),
    "C04": dict(ops=[o for o in ALL_SRC if o not in ("from_iter", "interval")] + ["for_each"],
                kinds=["C04"], thms="C04"),
    # "the remaining live upstreams are disposed": an upstream still live at a quiescent point after the
    # output ended (C04:Orphan) is a violation of C05 as well
    "C05": dict(ops=["map", "filter", "scan", "take", "skip", "merge", "concat", "combine",
                     "flatten", "share"], kinds=["C05", "C04:Orphan"], thms="C05"),
    "C17": dict(ops=ALL_SRC + ["for_each"], kinds=["C17"], thms="C17", trees="std"),
    "C07": dict(ops=UNARY, kinds=["C07"], thms="C07", skip_headers=["op=take n=0"]),  # extra_check added below
    "C08": dict(ops=["merge"], kinds=["C08"], thms="C08"),
    "C09": dict(ops=["concat"], kinds=["C09"], thms="C09"),
    "C10": dict(ops=["combine"], kinds=["C10"], thms="C10"),
    "C11": dict(ops=["flatten"], kinds=["C11"], thms="C11"),
    "C12": dict(ops=["share"], kinds=["C12"], thms="C12", skip_classes=["NestedFanout"]),
    "C14": dict(ops=["from_iter", "map", "filter", "scan", "take", "skip", "concat", "flatten"],
                kinds=["C14"], thms="C14", gen_extra=["env=pull"], skip_headers=["op=take n=0"], trees="pull"),
    "C15": dict(ops=["from_iter"], kinds=["C15"], thms="C15"),
    "C16": dict(ops=["interval"], kinds=["C16"], thms="C16"),
}

NON_SHARE = [o for o in ALL_SRC if o != "share"] + ["for_each"]


def strip_sub(tok, k):
    return tok[2:] if tok.startswith("%d:" % k) else None


def c13_extra(spec, scripts, real, variant, tier):
    """C13 directly on the crate: the projection of a two-subscription run onto each
    subscription equals the crate's own solo run of that subscription's moves."""
    solos, index = [], []
    for n, s in enumerate(scripts):
        h, _, ms = s.partition("|")
        if "subs=2" not in h:
            continue
        for k in (0, 1):
            mine = [t[2:] for t in ms.split() if t.startswith("%d:" % k)]
            solos.append("%s| %s" % (h.replace("subs=2", "subs=1"), " ".join(mine)))
            index.append((n, k))
    viols = []
    if solos:
        chunks = chunked(solos, 16)
        res = []
        for part in parallel_map(lambda ch: run_real(ch, variant) if ch else [], chunks):
            res += part
        for (n, k), solo, tr in zip(index, solos, res):
            proj = " ".join(t[2:] for t in real[n].split() if t.startswith("%d:" % k))
            if proj != tr.strip():
                viols.append((scripts[n], "C13:Proj:%d" % k,
                              dict(solo_script=solo, solo_trace_on_crate=tr,
                                   projection_of_two_subscription_run=proj,
                                   two_subscription_trace=real[n])))
    # every subscription must run its OWN copy of a user closure (a closure that carries state by value gets a
    # pristine copy per subscription): the harness gives every clone of its closures a new identity and reports
    # the copies that ran under two subscriptions
    mine = [s for s in scripts if "subs=2" in s and header_op(s) in ("map", "filter", "scan")]
    shared = []
    for part in parallel_map(
            lambda ch: [l.strip() for l in sh([BIN + "/cbharness-plain", "seq"], inp="\n".join(ch) + "\n",
                                              env={"CB_EVALS": "1"}).stdout.split("\n")][:len(ch)] if ch else [],
            chunked(mine, 16)):
        shared += part
    nshared = 0
    for s_, t in zip(mine, shared):
        m = re.search(r"shared_copies:(\d+)", t)
        if not m or int(m.group(1)) != 0:
            nshared += 1
            if nshared <= 3:
                viols.append((s_, "C13:SharedClosureCopy", dict(script=s_, crate_trace=t,
                              what="one copy of the user closure ran under both subscriptions")))
    return viols, dict(projection_checks=len(solos), projection_failures=len(viols) - min(nshared, 3),
                       closure_copy_scripts=len(mine), closure_copies_shared=nshared)


def tracing_site_audit():
    """static tripwire for C20: every item gated on the tracing feature is a span/Debug item"""
    import glob
    problems = []
    allowed = [
        r"^let \w*span\w* = \w*span\w*\.clone\(\);$",
        r"^let \w+_span = Span::current\(\);$",
        r"^let _\w+_entered = \w+_span\.enter\(\);$",
        r"^use \{std::fmt, tracing::Span\};$",
        r"^use \{$",
        r"^use [\w:{}, ]+;$",
        r"^\w+: [\w:]*Debug[\w:+ ']*,$",
        r"^\[?<?\$?\w+>?\]?: [\w:]*Debug[\w:+ ']*,$",
        r"^\$T: fmt::Debug \+ 'static,$",
        r"^\[<S \$T>\]: fmt::Debug \+ 'static,$",
        r"^let nursery = nursery$",
        r"^\w+: Instrument \+ fmt::Debug \+ 'static,$",
    ]
    for f in sorted(glob.glob(REPO + "/src/*.rs")):
        lines = open(f).read().splitlines()
        for n, line in enumerate(lines):
            if re.search(r'#\[cfg\(feature = "tracing"\)\]', line):
                rest = line.split(']', 1)[1].strip() if line.strip().endswith(",") or "]" in line else ""
                rest = re.sub(r'^.*#\[cfg\(feature = "tracing"\)\]', "", line).strip()
                nxt = rest if rest else lines[n + 1].strip()
                if not any(re.match(a, nxt) for a in allowed):
                    problems.append("%s:%d: item gated on the tracing feature is not a span/Debug item: %s"
                                    % (os.path.relpath(f, REPO), n + 1, nxt))
    return problems


def macro_args_audit():
    """the premise of Tracing.v's theorem on the current source: in every trace!/call!/instrument! invocation the
    arguments after the format string are identifiers, `name = identifier`, literals or macro metavariables -
    nothing that could have an effect (no call, no method, no operator, no block)"""
    import glob
    problems = []
    simple = re.compile(r"^\s*(?:\w+\s*=\s*)?(?:\$?\w+|&?\w+|\d+|\"[^\"]*\")\s*$")
    for f in sorted(glob.glob(REPO + "/src/*.rs")):
        src = open(f).read()
        for m in re.finditer(r"\b(trace|call|instrument)!\s*\(", src):
            if src[max(0, m.start() - 13):m.start()].endswith("macro_rules! ") or "::tracing::" in src[max(0, m.start() - 12):m.start()]:
                continue
            # find the matching parenthesis
            depth, i = 1, m.end()
            while i < len(src) and depth:
                depth += src[i] in "([{"
                depth -= src[i] in ")]}"
                i += 1
            body = src[m.end():i - 1]
            # split top-level commas
            parts, d, cur = [], 0, ""
            for ch in body:
                if ch in "([{":
                    d += 1
                if ch in ")]}":
                    d -= 1
                if ch == "," and d == 0:
                    parts.append(cur); cur = ""
                else:
                    cur += ch
            if cur.strip():
                parts.append(cur)
            kind = m.group(1)
            # call!(callee, message, "fmt", args..): callee/message are the real code; trace!("fmt", args..);
            # instrument!(parent: e, "name"[, ident]) / (follows_from: e, "name"[, ident])
            if kind == "call":
                args = parts[3:]
            elif kind == "trace":
                args = parts[1:]
            else:
                args = [re.sub(r"^\s*(parent|follows_from)\s*:", "", a) for a in parts]
            line = src.count("\n", 0, m.start()) + 1
            for a in args:
                if not simple.match(a.strip()):
                    problems.append("%s:%d: %s! argument is not a plain identifier/literal: %s"
                                    % (os.path.relpath(f, REPO), line, kind, " ".join(a.split())[:80]))
    return problems


def c20_extra(spec, scripts, real, variant, tier):
    """the same scripts on the build with the tracing feature, without and with a subscriber"""
    viols = []
    env = {"CB_EVALS": "1"}

    def run_variant(v):
        out = []
        for part in parallel_map(
                lambda ch: [l.strip() for l in sh([BIN + "/cbharness-" + v, "seq"], inp="\n".join(ch) + "\n",
                                                  env=env).stdout.split("\n")][:len(ch)] if ch else [],
                chunked(scripts, 16)):
            out += part
        return out
    base = run_variant("plain")
    cov = {}
    for v in ("tracing", "subscriber"):
        other = run_variant(v)
        nd = 0
        for s, a, b in zip(scripts, base, other):
            if a != b:
                nd += 1
                if len(viols) < 5:
                    viols.append((s, "C20:Diff:%s" % v, dict(trace_default_build=a, **{"trace_%s_build" % v: b})))
        cov["differences_%s_vs_default" % v] = nd
    cov["builds_compared"] = ["default features", "--features tracing (no subscriber)",
                              "--features tracing + tracing-subscriber installed at TRACE level"]
    cov["static_tracing_site_audit"] = tracing_site_audit()
    cov["macro_argument_purity_audit"] = macro_args_audit()
    if cov["macro_argument_purity_audit"] and not viols:
        # the premise of C20_tracing_inert no longer holds of the source and no differing trace was found
        viols.append(("(static)", "C20:ImpureMacroArg:nfi", dict(problems=cov["macro_argument_purity_audit"])))
    cov["programs"] = len(scripts)
    cov["disagreements_checked"] = 2 * len(scripts)
    return viols, cov


PROPS.update({
    "C13": dict(ops=NON_SHARE, kinds=["C13"], thms="C13", gen_extra=["subs=2"], extra_check=c13_extra,
                builds=("plain",)),
    "C20": dict(ops=ALL_SRC + ["for_each"], kinds=["C20"], thms="C20", extra_check=c20_extra,
                builds=("plain", "tracing", "subscriber"), level="translation_validation"),
})

TIER = "quick"
COQCHK = {}
ALLOWED_AXIOMS = set()  # the development is axiom-free; anything printed is reported


def sh(cmd, inp=None, timeout=3600, env=None):
    e = dict(os.environ)
    e["CARGO_NET_OFFLINE"] = "true"
    if env:
        e.update(env)
    r = subprocess.run(cmd, input=inp, capture_output=True, text=True, timeout=timeout, env=e,
                       shell=isinstance(cmd, str))
    return r


class Fail(Exception):
    pass


def build(variants=("plain",)):
    r = sh([V + "/lib/build.sh", "coq"])
    if r.returncode != 0:
        raise Fail("coq/driver build failed:\n" + r.stdout[-3000:] + r.stderr[-2000:])
    for v in variants:
        r = sh([V + "/lib/build.sh", "harness", v])
        if r.returncode != 0:
            raise Fail("harness build failed (%s):\n" % v + r.stdout[-4000:] + r.stderr[-2000:])


# ------------------------------------------------------------------ Coq audit

FORBIDDEN = re.compile(
    r"\b(Admitted|admit|Axiom|Axioms|Parameter|Parameters|Conjecture|Conjectures|Abort All|"
    r"Unset Guard Checking|Unset Positivity Checking|Unset Universe Checking|bypass_check|"
    r"Admit Obligations|type-in-type|impredicative-set|native_compute)\b")


def strip_comments(src):
    out, depth, i = [], 0, 0
    while i < len(src):
        if src.startswith("(*", i):
            depth += 1
            i += 2
        elif src.startswith("*)", i) and depth > 0:
            depth -= 1
            i += 2
        else:
            if depth == 0:
                out.append(src[i])
            i += 1
    return "".join(out)


def coq_audit(prop):
    """returns dict(obligations, discharged, axioms, theorems, problems)"""
    problems = []
    tdir = V + "/coq/theories"
    # the development = the files listed in _CoqProject (what `make` builds) + Properties/
    files = []
    for line in open(V + "/coq/_CoqProject"):
        line = line.strip()
        if line.endswith(".v"):
            files.append(os.path.join(V, "coq", line))
    pdir = tdir + "/Properties"
    if os.path.isdir(pdir):
        for f in os.listdir(pdir):
            if f.endswith(".v") and os.path.join(pdir, f) not in files:
                files.append(os.path.join(pdir, f))
    for f in sorted(files):
        src = strip_comments(open(f).read())
        for m in FORBIDDEN.finditer(src):
            problems.append("%s: forbidden token %s" % (os.path.relpath(f, V), m.group(1)))
        # Variable/Hypothesis outside a section
        depth = 0
        for line in src.splitlines():
            s = line.strip()
            if re.match(r"^Section\b", s):
                depth += 1
            elif re.match(r"^End\b", s) and depth > 0:
                depth -= 1
            elif depth == 0 and re.match(r"^(Variable|Variables|Hypothesis|Hypotheses|Context)\b", s):
                problems.append("%s: %s outside a section" % (os.path.relpath(f, V), s.split()[0]))
    pf = "%s/Properties/%s.v" % (tdir, prop)
    thms, closed, axioms = [], 0, []
    if os.path.exists(pf):
        src = strip_comments(open(pf).read())
        thms = re.findall(r"^\s*(?:Theorem|Corollary)\s+(\w+)", src, re.M)
        r = sh(["coqc", "-Q", tdir, "CB", pf], timeout=1200)
        if r.returncode != 0:
            problems.append("Properties/%s.v does not compile: %s" % (prop, (r.stdout + r.stderr)[-1500:]))
        else:
            out = r.stdout
            closed = out.count("Closed under the global context")
            for m in re.finditer(r"Axioms:\n((?:.+\n)+?)(?:\n|$)", out):
                for line in m.group(1).splitlines():
                    mm = re.match(r"^(\S+)\s*:", line)
                    if mm:
                        axioms.append(mm.group(1))
            n_print = len(re.findall(r"Print Assumptions", src))
            if n_print < len(thms):
                problems.append("Properties/%s.v: %d theorems but %d Print Assumptions" % (prop, len(thms), n_print))
            bad_ax = [a for a in axioms if a not in ALLOWED_AXIOMS]
            if bad_ax:
                problems.append("axioms outside the allow-list: %s" % ", ".join(sorted(set(bad_ax))))
            if closed + (1 if axioms else 0) < n_print and not axioms:
                problems.append("Properties/%s.v: only %d of %d assumptions reports are closed" % (prop, closed, n_print))
        # the statements are pinned (coq/PINS.json, lib/pin.py): a weakened or removed theorem is a problem
        try:
            import pin
            pins = json.load(open(V + "/coq/PINS.json"))
            if prop not in pins:
                problems.append("Properties/%s.v has no pinned statements (run lib/pin.py)" % prop)
            elif pins[prop]["sha256"] != pin.digest(pf):
                problems.append("Properties/%s.v: theorem statements differ from coq/PINS.json "
                                "(after a deliberate change run lib/pin.py)" % prop)
        except Exception as e:  # noqa
            problems.append("statement pins could not be checked: %s" % e)
        # thorough tier: the independent checker re-checks the compiled property file and everything it
        # depends on, and lists the axioms it relies on
        if TIER == "thorough" and not problems:
            r = sh("cd %s/coq && coqchk -o -silent -Q theories CB CB.Properties.%s" % (V, prop), timeout=3000)
            out = r.stdout + r.stderr
            m = re.search(r"\* Axioms:\s*(.*?)\n\s*\n", out, re.S)
            COQCHK[prop] = m.group(1).strip() if m else "coqchk gave no summary (exit %d)" % r.returncode
            if r.returncode != 0 or not m or m.group(1).strip() != "<none>":
                problems.append("coqchk: %s" % COQCHK[prop][:300])
    else:
        problems.append("Properties/%s.v is missing" % prop)
    return dict(theorems=thms, coqchk_axioms=COQCHK.get(prop), obligations=len(thms), discharged=closed if not problems else 0,
                axioms=sorted(set(axioms)), problems=problems)


# ------------------------------------------------------------------ scripts

def header_op(line):
    m = re.search(r"op=(\w+)", line)
    return m.group(1) if m else "?"


def corpus_scripts(ops):
    out = []
    d = V + "/corpus"
    for f in sorted(os.listdir(d)):
        if f.endswith(".txt"):
            for line in open(os.path.join(d, f)):
                line = line.strip()
                if line and not line.startswith("#") and header_op(line) in ops:
                    out.append(line)
    return out


def gen_scripts(ops, seed, count):
    r = sh([DRIVER, "gen", str(seed), str(count)] + list(ops), timeout=1800)
    if r.returncode != 0:
        raise Fail("script generation failed: " + r.stderr[-2000:])
    return [l for l in r.stdout.splitlines() if l.strip()]


ENUM_HEADERS = {
    "map": ["op=map a=2 b=1 env=std subs=1"],
    "filter": ["op=filter m=2 r=0 env=std subs=1", "op=filter m=2 r=1 env=std subs=1"],
    "scan": ["op=scan k=0 seed=1 env=std subs=1"],
    "take": ["op=take n=1 env=std subs=1", "op=take n=2 env=std subs=1", "op=take n=3 env=std subs=1"],
    "skip": ["op=skip n=0 env=std subs=1", "op=skip n=1 env=std subs=1", "op=skip n=2 env=std subs=1"],
    "from_iter": ["op=from_iter xs=4,5 inf=- env=std subs=1", "op=from_iter xs=- inf=- env=std subs=1",
                  "op=from_iter xs=4 inf=7 env=std subs=1"],
    "for_each": ["op=for_each env=std subs=1"],
    "merge": ["op=merge n=2 env=std subs=1", "op=merge n=1 env=std subs=1", "op=merge n=3 env=std subs=1"],
    "concat": ["op=concat n=2 env=std subs=1", "op=concat n=1 env=std subs=1", "op=concat n=3 env=std subs=1",
               "op=concat n=0 env=std subs=1"],
    "combine": ["op=combine n=2 env=std subs=1", "op=combine n=1 env=std subs=1", "op=combine n=3 env=std subs=1"],
    "flatten": ["op=flatten env=std subs=1"],
    "share": ["op=share sinks=2 env=std subs=1", "op=share sinks=3 env=std subs=1"],
    "interval": ["op=interval env=std subs=1"],
}
# the pull regime (C14): the same components under pullable upstreams / one Pull per message
ENUM_HEADERS_PULL = {
    "map": ["op=map a=2 b=1 env=pull subs=1"],
    "filter": ["op=filter m=2 r=0 env=pull subs=1"],
    "scan": ["op=scan k=0 seed=1 env=pull subs=1"],
    "take": ["op=take n=1 env=pull subs=1", "op=take n=2 env=pull subs=1"],
    "skip": ["op=skip n=1 env=pull subs=1"],
    "from_iter": ["op=from_iter xs=4,5 inf=- env=pull subs=1"],
    "concat": ["op=concat n=2 env=pull subs=1", "op=concat n=3 env=pull subs=1"],
    "flatten": ["op=flatten env=pull subs=1"],
}


def changed_ops():
    """components whose source differs from the pinned tree (coq/SOURCE_FINGERPRINTS.json): they get a deeper
    search.  A change of core.rs / utils / lib.rs concerns every component.  Never an alarm by itself."""
    import fingerprint
    ch = fingerprint.changed_files(REPO)
    if ch is None:
        return set(), []
    ops = set()
    for f in ch:
        base = os.path.basename(f)[:-3]
        if base in ALL_SRC + ["for_each"]:
            ops.add(base)
        elif base != "verif_hooks":
            ops.update(ALL_SRC + ["for_each"])
    return ops, ch


def enum_scripts(ops, depth, deeper=(), pull=False):
    out = []
    for op in ops:
        for h in (ENUM_HEADERS_PULL if pull else ENUM_HEADERS).get(op, []):
            r = sh([DRIVER, "enum", str(depth + (2 if op in deeper else 0))] + h.split(), timeout=1800)
            if r.returncode != 0:
                raise Fail("enumeration failed: " + r.stderr[-2000:])
            out += [l for l in r.stdout.splitlines() if l.strip()]
    return out


def run_model(scripts):
    """model traces; linear operator trees (chain=1) run as nets of component models (NetDriver.v)"""
    chain_ix = [k for k, sc in enumerate(scripts) if "chain=1" in sc]
    plain_ix = [k for k, sc in enumerate(scripts) if "chain=1" not in sc]
    res = [None] * len(scripts)
    for ix, cmd in ((plain_ix, "run"), (chain_ix, "chainrun")):
        if not ix:
            continue
        r = sh([DRIVER, cmd], inp="\n".join(scripts[k] for k in ix) + "\n", timeout=3600)
        if r.returncode != 0:
            raise Fail("model run failed: " + r.stderr[-2000:])
        lines = r.stdout.splitlines()
        if len(lines) != len(ix):
            raise Fail("model printed %d traces for %d scripts" % (len(lines), len(ix)))
        for k, line in zip(ix, lines):
            tr, _, vs = line.partition(" || ")
            res[k] = (tr.strip(), vs.split())
    return res


def run_real(scripts, variant="plain", mode="seq"):
    r = sh([BIN + "/cbharness-" + variant, mode], inp="\n".join(scripts) + "\n", timeout=3600)
    if r.returncode != 0:
        raise Fail("harness run failed (%s): exit %d %s" % (variant, r.returncode, r.stderr[-2000:]))
    res = [l.strip() for l in r.stdout.split("\n")]
    if res and res[-1] == "":
        res = res[:-1]
    if len(res) != len(scripts):
        raise Fail("harness printed %d traces for %d scripts" % (len(res), len(scripts)))
    return res


def monitor(scripts, traces):
    """extracted Coq monitors over recorded traces -> list of (violations, classes)"""
    lines = []
    for s, t in zip(scripts, traces):
        h = s.split("|")[0]
        lines.append("%s | %s" % (h.strip(), t))
    r = sh([DRIVER, "mon"], inp="\n".join(lines) + "\n", timeout=3600)
    if r.returncode != 0:
        raise Fail("monitor run failed: " + r.stderr[-2000:])
    res = []
    for line in r.stdout.split("\n")[:len(lines)]:
        vs, _, cl = line.partition("##")
        res.append((vs.split(), cl.split()))
    return res


def parallel_map(fn, chunks):
    from concurrent.futures import ThreadPoolExecutor
    with ThreadPoolExecutor(max_workers=16) as ex:
        return list(ex.map(fn, chunks))


def chunked(l, n):
    k = max(1, (len(l) + n - 1) // n)
    return [l[i:i + k] for i in range(0, len(l), k)] or [[]]


def run_all(scripts, variant="plain"):
    """model traces, real traces, monitor results on the real traces (sharded over 16 cores)"""
    # balanced shards (the model's cost grows faster than linearly with the length of a script, and the long
    # histories of the corpus come first): longest scripts first, each to the lightest shard; results are put
    # back in the order of `scripts`
    nsh = 16
    bins, load = [[] for _ in range(nsh)], [0] * nsh
    for i in sorted(range(len(scripts)), key=lambda i: -len(scripts[i])):
        b = load.index(min(load))
        bins[b].append(i)
        load[b] += len(scripts[i]) ** 2
    chunks = [[scripts[i] for i in b] for b in bins]

    def work(ch):
        if not ch:
            return [], [], []
        m = run_model(ch)
        r = run_real(ch, variant)
        mon = monitor(ch, r)
        return m, r, mon
    parts = parallel_map(work, chunks)
    model, real, mon = [None] * len(scripts), [None] * len(scripts), [None] * len(scripts)
    for b, (m, r, mo) in zip(bins, parts):
        for i, a, c, d in zip(b, m, r, mo):
            model[i], real[i], mon[i] = a, c, d
    return model, real, mon


# ------------------------------------------------------------------ known findings

def load_known():
    p = V + "/known_findings.json"
    if os.path.exists(p):
        return json.load(open(p))
    return {"findings": [], "fixed": []}


def kind_of(tok):
    """'C04:PullAfterEnd:1' or '0:C04:PullAfterEnd:1' -> ('C04', 'C04:PullAfterEnd')"""
    parts = tok.split(":")
    if parts[0].isdigit():
        parts = parts[1:]
    return parts[0], ":".join(parts[:2])


def matches(tok, kinds):
    """kinds holds property ids ('C05') and/or single kinds of another property ('C04:Orphan')"""
    a, b = kind_of(tok)
    return a in kinds or b in kinds


def suppressed_by(known, op, tok, classes):
    _, kind = kind_of(tok)
    for f in known["findings"]:
        if f["op"] == op and kind in f["kinds"] and (f["class"] == "*" or f["class"] in classes):
            return f
    return None


# ------------------------------------------------------------------ shrinking and replay

SKIP_CLASSES = []


def conformant(script):
    """every move enabled in the model's conformant environment (trees and late=1 scripts are exempt)"""
    if "op=tree" in script or "late=1" in script:
        return True
    r = sh([DRIVER, "conf"], inp=script + "\n", timeout=600)
    return r.returncode == 0 and r.stdout.strip() == "1"


def violates(script, variant, prop_kinds, known, need_conf=False):
    if need_conf and not conformant(script):
        return [], ""
    tr = run_real([script], variant)[0]
    (vs, cl), = monitor([script], [tr])
    op = header_op(script)
    if any(k in cl for k in SKIP_CLASSES):
        return [], tr
    bad = [v for v in vs if matches(v, prop_kinds) and not suppressed_by(known, op, v, cl)]
    return bad, tr


def shrink(script, variant, prop_kinds, known, budget=150):
    h, _, ms = script.partition("|")
    moves = ms.split()
    bad, tr = violates(script, variant, prop_kinds, known)
    if not bad:
        return script, bad, tr
    # candidates must stay conformant if the original is (a replay is a history the property quantifies over)
    nc = conformant(script)
    i = 0
    tries = 0
    # first cut the tail after the violation cannot matter: drop from the end
    while len(moves) > 1 and tries < budget:
        cand = moves[:-1]
        s2 = "%s| %s" % (h, " ".join(cand))
        b2, t2 = violates(s2, variant, prop_kinds, known, nc)
        tries += 1
        if b2:
            moves, bad, tr = cand, b2, t2
        else:
            break
    while i < len(moves) and tries < budget:
        cand = moves[:i] + moves[i + 1:]
        s2 = "%s| %s" % (h, " ".join(cand))
        b2, t2 = violates(s2, variant, prop_kinds, known, nc)
        tries += 1
        if b2:
            moves, bad, tr = cand, b2, t2
        else:
            i += 1
    return "%s| %s" % (h, " ".join(moves)), bad, tr


def extend_search(mism, variant, prop_kinds, known, budget=400, depth=4):
    """model and crate disagree on these scripts but no monitor of the property rejected a crate trace.  The
    model's environment is no guide after the divergence, so continue each history ON THE CRATE, choosing the
    next move among those that are conformant in the state the crate's OWN trace leaves (TraceEnv.v,
    `driver extend`), breadth first, until a monitor of the property rejects (or the budget is spent)."""
    tried = 0
    frontier = [s for s, _, _ in mism[:12] if "subs=2" not in s and "op=tree" not in s and "late=1" not in s]
    for _ in range(depth):
        nxt = []
        if not frontier:
            break
        traces = run_real(frontier, variant)
        r = sh([DRIVER, "extend"], inp="\n".join("%s | %s" % (s.split("|")[0].strip(), t)
                                                 for s, t in zip(frontier, traces)) + "\n", timeout=600)
        cands = r.stdout.split("\n")[:len(frontier)]
        batch = []
        for s, cl in zip(frontier, cands):
            for mv in cl.split():
                batch.append(s.rstrip() + " " + mv)
        batch = batch[:max(0, budget - tried)]
        if not batch:
            break
        tried += len(batch)
        tr2 = run_real(batch, variant)
        mon2 = monitor(batch, tr2)
        conf = sh([DRIVER, "tconf"], inp="\n".join("%s | %s" % (s.split("|")[0].strip(), t)
                                                  for s, t in zip(batch, tr2)) + "\n", timeout=600).stdout.split("\n")
        for s, t, (vs, cl), cf in zip(batch, tr2, mon2, conf):
            if cf.strip() != "1" or any(k in cl for k in SKIP_CLASSES):
                continue
            bad = [v for v in vs if matches(v, prop_kinds) and not suppressed_by(known, header_op(s), v, cl)]
            if bad:
                return s, bad, t, tried
            nxt.append(s)
        frontier = nxt[:60]
    return None, [], "", tried


def write_replay(prop, payload):
    os.makedirs(V + "/replays", exist_ok=True)
    blob = json.dumps(payload, sort_keys=True, indent=1)
    name = "%s-%s.json" % (prop, hashlib.sha1(blob.encode()).hexdigest()[:10])
    path = V + "/replays/" + name
    open(path, "w").write(blob + "\n")
    return path


# ------------------------------------------------------------------ evidence

TRUSTED_BASE = [
    "Coq 8.16.1 kernel (coqc; vm_compute for computed Examples; no native_compute); coqchk -o in the thorough tier",
    "hand-written Gallina model of each operator (coq/theories/Ops.v) - tied to /repo only by the correspondence check",
    "machine semantics and conformant-environment relation (coq/theories/Machine.v)",
    "net semantics of wired components (coq/theories/Chain.v, Tree.v: which node runs when a wired call is made) - tied to "
    "/repo by running random operator trees as nets of the component models and on the crate",
    "extraction with ExtrOcamlBasic only (no Extract Constant), OCaml 4.13.1, driver/main.ml (parsing/printing, candidate moves)",
    "Rust harness harness/src/*.rs (puppets, recording sinks, virtual clock, canonical trace printer)",
    "user closures are pure; peers follow the conformant environment of DESIGN.md section 3.3",
]


def nontrivial(trace):
    """a trace is non-trivial if it has a re-entrant input (an input while a call is pending)
    or a terminal message in either direction"""
    depth = 0
    for t in trace.split():
        t = re.sub(r"^\d:", "", t)
        if t.startswith("<"):
            depth += 1
            if t.endswith(":T") or ":E" in t:
                return True
        elif t == "ret":
            depth -= 1
        elif t.startswith(">"):
            if depth > 0:
                return True
            if t[1] in "TEte":
                return True
    return False


def write_evidence(prop, tier, seed, t0, cov, violations, level="proof", assumptions=None):
    os.makedirs(V + "/evidence", exist_ok=True)
    if level == "translation_validation":
        cov.setdefault("programs", cov.get("evaluations", 0))
        cov.setdefault("disagreements_checked", cov.get("evaluations", 0))
    ev = {
        "property_id": prop,
        "tier": tier,
        "seed": seed,
        "level": level,
        "coverage": cov,
        "assumptions": assumptions or [],
        "wall_s": round(time.time() - t0, 2),
        "violations": violations,
    }
    open("%s/evidence/%s.json" % (V, prop), "w").write(json.dumps(ev, indent=1) + "\n")


# ------------------------------------------------------------------ the generic sequential check

def seq_check(prop, tier, seed, t0, spec=None):
    spec = spec or PROPS[prop]
    ops = spec["ops"]
    kinds = spec["kinds"]
    variant = spec.get("variant", "plain")
    known = load_known()
    global SKIP_CLASSES
    SKIP_CLASSES = spec.get("skip_classes", [])
    build(spec.get("builds", (variant,)))
    audit = coq_audit(spec.get("thms", prop))
    n_rand = spec.get("n_rand", 16000 if tier == "quick" else 300000)
    depth = spec.get("depth", 8 if tier == "quick" else 11)
    scripts = corpus_scripts(ops)
    n_corpus = len(scripts)
    hot, changed = changed_ops()
    hot = sorted(o for o in hot if o in ops)
    en = enum_scripts(ops, depth, hot)
    if "env=pull" in spec.get("gen_extra", []):
        en += enum_scripts(ops, depth, hot, pull=True)
    scripts += en
    scripts += gen_scripts(list(spec.get("gen_ops", ops)) + spec.get("gen_extra", []), seed, n_rand)
    if hot:
        # the source of these components differs from the pinned tree: look harder exactly there
        scripts += gen_scripts(hot + spec.get("gen_extra", []), seed + 11, n_rand * (2 if tier == "quick" else 1))
    # a stream with "late" peer moves (talkbacks/handlers used after the protocol is over): model and crate
    # must still agree; no monitor verdicts on these (the environment is not conformant)
    scripts += gen_scripts(list(spec.get("gen_ops", ops)) + ["late=1"], seed + 1, n_rand // 4)
    # closed compositions of crate operators over from_iter leaves, scripted sink: no model, the sink-side
    # protocol monitor only ("programs" in the quantifiers of C01-C03, C14, C17)
    n_tree = 0
    if spec.get("trees"):
        rt = sh([DRIVER, "gentree", str(seed + 3), str(n_rand // 4)] + (["pull"] if spec["trees"] == "pull" else []))
        tl = [l for l in rt.stdout.splitlines() if l.strip()]
        tl = corpus_scripts(["tree"]) + tl
        if spec["trees"] == "std":
            # linear pipelines: these have a model - the net of component models of Chain.v / NetDriver.v
            rc = sh([DRIVER, "genchain", str(seed + 5), str(n_rand // 4)])
            tl += [l for l in rc.stdout.splitlines() if l.strip()]
        n_tree = len(tl)
        scripts += tl
    extra = spec.get("extra_scripts")
    if extra:
        scripts += extra(tier, seed)
    model, real, mon = run_all(scripts, variant)
    extra_viols = []
    extra_cov = {}
    if spec.get("extra_check"):
        extra_viols, extra_cov = spec["extra_check"](spec, scripts, real, variant, tier)
    sv, scov = stretch_probe(ops, kinds, variant, tier)
    wv, wcov = width_audit(ops)
    extra_viols = list(extra_viols) + sv + wv
    extra_cov = dict(extra_cov, **scov, **wcov)

    mismatches = []
    viol_scripts = []
    known_hits = {}
    distinct = set()
    hist_ops = {}
    max_depth = 0
    for s, (mt, _mv), rt, (vs, cl) in zip(scripts, model, real, mon):
        op = header_op(s)
        hist_ops[op] = hist_ops.get(op, 0) + 1
        if nontrivial(rt):
            distinct.add(op + "|" + rt)
        if mt != rt and (op != "tree" or "chain=1" in s):
            mismatches.append((s, mt, rt))
        if any(k in cl for k in spec.get("skip_classes", [])) or "late=1" in s \
                or any(hh in s for hh in spec.get("skip_headers", [])):
            continue   # outside the quantifier of this property
        for v in vs:
            if matches(v, kinds):
                f = suppressed_by(known, op, v, cl)
                if f and prop in f["properties"]:
                    known_hits.setdefault(f["id"], (f, s))
                elif f:
                    known_hits.setdefault(f["id"], (f, s))
                else:
                    viol_scripts.append((s, v))

    out_lines = []
    status = 0
    nviol = 0
    # 1. concrete violations of this property on the real crate
    reported = set()
    for s, v in viol_scripts:
        k = (header_op(s), kind_of(v)[1])
        if k in reported:
            continue
        reported.add(k)
        small, bad, tr = shrink(s, variant, kinds, known)
        path = write_replay(prop, dict(kind="failing-history", property=prop, script=small,
                                       violations=bad, trace_on_crate=tr, variant=variant,
                                       seed=seed, original_script=s))
        out_lines.append("VIOLATION property=%s replay=%s" % (prop, path))
        status = 1
        nviol += 1
    for s, tok, payload in extra_viols[:3]:
        path = write_replay(prop, dict(kind="failing-history", property=prop, script=s, violations=[tok],
                                       variant=variant, seed=seed, detail=payload))
        out_lines.append("VIOLATION property=%s replay=%s%s"
                         % (prop, path, " no-failing-input-found" if tok.endswith(":nfi") else ""))
        status = 1
        nviol += 1
    # 2. broken obligations without a failing input
    crate_search = None
    if not viol_scripts and not extra_viols and mismatches:
        fs, fbad, ftr, ntried = extend_search(mismatches, variant, kinds, known)
        crate_search = dict(histories_tried_on_the_crate=ntried, found=bool(fs))
        if fs:
            path = write_replay(prop, dict(kind="failing-history", property=prop, script=fs, violations=fbad,
                                           trace_on_crate=ftr, variant=variant, seed=seed,
                                           how="found by continuing a history on which model and crate disagree ON THE "
                                               "CRATE, with moves that are conformant in the state the crate's own "
                                               "trace leaves (TraceEnv.v); the script is conformant w.r.t. the crate's "
                                               "trace, not w.r.t. the model's run"))
            out_lines.append("VIOLATION property=%s replay=%s" % (prop, path))
            status = 1
            nviol += 1
    if not viol_scripts and not extra_viols and not (crate_search and crate_search["found"]):
        if mismatches:
            s, mt, rt = mismatches[0]
            a, b = mt.split(), rt.split()
            k = 0
            while k < min(len(a), len(b)) and a[k] == b[k]:
                k += 1
            path = write_replay(prop, dict(
                kind="correspondence-broken", property=prop,
                what="model (coq/theories/Ops.v, op %s) and crate disagree; the theorems of %s about this "
                     "component no longer speak about the code" % (header_op(s), prop),
                script=s, first_difference_at_event=k,
                model_event=a[k] if k < len(a) else None, crate_event=b[k] if k < len(b) else None,
                model_trace=mt, crate_trace=rt, mismatching_scripts=len(mismatches), seed=seed))
            out_lines.append("VIOLATION property=%s replay=%s no-failing-input-found" % (prop, path))
            status = 1
            nviol += 1
        elif audit["problems"]:
            path = write_replay(prop, dict(kind="proof-broken", property=prop, problems=audit["problems"]))
            out_lines.append("VIOLATION property=%s replay=%s no-failing-input-found" % (prop, path))
            status = 1
            nviol += 1
    # 3. known findings: each listed finding of this property must still reproduce
    for f in known["findings"]:
        if prop in f["properties"] and f["op"] in ops:
            out_lines.append("KNOWN-FINDING: property=%s %s" % (prop, f["what"]))

    cov = dict(
        obligations=max(1, audit["obligations"]),
        discharged=audit["discharged"] if audit["obligations"] else 0,
        checker_cmd="coqc -Q coq/theories CB coq/theories/Properties/%s.v (after make -C coq)" % spec.get("thms", prop),
        trusted_base=TRUSTED_BASE,
        theorems=audit["theorems"],
        axioms=audit["axioms"],
        coqchk_axioms=audit.get("coqchk_axioms"),
        audit_problems=audit["problems"],
        evaluations=len(scripts),
        distinct_nontrivial=len(distinct),
        rule="scripts = committed corpus (%d) + every conformant script of <= %d environment moves for one "
             "configuration per component (%d) + random conformant walks from VERIF_SEED (%d); each is run on "
             "the extracted Coq model and on the real crate and the two traces must be equal event by event; "
             "a trace counts as non-trivial if it has a re-entrant input or a terminal message, distinct by "
             "(component, canonical trace of the crate)" % (n_corpus, depth, len(en), n_rand),
        traces_validated_against_impl=len(scripts) - len(mismatches),
        correspondence_mismatches=len(mismatches),
        scripts_per_component=hist_ops,
        closed_compositions_run=n_tree,
        source_files_differing_from_pinned_tree=changed,
        components_searched_deeper=hot,
        known_findings_seen=sorted(known_hits.keys()),
        **extra_cov,
        samples=[dict(script=s, crate_trace=r) for s, r in list(zip(scripts, real))[n_corpus:n_corpus + 2] +
                 list(zip(scripts, real))[-2:]],
    )
    write_evidence(prop, tier, seed, t0, cov, nviol, level=spec.get("level", "proof"),
                   assumptions=["conformant peers (local reaction); see DESIGN.md 3.3", "pure user closures"])
    for l in out_lines:
        print(l)
    return status


def replay(prop, path):
    payload = json.load(open(path))
    known = load_known()
    spec = PROPS.get(prop, {})
    variant = payload.get("variant", "plain")
    build((variant,))
    if "pipeline" in payload and "script" not in payload:
        return replay_pipeline(prop, path, payload)
    s = payload["script"]
    if " alias=1" in s:
        # one sink object attached several times: its record against the distinct-sink run with the ids erased
        plain = s.replace(" alias=1", "")
        a = re.sub(r"<dn\d+:", "<dnX:", run_real([plain], variant)[0]).strip()
        b = run_real([s], variant)[0].strip()
        print("script                        :", s)
        print("distinct sinks, ids erased    :", a)
        print("one sink object, several times:", b)
        if a != b:
            print("VIOLATION property=%s replay=%s" % (prop, path))
            return 1
        return 0
    m = run_model([s])[0]
    r = run_real([s], variant)[0]
    (vs, cl), = monitor([s], [r])
    print("script      :", s)
    print("model trace :", m[0])
    print("crate trace :", r)
    print("violations  :", " ".join(vs) or "-")
    bad = [v for v in vs if matches(v, spec.get("kinds", [prop]))
           and not suppressed_by(known, header_op(s), v, cl)]
    if header_op(s) in ("map", "filter", "scan") and prop in ("C07", "C13"):
        # the harness's own oracles about user closures: one call per datum received (C07), one copy per subscription (C13)
        t = sh([BIN + "/cbharness-" + variant, "seq"], inp=s + "\n", env={"CB_EVALS": "1"}).stdout.strip()
        ev, sc = re.search(r"evals:(\d+)", t), re.search(r"shared_copies:(\d+)", t)
        want = len(re.findall(r"(?:^|[ :])>d0/", t))
        print("closures    : %s calls for %d data received, %s copies shared between subscriptions"
              % (ev.group(1) if ev else "?", want, sc.group(1) if sc else "?"))
        if prop == "C07" and (not ev or int(ev.group(1)) != want):
            bad.append("C07:ClosureCalls")
        if prop == "C13" and (not sc or int(sc.group(1)) != 0):
            bad.append("C13:SharedClosureCopy")
    if bad or m[0] != r:
        print("VIOLATION property=%s replay=%s" % (prop, path))
        return 1
    return 0


def replay_pipeline(prop, path, payload):
    """a closed pipeline (or operator tree) replay: run it on the crate again and compare with the recorded expectation
    (values given to f, completion; Iterator::next counts too when the expectation came from the interpreter directly)"""
    pl = payload["pipeline"]
    exp = payload.get("expected_from_list_function", "")
    if pl.startswith("op=tree"):
        got = run_real([pl], "plain")[0]
        want = run_model([pl])[0][0]
        print("tree     :", pl)
        print("expected :", want)
        print("crate    :", got)
        differs = want != got
    else:
        h = sh([BIN + "/cbharness-plain", "pipe"], inp=pl + "\n", timeout=600)
        got = (h.stdout.splitlines() or ["(no output: the crate did not finish)"])[0].strip()
        surrogate = ": " in exp.split("F:")[0]
        want = exp[exp.index("F:"):] if "F:" in exp else exp
        if exp.startswith("net of component models run to rest"):
            surrogate = False
            m = sh([DRIVER, "netpipe"], inp=pl + "\n")
            want = (m.stdout.splitlines() or [want])[0].strip()
        elif not surrogate:
            m = sh([DRIVER, "pipe"], inp=pl + "\n")
            want = (m.stdout.splitlines() or [want])[0].strip()
        strip = (lambda t: re.sub(r" nexts=\d+", "", t)) if surrogate else (lambda t: t)
        print("pipeline :", pl)
        print("expected :", want)
        print("crate    :", got)
        differs = strip(want) != strip(got)
    if differs:
        print("VIOLATION property=%s replay=%s" % (prop, path))
        return 1
    return 0


BIG = ["18446744073709551615", "18446744073709551614", "9223372036854775808", "9223372036854775807", "4294967296"]


WIDTH_RE = re.compile(r"Atomic(U8|U16|U32|I8|I16|I32)\b|\bas\s+(u8|u16|u32|i8|i16|i32)\b|\b(u8|u16|u32|i8|i16|i32)::")


def width_audit(ops):
    """A premise of the model, checked on the source: the counters of the operators are `usize` (the model counts in
    unbounded naturals; a `usize` counter needs 2^64 events to wrap, a narrower one can be reached - seeded z07 needs
    2^32 data, beyond any history that is run).  No atomic integer narrower than 64 bits, no cast or conversion to such
    a type may appear in the source file of a component the property is anchored in (arithmetic on `usize` itself -
    `wrapping_add` included - is what `fetch_add` does anyway and is not flagged)."""
    hits = []
    for op in sorted(set(ops)):
        path = "%s/src/%s.rs" % (REPO, op)
        if not os.path.exists(path):
            continue
        for n, line in enumerate(open(path), 1):
            code = line.split("//")[0]
            if WIDTH_RE.search(code):
                hits.append(("op=%s (source audit)" % op, "integer-width:nfi",
                             dict(what="the model counts in unbounded naturals; this line narrows a number to fewer than 64 bits, "
                                       " so the theorems about this component no longer speak about the code",
                                  file="src/%s.rs" % op, line=n, text=line.strip())))
                break
    return hits, dict(integer_width_audit=dict(files=len(set(ops)), narrowing_sites=len(hits)))


def _groups(trace):
    """the crate's trace, one group of tokens per script move (a move's own token starts with '>')"""
    gs = []
    for tok in trace.split():
        if tok.startswith(">") or not gs:
            gs.append([tok])
        else:
            gs[-1].append(tok)
    return gs


def _period(tokens):
    """the longest region of the token list that repeats with some period p: (start, p, cycles)"""
    best = None
    n = len(tokens)
    for p in range(2, 61):
        i = 0
        while i + 2 * p <= n:
            if tokens[i:i + p] == tokens[i + p:i + 2 * p]:
                j = i
                while j + 2 * p <= n and tokens[j:j + p] == tokens[j + p:j + 2 * p]:
                    j += p
                cycles = (j - i) // p + 1
                if cycles >= 4 and (best is None or cycles * p > best[2] * best[1]):
                    best = (i, p, cycles)
                i = j + p
            else:
                i += 1
    return best


STRETCH_EXTRA = [
    # flatten switching to a new inner every round (the same inner value emitted again each time)
    "op=flatten env=std subs=1 | S0 h0 r r " + "d0/1 h2 r r t2 r " * 6 + "d0/1 h2 r r t0 r d2/7 r d2/8 r t2 r",
    # a share sink that comes and goes
    "op=share sinks=2 env=std subs=1 | S0 h0 r r " + "S1 r d0/1 r r T1 r " * 6 + "d0/2 r t0 r",
]


def stretch_probe(ops, kinds, variant, tier):
    """Histories far longer than the model can be run on (its numbers are unary): a periodic history of the long
    corpus is stretched to about 70 000 (thorough: 400 000) repetitions of its period and run on the crate.  The
    models are stationary (no component counts without bound, take/skip aside, whose counts are chosen beyond the
    length), so every repetition after the first must produce the tokens of the second one and the end of the history the tokens of
    the unstretched run (which IS compared with the model).  A difference is a counter that wraps (2^8, 2^16) or a
    structure that degrades; the extracted monitors then judge the condensed trace (first period, the deviating
    period, the end)."""
    target = 70000 if tier == "quick" else 400000
    cands = [l.strip() for l in open(V + "/corpus/03_long.txt") if l.strip() and not l.startswith("#")] + STRETCH_EXTRA
    viols, ran, reps = [], 0, 0
    for line in cands:
        op = header_op(line)
        if op not in ops or op in ("scan", "interval", "from_iter"):
            continue    # their payloads count (accumulator, tick number) or the history is in the header
        hdr, _, body = line.partition("|")
        if op in ("take", "skip"):
            hdr = re.sub(r"n=\d+", "n=3" if op == "skip" else "n=%d" % (10 ** 12), hdr)
        toks = body.split()
        per = _period(toks)
        if not per:
            continue
        start, p, cycles = per
        prefix, cycle, suffix = toks[:start], toks[start:start + p], toks[start + cycles * p:]
        data_per_cycle = max(1, sum(1 for t in cycle if t[0] in "dkS"))
        short = "%s| %s" % (hdr, " ".join(prefix + cycle * 3 + suffix))
        rs = run_real([short], variant)[0]
        # the lengths: around the powers of two where a narrow counter wraps (counted in periods and in data), and long
        Ns = sorted(set(([max(8, target // data_per_cycle)] if tier != "quick" else []) +
                        [max(8, (w + d) // c) for w in (256, 65536) for d in (-1, 0, 1) for c in (1, data_per_cycle)]))
        # script moves ('r' included) map one to one onto groups only for moves that print a '>' token; count them
        def nmoves(ts):
            return sum(1 for t in ts if t != "r")
        longs = parallel_map(lambda N: run_real(["%s| %s" % (hdr, " ".join(prefix + cycle * N + suffix))], variant)[0], Ns)
        for N, rl in zip(Ns, longs):
            ran += 1
            reps += N
            gs = _groups(rs)
            a, m, z = nmoves(prefix), nmoves(cycle), nmoves(suffix)
            if len(gs) == a + m * 3 + z and gs[a + m:a + 2 * m] == gs[a + 2 * m:a + 3 * m]:
                # fast path: the stretched trace is the unstretched one with its period repeated (the first
                # repetition may differ: skip lets nothing through at first)
                flat = lambda g: " ".join(t for x in g for t in x)
                parts = [flat(gs[:a + 2 * m])] + [flat(gs[a + m:a + 2 * m])] * (N - 2) + ([flat(gs[a + 3 * m:])] if z else [])
                if " ".join(x for x in parts if x) == rl.strip():
                    continue
            gl = _groups(rl)
            if len(gl) != a + m * N + z or len(gs) != a + m * 3 + z:
                first_bad, what = 0, "the stretched history was not performed move by move"
            else:
                first_bad, what = None, None
                ref = gl[a + m:a + 2 * m]
                for k in range(2, N):
                    if gl[a + k * m:a + (k + 1) * m] != ref:
                        first_bad, what = k, "repetition %d of the period answers differently from repetition 1" % k
                        break
                if first_bad is None and gl[a + m * N:] != gs[a + m * 3:]:
                    first_bad, what = N, "the end of the history after %d repetitions differs from the end after 3" % N
                if first_bad is None and gl[:a + 2 * m] != gs[:a + 2 * m]:
                    first_bad, what = 0, "the beginning differs"
            if first_bad is None:
                continue
            # condensed history for the monitors: beginning, one regular period, the deviating period, the end
            k = min(first_bad, N - 1)
            cond_script = "%s| %s" % (hdr, " ".join(prefix + cycle * 3 + suffix))
            cond_groups = gl[:a + 2 * m] + gl[a + k * m:a + (k + 1) * m] + gl[a + m * N:]
            cond_trace = " ".join(t for g in cond_groups for t in g)
            try:
                vs, _ = monitor([cond_script], [cond_trace])[0]
            except Fail:
                vs = []
            bad = [v for v in vs if any(v.startswith(kd) for kd in kinds)]
            detail = dict(what=what, period=" ".join(cycle), repetitions=N, first_deviating_repetition=first_bad,
                          tokens_of_repetition_1=" ".join(t for g in gl[a + m:a + 2 * m] for t in g),
                          tokens_of_deviating_repetition=" ".join(t for g in gl[a + k * m:a + (k + 1) * m] for t in g),
                          end_after_stretch=" ".join(t for g in gl[a + m * N:] for t in g),
                          end_unstretched=" ".join(t for g in gs[a + m * 3:] for t in g),
                          monitors_on_condensed_trace=vs,
                          replay="prefix + period x repetitions + suffix on the crate: harness seq",
                          prefix=" ".join(prefix), suffix=" ".join(suffix), header=hdr.strip())
            viols.append(("%s| <%d repetitions of: %s>" % (hdr, N, " ".join(cycle)),
                          (bad[0] if bad else "long-history:nfi"), detail))
            break
    return viols, dict(long_history_probe=dict(histories=ran, period_repetitions_run_on_the_crate=reps))


def big_count_probe():
    """counts near the limits of usize (the model's counters are unbounded naturals and cannot be run there):
    take(N)/skip(N) with N far beyond the length of the input must behave like take(len+5)/skip(len+5); the
    expectation is computed by the Coq lazy interpreter on the surrogate count"""
    real_lines, model_lines = [], []
    for big in BIG:
        for xs, pre, post in (("1,2,3", "", ""), ("-", "", ""), ("4,5,6,7", "map:2:1;", ";filter:2:1"),
                              ("1,2,3,4,5", "", ";take:2")):
            for st in ("take", "skip"):
                real_lines.append("xs=%s inf=- stages=%s%s:%s%s" % (xs, pre, st, big, post))
                model_lines.append("xs=%s inf=- stages=%s%s:%d%s" % (xs, pre, st, 12, post))
    m = sh([DRIVER, "pipe"], inp="\n".join(model_lines) + "\n")
    h = sh([BIN + "/cbharness-plain", "pipe"], inp="\n".join(real_lines) + "\n", timeout=600)
    if m.returncode != 0 or h.returncode != 0:
        raise Fail("big-count probe failed to run: " + (m.stderr + h.stderr)[-500:])
    bad = [(r, a.strip(), b.strip()) for r, a, b in zip(real_lines, m.stdout.splitlines(), h.stdout.splitlines())
           if a.strip() != b.strip()]
    return bad, len(real_lines)


def shared_source_probe(seed, count=150):
    """one source value subscribed more than once: concat!(s, .., s) where s is the pipeline so far (the same Arc).
    Every subscription of a callbag source is independent, so the program computes l ++ .. ++ l for l = the list
    function of s; the expectation is assembled from two runs of the Coq lazy interpreter (s alone, then the rest of
    the pipeline over the concatenation).  Iterator::next counts are not compared here."""
    rnd = random.Random(seed * 7919 + 13)

    def stage():
        k = rnd.randrange(5)
        return ["map:%d:%d" % (rnd.randrange(1, 4), rnd.randrange(3)), "filter:%d:%d" % (rnd.randrange(2, 4), rnd.randrange(2)),
                "scan:%d:%d" % (rnd.randrange(3), rnd.randrange(3)), "take:%d" % rnd.randrange(1, 5),
                "skip:%d" % rnd.randrange(1, 4)][k]

    def vals(line, tag):
        part = line.split("|")[0 if tag == "F" else 1]
        return [w[5:] for w in part.split() if w.startswith("user:")], ("done=1" in part)
    cases = []
    for _ in range(count):
        xs = [str(rnd.randrange(10)) for _ in range(rnd.randrange(0, 6))]
        pre = [stage() for _ in range(rnd.randrange(0, 3))]
        post = [stage() for _ in range(rnd.randrange(0, 3))]
        members = []
        for _ in range(rnd.randrange(2, 5)):
            members.append("_" if rnd.randrange(3) else ",".join(str(rnd.randrange(10)) for _ in range(rnd.randrange(0, 3))) or "-")
        if members.count("_") < 2:
            members += ["_", "_"]
        cases.append((xs, pre, members, post))
    fmt = lambda xs, st: "xs=%s inf=- stages=%s" % (",".join(xs) if xs else "-", ";".join(st) if st else "-")
    m1 = sh([DRIVER, "pipe"], inp="\n".join(fmt(xs, pre) for xs, pre, _, _ in cases) + "\n")
    if m1.returncode != 0:
        raise Fail("shared-source probe (model, first half) failed: " + m1.stderr[-500:])
    second, real_lines = [], []
    for (xs, pre, members, post), l in zip(cases, m1.stdout.splitlines()):
        inner, _ = vals(l, "P")
        joined = []
        for m in members:
            joined += inner if m == "_" else ([] if m == "-" else m.split(","))
        second.append(fmt(joined, post))
        real_lines.append(fmt(xs, pre + ["cat:" + "/".join(members)] + post))
    m2 = sh([DRIVER, "pipe"], inp="\n".join(second) + "\n")
    h = sh([BIN + "/cbharness-plain", "pipe"], inp="\n".join(real_lines) + "\n", timeout=600)
    if m2.returncode != 0 or h.returncode != 0:
        raise Fail("shared-source probe failed to run: " + (m2.stderr + h.stderr)[-500:])
    hl = h.stdout.splitlines()
    bad = []
    for i, (r, a) in enumerate(zip(real_lines, m2.stdout.splitlines())):
        b = hl[i] if i < len(hl) else "(no output: the crate did not finish)"
        if "|" not in b or vals(a, "F") != vals(b, "F") or vals(a, "P") != vals(b, "P"):
            bad.append((r, a.strip(), b.strip()))
    return bad, len(real_lines)


def eval_count_probe(scripts):
    """map's f, filter's predicate and scan's reducer are user code: each must be called exactly once per datum
    the operator receives (a closure with interior state - distinct-until-changed, every k-th - sees every extra
    call).  The harness counts the calls (CB_EVALS); the expectation is the number of Data inputs in the trace."""
    mine = [s for s in scripts if header_op(s) in ("map", "filter", "scan")]
    out = []
    for part in parallel_map(
            lambda ch: [l.strip() for l in sh([BIN + "/cbharness-plain", "seq"], inp="\n".join(ch) + "\n",
                                              env={"CB_EVALS": "1"}).stdout.split("\n")][:len(ch)] if ch else [],
            chunked(mine, 16)):
        out += part
    bad = []
    for s, t in zip(mine, out):
        m = re.search(r"evals:(\d+)", t)
        want = len(re.findall(r"(?:^|[ :])>d0/", t))
        if not m or int(m.group(1)) != want:
            bad.append((s, want, m.group(1) if m else "?", t))
    return bad, len(mine)


def c07_extra(spec, scripts, real, variant, tier):
    bad, n = big_count_probe()
    viols = [(p_, "C07:BigCount", dict(pipeline=p_, expected_from_list_function=a, observed_on_crate=b))
             for p_, a, b in bad[:3]]
    ebad, ne = eval_count_probe(scripts)
    viols += [(s_, "C07:ClosureCalls", dict(script=s_, data_received=w_, closure_calls=g_, crate_trace=t_))
              for s_, w_, g_, t_ in ebad[:3]]
    return viols, dict(big_count_pipelines=n, big_count_failures=len(bad),
                       closure_call_scripts=ne, closure_call_mismatches=len(ebad))


PROPS["C07"]["extra_check"] = c07_extra


def c12_extra(spec, scripts, real, variant, tier):
    """the SAME sink object attached several times to a shared source: share must count every attachment (and take
    one of them away per detach).  Every share script is run again on the crate with all its sink ids being one
    `Arc` (header alias=1); the object cannot tell its attachments apart, so its record is compared with the model's
    trace (distinct sinks) with the sink ids erased."""
    mine = [s for s in scripts if header_op(s) == "share" and "subs=1" in s and "late=1" not in s]
    alias = [s.replace(" |", " alias=1 |", 1) for s in mine]
    got = []
    for part in parallel_map(lambda ch: run_real(ch, variant) if ch else [], chunked(alias, 16)):
        got += part
    want = {}
    for s_, r_ in zip(scripts, real):
        want[s_] = r_
    viols, nbad = [], 0
    erase = lambda t: re.sub(r"<dn\d+:", "<dnX:", t)
    for s_, a_, g_ in zip(mine, alias, got):
        if erase(want[s_]) != g_.strip():
            nbad += 1
            if nbad <= 3:
                viols.append((a_, "C12:SameSinkTwice", dict(script=a_, crate_trace_one_sink_object=g_,
                              crate_trace_distinct_sinks_ids_erased=erase(want[s_]))))
    return viols, dict(same_sink_object_scripts=len(mine), same_sink_object_mismatches=nbad)


PROPS["C12"]["extra_check"] = c12_extra


STATIC_PIPES = [
    "xs=1,2,3 inf=- stages=map:2:1 static=1",
    "xs=- inf=- stages=map:2:1 static=1",
    "xs=1,2,3,4,6,8 inf=- stages=filter:2:0;map:1:3;take:2 static=2",
    "xs=1,3,5 inf=- stages=filter:2:0;map:1:3;take:2 static=2",
    "xs=5,1,2,3 inf=- stages=skip:1;scan:0:0;map:3:0 static=3",
    "xs=5 inf=- stages=skip:1;scan:0:0;map:3:0 static=3",
]


def c06_check(prop, tier, seed, t0):
    """closed pull pipelines: the real crate against the lazy pull interpreter of coq/theories/Pipe.v
    (proved equal to the list function `sem` in PipeCorrect.v)"""
    build(("plain",))
    audit = coq_audit("C06")
    n = 20000 if tier == "quick" else 400000
    r = sh([DRIVER, "genpipe", str(seed), str(n)])
    if r.returncode != 0:
        raise Fail("pipeline generation failed: " + r.stderr[-1000:])
    pipes = [l for l in open(V + "/corpus/pipes.txt").read().splitlines() if l.strip() and not l.startswith("#")] \
        if os.path.exists(V + "/corpus/pipes.txt") else []
    pipes += STATIC_PIPES + [l for l in r.stdout.splitlines() if l.strip()]

    def work(ch):
        if not ch:
            return [], []
        m = sh([DRIVER, "pipe"], inp="\n".join(ch) + "\n")
        h = sh([BIN + "/cbharness-plain", "pipe"], inp="\n".join(ch) + "\n", timeout=1800)
        if m.returncode != 0 or h.returncode != 0:
            raise Fail("pipeline run failed: " + (m.stderr + h.stderr)[-1000:])
        return m.stdout.splitlines()[:len(ch)], h.stdout.splitlines()[:len(ch)]
    model, real = [], []
    for m, h in parallel_map(work, chunked(pipes, 16)):
        model += m
        real += h
    bad = [(p, m, h) for p, m, h in zip(pipes, model, real) if m.strip() != h.strip()]
    # the net of component models that Liveness.pipeline_completes is about (PipeNet.net_pipe_run, extracted), run
    # to rest on every generated pipeline of unary stages over a finite input, against the crate
    def network(ch):
        if not ch:
            return []
        m = sh([DRIVER, "netpipe"], inp="\n".join(ch) + "\n")
        if m.returncode != 0:
            raise Fail("net pipeline run failed: " + m.stderr[-1000:])
        return m.stdout.splitlines()[:len(ch)]
    netmodel = []
    for part in parallel_map(network, chunked(pipes, 16)):
        netmodel += part
    nbad = [(p, m, h) for p, m, h in zip(pipes, netmodel, real) if m.strip() != "-" and m.strip() != h.strip()]
    n_net = sum(1 for m in netmodel if m.strip() != "-")
    bad += [(p, "net of component models run to rest (Liveness.v): " + m, h) for p, m, h in nbad]
    # the composition theorems (Chain.v, Tree.v, TreeFunctional.v) speak about nets of component models: random
    # operator trees run as such nets and on the crate under scripted sinks; the sink's view must be equal
    rc = sh([DRIVER, "genchain", str(seed + 5), str(n // 5)])
    trees = [l for l in rc.stdout.splitlines() if l.strip()]
    tmodel, treal = [], []
    for part in parallel_map(lambda ch: (run_model(ch), run_real(ch, "plain")) if ch else ([], []), chunked(trees, 16)):
        tmodel += part[0]
        treal += part[1]
    tbad = [(t, m[0], h) for t, m, h in zip(trees, tmodel, treal) if m[0] != h]
    bad += [(t, "net of component models: " + m, h) for t, m, h in tbad]
    bbad, nbig = big_count_probe()
    bad += [(p_, "count near usize::MAX, expectation from the surrogate count: " + a, b) for p_, a, b in bbad]
    sbad, nshared = shared_source_probe(seed, 150 if tier == "quick" else 3000)
    bad += [(p_, "one source value subscribed several times, expectation from its list function repeated: " + a, b)
            for p_, a, b in sbad]
    out, status = [], 0
    for p, m, h in bad[:3]:
        path = write_replay(prop, dict(kind="failing-history", property=prop, pipeline=p,
                                       expected_from_list_function=m, observed_on_crate=h, seed=seed,
                                       how="F: crate's for_each as consumer, P: for_each-like probe that sees completion; "
                                           "user:x = argument of f, nexts = Iterator::next calls on the input"))
        out.append("VIOLATION property=%s replay=%s" % (prop, path))
        status = 1
    if not bad and audit["problems"]:
        path = write_replay(prop, dict(kind="proof-broken", property=prop, problems=audit["problems"]))
        out.append("VIOLATION property=%s replay=%s no-failing-input-found" % (prop, path))
        status = 1
    depth_hist = {}
    for p in pipes:
        st = re.search(r"stages=(\S+)", p).group(1)
        d = 0 if st == "-" else len(st.split(";"))
        depth_hist[d] = depth_hist.get(d, 0) + 1
    cov = dict(
        obligations=max(1, audit["obligations"]), discharged=audit["discharged"],
        checker_cmd="coqc -Q coq/theories CB coq/theories/Properties/C06.v (after make -C coq)",
        trusted_base=TRUSTED_BASE, theorems=audit["theorems"], axioms=audit["axioms"],
        audit_problems=audit["problems"],
        evaluations=len(pipes), distinct_nontrivial=len(set(p for p in pipes if "stages=-" not in p)),
        rule="random pipelines of 0-5 stages over map/filter/scan/take/skip/concat!(append, prepend)/map-then-flatten, "
             "inputs of 0-8 items or unbounded (only when a take bounds the program), plus fixed pipelines written with "
             "pipe!; each is run on the real crate twice (for_each; a probe that sees completion) and compared with "
             "the lazy pull interpreter (arguments of f in order, number of Iterator::next calls, completion); "
             "non-trivial = at least one stage, distinct by program text",
        traces_validated_against_impl=len(pipes) + len(trees) - len(bad), correspondence_mismatches=len(bad),
        pipeline_depth_histogram=depth_hist,
        operator_trees_run_as_nets_of_component_models=len(trees), net_vs_crate_mismatches=len(tbad),
        big_count_pipelines=nbig, shared_source_pipelines=nshared,
        pipelines_run_as_nets_of_component_models_to_rest=n_net, net_to_rest_vs_crate_mismatches=len(nbad),
        samples=[dict(pipeline=p, crate=h) for p, h in list(zip(pipes, real))[:2] + list(zip(pipes, real))[-2:]],
    )
    write_evidence(prop, tier, seed, t0, cov, len(bad),
                   assumptions=["pure user closures", "composition to arbitrary depth is validated, not proved: see level text"])
    for l in out:
        print(l)
    return status


THREAD_EXPLORE_FINE3 = ["sys=merge n=3 th=3 q0=- q1=- q2=- f0=T f1=E101 f2=T free=1",
                        "sys=merge n=3 th=3 q0=1 q1=- q2=- f0=N f1=E101 f2=T free=1"]
THREAD_EXPLORE = {
    "take": ["sys=take fixed=1 n=1 th=2 q0=1 q1=2 f0=N f1=N",
             "sys=take fixed=1 n=1 th=2 q0=1,2 q1=3 f0=N f1=N",
             "sys=take fixed=1 n=2 th=2 q0=1,2 q1=3,4 f0=N f1=N",
             "sys=take fixed=1 n=2 th=3 q0=1 q1=3 q2=5 f0=N f1=N f2=N",
             "sys=take fixed=1 n=3 th=3 q0=1,2 q1=3 q2=5 f0=N f1=N f2=N",
             "sys=take fixed=1 n=1 th=3 q0=1,2 q1=3 q2=5 f0=N f1=N f2=N"],
    "merge": ["sys=merge n=2 th=2 q0=1,3 q1=2 f0=T f1=T",
              "sys=merge n=2 th=2 q0=1,3 q1=2 f0=T f1=E101",
              "sys=merge n=2 th=2 q0=- q1=- f0=T f1=T",
              "sys=merge n=3 th=3 q0=1 q1=- q2=3 f0=T f1=E101 f2=T",
              "sys=merge n=3 th=3 q0=1 q1=2 q2=- f0=T f1=T f2=T"],
    "takemerge": ["sys=takemerge fixed=1 n=1 th=2 q0=1 q1=- f0=T f1=E101",
                  "sys=takemerge fixed=1 n=2 th=2 q0=1,3 q1=2 f0=T f1=T",
                  "sys=takemerge fixed=1 n=2 th=2 q0=1 q1=2 f0=E100 f1=T",
                  "sys=takemerge fixed=1 n=1 th=2 q0=1,3 q1=2 f0=T f1=E101",
                  "sys=takemerge fixed=1 n=2 th=3 q0=1 q1=2 q2=- f0=T f1=N f2=E102",
                  "sys=takemerge fixed=1 n=1 th=3 q0=1 q1=- q2=- f0=T f1=T f2=E102"],
    "takecombine": ["sys=takecombine fixed=1 n=1 th=2 q0=1 q1=2 f0=T f1=T",
                    "sys=takecombine fixed=1 n=2 th=2 q0=1 q1=2 f0=T f1=E101",
                    "sys=takecombine fixed=1 n=1 th=2 q0=1 q1=2,4 f0=N f1=T",
                    "sys=takecombine fixed=1 n=1 th=2 q0=1,3 q1=2 f0=T f1=T",
                    "sys=takecombine fixed=1 n=2 th=2 q0=1,3 q1=2 f0=T f1=E101"],
    "combine": ["sys=combine fixed=1 n=2 th=2 q0=1 q1=2 f0=T f1=T",
                "sys=combine fixed=1 n=2 th=2 q0=1,3 q1=2 f0=T f1=T",
                "sys=combine fixed=1 n=2 th=2 q0=1 q1=2 f0=E100 f1=T",
                "sys=combine fixed=1 n=2 th=2 q0=- q1=2 f0=T f1=T"],
}


def thread_check(prop, tier, seed, t0, syss, kinds, real_only=()):
    """C18/C19: member threads under the deterministic scheduler (harness/src/threads.rs, hooks ON)
    against the interleaving model coq/theories/Threads.v"""
    build(("plain", "hooked"))
    audit = coq_audit(prop)
    known = load_known()
    hooked = BIN + "/cbharness-hooked"
    # 0. the hooked build is behaviourally the plain build when no scheduler is installed
    seq_ops = ["take", "merge", "combine"]
    seq_scripts = corpus_scripts(seq_ops) + gen_scripts(seq_ops, seed, 3000 if tier == "quick" else 30000)
    seq_model = run_model(seq_scripts)
    seq_real = run_real(seq_scripts, "hooked")
    seq_mis = [(a, m[0], r) for a, m, r in zip(seq_scripts, seq_model, seq_real) if m[0] != r]
    # 1. schedules: corpus + every schedule of small configurations that the model says is
    #    interesting (violating in the model -> must be replayed) + random ones
    lines = []
    cpath = V + "/corpus/threads.txt"
    if os.path.exists(cpath):
        lines += [l.strip() for l in open(cpath) if l.strip() and not l.startswith("#")
                  and re.search(r"sys=(\w+)", l).group(1) in syss + list(real_only)]
    explored = {}
    model_bad = []
    hot, changed = changed_ops()
    hot = sorted(o for o in hot if o in syss)
    tier0 = tier
    if hot and tier == "quick":
        # the source of a racing operator differs from the pinned tree: use the thorough exploration
        tier = "thorough"
    for sysname in syss:
        cfgs = THREAD_EXPLORE[sysname] if tier == "thorough" else THREAD_EXPLORE[sysname][:3]
        for cfg in cfgs:
            r = sh([DRIVER, "texplore", "3"] + cfg.split(), timeout=3000)
            if r.returncode != 0:
                raise Fail("thread exploration failed: " + r.stderr[-1000:])
            m = re.search(r"schedules=(\d+) violating=(\d+)", r.stdout)
            explored[cfg] = dict(schedules=int(m.group(1)), violating_in_model=int(m.group(2)))
            for bl in r.stdout.splitlines():
                if bl.startswith("BAD "):
                    sched = re.search(r"sched=(\S+)", bl).group(1)
                    model_bad.append("%s sched=%s" % (cfg, sched))
    # merge at the granularity of every access, the talkback cells included (coq/theories/ThreadsFine.v):
    # every schedule of small configurations, in the extracted model
    if True:
        fine_cfgs = []
        for sysname in syss:
            k = 3 if sysname == "merge" or tier == "thorough" else 2
            # combine with two data per member has 3e5 coarse schedules already: not at the finer granularity
            fine_cfgs += [c + " free=1" for c in THREAD_EXPLORE[sysname][:k] if not (sysname == "combine" and "q0=1,3" in c)]
        if tier == "thorough" and "merge" in syss:
            fine_cfgs += THREAD_EXPLORE_FINE3
        if "takemerge" in real_only:
            fine_cfgs += [c + " free=1" for c in THREAD_EXPLORE["takemerge"][:2 if tier == "quick" else 4]]
        def explore_fine(cfg):
            return cfg, sh([DRIVER, "texplore", "3"] + cfg.split(), timeout=3000)
        for cfg, r in parallel_map(explore_fine, fine_cfgs):
            if r.returncode != 0:
                raise Fail("thread exploration failed: " + r.stderr[-1000:])
            m = re.search(r"schedules=(\d+) violating=(\d+)", r.stdout)
            explored[cfg] = dict(schedules=int(m.group(1)), violating_in_model=int(m.group(2)))
            for bl in r.stdout.splitlines():
                if bl.startswith("BAD "):
                    model_bad.append("%s sched=%s" % (cfg, re.search(r"sched=(\S+)", bl).group(1)))
    lines += model_bad
    # every schedule prefix of length L over two threads, on the real crate (the rest drains in index order)
    import itertools
    L = 10 if tier == "quick" else 14
    n_exh = 0
    for sysname in syss:
        for cfg in [c for c in THREAD_EXPLORE[sysname] if "th=2" in c][:3 if tier == "quick" else 6]:
            for seq in itertools.product("01", repeat=L):
                lines.append("%s sched=%s" % (cfg, ",".join(seq)))
                n_exh += 1
    for sysname in syss:
        # the same on the finer scheduling points
        Lf = 9 if tier == "quick" else 13
        for cfg in [c for c in THREAD_EXPLORE[sysname] if "th=2" in c][:2 if tier == "quick" else 3]:
            for seq in itertools.product("01", repeat=Lf):
                lines.append("%s free=1 sched=%s" % (cfg, ",".join(seq)))
                n_exh += 1
    n_rand = 3000 if tier == "quick" else 60000
    r = sh([DRIVER, "tgen", str(seed), str(n_rand)] + syss)
    if r.returncode != 0:
        raise Fail("thread script generation failed: " + r.stderr[-1000:])
    lines += [l for l in r.stdout.splitlines() if l.strip()]
    # take behind merge / combine (coq/theories/ThreadsTakeMerge.v, ThreadsTakeCombine.v): the merge generator,
    # renamed; a member may fail
    ro_lines = []
    for ro in real_only:
        r = sh([DRIVER, "tgen", str(seed + 7), str(n_rand // 3), "merge"])
        k = 0
        for l in r.stdout.splitlines():
            if l.strip():
                k += 1
                lines.append(re.sub(r"sys=merge fixed=1 n=(\d+)", "sys=%s fixed=1 n=%d" % (ro, 1 + (k % 3)), l))
        for cfg in THREAD_EXPLORE[ro] if tier == "thorough" else THREAD_EXPLORE[ro][:3]:
            r = sh([DRIVER, "texplore", "3"] + cfg.split(), timeout=3000)
            if r.returncode != 0:
                raise Fail("thread exploration failed: " + r.stderr[-1000:])
            m = re.search(r"schedules=(\d+) violating=(\d+)", r.stdout)
            explored[cfg] = dict(schedules=int(m.group(1)), violating_in_model=int(m.group(2)))
            for bl in r.stdout.splitlines():
                if bl.startswith("BAD "):
                    lines.append("%s sched=%s" % (cfg, re.search(r"sched=(\S+)", bl).group(1)))
        for cfg in [c for c in THREAD_EXPLORE[ro] if "th=2" in c][:2 if tier == "quick" else 4]:
            for seq in itertools.product("01", repeat=L):
                lines.append("%s sched=%s" % (cfg, ",".join(seq)))
                n_exh += 1

    # free mode: every instrumented access is a scheduling point, including the talkback cells (slot.*), which
    # the interleaving model does not have; random schedules, judged by the property checks on the crate's trace
    free_lines = []
    rnd = random.Random(seed * 31 + 5)
    nfree = 600 if tier == "quick" else 12000
    for sysname in list(syss) + [x for x in real_only if x == "takemerge"]:
        cfgs = THREAD_EXPLORE[sysname]
        for k in range(nfree):
            cfg = cfgs[k % len(cfgs)]
            nth = int(re.search(r"th=(\d+)", cfg).group(1))
            sched = ",".join(str(rnd.randrange(nth)) for _ in range(rnd.randrange(8, 70)))
            free_lines.append("%s free=1 sched=%s" % (cfg, sched))
    # free=2: a copy of a payload is a scheduling point as well (combine copies its tuple between two accesses of
    # `vals`): no model has that point, the extracted checks judge the crate's trace alone
    free2_lines = []
    for sysname in [x for x in list(syss) + list(real_only) if "combine" in x]:
        cfgs = THREAD_EXPLORE[sysname]
        for k in range(nfree // 2):
            cfg = cfgs[k % len(cfgs)]
            nth = int(re.search(r"th=(\d+)", cfg).group(1))
            sched = ",".join(str(rnd.randrange(nth)) for _ in range(rnd.randrange(8, 90)))
            free2_lines.append("%s free=2 sched=%s" % (cfg, sched))
    ro_lines += free2_lines
    # take, merge and combine have an interleaving model at that granularity (ThreadsFine.v): their free runs are
    # compared with the model event by event like the others
    def fine_model(l):
        return "free=1" in l and re.search(r"sys=(take|merge|combine|takemerge) ", l) is not None
    ro_lines += [l for l in lines if "free=2" in l]
    lines = [l for l in lines if "free=2" not in l]
    lines += [l for l in free_lines if fine_model(l)]
    ro_lines += [l for l in lines if "free=1" in l and not fine_model(l)]
    ro_lines += [l for l in free_lines if not fine_model(l)]
    lines = [l for l in lines if "free=1" not in l or fine_model(l)]

    def work(ch):
        if not ch:
            return [], [], []
        m = sh([DRIVER, "threads"], inp="\n".join(ch) + "\n")
        h = sh([hooked, "threads"], inp="\n".join(ch) + "\n", timeout=3000)
        if m.returncode != 0 or h.returncode != 0:
            raise Fail("thread run failed: " + (m.stderr + h.stderr)[-1000:])
        real = [x.strip() for x in h.stdout.split("\n")][:len(ch)]
        mon = sh([DRIVER, "tmon"], inp="\n".join("%s | %s" % (a, b) for a, b in zip(ch, real)) + "\n")
        return [x.partition(" || ")[0].strip() for x in m.stdout.split("\n")][:len(ch)], real, \
            [x.split() for x in mon.stdout.split("\n")][:len(ch)]
    model, real, mon = [], [], []
    for m, h, mo in parallel_map(work, chunked(lines, 8)):
        model += m
        real += h
        mon += mo

    def work_ro(ch):
        if not ch:
            return [], []
        h = sh([hooked, "threads"], inp="\n".join(ch) + "\n", timeout=3000)
        real = [x.strip() for x in h.stdout.split("\n")][:len(ch)]
        # take behind merge: the take checks on the trace (header rewritten for the monitor)
        mon = sh([DRIVER, "tmon"], inp="\n".join("%s | %s" % (a, b) for a, b in zip(ch, real)) + "\n")
        return real, [x.split() for x in mon.stdout.split("\n")][:len(ch)]
    ro_real, ro_mon = [], []
    for h, mo in parallel_map(work_ro, chunked(ro_lines, 8)):
        ro_real += h
        ro_mon += mo

    mism = [(a, m, h) for a, m, h in zip(lines, model, real) if m != h]
    viols = []
    known_hits = {}
    for a, h, vs in list(zip(lines, real, mon)) + list(zip(ro_lines, ro_real, ro_mon)):
        bad = [v for v in vs if v.split(":")[0] in kinds]
        if bad:
            f = thread_known(known, a, h, bad)
            if f:
                known_hits[f["id"]] = f
            else:
                viols.append((a, h, bad))
    out, status = [], 0
    for f in known_hits.values():
        out.append("KNOWN-FINDING: property=%s %s" % (prop, f["what"]))
    for a, h, bad in viols[:3]:
        path = write_replay(prop, dict(kind="failing-history", property=prop, thread_script=a,
                                       violations=bad, trace_on_crate=h, seed=seed,
                                       how="./check %s --replay <this file> re-runs the schedule on the hooked crate" % prop))
        out.append("VIOLATION property=%s replay=%s" % (prop, path))
        status = 1
    if not viols:
        problem = None
        if mism:
            a, m, h = mism[0]
            problem = dict(kind="correspondence-broken", what="thread model (coq/theories/Threads.v; free=1: ThreadsFine.v; takemerge: ThreadsTakeMerge.v; takecombine: ThreadsTakeCombine.v) and crate disagree",
                           thread_script=a, model_trace=m, crate_trace=h, mismatching=len(mism))
        elif seq_mis:
            a, m, h = seq_mis[0]
            problem = dict(kind="correspondence-broken", what="hooked build differs from the sequential model",
                           script=a, model_trace=m, crate_trace=h)
        elif audit["problems"]:
            problem = dict(kind="proof-broken", problems=audit["problems"])
        if problem:
            problem["property"] = prop
            path = write_replay(prop, problem)
            out.append("VIOLATION property=%s replay=%s no-failing-input-found" % (prop, path))
            status = 1
    distinct = set(h for h in real + ro_real if " " in h)
    cov = dict(
        obligations=max(1, audit["obligations"]), discharged=audit["discharged"],
        checker_cmd="coqc -Q coq/theories CB coq/theories/Properties/%s.v (after make -C coq)" % prop,
        trusted_base=TRUSTED_BASE + ["interleaving model coq/theories/Threads.v (sequentially consistent, one scheduling point "
                                     "per instrumented access and per sink delivery); take, merge and combine also at the granularity of "
                                     "every talkback-cell access (coq/theories/ThreadsFine.v, scripts with free=1); take behind merge "
                                     "(coq/theories/ThreadsTakeMerge.v)",
                                     "hooks /repo/src/verif_hooks.rs and the token-passing scheduler harness/src/threads.rs"],
        theorems=audit["theorems"], axioms=audit["axioms"], audit_problems=audit["problems"],
        evaluations=len(lines) + len(ro_lines), distinct_nontrivial=len(distinct),
        rule="thread scripts = corpus + model counterexample schedules (none on the repaired tree) + random member queues, "
             "endings and schedules from VERIF_SEED; each runs real OS threads through the hooked crate under the "
             "token-passing scheduler and is compared with the Coq interleaving model event by event; the extracted "
             "C18/C19 checks run on the crate's trace; distinct = distinct crate traces with at least two events",
        traces_validated_against_impl=len(lines) - len(mism), correspondence_mismatches=len(mism),
        model_exhaustive_exploration=explored,
        real_exhaustive_schedule_prefixes=dict(length=L, runs=n_exh),
        real_only_runs=len(ro_lines), free_schedule_runs_with_talkback_cell_scheduling_points=len(free_lines),
        free_schedule_runs_compared_with_the_fine_model=len([l for l in lines if fine_model(l)]),
        runs_with_payload_copies_as_scheduling_points=len(free2_lines),
        source_files_differing_from_pinned_tree=changed, components_searched_deeper=hot,
        hooked_build_sequential_scripts=len(seq_scripts), hooked_build_sequential_mismatches=len(seq_mis),
        samples=[dict(script=a, crate_trace=h) for a, h in list(zip(lines, real))[:2] + list(zip(lines, real))[-2:]],
    )
    write_evidence(prop, tier0, seed, t0, cov, len(viols),
                   assumptions=["sequentially consistent interleavings at the granularity of instrumented accesses",
                                "passive sink; member threads stop once told to"])
    for l in out:
        print(l)
    return status


def thread_known(known, script, trace, bad):
    """a violation of a thread run is a listed finding only if system, kinds and the class of the history match"""
    for f in known["findings"]:
        if f["op"] == "merge-threads":
            if not re.search(r"sys=merge\b", script) or "free=1" not in script:
                continue
        elif f["op"] == "takemerge-threads":
            if not re.search(r"sys=takemerge\b", script) or "free=1" not in script:
                continue
        else:
            continue
        if not all(":".join(v.split(":")[:2]) in f["kinds"] for v in bad):
            continue
        if f["class"] == "GreetingDuringError" and greeting_during_error(trace):
            return f
        if f["class"] == "DataBeforeGreeting" and data_before_greeting(trace):
            return f
    return None


def data_before_greeting(trace):
    """class of KF4: the first delivery to the sink is not its Handshake (a datum overtook the first greeter's thread)"""
    first = next((t for t in trace.split() if re.search(r":<dn0:", t)), None)
    return first is not None and not first.endswith(":<dn0:H")


def greeting_during_error(trace):
    """class of KF4: the terminal message is a member's Error, and every datum delivered after it comes from a member
    that was never told to stop (it greeted while the failing sibling was disposing the others)"""
    toks = trace.split()
    term = next((i for i, t in enumerate(toks) if re.search(r":<dn0:(E\d+|T)$", t)), None)
    if term is None or not re.search(r":<dn0:E\d+$", toks[term]):
        return False
    late = [(i, t) for i, t in enumerate(toks) if i > term and re.search(r":<dn0:D", t)]
    if not late:
        return False
    for i, t in late:
        member = re.match(r"t(\d+):", t).group(1)
        if any(re.search(r":<up%s:(T|E\d+)$" % member, u) for u in toks[:i]):
            return False
    return True


def treplay(prop, path):
    payload = json.load(open(path))
    build(("hooked",))
    a = payload["thread_script"]
    m = sh([DRIVER, "threads"], inp=a + "\n").stdout.strip()
    h = sh([BIN + "/cbharness-hooked", "threads"], inp=a + "\n").stdout.strip()
    vs = sh([DRIVER, "tmon"], inp="%s | %s\n" % (a, h)).stdout.strip()
    print("script      :", a)
    print("model       :", m)
    print("crate trace :", h)
    print("violations  :", vs or "-")
    if any(v.split(":")[0] == prop for v in vs.split()) or (m.partition(" || ")[0].strip() != h and "takemerge" not in a and "free=1" not in a):
        print("VIOLATION property=%s replay=%s" % (prop, path))
        return 1
    return 0


CUSTOM = {
    "C06": c06_check,
    "C18": lambda prop, tier, seed, t0: thread_check(prop, tier, seed, t0, ["merge", "combine"], ["C18"]),
    "C19": lambda prop, tier, seed, t0: thread_check(prop, tier, seed, t0, ["take"], ["C19", "C18"], real_only=("takemerge", "takecombine")),
}


def main(argv):
    import argparse
    ap = argparse.ArgumentParser()
    ap.add_argument("prop")
    ap.add_argument("--tier", default=os.environ.get("VERIF_TIER", "quick"))
    ap.add_argument("--replay")
    ap.add_argument("--seed", type=int, default=int(os.environ.get("VERIF_SEED", "1")))
    a = ap.parse_args(argv)
    global TIER
    TIER = a.tier
    t0 = time.time()
    try:
        if a.replay:
            if a.prop in ("C18", "C19"):
                return treplay(a.prop, a.replay)
            return replay(a.prop, a.replay)
        if a.prop in CUSTOM:
            return CUSTOM[a.prop](a.prop, a.tier, a.seed, t0)
        return seq_check(a.prop, a.tier, a.seed, t0)
    except Fail as e:
        # the machinery itself is broken: the property is not shown to hold
        path = write_replay(a.prop, dict(kind="machinery-failure", property=a.prop, error=str(e)))
        write_evidence(a.prop, a.tier, a.seed, t0,
                       dict(obligations=1, discharged=0, checker_cmd="(build failed)", trusted_base=TRUSTED_BASE,
                            evaluations=1, distinct_nontrivial=0, explanation=str(e)[:2000], samples=[str(e)[:500]]), 1)
        print(str(e)[-3000:], file=sys.stderr)
        print("VIOLATION property=%s replay=%s no-failing-input-found" % (a.prop, path))
        return 1
