#!/usr/bin/env python3
"""Pins the STATEMENTS of the property theorems: coq/PINS.json maps Properties/Cnn.v to the sha256 of its
theorem statements (name + statement up to 'Proof.', comments stripped, whitespace normalised).  The audit
of every check compares; run this script after a deliberate change of a statement."""
import hashlib, json, os, re, sys
V = os.path.dirname(os.path.dirname(os.path.abspath(__file__)))
sys.path.insert(0, V + "/lib")


def strip_comments(src):
    out, depth, i = [], 0, 0
    while i < len(src):
        if src.startswith("(*", i):
            depth += 1; i += 2
        elif src.startswith("*)", i) and depth > 0:
            depth -= 1; i += 2
        else:
            if depth == 0:
                out.append(src[i])
            i += 1
    return "".join(out)


def statements(path):
    src = strip_comments(open(path).read())
    sts = re.findall(r"((?:Theorem|Corollary)\s+\w+.*?)\bProof\.", src, re.S)
    return [re.sub(r"\s+", " ", s).strip() for s in sts]


def digest(path):
    return hashlib.sha256("\n".join(statements(path)).encode()).hexdigest()


if __name__ == "__main__":
    d = V + "/coq/theories/Properties"
    pins = {f[:-2]: dict(sha256=digest(os.path.join(d, f)), theorems=len(statements(os.path.join(d, f))))
            for f in sorted(os.listdir(d)) if f.endswith(".v")}
    json.dump(pins, open(V + "/coq/PINS.json", "w"), indent=1)
    print("pinned", len(pins), "files,", sum(p["theorems"] for p in pins.values()), "theorem statements")
