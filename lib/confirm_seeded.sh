#!/bin/bash
# confirm_seeded.sh <worktree> <prop> : confirm a seeded change in its scratch worktree and file it under /verif/seeded
# (1) crate + tracing build compile, (2) the 61 baseline tests pass with the change, (3) the demo fails with the change,
# (4) the demo passes without it.  Then run the property's quick check (and neighbours) against it via try_seeded.sh.
wt=$1; P=$2; shift 2
export CARGO_NET_OFFLINE=true
id=$(basename $wt)-$P
out=/verif/seeded/$id
mkdir -p $out
cd $wt || exit 2
demo=$(ls tests/seeded_*.rs | head -1)
name=$(basename $demo .rs)
git diff -- src > $out/patch.diff
cp $demo $out/
log=$out/confirm.log; : > $log
b1=$(cargo build --offline >>$log 2>&1 && echo ok || echo FAIL)
b2=$(cargo build --offline --features tracing >>$log 2>&1 && echo ok || echo FAIL)
mv $demo /tmp/$id.rs.aside
suite=$(cargo nextest run --workspace --no-fail-fast --offline 2>&1 | tee -a $log | grep -E "tests run:" | tail -1)
mv /tmp/$id.rs.aside $demo
with=$(RUSTFLAGS="${DEMO_RUSTFLAGS:-}" cargo test --offline --test $name 2>&1 | tee -a $log | grep -E "^test result" | tail -1)
git diff -- src > /tmp/$id.src.patch; git apply -R /tmp/$id.src.patch
without=$(RUSTFLAGS="${DEMO_RUSTFLAGS:-}" cargo test --offline --test $name 2>&1 | tee -a $log | grep -E "^test result" | tail -1)
git apply /tmp/$id.src.patch; rm -f /tmp/$id.src.patch
checks=$(/verif/lib/try_seeded.sh $out/patch.diff $P "$@" 2>&1 | grep -E "^==|VIOLATION" | cut -c1-140)
python3 - "$out" "$P" "$b1" "$b2" "$suite" "$with" "$without" "$checks" <<'PY'
import json,sys
out,P,b1,b2,suite,withc,without,checks=sys.argv[1:9]
meta=dict(property=P, build=b1, build_tracing=b2, baseline_suite_with_change=suite.strip(),
          demo_with_change=withc.strip(), demo_without_change=without.strip(),
          checks_run_against_it=checks.splitlines(),
          confirmed=(b1=="ok" and b2=="ok" and "61 passed" in suite and "failed" in withc and " 0 failed" not in withc and " 0 failed" in without))
json.dump(meta,open(out+"/meta.json","w"),indent=1)
print(json.dumps(meta,indent=1))
PY
