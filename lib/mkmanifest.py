#!/usr/bin/env python3
"""Regenerates /verif/MANIFEST.json from the table below (kept in one place so it stays valid)."""
import json

LEVEL_NOTE = ("Trusted: Coq 8.16.1 kernel (no axioms: every Print Assumptions is 'Closed under the global context'); "
              "the hand-written Gallina model coq/theories/Ops.v and machine/environment semantics Machine.v - tied to "
              "/repo's current source only by the correspondence check run on every invocation (extracted model vs real "
              "crate on the same scripts, traces equal event by event); extraction (ExtrOcamlBasic only), driver/main.ml, "
              "harness/src. Assumed: peers are conformant in the sense of DESIGN.md 3.3 (local reaction), user closures pure.")

PROOF_TECH = "Coq invariant proof over a hand-written model + differential correspondence check"

CHECKS = {
 "C01": ("proof", "Theorems (Properties/C01.v) for every component (map, filter, scan, skip, take n>=1, from_iter with any iterator, "
         "interval, merge! of any n>=1 with late greeters, concat! of any n, flatten, share with any number of sinks) and every "
         "configuration reachable under the conformant environment (unbounded nesting and history): greet_once and greet_first of the "
         "trace (readable, monitor-free predicates of MonitorSound.v). combine!: the monitor never records a C01 kind (any arity). "
         "Programs: the composition theorems (Chain.v, Tree.v) give the same for every component of every linear pipeline of any length and "
         "of every operator TREE over from_iter/interval/map/filter/scan/take/skip/merge!/concat! (C01_pipeline, C01_program). "
         "The tie to the code is the correspondence check run on every invocation; the extracted monitors also run on the real traces.",
         PROOF_TECH),
 "C02": ("proof", "As C01 for term_final (nothing after a Terminate/Error). share: proved for the environment C12 quantifies over "
         "(no nested fan-out); nested fan-out is the recorded known finding KF3.", PROOF_TECH),
 "C03": ("proof", "As C01 for dispose_respected (no delivery after the sink sent Terminate/Error). share as for C02 (KF3).", PROOF_TECH),
 "C04": ("proof", "As C01 for sub_once, talkback_only_live, stop_once, no_pull_outside and, via the invariant theorems, the orphan check at "
         "quiescent points. combine!: only the kinds of the recorded finding KF2 can occur (proved), never SubTwice/UpEarly/StopAfterStop/Orphan.",
         PROOF_TECH),
 "C05": ("proof", "Theorems: the monitor's ErrLost/ErrChanged clauses never fire for map, filter, scan, skip, take, merge!, concat!, share "
         "(every reachable configuration). combine!: C05_combine_refuted is a machine-checked witness that the statement is FALSE "
         "(known finding KF1, replayed on the crate each run); ErrChanged never fires.", PROOF_TECH),
 "C06": ("proof", "PARTIAL. Proved: (1) the list function of a pipeline is left-to-right application; the lazy pull interpreter delivers exactly "
         "sem p xs, completes, and advances the iterator <= length xs + 1 times (<= n behind a take on unbounded input). (2) Composition "
         "theorem (Chain.v, Programs.v): for every pipeline of map/filter/scan/take/skip stages of ANY length over ANY iterator, wired "
         "component model to component model, in every reachable state f has been called on exactly the list function of the defined prefix "
         "of the iterator pulled so far, in order (pipeline_functional, pipeline_for_each), and no component violates the protocol or "
         "panics (pipeline_sound); for operator TREES (Tree.v, TreeFunctional.v) every node has delivered its list function of its "
         "children's outputs - a concat! stage the append of its members (C06_prog_concat), for_each exactly its child's output "
         "(C06_prog_sink), from_iter the defined prefix of its iterator. The net semantics is tied to the crate by running random operator "
         "trees on both each run; the real crate is also compared with the lazy interpreter on random pipelines (depth 0-5, incl. "
         "multi-member concat!, map+flatten, one source value subscribed several times, counts near usize::MAX). (3) LIVENESS for linear "
         "pipelines of map/filter/scan/take/skip (take counts >= 1) over any finite input, as nets of the component models "
         "(Liveness.v, C06_pipeline_completes): applying for_each makes the net run by itself to rest within an explicit bound of steps "
         "(every step is a call delivered or returned; demand is never invented), at rest for_each has received the end (demand is never "
         "lost: counting argument over Pulls/data/greetings per link, status coupling of every stage at rest), and f was called on the list "
         "function of the WHOLE input; the extracted runner of exactly these nets (PipeNet.net_pipe_run, proved to return sem p xs) is run "
         "against the crate on every generated pipeline of unary stages (values, next() count, completion). (4) 'take over an unbounded "
         "iterator stops' (C06_take_stops): for ANY iterator, when a take follows stages that pass every datum on (map, scan), the run is "
         "finite with a bound depending on the take's count only, next() is called at most n times, for_each has seen the end; in every "
         "reachable state of every pipeline the results of next() are exactly the delivered items plus one None iff from_iter ended, and "
         "never more than the Pulls it received (C06_pipeline_nexts). Not proved: liveness of pipelines with concat!/flatten stages, and "
         "of unbounded inputs when a dropping stage (filter/skip) precedes the take (it can genuinely diverge); those are compared with "
         "the lazy interpreter only.",
         "Coq assume-guarantee composition theorem over the component models + list-function/lazy-interpreter equivalence + differential tests"),
 "C07": ("proof", "Theorems: at every control point data_out = map f / filter c / scan_list r seed / firstn n / skipn n of data_in, for all "
         "parameters and all environments (push and pull are the same relation); sink and upstream end together (paired); take completes "
         "and stops upstream right after the nth item (take_complete).", PROOF_TECH),
 "C08": ("proof", "Theorems for every n>=1, members greeting synchronously or late: arrival-order relay (merge_order), greeting with the first "
         "member (merge_greets), completion exactly when all ended (merge_completes), and merge_safe (late greeter after the end is disposed "
         "at once; Pulls only to live members); and what one activation DOES (passive continuation): a sink Pull / Terminate / Error "
         "reaches exactly the members that have greeted and not completed, once each (merge_pull_broadcast, merge_term_broadcast).", PROOF_TECH),
 "C09": ("proof", "Theorems for every n: order and laziness of subscription (concat_order), completion (concat_completes), the outstanding "
         "Pull is re-issued at a boundary iff the sink has pulled (concat_pull_carried), no subscription after the end (concat_safe).", PROOF_TECH),
 "C10": ("proof", "Theorems for every arity n>=1: every tuple holds each member's latest value, none before all have one (combine_tuples); "
         "completion exactly when all members ended (combine_completes); exactly one tuple per member datum once every other member has a "
         "value, none before (combine_one_tuple_per_datum); a sink Pull reaches every member (hence every running one; reaching ended "
         "members too is KF2 under C04).", PROOF_TECH),
 "C11": ("proof", "Theorems (Inv_flatten.v): at every control point at most one inner source is live and it is the stored one (C11_switch); the sink "
         "receives exactly the inner payloads in arrival order (C11_order); a live sink always has a live source behind it and Terminate is "
         "sent only when the outer has completed and no inner is live (C11_completes); each inner/outer subscribed once, stopped once, pulled "
         "only while live (C11_dispose_once); local steps: Pull routing, one Pull on an inner's greeting, the switch.", PROOF_TECH),
 "C12": ("proof", "Theorems for any number of sinks, no nested fan-out (as C12 quantifies): one upstream subscription, started exactly when a "
         "sink attaches to an empty list (share_one_upstream), upstream alive iff some sink attached at quiescence (share_refcount); every "
         "attached sink receives every datum and the termination exactly once, in attach order, after which the list is empty and the next "
         "subscriber starts a fresh upstream subscription (share_fanout_data/_term/_once).", PROOF_TECH),
 "C13": ("proof", "Model: a subscription is a configuration; proved: the state after ISub does not depend on the state before (sub_fresh, all "
         "components but share, share proved NOT fresh) and the two-subscription product machine is the pair of solo runs. Tie: two-subscription "
         "scripts on the crate (same source value subscribed twice) against two independent model configurations, plus a direct projection "
         "test on the crate (projection of the two-subscription trace = the crate's own solo run).",
         "Coq product/freshness theorems + two-subscription correspondence and projection test on the crate"),
 "C14": ("proof", "Pull regime (pullable upstreams, one Pull per message received): proved for all eight components (from_iter, map, filter, "
         "scan, take, skip, concat! of any n, flatten) that OverPull/OverData/Unanswered never fire, with the conservation laws each proof "
         "rests on (owed + ndata = npull, credit + owed = 1; flatten: exactly one token of demand, with the sink, on the outer or on the "
         "stored inner). Outside the pull regime too (Flow_*.v, C14_*_flow): in EVERY conformant environment map/filter/scan/skip satisfy "
         "Pulls sent up + data delivered = Pulls received + data received at every control point (take: <=, with = at rest while live), "
         "for_each sends exactly one Pull per greeting or datum, and from_iter at rest has served every Pull by one datum when its sink "
         "sends one Pull per message - these are the facts the composed liveness theorem (C06_pipeline_completes) is built from, where the "
         "discipline 'one Pull per message towards from_iter' is itself PROVED of every pipeline of map/filter/scan/take/skip "
         "(LivenessG.all_one_pull). PROGRAMS (PullPrograms.v, C14_program_*): for every linear pipeline from_iter -> map/filter/scan/take/skip "
         "(any length, ANY iterator) under an external sink that sends at most one Pull per message it received, with every pull schedule "
         "(top-level or from inside its handlers): the sink never receives more Data than it sent Pulls, and at rest, towards a live sink, "
         "every Pull has been answered by a datum - also in the monitor's own counters (npull/ndata); inside pipelines under for_each the "
         "same holds at every link (ClosedDemand.v). Other compositions (concat!/flatten inside programs) are validated on the crate (closed operator trees "
         "under the sink-side monitor), not proved; take under concat!/flatten is outside the premise (its output gives Data AND the end for "
         "one Pull) and is not generated.", PROOF_TECH),
 "C15": ("proof", "Theorems for every iterator (not assumed fused): no violation incl. no nested delivery, the loop-frame shape (at most one "
         "delivery in progress), items in order, never advanced without a Pull, Terminate exactly at the first None, nothing after disposal.",
         PROOF_TECH),
 "C16": ("proof", "Theorems on the virtual clock: data = 0,1,2,.. one per tick while not disposed, nothing after disposal, a refused "
         "subscription receives exactly one Error. Independence of subscriptions is C13. Real executors/timers are modelled by the harness's "
         "mock Nurse+Timer (named in the trusted base).", PROOF_TECH),
 "C17": ("proof", "Theorems: no_panic (trace c) / dead c = false in every reachable configuration of every component (every panic!/expect/"
         "unwrap that depends on state is an APanic branch of the model). Programs: proved by the composition theorems for linear pipelines "
         "of any length and for every operator tree without combine!/flatten (C17_pipeline, C17_program); trees with combine!/flatten: "
         "validated by catch_unwind in the correspondence runs.",
         PROOF_TECH),
 "C18": ("proof", "Interleaving model (Threads.v, SC at the granularity of instrumented accesses): exhaustively explored in the extracted model, "
         "compared event by event with real OS threads under the token-passing scheduler through the cfg(callbag_verif) hooks. Invariant "
         "proofs over ALL schedules, any n, queues and endings (at most one failing member), for combine! and merge!: greeted once, data "
         "exactly once in member order / complete tuples of sent values, one terminal after every data delivery returned, no panic; the "
         "pinned tree's combine is refuted by a machine-checked schedule. merge! also at the granularity of EVERY access, the talkback "
         "cells included (ThreadsFine.v, compared with the crate on free-schedule runs): additionally no delivery begins after the "
         "terminal message, every member told to stop at most once and - at rest after the end - exactly once; merge.rs before fix "
         "13d4e7e is refuted; combine! at that granularity by a stuttering transfer theorem.",
         "Coq invariant proofs over an interleaving model + scheduler-controlled differential test against real threads"),
 "C19": ("proof", "As C18 for take(n): the repaired code (fetch_update) never over-delivers under any schedule; the unrepaired code is refuted "
         "by a machine-checked schedule that is also replayed on the crate. take behind merge! (ThreadsTakeMerge.v, the composition, "
         "compared with the crate step by step): for every schedule and ANY number of failing members at most n data, the sink ended at "
         "most once and - once n data were delivered - exactly once, every member told to stop exactly once or ended by itself; take.rs "
         "before fix 7f77d2f is refuted. Likewise take behind combine! (ThreadsTakeCombine.v: at most n complete tuples of sent values, "
         "sink ended exactly once, every member told to stop exactly once), and take alone at the granularity of every access "
         "(Inv_threads_take_fine.v). take behind merge! with every cell access a step (ThreadsTakeMergeFine.v) exposed the "
         "recorded known finding KF4 (a datum overtaking the first greeter's Handshake makes take panic); the model has it, the theorems "
         "hold outside that class.",
         "Coq interleaving model + scheduler-controlled differential test"),
 "C20": ("translation_validation", "Coq: a model of the call!/trace!/instrument! macros of src/utils/mod.rs (Tracing.v) - if the macro arguments "
         "after the format string are pure, the three builds (feature off; on without subscriber; on with a TRACE subscriber) perform the "
         "same effects and calls and evaluate every message expression exactly once (C20_tracing_inert, C20_message_evaluated_once); an "
         "effect inside a trace! argument refutes it (C20_impure_trace_arg_refuted). Every run audits that premise on the current source "
         "(every macro argument is an identifier/literal) and that every cfg(tracing)-gated item is a span/Debug item, and runs each of the "
         "three builds on the same scripts: the three traces and user-closure evaluation counts must be equal and equal to the single Coq "
         "operator model, so every theorem of C01-C17 transfers to the tracing builds.",
         "Coq theorem about the macro expansions with its premise audited on the source + three-build differential correspondence against one Coq model"),
}

def main():
    checks = []
    for pid, (cat, text, tech) in sorted(CHECKS.items()):
        checks.append({
            "property_id": pid,
            "quick_cmd": "./check %s --tier quick" % pid,
            "thorough_cmd": "./check %s --tier thorough" % pid,
            "evidence_file": "/verif/evidence/%s.json" % pid,
            "replay_cmd_template": "./check %s --replay {path}" % pid,
            "engine": "coq-model+correspondence",
            "level_claimed": {"category": cat, "text": text, "design_ref": "DESIGN.md section 5 (%s)" % pid},
            "level_note": LEVEL_NOTE,
            "technique": tech,
        })
    allp = ["C%02d" % i for i in range(1, 21)]
    na = [{"property_id": p, "reason": "not claimed, see DESIGN.md"}
          for p in allp if p not in CHECKS]
    man = {
        "version": 1,
        "setup_cmd": "./lib/build.sh all",
        "hooks": {
            "guard": "--cfg callbag_verif",
            "enable": "RUSTFLAGS='--cfg callbag_verif' cargo build --offline (harness variant 'hooked', lib/build.sh harness hooked)",
            "baseline_off_cmd": "cd /repo && cargo nextest run --workspace --no-fail-fast --tool-config-file pb:/w/lib/nextest.toml --profile pb --test-threads 8 --offline || cargo test --workspace --no-fail-fast --offline",
            "source_commits": ["c402756", "b6ef510", "ce68e41", "b7e9997", "aafdbff"],
            "add_only": True,
        },
        "engines": [{
            "name": "coq-model+correspondence",
            "path": "/verif/check",
            "serves_properties": sorted(CHECKS.keys()),
            "kind_free_text": "Coq 8.16 invariant proofs over a hand-written executable model (coq/theories), extracted to OCaml and compared with the real crate by a Rust harness on the same move scripts; extracted monitors run on the real traces",
        }],
        "checks": checks,
        "not_applicable": na,
        "notes": "Known findings: /verif/known_findings.json. fix: commits in /repo: ef0bdaa, a78b8de, 56aafc9, a25d8e2, eae2b4b, 13d4e7e, 7f77d2f (see DESIGN.md section 6).",
    }
    json.dump(man, open("/verif/MANIFEST.json", "w"), indent=1)
    print("wrote MANIFEST.json with", len(checks), "checks")

if __name__ == "__main__":
    main()
