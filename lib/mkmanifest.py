#!/usr/bin/env python3
"""Regenerates /verif/MANIFEST.json from the table below (kept in one place so it stays valid)."""
import json

LEVEL_NOTE = ("Trusted: Coq 8.16.1 kernel (no axioms: every Print Assumptions is 'Closed under the global context'); "
              "the hand-written Gallina model coq/theories/Ops.v and machine/environment semantics Machine.v - tied to "
              "/repo's current source only by the correspondence check run on every invocation (extracted model vs real "
              "crate on the same scripts, traces equal event by event); extraction (ExtrOcamlBasic only), driver/main.ml, "
              "harness/src. Assumed: peers are conformant in the sense of DESIGN.md 3.3 (local reaction), user closures pure.")

CHECKS = {
 "C01": ("proof", "Theorems (Properties/C01.v): in every configuration reachable under the conformant environment the protocol monitor "
         "has recorded no GreetTwice/BeforeGreet violation (unbounded nesting depth and history length, all parameters). "
         "The tie to the code is the correspondence check; the monitors also run on the real traces so that a violation comes with a replayable script.",
         "Coq invariant proof over a hand-written model + differential correspondence check"),
 "C02": ("proof", "As C01 for the AfterFinish kind (nothing after a terminal message). share's nested fan-out is a recorded known finding (class NestedFanout).",
         "Coq invariant proof + differential correspondence check"),
 "C03": ("proof", "As C01 for the AfterDispose kind (no delivery begins after the sink disposed). share's nested fan-out is a recorded known finding.",
         "Coq invariant proof + differential correspondence check"),
 "C04": ("proof", "As C01 for the upstream-side kinds (SubTwice, SubAfterOver, UpEarly, Pull/Stop after end/stop, Orphan at quiescence). "
         "combine's broadcast to members that are not running is a recorded known finding.",
         "Coq invariant proof + differential correspondence check"),
 "C05": ("proof", "As C01 for ErrLost/ErrChanged (an upstream Error reaches every live sink, same id, by the next quiescent point, never as Terminate). "
         "combine counting an Error as completion is a recorded known finding.",
         "Coq invariant proof + differential correspondence check"),
 "C17": ("proof", "Theorems: dead c = false (no panic!/expect/unwrap site reachable) in every reachable configuration of each component's model.",
         "Coq invariant proof + differential correspondence check"),
}

def main():
    checks = []
    for pid, (cat, text, tech) in sorted(CHECKS.items()):
        checks.append({
            "property_id": pid,
            "quick_cmd": "./check %s --tier quick" % pid,
            "thorough_cmd": "./check %s --tier thorough" % pid,
            "evidence_file": "/verif/evidence/%s.json" % pid,
            "replay_cmd_template": "./check %s --replay {path}" % pid,
            "engine": "coq-model+correspondence",
            "level_claimed": {"category": cat, "text": text, "design_ref": "DESIGN.md section 5 (%s)" % pid},
            "level_note": LEVEL_NOTE,
            "technique": tech,
        })
    allp = ["C%02d" % i for i in range(1, 21)]
    na = [{"property_id": p, "reason": "check not built yet (work in progress; every property has an executable-model formulation, see DESIGN.md)"}
          for p in allp if p not in CHECKS]
    man = {
        "version": 1,
        "setup_cmd": "./lib/build.sh all",
        "hooks": {
            "guard": "--cfg callbag_verif",
            "enable": "RUSTFLAGS='--cfg callbag_verif' cargo build --offline (harness variant 'hooked', lib/build.sh harness hooked)",
            "baseline_off_cmd": "cd /repo && cargo nextest run --workspace --no-fail-fast --tool-config-file pb:/w/lib/nextest.toml --profile pb --test-threads 8 --offline || cargo test --workspace --no-fail-fast --offline",
            "source_commits": [],
            "add_only": True,
        },
        "engines": [{
            "name": "coq-model+correspondence",
            "path": "/verif/check",
            "serves_properties": sorted(CHECKS.keys()),
            "kind_free_text": "Coq 8.16 invariant proofs over a hand-written executable model (coq/theories), extracted to OCaml and compared with the real crate by a Rust harness on the same move scripts; extracted monitors run on the real traces",
        }],
        "checks": checks,
        "not_applicable": na,
        "notes": "Known findings: /verif/known_findings.json. fix: commits in /repo: ef0bdaa, a78b8de, 56aafc9 (see DESIGN.md section 6).",
    }
    json.dump(man, open("/verif/MANIFEST.json", "w"), indent=1)
    print("wrote MANIFEST.json with", len(checks), "checks")

if __name__ == "__main__":
    main()
