#!/usr/bin/env python3
"""regenerates seeded/README.md from seeded/*/meta.json"""
import json, os
V = os.path.dirname(os.path.dirname(os.path.abspath(__file__)))
rows = []
benign = []
for d in sorted(os.listdir(V + '/seeded')):
    p = '%s/seeded/%s/meta.json' % (V, d)
    if not os.path.exists(p):
        continue
    m = json.load(open(p))
    if d.startswith('benign'):
        benign.append('| %s | %s | %s |' % (d, m['what'], m['result']))
        continue
    res = []
    for l in m['checks_run_against_it']:
        if l.startswith('=='):
            res.append([l.split()[1], l.split('=')[-1], ''])
        elif l.startswith('re-run'):
            res.append([l.split(':')[0], '1', 'replay'])
        elif 'VIOLATION' in l and res:
            if 'no-failing-input-found' in l:
                res[-1][2] = res[-1][2] or 'nfi'
            else:
                res[-1][2] = 'replay'
    cell = ', '.join('%s:%s' % (a, ('caught(' + c + ')' if b == '1' else 'quiet')) for a, b, c in res)
    rows.append('| %s | %s | %s | %s |' % (d, m['property'], m.get('needs_to_manifest', '(round 1: see patch.diff)'), cell))
open(V + '/seeded/README.md', 'w').write("""# Seeded changes and which checks catch them

Each directory holds `patch.diff` (apply with `git -C /repo apply /verif/seeded/<id>/patch.diff`, undo with
`git -C /repo checkout -- .`), the demonstration test that fails with the change and passes without it, and
`meta.json` (`applies_to_repo_commit` where the patch is against an older /repo commit; what was run: both builds, the 61 baseline tests with the change, the demo with/without, the quick
checks).  `caught(replay)` = the check printed VIOLATION with a failing history replayed on the crate;
`caught(nfi)` = the correspondence broke but no monitor of that property rejected a crate trace
(`no-failing-input-found`); `quiet` = exit 0.  m* were written in round 1; n*, p* in round 2 by independent
sub-agents that saw only the property text and a scratch worktree (nothing from /verif).

| id | property | what it needs to manifest | quick checks run against it |
|---|---|---|---|
""" + '\n'.join(rows) + """

## Behaviour-preserving refactors (false-alarm tests)

| id | what | result |
|---|---|---|
""" + '\n'.join(benign) + "\n")
print(len(rows), "rows")
