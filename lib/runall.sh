#!/bin/bash
# run every registered quick (or $1=thorough) check and validate the evidence files
cd "$(dirname "$0")/.."
tier=${1:-quick}
fail=0
for i in $(seq -w 1 20); do
  p=C$i
  grep -q "\"property_id\": \"$p\"" MANIFEST.json || continue
  s=$(date +%s)
  out=$(./check $p --tier $tier 2>&1); rc=$?
  e=$(date +%s)
  echo "$p rc=$rc $((e-s))s $(echo "$out" | grep -c VIOLATION) violations"
  echo "$out" | grep "VIOLATION\|KNOWN-FINDING" | cut -c1-160
  [ $rc -ne 0 ] && fail=1
done
python3-vt - <<'PY'
import json, jsonschema, glob
sch = json.load(open('/root/.vp/EVIDENCE.schema.json'))
man = json.load(open('MANIFEST.json'))
jsonschema.validate(man, json.load(open('/root/.vp/MANIFEST.schema.json')))
for c in man['checks']:
    e = json.load(open(c['evidence_file']))
    jsonschema.validate(e, sch)
    assert e['level'] == c['level_claimed']['category'], (c['property_id'], e['level'])
    cov = e['coverage']
    if e['level'] == 'proof':
        assert cov['obligations'] == cov['discharged'] >= 1, (c['property_id'], cov['obligations'], cov['discharged'])
print("evidence ok")
PY
exit $fail
