#!/usr/bin/env python3
"""Fingerprints of the operator sources of the pinned tree (coq/SOURCE_FINGERPRINTS.json).  A check uses them
only to decide WHERE to look harder: a component whose source file differs from the pinned one gets a deeper
exhaustive enumeration and more random scripts.  A differing fingerprint is never an alarm by itself."""
import hashlib, json, os, re, sys
V = os.path.dirname(os.path.dirname(os.path.abspath(__file__)))


def norm(src):
    src = re.sub(r"//[^\n]*", "", src)                 # line comments (incl. doc comments)
    src = re.sub(r"/\*.*?\*/", "", src, flags=re.S)
    return re.sub(r"\s+", "", src)


def fingerprints(repo):
    out = {}
    d = repo + "/src"
    for root, _, files in os.walk(d):
        for f in sorted(files):
            if f.endswith(".rs"):
                p = os.path.join(root, f)
                out[os.path.relpath(p, d)] = hashlib.sha256(norm(open(p).read()).encode()).hexdigest()
    return out


def changed_files(repo):
    try:
        pinned = json.load(open(V + "/coq/SOURCE_FINGERPRINTS.json"))
    except Exception:
        return None
    now = fingerprints(repo)
    return sorted(f for f in set(pinned) | set(now) if pinned.get(f) != now.get(f))


if __name__ == "__main__":
    repo = sys.argv[1] if len(sys.argv) > 1 else "/repo"
    json.dump(fingerprints(repo), open(V + "/coq/SOURCE_FINGERPRINTS.json", "w"), indent=1, sort_keys=True)
    print("fingerprinted", len(fingerprints(repo)), "files of", repo)
