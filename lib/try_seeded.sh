#!/bin/bash
# try_seeded.sh <patch.diff> <prop> [more props...]: apply the patch to /repo, run the quick checks, undo.
set -u
patch=$1; shift
cd /repo && git status --short | grep -q . && { echo "/repo not clean"; exit 2; }
git -C /repo apply "$patch" || { echo "patch does not apply"; exit 2; }
cd /verif
# the checks rewrite evidence/<P>.json; what they write about a patched tree must not stay there
keep=$(mktemp -d); cp -a evidence/. "$keep"/
trap 'git -C /repo checkout -- . ; git -C /repo status --short; rm -rf /verif/evidence; mkdir /verif/evidence; cp -a "$keep"/. /verif/evidence/; rm -rf "$keep"; (cd /verif && for v in plain hooked tracing subscriber; do ./lib/build.sh harness $v >/dev/null 2>&1; done)' EXIT
for P in "$@"; do
  out=$(./check $P --tier quick 2>&1); rc=$?
  echo "== $P exit=$rc"; echo "$out" | grep -E "VIOLATION|KNOWN" | cut -c1-170
done
