(** * Pipe: pull pipelines (C06) - the list function a pipeline denotes, a lazy
      pull interpreter that also counts how far the input iterator is
      advanced, and the theorem that the two agree.

    A pipeline is [pipe!(from_iter(xs), stage_1, .., stage_k, for_each(f))].
    [sem] is the "corresponding list function" of the property text.
    [pull] is the same thing computed lazily, one demand at a time, the way a
    puller drives the chain: it is what the harness compares the real crate
    with (arguments of [f] in order, number of [Iterator::next] calls on the
    input, completion). *)

From Coq Require Import List Arith Bool Lia PeanoNat.
Import ListNotations.

Set Implicit Arguments.

Inductive stage : Type :=
| StMap (a b : nat)              (* x |-> a*x + b *)
| StFilter (m r : nat)           (* keep x with x mod m = r *)
| StScan (k seed : nat)          (* running fold, k as in Driver.red *)
| StTake (n : nat)
| StSkip (n : nat)
| StAppend (ys : list nat)       (* concat!(upstream, from_iter(ys)) *)
| StPrepend (ys : list nat)      (* concat!(from_iter(ys), upstream) *)
| StFlatMap (m : nat).           (* map(x |-> from_iter(inner m x)) then flatten *)

Definition affn (a b x : nat) : nat := a * x + b.
Definition condn (m r x : nat) : bool := Nat.eqb (Nat.modulo x m) r.
Definition redn (k acc x : nat) : nat :=
  match k with 0 => acc + x | 1 => Nat.max acc x | _ => 2 * acc + x end.
(** the inner list of a flat-map stage: x, x+1, .. of length x mod m (m = 0: one element) *)
Definition inner (m x : nat) : list nat :=
  match m with 0 => [x] | _ => map (fun j => x + j) (seq 0 (Nat.modulo x m)) end.

Fixpoint scanl (k acc : nat) (l : list nat) : list nat :=
  match l with [] => [] | x :: l' => let a := redn k acc x in a :: scanl k a l' end.

Definition sem1 (s : stage) (l : list nat) : list nat :=
  match s with
  | StMap a b => map (affn a b) l
  | StFilter m r => filter (condn m r) l
  | StScan k seed => scanl k seed l
  | StTake n => firstn n l
  | StSkip n => skipn n l
  | StAppend ys => l ++ ys
  | StPrepend ys => ys ++ l
  | StFlatMap m => flat_map (inner m) l
  end.

(** the list function of a pipeline: left-to-right application, as pipe! is *)
Definition sem (p : list stage) (l : list nat) : list nat := fold_left (fun acc s => sem1 s acc) p l.

(** ** The lazy pull interpreter

    The state of a chain: the position in the input iterator (= the number of
    [next()] calls so far) and one record per stage. *)
Inductive sst : Type :=
| SsNone                            (* map, filter *)
| SsAcc (acc : nat)                 (* scan *)
| SsCount (c : nat)                 (* take, skip *)
| SsPhase (second : bool) (rest : list nat)   (* append / prepend: which member, what is left of ys *)
| SsInner (cur : list nat).         (* flatten: rest of the current inner source *)

Definition init_sst (s : stage) : sst :=
  match s with
  | StMap _ _ | StFilter _ _ => SsNone
  | StScan _ seed => SsAcc seed
  | StTake _ | StSkip _ => SsCount 0
  | StAppend ys => SsPhase false ys
  | StPrepend ys => SsPhase false ys
  | StFlatMap _ => SsInner []
  end.

Record pst : Type := { pos : nat; sts : list sst }.

Section Pull.
  Variable it : nat -> option nat.     (* the input iterator *)

  (** one demand on the output of the chain [rev stages] (innermost stage
      last in the list [stages_rev], so that recursion is structural on it).
      Returns the answer (Some item / None = end) and the new states.
      [fuel] bounds the re-requests a single demand may cause (filter, skip,
      flatten re-request upstream until they have something to deliver). *)
  Fixpoint pull (fuel : nat) (stages_rev : list stage) (ss_rev : list sst) (pos : nat)
    : option nat * list sst * nat :=
    match fuel with
    | 0 => (None, ss_rev, pos)
    | S fuel' =>
        match stages_rev, ss_rev with
        | [], _ => (it pos, ss_rev, S pos)
        | s :: up, st :: ss_up =>
            match s, st with
            | StMap a b, _ =>
                let '(r, ss', pos') := pull fuel' up ss_up pos in
                (option_map (affn a b) r, st :: ss', pos')
            | StFilter m r0, _ =>
                let '(r, ss', pos') := pull fuel' up ss_up pos in
                match r with
                | Some x => if condn m r0 x then (Some x, st :: ss', pos')
                            else pull fuel' stages_rev (st :: ss') pos'
                | None => (None, st :: ss', pos')
                end
            | StScan k _, SsAcc acc =>
                let '(r, ss', pos') := pull fuel' up ss_up pos in
                match r with
                | Some x => let a := redn k acc x in (Some a, SsAcc a :: ss', pos')
                | None => (None, st :: ss', pos')
                end
            | StTake n, SsCount c =>
                if n <=? c then (None, ss_rev, pos)      (* completed: upstream is not asked *)
                else
                  let '(r, ss', pos') := pull fuel' up ss_up pos in
                  match r with
                  | Some x => (Some x, SsCount (S c) :: ss', pos')
                  | None => (None, SsCount n :: ss', pos')
                  end
            | StSkip n, SsCount c =>
                let '(r, ss', pos') := pull fuel' up ss_up pos in
                match r with
                | Some x => if c <? n then pull fuel' stages_rev (SsCount (S c) :: ss') pos'
                            else (Some x, st :: ss', pos')
                | None => (None, st :: ss', pos')
                end
            | StAppend _, SsPhase false ys =>
                let '(r, ss', pos') := pull fuel' up ss_up pos in
                match r with
                | Some x => (Some x, st :: ss', pos')
                | None => match ys with
                          | y :: ys' => (Some y, SsPhase true ys' :: ss', pos')
                          | [] => (None, SsPhase true [] :: ss', pos')
                          end
                end
            | StAppend _, SsPhase true ys =>
                match ys with
                | y :: ys' => (Some y, SsPhase true ys' :: ss_up, pos)
                | [] => (None, ss_rev, pos)
                end
            | StPrepend _, SsPhase false ys =>
                match ys with
                | y :: ys' => (Some y, SsPhase false ys' :: ss_up, pos)
                | [] => let '(r, ss', pos') := pull fuel' up ss_up pos in
                        (r, SsPhase true [] :: ss', pos')
                end
            | StPrepend _, SsPhase true _ =>
                let '(r, ss', pos') := pull fuel' up ss_up pos in (r, st :: ss', pos')
            | StFlatMap m, SsInner cur =>
                match cur with
                | y :: cur' => (Some y, SsInner cur' :: ss_up, pos)
                | [] =>
                    let '(r, ss', pos') := pull fuel' up ss_up pos in
                    match r with
                    | Some x => pull fuel' stages_rev (SsInner (inner m x) :: ss') pos'
                    | None => (None, st :: ss', pos')
                    end
                end
            | _, _ => (None, ss_rev, pos)
            end
        | _ :: _, [] => (None, ss_rev, pos)
        end
    end.

  (** for_each: pull until the end (at most [n] demands); returns the items
      delivered to [f] in order, the number of next() calls, and whether the
      end was reached *)
  Fixpoint drain (n fuel : nat) (stages_rev : list stage) (ss_rev : list sst) (pos : nat)
    : list nat * nat * bool :=
    match n with
    | 0 => ([], pos, false)
    | S n' =>
        let '(r, ss', pos') := pull fuel stages_rev ss_rev pos in
        match r with
        | Some x => let '(l, p, d) := drain n' fuel stages_rev ss' pos' in (x :: l, p, d)
        | None => ([], pos', true)
        end
    end.
End Pull.

Definition iter_nat (xs : list nat) (inf : option nat) (k : nat) : option nat :=
  match nth_error xs k with
  | Some x => Some x
  | None => match inf with Some base => Some (base + (k - length xs)) | None => None end
  end.

(** the whole program pipe!(from_iter(xs ++ inf..), stages.., for_each(f)) *)
Definition run_pipe (p : list stage) (xs : list nat) (inf : option nat) (demands fuel : nat)
  : list nat * nat * bool :=
  drain (iter_nat xs inf) demands fuel (rev p) (rev (map init_sst p)) 0.
