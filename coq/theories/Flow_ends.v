(** * Flow_ends: the flow facts (Flow.v) of the two ends of a pipeline,
      for_each ([sink_flow]) and from_iter ([source_flow]). *)
From CB Require Import ProofLib Spec Flow MonitorSound.
From CB Require Inv_for_each Inv_from_iter.

Set Implicit Arguments.

(** ** How one step moves a pointwise field of the monitor state.

    [f] is a field of [mstate] indexed by a port ([sk], [us], [credit],
    [subd]) and [nx] says how one event moves it (for [sk] and [us] these
    are [sk_next] / [us_next] of MonitorSound.v).  A step appends the
    input (or [ERet]), observations, and the action's event; observations
    do not move any of these fields. *)
Section Proj.
  Variable p : mparams.
  Variable o : op.
  Variable A : Type.
  Variable f : mstate -> nat -> A.
  Variable nx : A -> nat -> event -> A.
  Hypothesis Hf : forall m ev s, f (mon_event p m ev) s = nx (f m s) s ev.
  Hypothesis Hobs : forall k s ob, nx k s (EObs ob) = k.

  Lemma proj_obs os : forall m s, f (fold_left (mon_event p) (map EObs os) m) s = f m s.
  Proof.
    induction os as [|ob os IH]; intros m s; cbn [map fold_left]; [reflexivity|].
    now rewrite IH, Hf, Hobs.
  Qed.

  Lemma proj_settle m os (a : act (Fr o)) s :
    f (ms_settle p o m os a) s = nx (f m s) s (act_event o a).
  Proof.
    unfold ms_settle. destruct a as [| |cl k]; cbn [act_event]; now rewrite Hf, proj_obs.
  Qed.

  Lemma proj_in (c : cfg o) i :
    dead c = false -> deliverable (ms c) i = true ->
    forall s' os a, handle o i (cst c) = (s', os, a) ->
    forall s, f (ms (step p c (MIn i))) s = nx (nx (f (ms c) s) s (EIn i)) s (act_event o a).
  Proof.
    intros Hlive Hdel s' os a Hh s.
    destruct (step_in p c i Hlive Hdel Hh) as (_ & _ & Hm & _).
    rewrite Hm, proj_settle. f_equal. exact (Hf (ms c) (EIn i) s).
  Qed.

  Lemma proj_ret (c : cfg o) k cl rest :
    dead c = false -> stack c = (k, cl) :: rest ->
    forall s' os a, resume o k (cst c) = (s', os, a) ->
    forall s, f (ms (step p c MRet)) s = nx (nx (f (ms c) s) s ERet) s (act_event o a).
  Proof.
    intros Hlive Hst s' os a Hr s.
    destruct (step_ret p c Hlive Hst Hr) as (_ & _ & Hm & _).
    rewrite Hm, proj_settle. f_equal. exact (Hf (ms c) ERet s).
  Qed.
End Proj.

(** the credit of sink [s] and the subscribed flag of sink [s] *)
Definition cr_next (n : nat) (s : nat) (ev : event) : nat :=
  match ev with
  | EIn (IUp s' UP) => if Nat.eqb s s' then pred n else n
  | ECall (CDn s' DH) => if Nat.eqb s s' then S n else n
  | ECall (CDn s' (DD _)) => if Nat.eqb s s' then S n else n
  | _ => n
  end.

Definition subd_next (b : bool) (s : nat) (ev : event) : bool :=
  match ev with
  | EIn (ISub s' _) => if Nat.eqb s s' then true else b
  | _ => b
  end.

Lemma credit_mon_event p m ev s : credit (mon_event p m ev) s = cr_next (credit m s) s ev.
Proof.
  destruct ev as [inp|c| | |ob|].
  - destruct inp as [s' [|aux]|s' [|e|]|i' [|v|e|]|s']; cbn; try reflexivity.
    unfold upd. destruct (Nat.eqb_spec s s'); subst; reflexivity.
  - cbn [mon_event]. rewrite add_viols_eq.
    destruct c as [i'|i' u|s' d].
    + reflexivity.
    + destruct u; reflexivity.
    + destruct d as [|v|e|]; cbn.
      * unfold upd. destruct (sk m s'); cbn; destruct (Nat.eqb_spec s s'); subst; reflexivity.
      * unfold upd. destruct (Nat.eqb_spec s s'); subst; reflexivity.
      * destruct (sk m s'), (err_due m s') as [e'|]; cbn;
          try destruct (Nat.eqb e e'); reflexivity.
      * destruct (sk m s'); reflexivity.
  - reflexivity.
  - cbn [mon_event]. destruct (cstack m); rewrite ?add_viols_eq; reflexivity.
  - destruct ob as [r|v|s' [|]|s']; reflexivity.
  - reflexivity.
Qed.

Lemma subd_mon_event p m ev s : subd (mon_event p m ev) s = subd_next (subd m s) s ev.
Proof.
  destruct ev as [inp|c| | |ob|].
  - destruct inp as [s' [|aux]|s' [|e|]|i' [|v|e|]|s']; cbn; try reflexivity;
      unfold upd; destruct (Nat.eqb s s'); reflexivity.
  - cbn [mon_event]. rewrite add_viols_eq.
    destruct c as [i'|i' u|s' d].
    + reflexivity.
    + destruct u; reflexivity.
    + destruct d as [|v|e|]; cbn.
      * destruct (sk m s'); reflexivity.
      * reflexivity.
      * destruct (sk m s'), (err_due m s') as [e'|]; cbn;
          try destruct (Nat.eqb e e'); reflexivity.
      * destruct (sk m s'); reflexivity.
  - reflexivity.
  - cbn [mon_event]. destruct (cstack m); rewrite ?add_viols_eq; reflexivity.
  - destruct ob as [r|v|s' [|]|s']; reflexivity.
  - reflexivity.
Qed.

(** the four fields the flow proofs read, after an input step and after a return step *)
Definition sk_in p o := @proj_in p o _ sk sk_next (sk_mon_event p) (fun _ _ _ => eq_refl).
Definition sk_ret p o := @proj_ret p o _ sk sk_next (sk_mon_event p) (fun _ _ _ => eq_refl).
Definition us_in p o := @proj_in p o _ us us_next (us_mon_event p) (fun _ _ _ => eq_refl).
Definition us_ret p o := @proj_ret p o _ us us_next (us_mon_event p) (fun _ _ _ => eq_refl).
Definition cr_in p o := @proj_in p o _ credit cr_next (credit_mon_event p) (fun _ _ _ => eq_refl).
Definition cr_ret p o := @proj_ret p o _ credit cr_next (credit_mon_event p) (fun _ _ _ => eq_refl).
Definition subd_in p o := @proj_in p o _ subd subd_next (subd_mon_event p) (fun _ _ _ => eq_refl).
Definition subd_ret p o := @proj_ret p o _ subd subd_next (subd_mon_event p) (fun _ _ _ => eq_refl).

(** ** The monitor's counters are the trace counts (every operator, every
    trace): [npull _ 0] counts [EIn (IUp 0 UP)], [ndata _ 0] counts
    [ECall (CDn 0 (DD _))]. *)
Lemma npull_mon_event p m ev : npull (mon_event p m ev) 0 = npull m 0 + pin [ev].
Proof.
  destruct ev as [inp|c| | |ob|].
  - destruct inp as [[|s'] [|aux]|[|s'] [|e|]|i' [|v|e|]|s']; cbn; lia.
  - cbn [mon_event]. rewrite add_viols_eq.
    destruct c as [i'|i' u|s' d].
    + cbn. lia.
    + destruct u; cbn; lia.
    + destruct d as [|v|e|]; cbn.
      * destruct (sk m s'); cbn; lia.
      * lia.
      * destruct (sk m s'), (err_due m s') as [e'|]; cbn;
          try destruct (Nat.eqb e e'); cbn; lia.
      * destruct (sk m s'); cbn; lia.
  - cbn. lia.
  - cbn [mon_event]. destruct (cstack m); rewrite ?add_viols_eq; cbn; lia.
  - destruct ob as [r|v|s' [|]|s']; cbn; lia.
  - cbn. lia.
Qed.

Lemma ndata_mon_event p m ev : ndata (mon_event p m ev) 0 = ndata m 0 + dout [ev].
Proof.
  destruct ev as [inp|c| | |ob|].
  - destruct inp as [s' [|aux]|s' [|e|]|i' [|v|e|]|s']; cbn; lia.
  - cbn [mon_event]. rewrite add_viols_eq.
    destruct c as [i'|i' u|[|s'] d].
    + cbn. lia.
    + destruct u; cbn; lia.
    + destruct d as [|v|e|]; cbn.
      * destruct (sk m 0); cbn; lia.
      * lia.
      * destruct (sk m 0), (err_due m 0) as [e'|]; cbn;
          try destruct (Nat.eqb e e'); cbn; lia.
      * destruct (sk m 0); cbn; lia.
    + destruct d as [|v|e|]; cbn.
      * destruct (sk m (S s')); cbn; lia.
      * lia.
      * destruct (sk m (S s')), (err_due m (S s')) as [e'|]; cbn;
          try destruct (Nat.eqb e e'); cbn; lia.
      * destruct (sk m (S s')); cbn; lia.
  - cbn. lia.
  - cbn [mon_event]. destruct (cstack m); rewrite ?add_viols_eq; cbn; lia.
  - destruct ob as [r|v|s' [|]|s']; cbn; lia.
  - cbn. lia.
Qed.

Lemma npull_mon_trace p tr : npull (mon_trace p tr) 0 = pin tr.
Proof.
  induction tr as [|ev tr IH] using rev_ind; [reflexivity|].
  now rewrite mon_trace_snoc, npull_mon_event, pin_app, IH.
Qed.

Lemma ndata_mon_trace p tr : ndata (mon_trace p tr) 0 = dout tr.
Proof.
  induction tr as [|ev tr IH] using rev_ind; [reflexivity|].
  now rewrite mon_trace_snoc, ndata_mon_event, dout_app, IH.
Qed.

Theorem reach_npull_pin p o g (c : cfg o) : reach p g c -> npull (ms c) 0 = pin (trace c).
Proof. intros Hr. rewrite (reach_ms_trace Hr). apply npull_mon_trace. Qed.
Print Assumptions reach_npull_pin.

Theorem reach_ndata_dout p o g (c : cfg o) : reach p g c -> ndata (ms c) 0 = dout (trace c).
Proof. intros Hr. rewrite (reach_ms_trace Hr). apply ndata_mon_trace. Qed.
Print Assumptions reach_ndata_dout.

(** ** (1) for_each *)
Section ForEachFlow.
  Variable p : mparams.
  Hypothesis Hns : nsinks p = 1.
  Hypothesis Hresub : resub p = false.
  Hypothesis Hc14 : c14 p = false.
  Let o := for_each_op.

  Record FInv (c : cfg o) : Prop := {
    fe_nostop : us (ms c) 0 <> UStopped;
    fe_subd : subd (ms c) 0 = true -> us (ms c) 0 <> UNone;
    fe_pulls : pout (trace c) = hin (trace c) + din (trace c);
  }.

  Lemma fe_reach c : reach p g_std c -> FInv c.
  Proof.
    induction 1 as [|c m Hr IH He]; [constructor; cbn; [discriminate|discriminate|reflexivity]|].
    pose proof (Inv_for_each.inv_reach Hns Hresub Hc14 Hr) as HI.
    pose proof (enabled_live _ _ _ _ He) as Hlive.
    destruct IH as [IH1 IH2 IH3].
    destruct m as [inp|].
    - pose proof (enabled_deliverable _ _ _ _ He) as Hdel.
      destruct (handle o inp (cst c)) as [[s' os] a] eqn:Hh.
      pose proof (us_in p c inp Hlive Hdel Hh 0) as Hus.
      pose proof (subd_in p c inp Hlive Hdel Hh 0) as Hsb.
      pose proof (step_in_trace p c inp Hlive Hdel Hh) as Ht.
      assert (Htb : forall v, inp = IDn 0 (DD v) -> cst c = true).
      { intros v ->. destruct HI. apply i_tb.
        eapply enabled_dn_live; [|exact He]. discriminate. }
      cbn in Hh.
      constructor; rewrite ?Hus, ?Hsb, ?Ht, ?pout_step, ?hin_step, ?din_step, ?IH3.
      all: destruct inp as [[|s] aux|[|s] u|[|i] [|v|e|]|s];
        try (rewrite (Htb _ eq_refl) in Hh);
        cbn in Hh; injection Hh as ? ? ?; subst s' os a; cbn; auto; try discriminate; try lia.
    - destruct (enabled_ret_stack _ _ _ He) as (k & cl & rest & Hst).
      assert (Hres : resume o k (cst c) = (cst c, [], ARet)) by reflexivity.
      pose proof (us_ret p c Hlive Hst Hres 0) as Hus.
      pose proof (subd_ret p c Hlive Hst Hres 0) as Hsb.
      pose proof (step_ret_trace p c Hlive Hst Hres) as Ht.
      constructor; rewrite ?Hus, ?Hsb, ?Ht, ?pout_step, ?hin_step, ?din_step, ?IH3; cbn; auto; lia.
  Qed.

  Lemma fe_calls : calls_sat only_up o.
  Proof.
    split.
    - intros i s s' os c k Hh. cbn in Hh.
      destruct i as [[|s0] aux|[|s0] u|[|i] [|v|e|]|s0]; try destruct s;
        inversion Hh; subst; unfold only_up; eauto.
    - intros fr s s' os c k Hh. cbn in Hh. discriminate.
  Qed.
End ForEachFlow.

Theorem for_each_sink_flow p :
  nsinks p = 1 -> resub p = false -> no_nest p = false -> c14 p = false ->
  sink_flow for_each_op p.
Proof.
  intros H1 H2 H3 H4. constructor.
  - intros c Hr. exact (fe_pulls (fe_reach H1 H2 H4 Hr)).
  - intros c Hr. exact (fe_nostop (fe_reach H1 H2 H4 Hr)).
  - intros c Hr. exact (fe_subd (fe_reach H1 H2 H4 Hr)).
  - exact fe_calls.
Qed.
Print Assumptions for_each_sink_flow.

(** ** (2) from_iter, when the sink sends at most one Pull per message received *)
Section FromIterFlow.
  Variable it : nat -> option val.
  Variable p : mparams.
  Hypothesis Hns : nsinks p = 1.
  Hypothesis Hc14 : c14 p = false.
  Hypothesis Hone : one_pull p = true.
  Notation o := (from_iter_op it).

  Definition flag (b : bool) : nat := if b then 1 else 0.

  (** the counting invariant of Inv_from_iter_pull.v, over the trace counts:
      while the sink is live a Pull is answered or pending in the flag, and the
      sink has had one message more than it sent Pulls, less its credit *)
  Record SInv (c : cfg o) : Prop := {
    s_zero : sk (ms c) 0 = SNone ->
             credit (ms c) 0 = 0 /\ pin (trace c) = 0 /\ dout (trace c) = 0;
    s_gp : sk (ms c) 0 = SLive -> fi_in_loop (cst c) = false -> fi_got_pull (cst c) = false;
    s_cnt : sk (ms c) 0 = SLive ->
            dout (trace c) + flag (fi_got_pull (cst c)) = pin (trace c) /\
            credit (ms c) 0 + pin (trace c) = S (dout (trace c));
  }.

  Lemma sinv_over (c : cfg o) : sk_over (sk (ms c) 0) = true -> SInv c.
  Proof.
    intros H. constructor; intros E; rewrite E in H; discriminate.
  Qed.

  Lemma over_in (c : cfg o) i :
    enabled p g_std c (MIn i) = true ->
    sk_over (sk_next (sk (ms c) 0) 0 (EIn i)) = true -> SInv (step p c (MIn i)).
  Proof.
    intros He Hov.
    pose proof (enabled_live _ _ _ _ He) as Hlive.
    pose proof (enabled_deliverable _ _ _ _ He) as Hdel.
    destruct (handle o i (cst c)) as [[s' os] a] eqn:Hh.
    apply sinv_over. rewrite (sk_in p c i Hlive Hdel Hh 0). now apply sk_next_over.
  Qed.

  Lemma over_ret (c : cfg o) :
    enabled p g_std c MRet = true -> sk_over (sk (ms c) 0) = true -> SInv (step p c MRet).
  Proof.
    intros He Hov.
    pose proof (enabled_live _ _ _ _ He) as Hlive.
    destruct (enabled_ret_stack _ _ _ He) as (k & cl & rest & Hst).
    destruct (resume o k (cst c)) as [[s' os] a] eqn:Hres.
    apply sinv_over. rewrite (sk_ret p c Hlive Hst Hres 0). now apply sk_next_over.
  Qed.

  Ltac done_ :=
    intros; try discriminate;
    repeat match goal with
           | H : ?A -> _, H' : ?A |- _ => specialize (H H')
           | H : _ /\ _ |- _ => destruct H
           end;
    unfold flag in *; cbn in *;
    try (repeat split; (lia || congruence || assumption)).

  (** after an input step whose [handle] is known: every field of [SInv] as an
      expression over the old configuration *)
  Ltac after_in c i Hlive Hdel Hh Esk :=
    let Hc := fresh "Hc" in let Hsk := fresh "Hsk" in let Hcr := fresh "Hcr" in
    let Ht := fresh "Ht" in
    destruct (step_in p c i Hlive Hdel Hh) as (Hc & _);
    pose proof (sk_in p c i Hlive Hdel Hh 0) as Hsk;
    pose proof (cr_in p c i Hlive Hdel Hh 0) as Hcr;
    pose proof (step_in_trace p c i Hlive Hdel Hh) as Ht;
    rewrite Esk in Hsk; cbn in Hsk; cbn in Hcr.

  Ltac after_ret c Hlive Hst Hres Esk :=
    let Hc := fresh "Hc" in let Hsk := fresh "Hsk" in let Hcr := fresh "Hcr" in
    let Ht := fresh "Ht" in
    destruct (step_ret p c Hlive Hst Hres) as (Hc & _);
    pose proof (sk_ret p c Hlive Hst Hres 0) as Hsk;
    pose proof (cr_ret p c Hlive Hst Hres 0) as Hcr;
    pose proof (step_ret_trace p c Hlive Hst Hres) as Ht;
    rewrite Esk in Hsk; cbn in Hsk; cbn in Hcr.

  Lemma si_reach (c : cfg o) : reach p g_std c -> SInv c.
  Proof.
    induction 1 as [|c m Hr IH He].
    { constructor; cbn; intros; try discriminate; auto. }
    pose proof (Inv_from_iter.inv_reach Hns Hc14 Hr) as HI.
    pose proof (Inv_from_iter.i_shape HI) as Hshape.
    pose proof (Inv_from_iter.i_subd HI) as Hsubd.
    pose proof (Inv_from_iter.i_compl HI) as Hcompl.
    pose proof (Inv_from_iter.i_rdone HI) as Hrdone.
    pose proof (Inv_from_iter.i_us HI) as Hus.
    pose proof (Inv_from_iter.i_sk_other HI) as Hsko.
    pose proof (Inv_from_iter.i_task HI) as Htask.
    clear HI. destruct IH as [IZ IG IC].
    destruct m as [[s aux|s u|i d|s]|].
    - (* the sink subscribes: greeted from inside *)
      start_in He Hlive Hdel Hg.
      cbn in He, Hg. rewrite Hns in He. destruct aux; [|discriminate].
      destruct (at_top c) eqn:Htop; cbn in He; try discriminate.
      destruct s; cbn in He; try discriminate.
      apply negb_true_iff in He. rewrite He in Hsubd.
      destruct (sk (ms c) 0) eqn:Esk; try discriminate.
      destruct (IZ eq_refl) as (Hcr0 & Hpi0 & Hdo0).
      assert (Hh : handle o (ISub 0 0) (cst c) =
                   ({| fi_pos := 0; fi_in_loop := false; fi_got_pull := false;
                       fi_completed := false; fi_res_done := false |},
                    [], ACall (CDn 0 DH) FiDone)) by reflexivity.
      after_in c (ISub 0 0) Hlive Hdel Hh Esk.
      constructor; rewrite ?Hc, ?Hsk, ?Hcr, ?Ht, ?pin_step, ?dout_step; cbn; done_.
    - (* the sink uses the talkback *)
      pose proof He as He0.
      start_in He Hlive Hdel Hg.
      cbn -[Nat.ltb] in He. apply andb_prop in He. destruct He as [He Hu].
      apply andb_prop in He. destruct He as [Htop Hsk0].
      destruct s as [|s]; [|rewrite Hsko in Hsk0 by lia; discriminate].
      destruct (sk (ms c) 0) eqn:Esk; try discriminate.
      destruct u as [|e|].
      2,3: apply over_in; [exact He0 | rewrite Esk; reflexivity].
      rewrite Hone in Hu. cbn -[Nat.ltb] in Hu. apply Nat.ltb_lt in Hu.
      specialize (IG eq_refl). destruct (IC eq_refl) as [Hn Hco]. clear IC IZ.
      destruct (cst c) as [pos il gp cp rd] eqn:Ecst. cbn -[Nat.ltb] in *. subst cp rd.
      destruct Hshape as (b & Hb & [(Hil & Hst) | [(Hil & Hk & v0 & Hst) | (Hil & Hk & Hst)]]);
        try discriminate; subst il.
      + (* no loop is running: no Pull is pending; run the loop *)
        specialize (IG eq_refl). subst gp. unfold flag in Hn.
        destruct (it pos) as [v|] eqn:Eit.
        * assert (Hh : handle o (IUp 0 UP) (cst c) =
                       ({| fi_pos := S pos; fi_in_loop := true; fi_got_pull := false;
                           fi_completed := false; fi_res_done := false |},
                        [ONext (Some v)], ACall (CDn 0 (DD v)) FiLoop)).
          { rewrite Ecst. cbn. unfold fi_loop. cbn. now rewrite Eit. }
          after_in c (IUp 0 UP) Hlive Hdel Hh Esk.
          constructor; rewrite ?Hc, ?Hsk, ?Hcr, ?Ht, ?pin_step, ?dout_step; cbn; done_.
        * assert (Hh : handle o (IUp 0 UP) (cst c) =
                       ({| fi_pos := S pos; fi_in_loop := true; fi_got_pull := false;
                           fi_completed := false; fi_res_done := true |},
                        [ONext None], ACall (CDn 0 DT) FiAfterBreak)).
          { rewrite Ecst. cbn. unfold fi_loop. cbn. now rewrite Eit. }
          after_in c (IUp 0 UP) Hlive Hdel Hh Esk.
          apply sinv_over. now rewrite Hsk.
      + (* inside the Data delivery of the running loop: only the flag.  The sink
           has a credit, so the flag is not yet set: no coalescing *)
        assert (Hgp : gp = false).
        { destruct gp; [|reflexivity]. unfold flag in Hn. lia. }
        subst gp. unfold flag in Hn.
        assert (Hh : handle o (IUp 0 UP) (cst c) =
                     ({| fi_pos := pos; fi_in_loop := true; fi_got_pull := true;
                         fi_completed := false; fi_res_done := false |}, [], ARet))
          by (rewrite Ecst; reflexivity).
        after_in c (IUp 0 UP) Hlive Hdel Hh Esk.
        constructor; rewrite ?Hc, ?Hsk, ?Hcr, ?Ht, ?pin_step, ?dout_step; cbn; done_.
    - (* there is no upstream *)
      exfalso. start_in He Hlive Hdel Hg.
      cbn in He. apply andb_prop in He. destruct He as [_ He].
      rewrite Hus in He. destruct d; cbn in He; discriminate.
    - exfalso. unfold enabled in He.
      repeat (apply andb_prop in He; destruct He as [? He]).
      cbn in He. now rewrite Htask in He.
    - (* a delivery returns *)
      pose proof (enabled_live _ _ _ _ He) as Hlive.
      destruct (enabled_ret_stack _ _ _ He) as (k & cl & rest & Hst0).
      destruct (sk (ms c) 0) eqn:Esk.
      3,4: apply over_ret; [exact He | rewrite Esk; reflexivity].
      + (* not greeted: nothing is pending *)
        exfalso. pose proof (Inv_from_iter.i_none (Inv_from_iter.inv_reach Hns Hc14 Hr)) as Hn.
        rewrite Esk in Hn. destruct (Hn eq_refl) as [Hn1 _]. rewrite Hn1 in Hst0. discriminate.
      + specialize (IG eq_refl). destruct (IC eq_refl) as [Hn Hco]. clear IC IZ.
        destruct Hshape as (b & Hb & [(Hil & Hst) | [(Hil & Hk & v0 & Hst) | (Hil & Hk & Hst)]]);
          try discriminate.
        * (* the subscribing activation returns from the Handshake delivery *)
          destruct Hb as [-> | ->]; rewrite Hst in Hst0; [discriminate|].
          assert (Hres : resume o FiDone (cst c) = (cst c, [], ARet)) by reflexivity.
          after_ret c Hlive Hst Hres Esk.
          constructor; rewrite ?Hc, ?Hsk, ?Hcr, ?Ht, ?pin_step, ?dout_step; cbn; done_.
        * (* back at the while condition after a Data delivery *)
          rewrite Hst in Hst0. inversion Hst0; subst k cl rest.
          destruct (cst c) as [pos il gp cp rd] eqn:Ecst. cbn in *. subst il cp rd.
          destruct gp.
          -- (* one more iteration: the pending Pull is answered *)
             destruct (it pos) as [v|] eqn:Eit.
             ++ assert (Hres : resume o FiLoop (cst c) =
                       ({| fi_pos := S pos; fi_in_loop := true; fi_got_pull := false;
                           fi_completed := false; fi_res_done := false |},
                        [ONext (Some v)], ACall (CDn 0 (DD v)) FiLoop)).
                { rewrite Ecst. cbn. unfold fi_loop. cbn. now rewrite Eit. }
                after_ret c Hlive Hst Hres Esk.
                constructor; rewrite ?Hc, ?Hsk, ?Hcr, ?Ht, ?pin_step, ?dout_step; cbn; done_.
             ++ assert (Hres : resume o FiLoop (cst c) =
                       ({| fi_pos := S pos; fi_in_loop := true; fi_got_pull := false;
                           fi_completed := false; fi_res_done := true |},
                        [ONext None], ACall (CDn 0 DT) FiAfterBreak)).
                { rewrite Ecst. cbn. unfold fi_loop. cbn. now rewrite Eit. }
                after_ret c Hlive Hst Hres Esk.
                apply sinv_over. now rewrite Hsk.
          -- (* leave the loop: no Pull is pending *)
             assert (Hres : resume o FiLoop (cst c) =
                     ({| fi_pos := pos; fi_in_loop := false; fi_got_pull := false;
                         fi_completed := false; fi_res_done := false |}, [], ARet)).
             { rewrite Ecst. reflexivity. }
             after_ret c Hlive Hst Hres Esk.
             constructor; rewrite ?Hc, ?Hsk, ?Hcr, ?Ht, ?pin_step, ?dout_step; cbn; done_.
  Qed.

  Lemma fi_served (c : cfg o) :
    reach p g_std c -> stack c = [] -> sk (ms c) 0 = SLive -> pin (trace c) = dout (trace c).
  Proof.
    intros Hr Hst Hl.
    pose proof (Inv_from_iter.i_shape (Inv_from_iter.inv_reach Hns Hc14 Hr)) as Hshape.
    destruct (si_reach Hr) as [_ IG IC].
    assert (Hil : fi_in_loop (cst c) = false).
    { destruct Hshape as (b & Hb & [(Hil & _) | [(_ & _ & v0 & Hs) | (_ & _ & Hs)]]);
        [exact Hil | rewrite Hst in Hs; discriminate | rewrite Hst in Hs; discriminate]. }
    destruct (IC Hl) as [Hn _]. rewrite (IG Hl Hil) in Hn. unfold flag in Hn. lia.
  Qed.

  Lemma fi_calls : calls_sat only_dn o.
  Proof.
    split.
    - intros i s s' os c k Hh. cbn in Hh. unfold only_dn.
      destruct i as [[|s0] aux|[|s0] [|e|]|i d|s0]; cbn in Hh; unfold fi_loop in Hh; cbn in Hh;
        repeat match type of Hh with
               | context [if ?b then _ else _] => destruct b; cbn in Hh
               | context [match it ?n with _ => _ end] => destruct (it n); cbn in Hh
               end;
        inversion Hh; subst; eauto.
    - intros fr s s' os c k Hh. cbn in Hh. unfold only_dn.
      destruct fr; cbn in Hh; unfold fi_loop in Hh; cbn in Hh;
        repeat match type of Hh with
               | context [if ?b then _ else _] => destruct b; cbn in Hh
               | context [match it ?n with _ => _ end] => destruct (it n); cbn in Hh
               end;
        inversion Hh; subst; eauto.
  Qed.
End FromIterFlow.

Theorem from_iter_source_flow (it : nat -> option val) p :
  nsinks p = 1 -> resub p = false -> no_nest p = true -> c14 p = false -> one_pull p = true ->
  source_flow (from_iter_op it) p.
Proof.
  intros H1 _ _ H4 H5. constructor.
  - intros c Hr Hst Hl. exact (fi_served H1 H4 H5 Hr Hst Hl).
  - apply fi_calls.
Qed.
Print Assumptions from_iter_source_flow.

(** ** Non-vacuity: conformant scripts of the two regimes that end at rest with the
    counts the records speak about *)
Module FlowEndsSanity.
  Definition pk : mparams :=
    {| nsinks := 1; late_ok := false; pullable := false; one_pull := false;
       resub := false; no_nest := false; c14 := false |}.
  Definition k_script : list move :=
    [MIn (ISub 0 0); MIn (IDn 0 DH); MIn (IDn 0 (DD (VN 1))); MIn (IDn 0 (DD (VN 2)));
     MIn (IDn 0 DT); MRet; MRet; MRet; MRet].
  Example k_ok :
    all_enabled pk g_std (cfg0 for_each_op) k_script = true /\
    let c := run pk for_each_op k_script in
    stack c = [] /\ pout (trace c) = 3 /\ hin (trace c) = 1 /\ din (trace c) = 2 /\
    us (ms c) 0 = UEnded /\ subd (ms c) 0 = true.
  Proof. vm_compute. repeat split; reflexivity. Qed.

  Definition ex_it (k : nat) : option val := if k <? 2 then Some (VN k) else None.
  Definition pr : mparams :=
    {| nsinks := 1; late_ok := false; pullable := false; one_pull := true;
       resub := false; no_nest := true; c14 := false |}.
  Definition r_script : list move :=
    [MIn (ISub 0 0); MIn (IUp 0 UP); MIn (IUp 0 UP); MRet; MRet; MRet].
  Example r_ok :
    all_enabled pr g_std (cfg0 (from_iter_op ex_it)) r_script = true /\
    let c := run pr (from_iter_op ex_it) r_script in
    stack c = [] /\ sk (ms c) 0 = SLive /\ pin (trace c) = 2 /\ dout (trace c) = 2.
  Proof. vm_compute. repeat split; reflexivity. Qed.

  (** [one_pull] is needed: without it two Pulls sent from inside one Data delivery are
      coalesced (served by one item), and the run rests with the sink live, 3 Pulls, 2 data *)
  Definition pr_many : mparams :=
    {| nsinks := 1; late_ok := false; pullable := false; one_pull := false;
       resub := false; no_nest := true; c14 := false |}.
  Definition coalescing_script : list move :=
    [MIn (ISub 0 0); MIn (IUp 0 UP); MIn (IUp 0 UP); MIn (IUp 0 UP); MRet; MRet; MRet].
  Example coalescing_without_one_pull :
    all_enabled pr_many g_std (cfg0 (from_iter_op ex_it)) coalescing_script = true /\
    let c := run pr_many (from_iter_op ex_it) coalescing_script in
    stack c = [] /\ sk (ms c) 0 = SLive /\ pin (trace c) = 3 /\ dout (trace c) = 2.
  Proof. vm_compute. repeat split; reflexivity. Qed.
End FlowEndsSanity.
