(** * Flow_ends: the flow facts (Flow.v) of the two ends of a pipeline,
      for_each ([sink_flow]) and from_iter ([source_flow]). *)
From CB Require Import ProofLib Spec Flow MonitorSound.
From CB Require Inv_for_each Inv_from_iter.

Set Implicit Arguments.

(** ** How one step moves a pointwise field of the monitor state.

    [f] is a field of [mstate] indexed by a port ([sk], [us], [credit],
    [subd]) and [nx] says how one event moves it (for [sk] and [us] these
    are [sk_next] / [us_next] of MonitorSound.v).  A step appends the
    input (or [ERet]), observations, and the action's event; observations
    do not move any of these fields. *)
Section Proj.
  Variable p : mparams.
  Variable o : op.
  Variable A : Type.
  Variable f : mstate -> nat -> A.
  Variable nx : A -> nat -> event -> A.
  Hypothesis Hf : forall m ev s, f (mon_event p m ev) s = nx (f m s) s ev.
  Hypothesis Hobs : forall k s ob, nx k s (EObs ob) = k.

  Lemma proj_obs os : forall m s, f (fold_left (mon_event p) (map EObs os) m) s = f m s.
  Proof.
    induction os as [|ob os IH]; intros m s; cbn [map fold_left]; [reflexivity|].
    now rewrite IH, Hf, Hobs.
  Qed.

  Lemma proj_settle m os (a : act (Fr o)) s :
    f (ms_settle p o m os a) s = nx (f m s) s (act_event o a).
  Proof.
    unfold ms_settle. destruct a as [| |cl k]; cbn [act_event]; now rewrite Hf, proj_obs.
  Qed.

  Lemma proj_in (c : cfg o) i :
    dead c = false -> deliverable (ms c) i = true ->
    forall s' os a, handle o i (cst c) = (s', os, a) ->
    forall s, f (ms (step p c (MIn i))) s = nx (nx (f (ms c) s) s (EIn i)) s (act_event o a).
  Proof.
    intros Hlive Hdel s' os a Hh s.
    destruct (step_in p c i Hlive Hdel Hh) as (_ & _ & Hm & _).
    rewrite Hm, proj_settle. f_equal. exact (Hf (ms c) (EIn i) s).
  Qed.

  Lemma proj_ret (c : cfg o) k cl rest :
    dead c = false -> stack c = (k, cl) :: rest ->
    forall s' os a, resume o k (cst c) = (s', os, a) ->
    forall s, f (ms (step p c MRet)) s = nx (nx (f (ms c) s) s ERet) s (act_event o a).
  Proof.
    intros Hlive Hst s' os a Hr s.
    destruct (step_ret p c Hlive Hst Hr) as (_ & _ & Hm & _).
    rewrite Hm, proj_settle. f_equal. exact (Hf (ms c) ERet s).
  Qed.
End Proj.

(** the credit of sink [s] and the subscribed flag of sink [s] *)
Definition cr_next (n : nat) (s : nat) (ev : event) : nat :=
  match ev with
  | EIn (IUp s' UP) => if Nat.eqb s s' then pred n else n
  | ECall (CDn s' DH) => if Nat.eqb s s' then S n else n
  | ECall (CDn s' (DD _)) => if Nat.eqb s s' then S n else n
  | _ => n
  end.

Definition subd_next (b : bool) (s : nat) (ev : event) : bool :=
  match ev with
  | EIn (ISub s' _) => if Nat.eqb s s' then true else b
  | _ => b
  end.

Lemma credit_mon_event p m ev s : credit (mon_event p m ev) s = cr_next (credit m s) s ev.
Proof.
  destruct ev as [inp|c| | |ob|].
  - destruct inp as [s' [|aux]|s' [|e|]|i' [|v|e|]|s']; cbn; try reflexivity.
    unfold upd. destruct (Nat.eqb_spec s s'); subst; reflexivity.
  - cbn [mon_event]. rewrite add_viols_eq.
    destruct c as [i'|i' u|s' d].
    + reflexivity.
    + destruct u; reflexivity.
    + destruct d as [|v|e|]; cbn.
      * unfold upd. destruct (sk m s'); cbn; destruct (Nat.eqb_spec s s'); subst; reflexivity.
      * unfold upd. destruct (Nat.eqb_spec s s'); subst; reflexivity.
      * destruct (sk m s'), (err_due m s') as [e'|]; cbn;
          try destruct (Nat.eqb e e'); reflexivity.
      * destruct (sk m s'); reflexivity.
  - reflexivity.
  - cbn [mon_event]. destruct (cstack m); rewrite ?add_viols_eq; reflexivity.
  - destruct ob as [r|v|s' [|]|s']; reflexivity.
  - reflexivity.
Qed.

Lemma subd_mon_event p m ev s : subd (mon_event p m ev) s = subd_next (subd m s) s ev.
Proof.
  destruct ev as [inp|c| | |ob|].
  - destruct inp as [s' [|aux]|s' [|e|]|i' [|v|e|]|s']; cbn; try reflexivity;
      unfold upd; destruct (Nat.eqb s s'); reflexivity.
  - cbn [mon_event]. rewrite add_viols_eq.
    destruct c as [i'|i' u|s' d].
    + reflexivity.
    + destruct u; reflexivity.
    + destruct d as [|v|e|]; cbn.
      * destruct (sk m s'); reflexivity.
      * reflexivity.
      * destruct (sk m s'), (err_due m s') as [e'|]; cbn;
          try destruct (Nat.eqb e e'); reflexivity.
      * destruct (sk m s'); reflexivity.
  - reflexivity.
  - cbn [mon_event]. destruct (cstack m); rewrite ?add_viols_eq; reflexivity.
  - destruct ob as [r|v|s' [|]|s']; reflexivity.
  - reflexivity.
Qed.

(** the four fields the flow proofs read, after an input step and after a return step *)
Definition sk_in p o := @proj_in p o _ sk sk_next (sk_mon_event p) (fun _ _ _ => eq_refl).
Definition sk_ret p o := @proj_ret p o _ sk sk_next (sk_mon_event p) (fun _ _ _ => eq_refl).
Definition us_in p o := @proj_in p o _ us us_next (us_mon_event p) (fun _ _ _ => eq_refl).
Definition us_ret p o := @proj_ret p o _ us us_next (us_mon_event p) (fun _ _ _ => eq_refl).
Definition cr_in p o := @proj_in p o _ credit cr_next (credit_mon_event p) (fun _ _ _ => eq_refl).
Definition cr_ret p o := @proj_ret p o _ credit cr_next (credit_mon_event p) (fun _ _ _ => eq_refl).
Definition subd_in p o := @proj_in p o _ subd subd_next (subd_mon_event p) (fun _ _ _ => eq_refl).
Definition subd_ret p o := @proj_ret p o _ subd subd_next (subd_mon_event p) (fun _ _ _ => eq_refl).
About sk_in. About sk_ret.

(** ** The monitor's counters are the trace counts (every operator, every
    trace): [npull _ 0] counts [EIn (IUp 0 UP)], [ndata _ 0] counts
    [ECall (CDn 0 (DD _))]. *)
Lemma npull_mon_event p m ev : npull (mon_event p m ev) 0 = npull m 0 + pin [ev].
Proof.
  destruct ev as [inp|c| | |ob|].
  - destruct inp as [[|s'] [|aux]|[|s'] [|e|]|i' [|v|e|]|s']; cbn; lia.
  - cbn [mon_event]. rewrite add_viols_eq.
    destruct c as [i'|i' u|s' d].
    + cbn. lia.
    + destruct u; cbn; lia.
    + destruct d as [|v|e|]; cbn.
      * destruct (sk m s'); cbn; lia.
      * lia.
      * destruct (sk m s'), (err_due m s') as [e'|]; cbn;
          try destruct (Nat.eqb e e'); cbn; lia.
      * destruct (sk m s'); cbn; lia.
  - cbn. lia.
  - cbn [mon_event]. destruct (cstack m); rewrite ?add_viols_eq; cbn; lia.
  - destruct ob as [r|v|s' [|]|s']; cbn; lia.
  - cbn. lia.
Qed.

Lemma ndata_mon_event p m ev : ndata (mon_event p m ev) 0 = ndata m 0 + dout [ev].
Proof.
  destruct ev as [inp|c| | |ob|].
  - destruct inp as [s' [|aux]|s' [|e|]|i' [|v|e|]|s']; cbn; lia.
  - cbn [mon_event]. rewrite add_viols_eq.
    destruct c as [i'|i' u|[|s'] d].
    + cbn. lia.
    + destruct u; cbn; lia.
    + destruct d as [|v|e|]; cbn.
      * destruct (sk m 0); cbn; lia.
      * lia.
      * destruct (sk m 0), (err_due m 0) as [e'|]; cbn;
          try destruct (Nat.eqb e e'); cbn; lia.
      * destruct (sk m 0); cbn; lia.
    + destruct d as [|v|e|]; cbn.
      * destruct (sk m (S s')); cbn; lia.
      * lia.
      * destruct (sk m (S s')), (err_due m (S s')) as [e'|]; cbn;
          try destruct (Nat.eqb e e'); cbn; lia.
      * destruct (sk m (S s')); cbn; lia.
  - cbn. lia.
  - cbn [mon_event]. destruct (cstack m); rewrite ?add_viols_eq; cbn; lia.
  - destruct ob as [r|v|s' [|]|s']; cbn; lia.
  - cbn. lia.
Qed.

Lemma npull_mon_trace p tr : npull (mon_trace p tr) 0 = pin tr.
Proof.
  induction tr as [|ev tr IH] using rev_ind; [reflexivity|].
  now rewrite mon_trace_snoc, npull_mon_event, pin_app, IH.
Qed.

Lemma ndata_mon_trace p tr : ndata (mon_trace p tr) 0 = dout tr.
Proof.
  induction tr as [|ev tr IH] using rev_ind; [reflexivity|].
  now rewrite mon_trace_snoc, ndata_mon_event, dout_app, IH.
Qed.

Theorem reach_npull_pin p o g (c : cfg o) : reach p g c -> npull (ms c) 0 = pin (trace c).
Proof. intros Hr. rewrite (reach_ms_trace Hr). apply npull_mon_trace. Qed.
Print Assumptions reach_npull_pin.

Theorem reach_ndata_dout p o g (c : cfg o) : reach p g c -> ndata (ms c) 0 = dout (trace c).
Proof. intros Hr. rewrite (reach_ms_trace Hr). apply ndata_mon_trace. Qed.
Print Assumptions reach_ndata_dout.

(** ** (1) for_each *)
Section ForEachFlow.
  Variable p : mparams.
  Hypothesis Hns : nsinks p = 1.
  Hypothesis Hresub : resub p = false.
  Hypothesis Hnonest : no_nest p = false.
  Hypothesis Hc14 : c14 p = false.
  Let o := for_each_op.

  Record FInv (c : cfg o) : Prop := {
    fe_nostop : us (ms c) 0 <> UStopped;
    fe_subd : subd (ms c) 0 = true -> us (ms c) 0 <> UNone;
    fe_pulls : pout (trace c) = hin (trace c) + din (trace c);
  }.

  Lemma fe_reach c : reach p g_std c -> FInv c.
  Proof.
    induction 1 as [|c m Hr IH He]; [constructor; cbn; [discriminate|discriminate|reflexivity]|].
    pose proof (Inv_for_each.inv_reach Hns Hresub Hc14 Hr) as HI.
    pose proof (enabled_live _ _ _ _ He) as Hlive.
    destruct IH as [IH1 IH2 IH3].
    destruct m as [inp|].
    - pose proof (enabled_deliverable _ _ _ _ He) as Hdel.
      destruct (handle o inp (cst c)) as [[s' os] a] eqn:Hh.
      pose proof (us_in p c inp Hlive Hdel Hh 0) as Hus.
      pose proof (subd_in p c inp Hlive Hdel Hh 0) as Hsb.
      pose proof (step_in_trace p c inp Hlive Hdel Hh) as Ht.
      assert (Htb : forall v, inp = IDn 0 (DD v) -> cst c = true).
      { intros v ->. destruct HI. apply i_tb.
        apply (enabled_dn_live _ _ _ _ _ ltac:(discriminate) He). }
      cbn in Hh.
      constructor; rewrite ?Hus, ?Hsb, ?Ht, ?pout_step, ?hin_step, ?din_step, ?IH3.
      all: destruct inp as [[|s] aux|[|s] u|[|i] [|v|e|]|s];
        try (rewrite (Htb _ eq_refl) in Hh);
        cbn in Hh; injection Hh as ? ? ?; subst s' os a; cbn; auto; try discriminate; try lia.
    - destruct (enabled_ret_stack _ _ _ He) as (k & cl & rest & Hst).
      assert (Hres : resume o k (cst c) = (cst c, [], ARet)) by reflexivity.
      pose proof (us_ret p c Hlive Hst Hres 0) as Hus.
      pose proof (subd_ret p c Hlive Hst Hres 0) as Hsb.
      pose proof (step_ret_trace p c Hlive Hst Hres) as Ht.
      constructor; rewrite ?Hus, ?Hsb, ?Ht, ?pout_step, ?hin_step, ?din_step, ?IH3; cbn; auto.
  Qed.

  Lemma fe_calls : calls_sat only_up o.
  Proof.
    split.
    - intros i s s' os c k Hh. cbn in Hh.
      destruct i as [[|s0] aux|[|s0] u|[|i] [|v|e|]|s0]; try destruct s;
        inversion Hh; subst; unfold only_up; eauto.
    - intros fr s s' os c k Hh. cbn in Hh. discriminate.
  Qed.
End ForEachFlow.

Theorem for_each_sink_flow p :
  nsinks p = 1 -> resub p = false -> no_nest p = false -> c14 p = false ->
  sink_flow for_each_op p.
Proof.
  intros H1 H2 H3 H4. constructor.
  - intros c Hr. exact (fe_pulls (fe_reach H1 H2 H3 H4 Hr)).
  - intros c Hr. exact (fe_nostop (fe_reach H1 H2 H3 H4 Hr)).
  - intros c Hr. exact (fe_subd (fe_reach H1 H2 H3 H4 Hr)).
  - exact fe_calls.
Qed.
Print Assumptions for_each_sink_flow.
