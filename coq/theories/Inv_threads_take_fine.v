(** * Inv_threads_take_fine: C19 for take(max) fed by any number of threads, over all schedules,
      at the granularity of every shared-state access ([tkf_step] of ThreadsFine.v)

    In [tk_step true max] (Inv_threads_take.v) the delivery that reaches [max] claims the end, stops the
    upstream and begins the sink's Terminate in one step.  In [tkf_step] the claim ([end.swap(true)]) and
    the rest (the load of the talkback cell, the upstream's Terminate, the sink's Terminate) are two steps:
    in between [tks_end] is set, nothing has been sent and [tks_stopped] is still false; the thread is at
    [TkAtEndStore].

    The invariant is the one of Inv_threads_take.v with one change: what has been sent is counted by
    [tks_stopped] (not by [tks_end]); [tks_stopped] implies [tks_end]; and [tks_end] without [tks_stopped]
    holds exactly while some thread - the holder of the last ticket - is at [TkAtEndStore]. *)

From CB Require Import Threads ThreadSpec ThreadsFine Inv_threads_take.
From Coq Require Import List Arith Lia Bool.
Import ListNotations.

Set Implicit Arguments.

(** ** reachability over all schedules *)

Inductive tkf_reach (max : nat) (qs : nat -> list val) : tk_state -> Prop :=
| tkfr0 : tkf_reach max qs (tk_init qs)
| tkfrS s t : tkf_reach max qs s -> tkf_reach max qs (tkf_step max s t).

Section TakeFineProof.
  Variable max : nat.
  Variable qs : nat -> list val.

  Local Notation hpc := (is_hpc max).

  Record finv (s : tk_state) : Prop := {
    f_taken : tks_taken s = count is_begin_data (tks_tr s);
    f_le : tks_taken s <= max;
    f_hmax : forall t, hpc (pc s t) = true -> tks_taken s = max;
    f_huniq : forall t1 t2, hpc (pc s t1) = true -> hpc (pc s t2) = true -> t1 = t2;
    (* the upstream's Terminate and the sink's Terminate are sent in the step that sets [tks_stopped] *)
    f_up : count is_up_term (tks_tr s) = b2n (tks_stopped s);
    f_bt : count is_begin_term (tks_tr s) = b2n (tks_stopped s);
    f_se : tks_stopped s = true -> tks_end s = true;
    (* the end is claimed and nothing has been sent: the claimant is before its cell load *)
    f_mid : tks_end s = true -> tks_stopped s = false -> exists t, pc s t = TkAtEndStore;
    f_done : 1 <= max -> tks_taken s = max -> tks_end s = true \/ exists t, hpc (pc s t) = true;
    f_term : forall t, pc s t = TkInTerm -> tks_stopped s = true;
    f_store : forall t, pc s t = TkAtEndStore -> tks_end s = true /\ tks_stopped s = false;
    f_noinc : forall t, pc s t <> TkAtInc;
    f_nopanic : existsb is_panic (tks_tr s) = false;
  }.

  (** a step of thread [t] (not at [TkAtEndStore]) that touches no shared cell and emits nothing that
      is counted *)
  Lemma finv_frame s s' t :
    finv s ->
    pc s t <> TkAtEndStore ->
    tks_taken s' = tks_taken s -> tks_end s' = tks_end s -> tks_stopped s' = tks_stopped s ->
    count is_begin_data (tks_tr s') = count is_begin_data (tks_tr s) ->
    count is_up_term (tks_tr s') = count is_up_term (tks_tr s) ->
    count is_begin_term (tks_tr s') = count is_begin_term (tks_tr s) ->
    existsb is_panic (tks_tr s') = existsb is_panic (tks_tr s) ->
    (forall t0, t0 <> t -> pc s' t0 = pc s t0) ->
    (hpc (pc s' t) = true -> hpc (pc s t) = true) ->
    (hpc (pc s t) = true -> hpc (pc s' t) = true \/ tks_end s = true) ->
    (pc s' t = TkInTerm -> tks_stopped s = true) ->
    pc s' t <> TkAtEndStore ->
    pc s' t <> TkAtInc ->
    finv s'.
  Proof.
    intros I Hns Ht He Hs Hd Hu Hb Hp Ho Hh1 Hh2 Htm Hst Hni.
    assert (Hh : forall t0, hpc (pc s' t0) = true -> hpc (pc s t0) = true).
    { intros t0 H. destruct (Nat.eq_dec t0 t) as [->|ne]; [auto|]. now rewrite Ho in H. }
    destruct I. constructor.
    - congruence.
    - lia.
    - intros t0 H. rewrite Ht. eauto.
    - intros t1 t2 H1 H2. eauto.
    - congruence.
    - congruence.
    - rewrite He, Hs. exact f_se0.
    - rewrite He, Hs. intros H1 H2. destruct (f_mid0 H1 H2) as [t0 H].
      exists t0. destruct (Nat.eq_dec t0 t) as [->|ne]; [contradiction|]. now rewrite Ho.
    - rewrite Ht, He. intros Hpos Hm. destruct (f_done0 Hpos Hm) as [H|[t0 H]]; [auto|].
      destruct (Nat.eq_dec t0 t) as [->|ne].
      + destruct (Hh2 H); eauto.
      + right. exists t0. now rewrite Ho.
    - intros t0 H. rewrite Hs. destruct (Nat.eq_dec t0 t) as [->|ne]; [auto|].
      rewrite Ho in H by exact ne. eauto.
    - intros t0 H. rewrite He, Hs. destruct (Nat.eq_dec t0 t) as [->|ne]; [contradiction|].
      rewrite Ho in H by exact ne. eauto.
    - intros t0. destruct (Nat.eq_dec t0 t) as [->|ne]; [auto|].
      rewrite Ho by exact ne. eauto.
    - congruence.
  Qed.

  Lemma finv_init : finv (tk_init qs).
  Proof.
    assert (Hn : forall t, hpc (pc (tk_init qs) t) = false).
    { intros t. unfold pc. cbn. destruct (init_pc (qs t)) as [-> | ->]; reflexivity. }
    assert (Hp : forall t p, hpc p = true -> pc (tk_init qs) t <> p).
    { intros t p H E. rewrite <- E, Hn in H. discriminate. }
    constructor; cbn [tk_init tks_taken tks_end tks_stopped tks_tr]; try reflexivity; try lia;
      try discriminate.
    - intros t H. rewrite Hn in H. discriminate.
    - intros t1 t2 H. rewrite Hn in H. discriminate.
    - intros t H. exfalso. revert H. now apply Hp.
    - intros t H. exfalso. revert H. now apply Hp.
    - intros t. unfold pc. cbn. destruct (init_pc (qs t)) as [-> | ->]; discriminate.
  Qed.

  Ltac frame I t Hns :=
    apply (@finv_frame _ _ t I Hns);
    [ reflexivity | reflexivity | reflexivity | reflexivity | reflexivity | reflexivity
    | reflexivity
    | let t0 := fresh "t0" in let ne := fresh "ne" in
      intros t0 ne; rewrite pc_other by exact ne; reflexivity
    | rewrite pc_same | rewrite pc_same | rewrite pc_same | rewrite pc_same | rewrite pc_same ].

  Ltac next_cases b th :=
    let E := fresh "E" in destruct (next_pc b th) as [E|E]; rewrite E.

  (** [end.swap(true)] finds the flag unset: the end is claimed, nothing is sent yet *)
  Lemma finv_end_claim s t :
    finv s -> pc s t = TkAtEndLoad -> tks_end s = false ->
    finv (tk_set (s <| tks_end := true |>) t (tks_th s t <| tk_pcv := TkAtEndStore |>)).
  Proof.
    intros I Epc Ee.
    assert (Hht : hpc (pc s t) = true) by (rewrite Epc; reflexivity).
    set (s' := tk_set _ _ _).
    assert (Ho : forall t0, t0 <> t -> pc s' t0 = pc s t0).
    { intros t0 ne. unfold s'. rewrite pc_other by exact ne. reflexivity. }
    assert (Hs : pc s' t = TkAtEndStore).
    { unfold s'. rewrite pc_same. reflexivity. }
    assert (Hh : forall t0, hpc (pc s' t0) = true -> t0 = t).
    { intros t0 H. destruct (Nat.eq_dec t0 t) as [|ne]; [assumption|].
      rewrite Ho in H by exact ne. exact (f_huniq I _ _ H Hht). }
    assert (Est : tks_stopped s = false).
    { destruct (tks_stopped s) eqn:E; [|reflexivity]. rewrite (f_se I E) in Ee. discriminate. }
    destruct I. constructor.
    + exact f_taken0.
    + exact f_le0.
    + intros t0 _. exact (f_hmax0 _ Hht).
    + intros t1 t2 H1 H2. apply Hh in H1, H2. congruence.
    + exact f_up0.
    + exact f_bt0.
    + intros _. reflexivity.
    + intros _ _. exists t. exact Hs.
    + intros _ _. left. reflexivity.
    + change (forall t0, pc s' t0 = TkInTerm -> tks_stopped s = true).
      intros t0 H. destruct (Nat.eq_dec t0 t) as [->|ne]; [congruence|].
      rewrite Ho in H by exact ne. eauto.
    + change (forall t0, pc s' t0 = TkAtEndStore -> true = true /\ tks_stopped s = false).
      intros t0 _. split; [reflexivity | exact Est].
    + intros t0. destruct (Nat.eq_dec t0 t) as [->|ne]; [congruence|].
      rewrite Ho by exact ne. eauto.
    + exact f_nopanic0.
  Qed.

  (** the claimant reads the cell, stops the upstream and completes the sink *)
  Lemma finv_end_now s t :
    finv s -> pc s t = TkAtEndStore -> finv (tk_end_now s t (tks_th s t)).
  Proof.
    intros I Epc.
    assert (Hht : hpc (pc s t) = true) by (rewrite Epc; reflexivity).
    destruct (f_store I _ Epc) as [Ee Est].
    unfold tk_end_now.
    set (s' := tk_set _ _ _).
    assert (Ho : forall t0, t0 <> t -> pc s' t0 = pc s t0).
    { intros t0 ne. unfold s'. rewrite pc_other by exact ne. reflexivity. }
    assert (Hs : pc s' t = TkInTerm).
    { unfold s'. rewrite pc_same. reflexivity. }
    assert (Hh : forall t0, hpc (pc s' t0) = true -> t0 = t).
    { intros t0 H. destruct (Nat.eq_dec t0 t) as [|ne]; [assumption|].
      rewrite Ho in H by exact ne. exact (f_huniq I _ _ H Hht). }
    destruct I. constructor.
    + change (tks_taken s = count is_begin_data ((t, TBegin DT) :: (t, TUp 0 UT) :: tks_tr s)).
      rewrite !count_cons. cbn -[count]. exact f_taken0.
    + exact f_le0.
    + intros t0 _. exact (f_hmax0 _ Hht).
    + intros t1 t2 H1 H2. apply Hh in H1, H2. congruence.
    + change (count is_up_term ((t, TBegin DT) :: (t, TUp 0 UT) :: tks_tr s) = 1).
      rewrite !count_cons. cbn -[count]. transitivity (S (b2n (tks_stopped s))); [f_equal; exact f_up0 | now rewrite Est].
    + change (count is_begin_term ((t, TBegin DT) :: (t, TUp 0 UT) :: tks_tr s) = 1).
      rewrite !count_cons. cbn -[count]. transitivity (S (b2n (tks_stopped s))); [f_equal; exact f_bt0 | now rewrite Est].
    + intros _. reflexivity.
    + change (true = true -> true = false -> exists t0, pc s' t0 = TkAtEndStore).
      intros _ H. discriminate H.
    + intros _ _. left. reflexivity.
    + intros t0 _. reflexivity.
    + intros t0 H. exfalso. destruct (Nat.eq_dec t0 t) as [->|ne]; [congruence|].
      rewrite Ho in H by exact ne.
      assert (E : hpc (pc s t0) = true) by (rewrite H; reflexivity).
      exact (ne (f_huniq0 _ _ E Hht)).
    + intros t0. destruct (Nat.eq_dec t0 t) as [->|ne]; [congruence|].
      rewrite Ho by exact ne. eauto.
    + change (existsb is_panic ((t, TBegin DT) :: (t, TUp 0 UT) :: tks_tr s) = false).
      cbn. assumption.
  Qed.

  (** the steps that [tkf_step] shares with [tk_step true max] *)
  Lemma finv_tk_step s t :
    finv s -> pc s t <> TkAtEndLoad -> pc s t <> TkAtEndStore -> finv (tk_step true max s t).
  Proof.
    intros I Hnl Hns. unfold tk_step.
    destruct (tk_pcv (tks_th s t)) eqn:Epc; fold (pc s t) in Epc.
    - (* TkAtLoad *)
      destruct (tk_q (tks_th s t)) as [|v q] eqn:Eq; [exact I|].
      destruct (Nat.ltb_spec (tks_taken s) max) as [Hlt|Hge].
      + (* a ticket is taken and the delivery begins *)
        assert (Hno : forall t0, hpc (pc s t0) = false).
        { intros t0. destruct (hpc (pc s t0)) eqn:E; [|reflexivity].
          apply (f_hmax I) in E. lia. }
        set (s' := tk_set _ _ _).
        assert (Ho : forall t0, t0 <> t -> pc s' t0 = pc s t0).
        { intros t0 ne. unfold s'. rewrite pc_other by exact ne. reflexivity. }
        assert (Hs : pc s' t = TkInData (S (tks_taken s))).
        { unfold s'. rewrite pc_same. reflexivity. }
        assert (Hh : forall t0, hpc (pc s' t0) = true -> t0 = t).
        { intros t0 H. destruct (Nat.eq_dec t0 t) as [|ne]; [assumption|].
          rewrite Ho, Hno in H by exact ne. discriminate. }
        destruct I. constructor.
        * change (S (tks_taken s) = count is_begin_data ((t, TBegin (DD v)) :: tks_tr s)).
          rewrite count_cons. cbn -[count]. f_equal. exact f_taken0.
        * change (S (tks_taken s) <= max). lia.
        * intros t0 H. pose proof (Hh _ H). subst t0. rewrite Hs in H. cbn [is_hpc] in H.
          apply Nat.eqb_eq in H. exact H.
        * intros t1 t2 H1 H2. apply Hh in H1, H2. congruence.
        * change (count is_up_term ((t, TBegin (DD v)) :: tks_tr s) = b2n (tks_stopped s)).
          rewrite count_cons. cbn -[count]. assumption.
        * change (count is_begin_term ((t, TBegin (DD v)) :: tks_tr s) = b2n (tks_stopped s)).
          rewrite count_cons. cbn -[count]. assumption.
        * exact f_se0.
        * change (tks_end s = true -> tks_stopped s = false -> exists t0, pc s' t0 = TkAtEndStore).
          intros H1 H2. destruct (f_mid0 H1 H2) as [t0 H]. exists t0.
          destruct (Nat.eq_dec t0 t) as [->|ne]; [congruence|]. now rewrite Ho.
        * change (1 <= max -> S (tks_taken s) = max -> tks_end s = true \/ exists t0, hpc (pc s' t0) = true).
          intros _ Hm. right. exists t. rewrite Hs. cbn [is_hpc]. now apply Nat.eqb_eq.
        * change (forall t0, pc s' t0 = TkInTerm -> tks_stopped s = true).
          intros t0 H. destruct (Nat.eq_dec t0 t) as [->|ne]; [congruence|].
          rewrite Ho in H by exact ne. eauto.
        * change (forall t0, pc s' t0 = TkAtEndStore -> tks_end s = true /\ tks_stopped s = false).
          intros t0 H. destruct (Nat.eq_dec t0 t) as [->|ne]; [congruence|].
          rewrite Ho in H by exact ne. eauto.
        * intros t0. destruct (Nat.eq_dec t0 t) as [->|ne]; [congruence|].
          rewrite Ho by exact ne. eauto.
        * change (existsb is_panic ((t, TBegin (DD v)) :: tks_tr s) = false).
          cbn. assumption.
      + (* take is full: the datum is dropped *)
        frame I t Hns; rewrite ?Epc; next_cases (tks_stopped s) (tks_th s t); cbn; auto; discriminate.
    - (* TkAtInc: not reachable in the repaired code *)
      exfalso. exact (f_noinc I _ Epc).
    - (* TkInData t' *)
      destruct (Nat.eqb_spec t' max) as [->|Hne].
      + frame I t Hns; rewrite ?Epc; cbn; auto; try discriminate.
        now rewrite Nat.eqb_refl.
      + frame I t Hns; rewrite ?Epc; next_cases (tks_stopped s) (tks_th s t); cbn; auto; try discriminate.
        all: apply Nat.eqb_neq in Hne; rewrite Hne; discriminate.
    - contradiction.
    - contradiction.
    - (* TkInTerm *)
      pose proof (f_se I (f_term I _ Epc)) as Ee.
      frame I t Hns; rewrite ?Epc; next_cases true (tks_th s t); cbn; auto; discriminate.
    - exact I.
  Qed.

  Lemma finv_step s t : finv s -> finv (tkf_step max s t).
  Proof.
    intros I. unfold tkf_step.
    destruct (tk_pcv (tks_th s t)) eqn:Epc; fold (pc s t) in Epc;
      try (apply finv_tk_step; [exact I | rewrite Epc; discriminate | rewrite Epc; discriminate]).
    - (* TkAtEndLoad: [end.swap(true)] *)
      assert (Hns : pc s t <> TkAtEndStore) by (rewrite Epc; discriminate).
      destruct (tks_end s) eqn:Ee.
      + frame I t Hns; rewrite ?Epc; next_cases (tks_stopped s) (tks_th s t); cbn; auto; discriminate.
      + now apply finv_end_claim.
    - (* TkAtEndStore: the cell load *)
      now apply finv_end_now.
  Qed.

  Lemma finv_reach s : tkf_reach max qs s -> finv s.
  Proof. induction 1; [apply finv_init | now apply finv_step]. Qed.

  (** *** C19, safety: never more than [max] data, never two upstream terminations,
      never two completions -- in every reachable state, for every [max] *)
  Theorem take_fine_safe s :
    tkf_reach max qs s ->
    count is_begin_data (tks_tr s) <= max
    /\ count is_up_term (tks_tr s) <= 1
    /\ count is_begin_term (tks_tr s) <= 1.
  Proof.
    intros R. destruct (finv_reach R). rewrite <- f_taken0, f_up0, f_bt0.
    destruct (tks_stopped s); cbn; lia.
  Qed.

  Theorem take_fine_no_panic s :
    tkf_reach max qs s -> existsb is_panic (tks_tr s) = false.
  Proof. intros R. exact (f_nopanic (finv_reach R)). Qed.

  (** the new intermediate state, as the task's hint words it: while a thread is before its cell load
      the end is claimed, the upstream is not stopped and nothing has been sent; otherwise the flag
      counts what has been sent *)
  Theorem take_fine_mid s t :
    tkf_reach max qs s -> pc s t = TkAtEndStore ->
    tks_end s = true /\ tks_stopped s = false
    /\ count is_up_term (tks_tr s) = 0 /\ count is_begin_term (tks_tr s) = 0
    /\ forall t0, pc s t0 = TkAtEndStore -> t0 = t.
  Proof.
    intros R H. destruct (finv_reach R). destruct (f_store0 _ H) as [Ee Es].
    rewrite f_up0, f_bt0, Es. repeat split; try assumption.
    intros t0 H0. apply f_huniq0; [rewrite H0 | rewrite H]; reflexivity.
  Qed.

  Theorem take_fine_not_mid s :
    tkf_reach max qs s -> (forall t, pc s t <> TkAtEndStore) ->
    tks_stopped s = tks_end s
    /\ count is_up_term (tks_tr s) = b2n (tks_end s)
    /\ count is_begin_term (tks_tr s) = b2n (tks_end s).
  Proof.
    intros R H. destruct (finv_reach R).
    assert (E : tks_stopped s = tks_end s).
    { destruct (tks_stopped s) eqn:Es; [symmetry; auto|].
      destruct (tks_end s) eqn:Ee; [|reflexivity].
      destruct (f_mid0 eq_refl eq_refl) as [t Ht]. destruct (H _ Ht). }
    rewrite f_up0, f_bt0, E. auto.
  Qed.

  (** *** C19, completion: once every thread has returned and [max] data were delivered,
      the upstream was terminated and the sink completed, exactly once each *)
  Theorem take_fine_complete s :
    1 <= max ->
    tkf_reach max qs s ->
    (forall t, tk_finished s t = true) ->
    max <= count is_begin_data (tks_tr s) ->
    count is_up_term (tks_tr s) = 1 /\ count is_begin_term (tks_tr s) = 1.
  Proof.
    intros Hpos R Hfin Hmax. destruct (finv_reach R).
    assert (Hnf : forall t p, pc s t = p -> p <> TkFinished -> False).
    { intros t p H Hp. specialize (Hfin t). unfold tk_finished in Hfin. unfold pc in H.
      rewrite H in Hfin. destruct p; try discriminate. now apply Hp. }
    rewrite f_up0, f_bt0. rewrite <- f_taken0 in Hmax.
    assert (Hm : tks_taken s = max) by lia.
    assert (Ee : tks_end s = true).
    { destruct (f_done0 Hpos Hm) as [H | [t H]]; [exact H|].
      exfalso. apply (Hnf t _ eq_refl). intros E. rewrite E in H. discriminate. }
    destruct (tks_stopped s) eqn:Es; [split; reflexivity|].
    exfalso. destruct (f_mid0 Ee eq_refl) as [t H]. apply (Hnf t _ H). discriminate.
  Qed.

  Corollary take_fine_check s :
    1 <= max ->
    tkf_reach max qs s ->
    (forall t, tk_finished s t = true) ->
    take_check max (rev (tks_tr s)) = [].
  Proof.
    intros Hpos R Hfin. unfold take_check.
    rewrite !count_rev, existsb_rev, (take_fine_no_panic R).
    destruct (take_fine_safe R) as (H1 & H2 & H3).
    rewrite (proj2 (Nat.leb_le _ _) H1), (proj2 (Nat.leb_le _ _) H2),
      (proj2 (Nat.leb_le _ _) H3).
    destruct (Nat.leb_spec max (count is_begin_data (tks_tr s))) as [Hle|Hlt]; [|reflexivity].
    destruct (take_fine_complete Hpos R Hfin Hle) as [-> ->]. reflexivity.
  Qed.

  (** *** what the driver executes is a reachable state *)
  Lemma tkf_run_sched_reach sch : forall s,
    tkf_reach max qs s -> tkf_reach max qs (run_sched (tkf_step max) tk_finished sch s).
  Proof.
    induction sch as [|t sch IH]; intros s R; [exact R|].
    cbn [run_sched]. apply IH. destruct (tk_finished s t); [exact R | now constructor].
  Qed.

  Lemma tkf_drain_threads_reach n fuel : forall s,
    tkf_reach max qs s -> tkf_reach max qs (drain_threads (tkf_step max) tk_finished n fuel s).
  Proof.
    induction fuel as [|f IH]; intros s R; [exact R|].
    cbn [drain_threads]. destruct (first_unfinished tk_finished n s); [|exact R].
    apply IH. now constructor.
  Qed.

  Lemma tkf_run_full_reach n sch fuel s :
    tkf_reach max qs s -> tkf_reach max qs (run_full (tkf_step max) tk_finished n sch fuel s).
  Proof. intros R. unfold run_full. now apply tkf_drain_threads_reach, tkf_run_sched_reach. Qed.

  Corollary take_fine_run_safe n sch fuel :
    let s := run_full (tkf_step max) tk_finished n sch fuel (tk_init qs) in
    count is_begin_data (tks_tr s) <= max
    /\ count is_up_term (tks_tr s) <= 1
    /\ count is_begin_term (tks_tr s) <= 1.
  Proof. apply take_fine_safe, tkf_run_full_reach. constructor. Qed.

  (** threads beyond the [n] the driver runs have empty queues and never start *)
  Lemma tkf_step_other s t t0 : t0 <> t -> tks_th (tkf_step max s t) t0 = tks_th s t0.
  Proof.
    intros ne. unfold tkf_step.
    destruct (tk_pcv (tks_th s t)) eqn:Epc; try (apply tk_step_other; exact ne).
    - destruct (tks_end s); unfold tk_set; cbn; now rewrite upd_other.
    - unfold tk_end_now, tk_set; cbn; now rewrite upd_other.
  Qed.

  Lemma tkf_empty_queue_finished s t :
    tkf_reach max qs s -> qs t = [] -> tk_finished s t = true.
  Proof.
    intros R Hq. induction R as [|s t0 R IH].
    - unfold tk_finished. cbn. now rewrite Hq.
    - destruct (Nat.eq_dec t t0) as [->|ne].
      + assert (E : tkf_step max s t0 = s); [|now rewrite E].
        unfold tk_finished in IH. unfold tkf_step, tk_step.
        destruct (tk_pcv (tks_th s t0)); try discriminate.
        destruct (tk_q (tks_th s t0)); reflexivity.
      + unfold tk_finished in *. now rewrite tkf_step_other.
  Qed.

  Theorem take_fine_driver_run n sch fuel :
    1 <= max ->
    (forall t, n <= t -> qs t = []) ->
    let s := run_full (tkf_step max) tk_finished n sch fuel (tk_init qs) in
    first_unfinished tk_finished n s = None ->
    take_check max (rev (tks_tr s)) = [].
  Proof.
    intros Hpos Hq s Hnone.
    assert (R : tkf_reach max qs s) by (apply tkf_run_full_reach; constructor).
    apply take_fine_check; [exact Hpos | exact R |].
    intros t. destruct (Nat.lt_ge_cases t n) as [Hlt|Hge].
    - now apply (first_unfinished_none _ Hnone).
    - apply (tkf_empty_queue_finished R). now apply Hq.
  Qed.

End TakeFineProof.

Print Assumptions take_fine_safe.
Print Assumptions take_fine_no_panic.
Print Assumptions take_fine_mid.
Print Assumptions take_fine_not_mid.
Print Assumptions take_fine_complete.
Print Assumptions take_fine_check.
Print Assumptions take_fine_run_safe.
Print Assumptions take_fine_driver_run.

(** ** non-vacuity: two threads, one item each, max = 1.  Thread 0 takes the ticket, delivers, claims the
    end ([end.swap(true)]) and is suspended before its cell load; thread 1 runs (its datum is dropped: take
    is full; the upstream has not been stopped yet); thread 0 stops the upstream and completes the sink. *)

Definition fine_qs (t : nat) : list val :=
  match t with 0 => [VN 1] | 1 => [VN 2] | _ => [] end.
Definition fine_sch : list nat := [0;0;0;1;0;0].

(** the state after the first three steps is the new intermediate one *)
Example take_fine_example_mid :
  let s := run_sched (tkf_step 1) tk_finished [0;0;0] (tk_init fine_qs) in
  pc s 0 = TkAtEndStore /\ tks_end s = true /\ tks_stopped s = false
  /\ count is_up_term (tks_tr s) = 0 /\ count is_begin_term (tks_tr s) = 0
  /\ tkf_reach 1 fine_qs s.
Proof.
  repeat split; try (vm_compute; reflexivity).
  apply tkf_run_sched_reach. constructor.
Qed.

Example take_fine_example :
  exists sch,
    let s := run_full (tkf_step 1) tk_finished 2 sch 50
               (tk_init (fun t => match t with 0 => [VN 1] | 1 => [VN 2] | _ => [] end)) in
    first_unfinished tk_finished 2 s = None
    /\ count is_begin_data (tks_tr s) = 1 /\ count is_begin_term (tks_tr s) = 1.
Proof. exists fine_sch. vm_compute. repeat split; reflexivity. Qed.

Example take_fine_example_run :
  let s := run_full (tkf_step 1) tk_finished 2 fine_sch 0 (tk_init fine_qs) in
  rev (tks_tr s) =
    [(0, TBegin (DD (VN 1))); (0, TEnd); (0, TUp 0 UT); (0, TBegin DT); (0, TEnd)]
  /\ tk_finished s 0 = true /\ tk_finished s 1 = true
  /\ take_check 1 (rev (tks_tr s)) = [].
Proof. vm_compute. repeat split; reflexivity. Qed.

Print Assumptions take_fine_example_mid.
Print Assumptions take_fine_example.
Print Assumptions take_fine_example_run.
