(** * Programs: pipelines [pipe!(from_iter(it), stage_1, .., stage_k [, for_each(f)])] of any
      length as nets of component configurations (Chain.v), and what the composition theorem
      gives for them.

    - [pipeline_sound]: in every reachable net - whatever the external sink (or for_each) and the
      scheduling of internal transfers do - every component is in a configuration that is
      reachable in its own conformant environment, without violation and without panic; in
      particular the trace of every component, and so the output of the pipeline, obeys the
      protocol (C01-C04, C17 for programs).
    - [pipeline_functional]: at every point where the environment has the turn, what stage k has
      delivered is the list function of the first k stages applied to what from_iter has delivered,
      and that is the [Some] prefix of the iterator (C06, C07 composed); with for_each at the end
      the user closure has been called on exactly those values, in order.

    What is NOT here: that a pull-driven pipeline keeps going until the iterator is exhausted
    (liveness: "completes without stalling") and the count of [next()] calls of the whole
    pipeline; concat!/flatten stages (trees).  Those stay validated on the crate (C06 check). *)

From CB Require Import ProofLib Spec MonitorSound Results Chain.
From CB Require Import Inv_map Inv_filter Inv_scan Inv_skip Inv_take Inv_from_iter Inv_for_each.

Set Implicit Arguments.

(** ** Stages *)

Inductive ustage : Type :=
| UMap (f : val -> val)
| UFilter (c : val -> bool)
| UScan (r : val -> val -> val) (seed : val)
| UTake (n : nat)
| USkip (n : nat).

Definition ustage_op (s : ustage) : op :=
  match s with
  | UMap f => map_op f
  | UFilter c => filter_op c
  | UScan r seed => scan_op r seed
  | UTake n => take_op n
  | USkip n => skip_op n
  end.

(** the corresponding list function *)
Definition usem1 (s : ustage) (l : list val) : list val :=
  match s with
  | UMap f => map f l
  | UFilter c => filter c l
  | UScan r seed => scan_list r seed l
  | UTake n => firstn n l
  | USkip n => skipn n l
  end.

Definition usem (p : list ustage) (l : list val) : list val :=
  fold_left (fun acc s => usem1 s acc) p l.

Definition ustage_ok (s : ustage) : Prop :=
  match s with UTake n => 1 <= n | _ => True end.

(** ** Regimes: every inner node tolerates a late greeting (the theorems of the unary operators
    do not depend on [late_ok]); from_iter is additionally checked for nested deliveries *)
Definition p_mid : mparams :=
  {| nsinks := 1; late_ok := true; pullable := false; one_pull := false; resub := false;
     no_nest := false; c14 := false |}.
Definition p_src : mparams :=
  {| nsinks := 1; late_ok := true; pullable := false; one_pull := false; resub := false;
     no_nest := true; c14 := false |}.

Definition sigT3 : Type := (op * mparams * (mstate -> input -> bool))%type.

Definition sig_src (it : nat -> option val) : sigT3 := (from_iter_op it, p_src, g_std).
Definition sig_stage (s : ustage) : sigT3 := (ustage_op s, p_mid, g_std).
Definition sig_sink : sigT3 := (for_each_op, p_mid, g_std).

Definition pipe_sigs (it : nat -> option val) (stages : list ustage) (with_sink : bool)
  : list sigT3 :=
  sig_src it :: map sig_stage stages ++ (if with_sink then [sig_sink] else []).

Definition mk0 (s : sigT3) : node := let '(o, p, g) := s in mk_node p g (cfg0 o).

Lemma nsig_mk0 s : nsig (mk0 s) = s.
Proof. destruct s as [[o p] g]. reflexivity. Qed.

Lemma ninit_mk0 s : ninit (mk0 s).
Proof. destruct s as [[o p] g]. reflexivity. Qed.

Definition pipe_net (it : nat -> option val) (stages : list ustage) (with_sink : bool) : net :=
  net0 (map mk0 (pipe_sigs it stages with_sink)).

(** ** The hypotheses of the composition theorem hold for pipelines *)

Lemma safe_src it : safe_sig (sig_src it).
Proof. intros c Hr. now apply (@from_iter_safe it p_src). Qed.

Lemma safe_stage s : ustage_ok s -> safe_sig (sig_stage s).
Proof.
  intros Hok c Hr. destruct s as [f|cd|r seed|n|n]; cbn in *.
  - now apply (@map_safe f p_mid).
  - now apply (@filter_safe cd p_mid).
  - now apply (@scan_safe r seed p_mid).
  - now apply (@take_safe p_mid eq_refl eq_refl eq_refl eq_refl n Hok).
  - now apply (@skip_safe n p_mid).
Qed.

Lemma safe_sink : safe_sig sig_sink.
Proof. intros c Hr. now apply (@for_each_safe p_mid). Qed.

Lemma pipe_safe it stages b :
  Forall ustage_ok stages -> forall s, In s (pipe_sigs it stages b) -> safe_sig s.
Proof.
  intros Hok s [<-|Hin]; [apply safe_src|].
  apply in_app_or in Hin. destruct Hin as [Hin|Hin].
  - apply in_map_iff in Hin. destruct Hin as (st & <- & Hst).
    apply safe_stage. rewrite Forall_forall in Hok. now apply Hok.
  - destruct b; [|contradiction]. destruct Hin as [<-|[]]. apply safe_sink.
Qed.

Lemma pipe_regime it stages b :
  forall i s, nth_error (pipe_sigs it stages b) i = Some s -> regime_ok i s.
Proof.
  intros i s Hn. apply nth_error_In in Hn. destruct Hn as [<-|Hin].
  - cbn. repeat split; auto.
  - apply in_app_or in Hin. destruct Hin as [Hin|Hin].
    + apply in_map_iff in Hin. destruct Hin as (st & <- & _). cbn. repeat split; auto.
    + destruct b; [|contradiction]. destruct Hin as [<-|[]]. cbn. repeat split; auto.
Qed.

(** ** C01-C04, C17 for programs *)

Theorem pipeline_sound it stages b N :
  Forall ustage_ok stages -> net_reach (pipe_net it stages b) N ->
  forall i n, nth_error (nodes N) i = Some n ->
    nsig n = nth i (pipe_sigs it stages b) (nsig n) /\
    nreach n /\ viols (nms n) = [] /\ dead (ncfg n) = false /\ protocol_ok (ntrace n).
Proof.
  intros Hok Hr i n Hn.
  assert (Hs : map nsig (map mk0 (pipe_sigs it stages b)) = pipe_sigs it stages b).
  { rewrite map_map. rewrite <- (map_id (pipe_sigs it stages b)) at 2.
    apply map_ext. apply nsig_mk0. }
  assert (Hi : forall m, In m (map mk0 (pipe_sigs it stages b)) -> ninit m).
  { intros m Hm. apply in_map_iff in Hm. destruct Hm as (s & <- & _). apply ninit_mk0. }
  destruct (chain_sound (@pipe_safe it stages b Hok) (@pipe_regime it stages b) Hs Hi Hr i Hn)
    as (Hsig & Hre & Hv & Hd).
  split; [exact Hsig|]. split; [exact Hre|]. split; [exact Hv|]. split; [exact Hd|].
  assert (Hin : In (nsig n) (pipe_sigs it stages b)).
  { destruct (chain_inv (@pipe_safe it stages b Hok) (@pipe_regime it stages b) Hs Hi Hr) as ([Hm _] & _).
    rewrite <- Hm. apply in_map. exact (nth_error_In _ _ Hn). }
  assert (Hrs : resub (npar n) = false).
  { apply In_nth_error in Hin. destruct Hin as [k Hk].
    pose proof (pipe_regime _ _ _ _ Hk) as Hreg. unfold regime_ok, nsig in Hreg. tauto. }
  unfold ntrace. eapply protocol_of_safe; [exact Hrs | exact Hre | exact Hv].
Qed.
Print Assumptions pipeline_sound.

(** ** C06/C07 composed: the functional content *)

(** the stage nodes compute their list functions (C07, transported to a node of a net) *)
Lemma stage_functional n s :
  nsig n = sig_stage s -> ustage_ok s -> nreach n ->
  data_out 0 (ntrace n) = usem1 s (data_in 0 (ntrace n)).
Proof.
  destruct n as [o p g c]. unfold nsig, sig_stage, nreach, ntrace. cbn [nop npar ngrd ncfg].
  intros E Hok Hr. inversion E; subst o p g. clear E.
  destruct s as [f|cd|r seed|k|k]; cbn in *.
  - exact (@map_functional f p_mid eq_refl eq_refl eq_refl eq_refl c Hr).
  - exact (@filter_functional cd p_mid eq_refl eq_refl eq_refl eq_refl c Hr).
  - exact (@scan_functional r seed p_mid eq_refl eq_refl eq_refl eq_refl c Hr).
  - exact (@take_functional p_mid eq_refl eq_refl eq_refl eq_refl k Hok c Hr).
  - exact (@skip_functional k p_mid eq_refl eq_refl eq_refl eq_refl c Hr).
Qed.

Lemma src_functional n it :
  nsig n = sig_src it -> nreach n ->
  exists pos, map Some (data_out 0 (ntrace n)) =
              filter (fun r => match r with Some _ => true | None => false end)
                     (map it (seq 0 pos)).
Proof.
  destruct n as [o p g c]. unfold nsig, sig_src, nreach, ntrace. cbn [nop npar ngrd ncfg].
  intros E Hr. inversion E; subst o p g. clear E.
  destruct (@from_iter_order it p_src eq_refl eq_refl eq_refl eq_refl c Hr) as [H1 H2].
  exists (fi_pos (cst c)). now rewrite <- H1.
Qed.

Lemma sink_functional n :
  nsig n = sig_sink -> nreach n -> user_calls (ntrace n) = data_in 0 (ntrace n).
Proof.
  destruct n as [o p g c]. unfold nsig, sig_sink, nreach, ntrace. cbn [nop npar ngrd ncfg].
  intros E Hr. inversion E; subst o p g. clear E.
  exact (@for_each_user p_mid c Hr).
Qed.

Lemma usem_snoc p s l : usem (p ++ [s]) l = usem1 s (usem p l).
Proof. unfold usem. now rewrite fold_left_app. Qed.

Lemma firstn_S_nth A (l : list A) k x :
  nth_error l k = Some x -> firstn (S k) l = firstn k l ++ [x].
Proof.
  revert k. induction l as [|y l IH]; intros [|k] H; cbn in *; try discriminate.
  - now inversion H.
  - now rewrite (IH k H).
Qed.

Theorem pipeline_functional it stages b N :
  Forall ustage_ok stages -> net_reach (pipe_net it stages b) N -> pend N = PIdle ->
  forall k nk n0, k <= length stages ->
    nth_error (nodes N) k = Some nk -> nth_error (nodes N) 0 = Some n0 ->
    data_out 0 (ntrace nk) = usem (firstn k stages) (data_out 0 (ntrace n0)).
Proof.
  intros Hok Hr Hidle.
  assert (Hs : map nsig (map mk0 (pipe_sigs it stages b)) = pipe_sigs it stages b).
  { rewrite map_map. rewrite <- (map_id (pipe_sigs it stages b)) at 2.
    apply map_ext. apply nsig_mk0. }
  assert (Hi : forall m, In m (map mk0 (pipe_sigs it stages b)) -> ninit m).
  { intros m Hm. apply in_map_iff in Hm. destruct Hm as (s & <- & _). apply ninit_mk0. }
  pose proof (chain_wire (@pipe_safe it stages b Hok) (@pipe_regime it stages b) Hs Hi Hr) as Hw.
  rewrite Hidle in Hw.
  induction k as [|k IH]; intros nk n0 Hk Hnk Hn0.
  - rewrite Hnk in Hn0. inversion Hn0. reflexivity.
  - destruct (nth_error (nodes N) k) as [nu|] eqn:Hnu.
    2: { apply nth_error_None in Hnu. apply nth_error_lt in Hnk. lia. }
    destruct (nth_error stages k) as [s|] eqn:Hsk.
    2: { apply nth_error_None in Hsk. lia. }
    rewrite (@firstn_S_nth _ stages k s Hsk), usem_snoc, <- (IH nu n0 ltac:(lia) eq_refl Hn0).
    destruct (@pipeline_sound it stages b N Hok Hr (S k) nk Hnk) as (Hsig & Hre & _).
    assert (Esig : nsig nk = sig_stage s).
    { rewrite Hsig. unfold pipe_sigs. cbn [nth].
      rewrite app_nth1 by (rewrite map_length; lia).
      rewrite (nth_indep _ _ (sig_stage s)) by (rewrite map_length; lia).
      rewrite map_nth. f_equal. now apply nth_error_nth. }
    assert (Hoks : ustage_ok s).
    { rewrite Forall_forall in Hok. apply Hok. exact (nth_error_In _ _ Hsk). }
    rewrite (stage_functional Esig Hoks Hre).
    specialize (Hw k nu nk Hnu Hnk). cbn [inflight] in Hw. rewrite app_nil_r in Hw.
    now rewrite Hw.
Qed.
Print Assumptions pipeline_functional.

(** with [for_each] at the end: the user closure has been called on exactly the list function of
    what from_iter has delivered, and that is the defined prefix of the iterator *)
Theorem pipeline_for_each it stages N :
  Forall ustage_ok stages -> net_reach (pipe_net it stages true) N -> pend N = PIdle ->
  forall nf n0,
    nth_error (nodes N) (S (length stages)) = Some nf -> nth_error (nodes N) 0 = Some n0 ->
    user_calls (ntrace nf) = usem stages (data_out 0 (ntrace n0)) /\
    exists pos, map Some (data_out 0 (ntrace n0)) =
                filter (fun r => match r with Some _ => true | None => false end)
                       (map it (seq 0 pos)).
Proof.
  intros Hok Hr Hidle nf n0 Hnf Hn0.
  assert (Hs : map nsig (map mk0 (pipe_sigs it stages true)) = pipe_sigs it stages true).
  { rewrite map_map. rewrite <- (map_id (pipe_sigs it stages true)) at 2.
    apply map_ext. apply nsig_mk0. }
  assert (Hi : forall m, In m (map mk0 (pipe_sigs it stages true)) -> ninit m).
  { intros m Hm. apply in_map_iff in Hm. destruct Hm as (s & <- & _). apply ninit_mk0. }
  pose proof (chain_wire (@pipe_safe it stages true Hok) (@pipe_regime it stages true) Hs Hi Hr) as Hw.
  rewrite Hidle in Hw.
  destruct (@pipeline_sound it stages true N Hok Hr _ nf Hnf) as (Hsigf & Href & _).
  destruct (@pipeline_sound it stages true N Hok Hr _ n0 Hn0) as (Hsig0 & Hre0 & _).
  assert (Ef : nsig nf = sig_sink).
  { rewrite Hsigf. unfold pipe_sigs. cbn [nth].
    rewrite app_nth2 by (rewrite map_length; lia). rewrite map_length, Nat.sub_diag. reflexivity. }
  assert (E0 : nsig n0 = sig_src it) by (rewrite Hsig0; reflexivity).
  split; [|exact (src_functional E0 Hre0)].
  rewrite (sink_functional Ef Href).
  destruct (nth_error (nodes N) (length stages)) as [nl|] eqn:Hnl.
  2: { apply nth_error_None in Hnl. apply nth_error_lt in Hnf. lia. }
  specialize (Hw _ nl nf Hnl Hnf). cbn [inflight] in Hw. rewrite app_nil_r in Hw.
  rewrite <- Hw.
  rewrite (@pipeline_functional it stages true N Hok Hr Hidle (length stages) nl n0 (le_n _) Hnl Hn0).
  now rewrite firstn_all.
Qed.
Print Assumptions pipeline_for_each.

(** ** Running a net (for the examples and for the extracted driver) *)

Definition net_run (N : net) (mvs : list nmove) : net := fold_left net_step mvs N.

Fixpoint net_all_enabled (N : net) (mvs : list nmove) : bool :=
  match mvs with
  | [] => true
  | mv :: mvs' => net_enabled N mv && net_all_enabled (net_step N mv) mvs'
  end.

Lemma net_run_reach N0 N mvs :
  net_reach N0 N -> net_all_enabled N mvs = true -> net_reach N0 (net_run N mvs).
Proof.
  revert N. induction mvs as [|mv mvs IH]; intros N Hr He; cbn in *; [exact Hr|].
  apply andb_prop in He. destruct He as [H1 H2]. apply IH; [now apply nreachS | exact H2].
Qed.

(** internal transfers until the environment has the turn again, at most [fuel] of them *)
Fixpoint settle_net (fuel : nat) (N : net) : net :=
  match fuel with
  | 0 => N
  | S f => match pend N with PIdle => N | _ => settle_net f (net_step N NTau) end
  end.

(** *** Non-vacuity: pipe!(from_iter([1;2;3;4;5]), map(+1), filter(even), take(2), for_each) runs by
    itself once for_each is applied (one environment move, then internal transfers only) *)
Definition ex_it (k : nat) : option val := nth_error [VN 1; VN 2; VN 3; VN 4; VN 5] k.
Definition ex_stages : list ustage :=
  [UMap (fun v => match v with VN x => VN (S x) | _ => v end);
   UFilter (fun v => match v with VN x => Nat.even x | _ => false end);
   UTake 2].
Definition ex_moves : list nmove := NEnv 4 (MIn (ISub 0 0)) :: repeat NTau 150.

Example ex_pipeline_runs :
  let N := net_run (pipe_net ex_it ex_stages true) ex_moves in
  pend N = PIdle /\ gst N = [] /\
  option_map (fun n => user_calls (ntrace n)) (nth_error (nodes N) 4) = Some [VN 2; VN 4] /\
  option_map (fun n => data_out 0 (ntrace n)) (nth_error (nodes N) 0) = Some [VN 1; VN 2; VN 3] /\
  option_map (fun n => sk (nms n) 0) (nth_error (nodes N) 3) = Some SFinished.
Proof. vm_compute. repeat split. Qed.

(** the moves that were actually needed are all enabled (the run is inside [net_reach]) *)
Definition ex_moves_exact : list nmove := NEnv 4 (MIn (ISub 0 0)) :: repeat NTau 66.
Example ex_pipeline_enabled :
  net_all_enabled (pipe_net ex_it ex_stages true) ex_moves_exact = true /\
  pend (net_run (pipe_net ex_it ex_stages true) ex_moves_exact) = PIdle.
Proof. vm_compute. split; reflexivity. Qed.

(** the protocol half alone, as the property files quote it *)
Theorem pipeline_protocol it stages b N :
  Forall ustage_ok stages -> net_reach (pipe_net it stages b) N ->
  forall i n, nth_error (nodes N) i = Some n -> protocol_ok (ntrace n) /\ dead (ncfg n) = false.
Proof.
  intros Hok Hr i n Hn.
  destruct (@pipeline_sound it stages b N Hok Hr i n Hn) as (_ & _ & _ & Hd & Hp). split; assumption.
Qed.
Print Assumptions pipeline_protocol.
