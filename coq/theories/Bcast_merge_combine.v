(** * Bcast_merge_combine: what one sink activation of merge! / combine! DOES (C08, C10).

    The invariant theorems (Inv_merge.v, Inv_combine.v) bound what can never happen.  The
    clauses proved here are the "completeness" halves of C08 and C10:

    - merge: a sink Pull (Terminate, Error) is forwarded to exactly the members that have
      greeted and not ended, once each, in index order;
    - combine: a sink Pull (Terminate, Error) is forwarded to EVERY member 0..n-1, once each, in
      index order (also to members that have ended: known finding KF2);
    - combine: a member datum produces exactly one tuple if every other member already has a
      value, and nothing otherwise.

    The broadcast theorems are stated for the passive continuation of Passive.v: after the
    input, every pending call of the component is answered by a plain return ([drain]). *)
From CB Require Import ProofLib Spec Passive.
From CB Require Inv_merge Inv_combine MonitorSound.

Set Implicit Arguments.

(** ** [find_from] as the head of a [filter] *)
Lemma filter_find_some ok j fuel j' :
  find_from ok j fuel = Some j' ->
  filter ok (seq j fuel) = j' :: filter ok (seq (S j') (j + fuel - S j')).
Proof.
  revert j. induction fuel as [|fuel IH]; intros j H; cbn in H; [discriminate|].
  cbn [seq filter]. destruct (ok j) eqn:E.
  - injection H as <-. replace (j + S fuel - S j) with fuel by lia. reflexivity.
  - rewrite (IH _ H). replace (S j + fuel - S j') with (j + S fuel - S j') by lia. reflexivity.
Qed.

Lemma filter_find_none ok j fuel :
  find_from ok j fuel = None -> filter ok (seq j fuel) = [].
Proof.
  revert j. induction fuel as [|fuel IH]; intros j H; cbn in H; [reflexivity|].
  cbn [seq filter]. destruct (ok j) eqn:E; [discriminate|]. now apply IH.
Qed.

Lemma forallb_false_ex A (f : A -> bool) l :
  forallb f l = false -> exists x, In x l /\ f x = false.
Proof.
  induction l as [|x l IH]; cbn; [discriminate|]. destruct (f x) eqn:E; cbn.
  - intros H. destruct (IH H) as (y & Hy & Hf). exists y. split; [now right|exact Hf].
  - intros _. exists x. split; [now left|exact E].
Qed.

(** a return from a call of an upstream talkback is always enabled in a live configuration *)
Lemma enabled_ret_cup p o (c : cfg o) k i u rest :
  dead c = false -> stack c = (k, CUp i u) :: rest -> enabled p g_std c MRet = true.
Proof. intros Hd Hs. unfold enabled. rewrite Hd, Hs. reflexivity. Qed.

(** a sink message at top level of a live sink: enabled unless it is a Pull that the
    [one_pull] discipline forbids *)
Lemma enabled_up_top p o (c : cfg o) u :
  dead c = false -> stack c = [] -> sk (ms c) 0 = SLive ->
  (u = UP -> one_pull p = false \/ 0 < credit (ms c) 0) ->
  enabled p g_std c (MIn (IUp 0 u)) = true.
Proof.
  intros Hd Hs Hsk Hu. unfold enabled, top_peer_is. rewrite Hd, Hs, Hsk.
  change (g_std (ms c) (IUp 0 u)) with true. cbn [negb andb].
  destruct u as [|e|]; try reflexivity.
  destruct (Hu eq_refl) as [H|H]; [now rewrite H|].
  apply Nat.ltb_lt in H. rewrite H. apply orb_true_r.
Qed.

(** ** merge *)
Section MergeBcast.
  Variable n : nat.
  Hypothesis Hn : 1 <= n.
  Variable p : mparams.
  Hypothesis Hns : nsinks p = 1.
  Hypothesis Hresub : resub p = false.
  Hypothesis Hnonest : no_nest p = false.
  Hypothesis Hc14 : c14 p = false.
  Notation o := (merge_op n).

  (** taking the talkback of member [j'] out of its cell does not change which of the later
      members the loop will reach: the members reached are those whose slot was set when the
      broadcast started *)
  Lemma filter_clrif u s j' m :
    filter (mg_tbs (Inv_merge.clrif u s j')) (seq (S j') m) = filter (mg_tbs s) (seq (S j') m).
  Proof.
    apply filter_ext_in. intros a Ha. apply in_seq in Ha. unfold Inv_merge.clrif.
    destruct (umsg_is_term u); [|reflexivity]. cbn [Inv_merge.clr mg_tbs].
    apply upd_other. lia.
  Qed.

  Lemma ended_clrif u s j' : mg_ended (Inv_merge.clrif u s j') = mg_ended s.
  Proof. unfold Inv_merge.clrif. destruct (umsg_is_term u); reflexivity. Qed.

  (** the broadcast loop (src/merge.rs:121), resumed at slot [j] with passive members *)
  Lemma mg_drain_bcast u : forall d j (c1 : cfg o) i0,
    n - j <= d ->
    dead c1 = false ->
    stack c1 = [(MgBcast u j, CUp i0 u)] ->
    negb (umsg_is_term u) && mg_ended (cst c1) = false ->
    exists fuel evs,
      stack (drain p fuel c1) = [] /\
      trace (drain p fuel c1) = trace c1 ++ evs /\
      calls_of evs = map (fun k => CUp k u) (filter (mg_tbs (cst c1)) (seq j (n - j))) /\
      (reach p g_std c1 -> reach p g_std (drain p fuel c1)).
  Proof.
    induction d as [|d IH]; intros j c1 i0 Hd Hdead Hst Hend.
    - (* nothing left *)
      assert (Hr : resume o (MgBcast u j) (cst c1) = (cst c1, [], ARet)).
      { cbn. unfold mg_bcast. rewrite Hend. replace (n - j) with 0 by lia. reflexivity. }
      destruct (step_ret p c1 Hdead Hst Hr) as (Hc & Hs & Hm & Hdd).
      pose proof (step_ret_trace p c1 Hdead Hst Hr) as Htr.
      exists 1, [ERet; EDone].
      rewrite (@drain_S p o 0 c1 _ _ _ Hst). cbn [drain].
      split; [exact Hs|]. split; [exact Htr|]. split.
      + replace (n - j) with 0 by lia. reflexivity.
      + intros Hre. apply reachS; [exact Hre|]. eapply enabled_ret_cup; eassumption.
    - assert (Hr : resume o (MgBcast u j) (cst c1) =
                   match find_from (mg_tbs (cst c1)) j (n - j) with
                   | Some j' => (Inv_merge.clrif u (cst c1) j', [],
                                 ACall (CUp j' u) (MgBcast u (S j')))
                   | None => (cst c1, [], ARet)
                   end).
      { cbn. unfold mg_bcast. rewrite Hend. reflexivity. }
      assert (Hen : enabled p g_std c1 MRet = true) by (eapply enabled_ret_cup; eassumption).
      destruct (find_from (mg_tbs (cst c1)) j (n - j)) as [j'|] eqn:Ef.
      + destruct (Inv_merge.find_from_some _ _ _ Ef) as (Hj1 & Hj2 & _ & _).
        destruct (step_ret p c1 Hdead Hst Hr) as (Hc & Hs & Hm & Hdd).
        pose proof (step_ret_trace p c1 Hdead Hst Hr) as Htr.
        destruct (IH (S j') (step p c1 MRet) j') as (fuel & evs & H1 & H2 & H3 & H4);
          [lia|exact Hdd|exact Hs|rewrite Hc, ended_clrif; exact Hend|].
        exists (S fuel), (ERet :: ECall (CUp j' u) :: evs).
        rewrite (@drain_S p o fuel c1 _ _ _ Hst).
        split; [exact H1|]. split; [|split].
        * rewrite H2, Htr. cbn. rewrite <- app_assoc. reflexivity.
        * cbn [calls_of]. rewrite H3, Hc, filter_clrif, (filter_find_some _ _ _ Ef). cbn [map].
          replace (j + (n - j) - S j') with (n - S j') by lia. reflexivity.
        * intros Hre. apply H4. now apply reachS.
      + destruct (step_ret p c1 Hdead Hst Hr) as (Hc & Hs & Hm & Hdd).
        pose proof (step_ret_trace p c1 Hdead Hst Hr) as Htr.
        exists 1, [ERet; EDone].
        rewrite (@drain_S p o 0 c1 _ _ _ Hst). cbn [drain].
        split; [exact Hs|]. split; [exact Htr|]. split.
        * rewrite (filter_find_none _ _ _ Ef). reflexivity.
        * intros Hre. now apply reachS.
  Qed.

  Definition livef (c : cfg o) (j : nat) : bool :=
    match us (ms c) j with ULive => true | _ => false end.

  (** any sink message [u] at top level, sink live; the run stays inside the conformant
      environment as soon as the message itself is one the sink may send *)
  Lemma mg_up_broadcast u (c : cfg o) :
    reach p g_std c -> stack c = [] -> sk (ms c) 0 = SLive ->
    exists fuel,
      let c' := drain p fuel (step p c (MIn (IUp 0 u))) in
      stack c' = [] /\
      exists evs, trace c' = trace c ++ evs /\
        calls_of evs = map (fun j => CUp j u) (filter (livef c) (seq 0 n)) /\
        (enabled p g_std c (MIn (IUp 0 u)) = true -> reach p g_std c').
  Proof.
    intros Hre Hst Hsk.
    pose proof (@Inv_merge.inv_reach n Hn p Hns Hresub Hnonest Hc14 c Hre) as HI.
    destruct HI as [_ Hdead HP]. pose proof (Inv_merge.i_core HP) as HC.
    pose proof (Inv_merge.i_shape HP) as Hsh. rewrite Hst in Hsh.
    assert (Hq : Inv_merge.quiet_conds (cst c) (ms c)).
    { inversion Hsh as [st0 _ Hq0 E| | |]. exact Hq0. }
    pose proof (Inv_merge.sink_live_facts HC Hq Hsk) as Hend.
    assert (Hdel : deliverable (ms c) (IUp 0 u) = true) by (cbn; now rewrite Hsk).
    assert (Hfil : filter (livef c) (seq 0 n) = filter (mg_tbs (cst c)) (seq 0 n)).
    { apply filter_ext_in. intros a Ha. apply in_seq in Ha. unfold livef.
      destruct (mg_tbs (cst c) a) eqn:Et.
      - rewrite (Inv_merge.c_tb_live HC Hend); [reflexivity|lia|exact Et].
      - destruct (us (ms c) a) eqn:Eu; try reflexivity.
        rewrite (Inv_merge.c_live_tb HC _ Eu) in Et. discriminate. }
    pose proof (Inv_merge.h_up n u (cst c) Hend) as Hh. rewrite Nat.sub_0_r in Hh.
    change (mg_handle n) with (handle o) in Hh.
    destruct (find_from (mg_tbs (cst c)) 0 n) as [j'|] eqn:Ef.
    - destruct (step_in p c (IUp 0 u) Hdead Hdel Hh) as (Hc & Hs & Hm & Hdd).
      pose proof (step_in_trace p c (IUp 0 u) Hdead Hdel Hh) as Htr.
      rewrite Hst in Hs.
      assert (Hend' : negb (umsg_is_term u) && mg_ended (cst (step p c (MIn (IUp 0 u)))) = false).
      { rewrite Hc, ended_clrif. unfold Inv_merge.endif.
        destruct u; cbn; rewrite ?Hend; reflexivity. }
      destruct (@mg_drain_bcast u (n - S j') (S j') (step p c (MIn (IUp 0 u))) j'
                  (le_n _) Hdd Hs Hend') as (fuel & evs & H1 & H2 & H3 & H4).
      exists fuel. cbv zeta. split; [exact H1|].
      exists (EIn (IUp 0 u) :: ECall (CUp j' u) :: evs). split; [|split].
      + rewrite H2, Htr. cbn. rewrite <- app_assoc. reflexivity.
      + cbn [calls_of]. rewrite H3, Hc, filter_clrif, Hfil, (filter_find_some _ _ _ Ef).
        cbn [map].
        replace (mg_tbs (Inv_merge.endif u (cst c))) with (mg_tbs (cst c))
          by (unfold Inv_merge.endif; destruct (umsg_is_term u); reflexivity).
        replace (0 + n - S j') with (n - S j') by lia. reflexivity.
      + intros Hen. apply H4. now apply reachS.
    - destruct (step_in p c (IUp 0 u) Hdead Hdel Hh) as (Hc & Hs & Hm & Hdd).
      pose proof (step_in_trace p c (IUp 0 u) Hdead Hdel Hh) as Htr.
      rewrite Hst in Hs.
      exists 0. cbv zeta. cbn [drain]. split; [exact Hs|].
      exists [EIn (IUp 0 u); EDone]. split; [exact Htr|]. split.
      + rewrite Hfil, (filter_find_none _ _ _ Ef). reflexivity.
      + intros Hen. now apply reachS.
  Qed.

  Lemma mg_dead (c : cfg o) : reach p g_std c -> dead c = false.
  Proof.
    intros Hre. now destruct (@Inv_merge.inv_reach n Hn p Hns Hresub Hnonest Hc14 c Hre).
  Qed.
End MergeBcast.

(** *** Exported theorems for merge (regime of [merge_safe]) *)

(** C08, strongest form for a Pull: exactly the members that have greeted and not ended get the
    Pull, once each, in index order, and control is back at top level.  What is missing with
    respect to the statement asked for: the final conjunct [reach p g_std c'] is only asserted
    when the Pull itself is a move of the conformant environment.  In the regime of
    [merge_safe] the field [one_pull p] is unconstrained; when [one_pull p = true] and the
    sink has no credit left the Pull is NOT enabled ([pull_not_enabled_example] below) and the
    unguarded conjunct is false ([merge_pull_broadcast_unguarded_false] below).
    [merge_pull_broadcast] is the statement asked for under the extra hypothesis
    [one_pull p = false]. *)
Theorem merge_pull_broadcast_partial p n :
  nsinks p = 1 -> resub p = false -> no_nest p = false -> c14 p = false -> late_ok p = true ->
  1 <= n ->
  forall c : cfg (merge_op n), reach p g_std c -> stack c = [] -> sk (ms c) 0 = SLive ->
  exists fuel,
    let c' := drain p fuel (step p c (MIn (IUp 0 UP))) in
    stack c' = [] /\
    exists evs, trace c' = trace c ++ evs /\
      calls_of evs = map (fun j => CUp j UP)
                         (filter (fun j => match us (ms c) j with ULive => true | _ => false end)
                                 (seq 0 n)) /\
      (enabled p g_std c (MIn (IUp 0 UP)) = true -> reach p g_std c').
Proof.
  intros H1 H2 H3 H4 _ Hn c Hre Hst Hsk.
  exact (@mg_up_broadcast n Hn p H1 H2 H3 H4 UP c Hre Hst Hsk).
Qed.
Print Assumptions merge_pull_broadcast_partial.

Theorem merge_pull_broadcast p n :
  nsinks p = 1 -> resub p = false -> no_nest p = false -> c14 p = false -> late_ok p = true ->
  one_pull p = false ->
  1 <= n ->
  forall c : cfg (merge_op n), reach p g_std c -> stack c = [] -> sk (ms c) 0 = SLive ->
  exists fuel,
    let c' := drain p fuel (step p c (MIn (IUp 0 UP))) in
    stack c' = [] /\
    exists evs, trace c' = trace c ++ evs /\
      calls_of evs = map (fun j => CUp j UP)
                         (filter (fun j => match us (ms c) j with ULive => true | _ => false end)
                                 (seq 0 n)) /\
      reach p g_std c'.
Proof.
  intros H1 H2 H3 H4 _ H6 Hn c Hre Hst Hsk.
  destruct (@mg_up_broadcast n Hn p H1 H2 H3 H4 UP c Hre Hst Hsk) as (fuel & Ha & evs & Hb & Hc & Hd).
  exists fuel. cbv zeta. split; [exact Ha|]. exists evs. split; [exact Hb|]. split; [exact Hc|].
  apply Hd. apply enabled_up_top; auto. eapply mg_dead; eassumption.
Qed.
Print Assumptions merge_pull_broadcast.

(** C08: a sink Terminate tells every live member to stop, exactly once each, in index order *)
Theorem merge_term_broadcast p n :
  nsinks p = 1 -> resub p = false -> no_nest p = false -> c14 p = false -> late_ok p = true ->
  1 <= n ->
  forall c : cfg (merge_op n), reach p g_std c -> stack c = [] -> sk (ms c) 0 = SLive ->
  exists fuel,
    let c' := drain p fuel (step p c (MIn (IUp 0 UT))) in
    stack c' = [] /\
    exists evs, trace c' = trace c ++ evs /\
      calls_of evs = map (fun j => CUp j UT)
                         (filter (fun j => match us (ms c) j with ULive => true | _ => false end)
                                 (seq 0 n)) /\
      reach p g_std c'.
Proof.
  intros H1 H2 H3 H4 _ Hn c Hre Hst Hsk.
  destruct (@mg_up_broadcast n Hn p H1 H2 H3 H4 UT c Hre Hst Hsk) as (fuel & Ha & evs & Hb & Hc & Hd).
  exists fuel. cbv zeta. split; [exact Ha|]. exists evs. split; [exact Hb|]. split; [exact Hc|].
  apply Hd. apply enabled_up_top; auto; [eapply mg_dead; eassumption|discriminate].
Qed.
Print Assumptions merge_term_broadcast.

(** the same for a sink Error (the crate treats it like Terminate) *)
Theorem merge_error_broadcast p n e :
  nsinks p = 1 -> resub p = false -> no_nest p = false -> c14 p = false -> late_ok p = true ->
  1 <= n ->
  forall c : cfg (merge_op n), reach p g_std c -> stack c = [] -> sk (ms c) 0 = SLive ->
  exists fuel,
    let c' := drain p fuel (step p c (MIn (IUp 0 (UE e)))) in
    stack c' = [] /\
    exists evs, trace c' = trace c ++ evs /\
      calls_of evs = map (fun j => CUp j (UE e))
                         (filter (fun j => match us (ms c) j with ULive => true | _ => false end)
                                 (seq 0 n)) /\
      reach p g_std c'.
Proof.
  intros H1 H2 H3 H4 _ Hn c Hre Hst Hsk.
  destruct (@mg_up_broadcast n Hn p H1 H2 H3 H4 (UE e) c Hre Hst Hsk)
    as (fuel & Ha & evs & Hb & Hc & Hd).
  exists fuel. cbv zeta. split; [exact Ha|]. exists evs. split; [exact Hb|]. split; [exact Hc|].
  apply Hd. apply enabled_up_top; auto; [eapply mg_dead; eassumption|discriminate].
Qed.
Print Assumptions merge_error_broadcast.

(** *** Why the Pull theorem carries a guard: with [one_pull p = true] (which the regime of
    [merge_safe] allows) a sink that has used up its credit may not pull.  The script below is
    enabled move by move, ends at top level with a live sink, and the Pull is not enabled
    there; since the trace records every move, no other script leads to the configuration the
    Pull produces, so the unguarded conjunct [reach p g_std c'] fails for it. *)
Definition p_merge_onepull : mparams :=
  {| nsinks := 1; late_ok := true; pullable := false; one_pull := true;
     resub := false; no_nest := false; c14 := false |}.

Definition script_nocredit : list move :=
  [MIn (ISub 0 0); MIn (IDn 0 DH); MRet; MRet; MIn (IUp 0 UP); MRet].

Example pull_not_enabled_example :
  let c := run p_merge_onepull (merge_op 1) script_nocredit in
  all_enabled p_merge_onepull g_std (cfg0 (merge_op 1)) script_nocredit = true /\
  stack c = [] /\ sk (ms c) 0 = SLive /\ credit (ms c) 0 = 0 /\
  enabled p_merge_onepull g_std c (MIn (IUp 0 UP)) = false.
Proof. vm_compute. repeat split; reflexivity. Qed.

(** the same, machine-checked: under [one_pull p = true] every Pull in the trace of a reachable
    configuration was sent with credit left, hence the configuration the passive continuation
    of that Pull ends in is NOT reachable - the statement of [merge_pull_broadcast] without
    the hypothesis [one_pull p = false] is false of the model *)
Section PullCredit.
  Variable p : mparams.
  Variable o : op.
  Variable g : mstate -> input -> bool.
  Hypothesis Hone : one_pull p = true.

  Lemma enabled_pull_credit (c : cfg o) s :
    enabled p g c (MIn (IUp s UP)) = true -> 0 < credit (ms c) s.
  Proof.
    unfold enabled. intros H. rewrite Hone in H.
    apply andb_prop in H. destruct H as [_ H].
    apply andb_prop in H. destruct H as [_ H].
    apply andb_prop in H. destruct H as [_ H].
    cbn [negb orb] in H. now apply Nat.ltb_lt in H.
  Qed.

  Lemma reach_pull_credit (c : cfg o) :
    reach p g c ->
    forall pre s post, trace c = pre ++ EIn (IUp s UP) :: post ->
                       0 < credit (mon_trace p pre) s.
  Proof.
    induction 1 as [|c m Hc IH He]; intros pre s post E.
    - destruct pre; discriminate E.
    - destruct (@MonitorSound.enabled_step_trace p o g c m He) as [h [rest [Et [Hrest Hh]]]].
      rewrite Et in E. apply MonitorSound.split_app in E.
      destruct E as [[post' [E _]]|[pre' [-> E]]].
      + exact (IH _ _ _ E).
      + apply (MonitorSound.input_in_suffix _ _ _ Hrest) in E. destruct E as [-> [E _]].
        apply Hh in E. subst m. rewrite app_nil_r.
        rewrite <- (@MonitorSound.reach_ms_trace p o g c Hc). now apply enabled_pull_credit.
  Qed.
End PullCredit.

Lemma drain_trace_prefix p o fuel :
  forall c : cfg o, exists evs, trace (drain p fuel c) = trace c ++ evs.
Proof.
  induction fuel as [|f IH]; intros c; cbn [drain].
  - exists []. now rewrite app_nil_r.
  - destruct (stack c) as [|[k cl] rest] eqn:Es; [exists []; now rewrite app_nil_r|].
    destruct (dead c) eqn:Ed.
    + assert (E : step p c MRet = c) by (unfold step; now rewrite Ed). rewrite E. apply IH.
    + destruct (resume o k (cst c)) as [[s' os] a] eqn:Hr.
      pose proof (step_ret_trace p c Ed Es Hr) as Htr.
      destruct (IH (step p c MRet)) as [evs E]. rewrite E, Htr.
      eexists. rewrite <- app_assoc. reflexivity.
Qed.

Definition c_nocredit : cfg (merge_op 1) := run p_merge_onepull (merge_op 1) script_nocredit.

Theorem merge_pull_broadcast_unguarded_false :
  reach p_merge_onepull g_std c_nocredit /\
  stack c_nocredit = [] /\
  sk (ms c_nocredit) 0 = SLive /\
  forall fuel,
    ~ reach p_merge_onepull g_std
        (drain p_merge_onepull fuel (step p_merge_onepull c_nocredit (MIn (IUp 0 UP)))).
Proof.
  split; [unfold c_nocredit; apply reach_run; vm_compute; reflexivity|].
  split; [vm_compute; reflexivity|]. split; [vm_compute; reflexivity|].
  intros fuel Hre.
  destruct (drain_trace_prefix p_merge_onepull fuel
              (step p_merge_onepull c_nocredit (MIn (IUp 0 UP)))) as [evs E].
  assert (E1 : trace (step p_merge_onepull c_nocredit (MIn (IUp 0 UP))) =
               trace c_nocredit ++ [EIn (IUp 0 UP); ECall (CUp 0 UP)])
    by (vm_compute; reflexivity).
  rewrite E1, <- app_assoc in E. cbn [app] in E.
  pose proof (@reach_pull_credit p_merge_onepull (merge_op 1) g_std eq_refl _ Hre _ _ _ E) as Hcr.
  vm_compute in Hcr. lia.
Qed.
Print Assumptions merge_pull_broadcast_unguarded_false.

(** ** combine *)
Lemma seq_head j m : 0 < m -> seq j m = j :: seq (S j) (m - 1).
Proof. destruct m; [lia|]. intros _. cbn. now rewrite Nat.sub_0_r. Qed.

Definition others_have_value (n : nat) (vals : nat -> option val) (j : nat) : bool :=
  forallb (fun k => Nat.eqb k j || match vals k with Some _ => true | None => false end)
          (seq 0 n).

Section CombineBcast.
  Variable n : nat.
  Hypothesis Hn : 1 <= n.
  Variable p : mparams.
  Hypothesis Hns : nsinks p = 1.
  Hypothesis Hresub : resub p = false.
  Hypothesis Hnonest : no_nest p = false.
  Hypothesis Hc14 : c14 p = false.
  Notation o := (combine_op n).

  Lemma cb_inv (c : cfg o) : reach p g_std c -> Inv_combine.Inv c.
  Proof. intros Hre. exact (@Inv_combine.inv_reach n Hn p Hns Hresub Hnonest Hc14 c Hre). Qed.

  (** the unrolled broadcast sequence (src/combine.rs:160-204), resumed at member [j] *)
  Lemma cb_drain_bcast u : forall d j (c1 : cfg o) i0,
    n - j <= d ->
    dead c1 = false ->
    stack c1 = [(CbBcast u j, CUp i0 u)] ->
    (forall k, k < n -> cb_tbs (cst c1) k = true) ->
    exists fuel evs,
      stack (drain p fuel c1) = [] /\
      trace (drain p fuel c1) = trace c1 ++ evs /\
      calls_of evs = map (fun k => CUp k u) (seq j (n - j)) /\
      (reach p g_std c1 -> reach p g_std (drain p fuel c1)).
  Proof.
    assert (Hstop : forall j (c1 : cfg o) i0,
      n <= j -> dead c1 = false -> stack c1 = [(CbBcast u j, CUp i0 u)] ->
      exists fuel evs,
        stack (drain p fuel c1) = [] /\
        trace (drain p fuel c1) = trace c1 ++ evs /\
        calls_of evs = map (fun k => CUp k u) (seq j (n - j)) /\
        (reach p g_std c1 -> reach p g_std (drain p fuel c1))).
    { intros j c1 i0 Hge Hdead Hst.
      assert (Hr : resume o (CbBcast u j) (cst c1) = (cst c1, [], ARet)).
      { change (resume o (CbBcast u j) (cst c1)) with (cb_bcast n u j (cst c1)).
        unfold cb_bcast. destruct (Nat.ltb_spec j n); [lia|reflexivity]. }
      destruct (step_ret p c1 Hdead Hst Hr) as (Hc & Hs & Hm & Hdd).
      pose proof (step_ret_trace p c1 Hdead Hst Hr) as Htr.
      exists 1, [ERet; EDone].
      rewrite (@drain_S p o 0 c1 _ _ _ Hst). cbn [drain].
      split; [exact Hs|]. split; [exact Htr|]. split.
      + replace (n - j) with 0 by lia. reflexivity.
      + intros Hre. apply reachS; [exact Hre|]. eapply enabled_ret_cup; eassumption. }
    induction d as [|d IH]; intros j c1 i0 Hd Hdead Hst Htb.
    - apply Hstop with (i0 := i0); [lia|assumption|assumption].
    - destruct (Nat.lt_ge_cases j n) as [Hlt|Hge];
        [|apply Hstop with (i0 := i0); assumption].
      assert (Hr : resume o (CbBcast u j) (cst c1) =
                   (cst c1, [], ACall (CUp j u) (CbBcast u (S j)))).
      { change (resume o (CbBcast u j) (cst c1)) with (cb_bcast n u j (cst c1)).
        unfold cb_bcast. rewrite (proj2 (Nat.ltb_lt j n) Hlt), (Htb j Hlt). reflexivity. }
      assert (Hen : enabled p g_std c1 MRet = true) by (eapply enabled_ret_cup; eassumption).
      destruct (step_ret p c1 Hdead Hst Hr) as (Hc & Hs & Hm & Hdd).
      pose proof (step_ret_trace p c1 Hdead Hst Hr) as Htr.
      assert (Htb' : forall k, k < n -> cb_tbs (cst (step p c1 MRet)) k = true)
        by (rewrite Hc; exact Htb).
      destruct (IH (S j) (step p c1 MRet) j) as (fuel & evs & H1 & H2 & H3 & H4);
        [lia|exact Hdd|exact Hs|exact Htb'|].
      exists (S fuel), (ERet :: ECall (CUp j u) :: evs).
      rewrite (@drain_S p o fuel c1 _ _ _ Hst).
      split; [exact H1|]. split; [|split].
      + rewrite H2, Htr. cbn. rewrite <- app_assoc. reflexivity.
      + cbn [calls_of]. rewrite H3, (@seq_head j (n - j)) by lia. cbn [map].
        replace (n - j - 1) with (n - S j) by lia. reflexivity.
      + intros Hre. apply H4. now apply reachS.
  Qed.

  Lemma cb_up_broadcast u (c : cfg o) :
    reach p g_std c -> stack c = [] -> sk (ms c) 0 = SLive ->
    exists fuel,
      let c' := drain p fuel (step p c (MIn (IUp 0 u))) in
      stack c' = [] /\
      exists evs, trace c' = trace c ++ evs /\
        calls_of evs = map (fun j => CUp j u) (seq 0 n) /\
        (enabled p g_std c (MIn (IUp 0 u)) = true -> reach p g_std c').
  Proof.
    intros Hre Hst Hsk. pose proof (cb_inv Hre) as HI.
    pose proof (Inv_combine.i_dead HI) as Hdead.
    assert (Htb : forall k, k < n -> cb_tbs (cst c) k = true).
    { apply (@Inv_combine.inv_allg n Hn p Hns c HI). congruence. }
    assert (Hdel : deliverable (ms c) (IUp 0 u) = true) by (cbn; now rewrite Hsk).
    assert (Hh : handle o (IUp 0 u) (cst c) = (cst c, [], ACall (CUp 0 u) (CbBcast u 1))).
    { change (handle o (IUp 0 u) (cst c)) with (cb_bcast n u 0 (cst c)).
      unfold cb_bcast. rewrite (proj2 (Nat.ltb_lt 0 n)) by lia. rewrite Htb by lia.
      reflexivity. }
    destruct (step_in p c (IUp 0 u) Hdead Hdel Hh) as (Hc & Hs & Hm & Hdd).
    pose proof (step_in_trace p c (IUp 0 u) Hdead Hdel Hh) as Htr.
    rewrite Hst in Hs.
    assert (Htb' : forall k, k < n -> cb_tbs (cst (step p c (MIn (IUp 0 u)))) k = true)
      by (rewrite Hc; exact Htb).
    destruct (@cb_drain_bcast u (n - 1) 1 (step p c (MIn (IUp 0 u))) 0 (le_n _) Hdd Hs Htb')
      as (fuel & evs & H1 & H2 & H3 & H4).
    exists fuel. cbv zeta. split; [exact H1|].
    exists (EIn (IUp 0 u) :: ECall (CUp 0 u) :: evs). split; [|split].
    - rewrite H2, Htr. cbn. rewrite <- app_assoc. reflexivity.
    - cbn [calls_of]. rewrite H3, (@seq_head 0 n) by lia. reflexivity.
    - intros Hen. apply H4. now apply reachS.
  Qed.

  Lemma cb_dead (c : cfg o) : reach p g_std c -> dead c = false.
  Proof. intros Hre. exact (Inv_combine.i_dead (cb_inv Hre)). Qed.

  Lemma cb_running_lt (c : cfg o) j : reach p g_std c -> us (ms c) j = ULive -> j < n.
  Proof.
    intros Hre Hj. apply (@Inv_combine.inv_lt n Hn p Hns c j (cb_inv Hre)). congruence.
  Qed.

  (** one member datum: one tuple if every other member has a value, nothing otherwise *)
  Lemma cb_one_tuple (c : cfg o) j v :
    reach p g_std c -> enabled p g_std c (MIn (IDn j (DD v))) = true -> j < n ->
    exists evs, trace (step p c (MIn (IDn j (DD v)))) = trace c ++ evs /\
      ((forall k, k < n -> k <> j -> cb_vals (cst c) k <> None) ->
         exists l, calls_of evs = [CDn 0 (DD (VT l))] /\ length l = n /\
                   nth_error l j = Some v /\
                   forall k, k < n -> k <> j -> nth_error l k = cb_vals (cst c) k) /\
      ((exists k, k < n /\ k <> j /\ cb_vals (cst c) k = None) -> calls_of evs = []).
  Proof.
    intros Hre He Hj. pose proof (cb_inv Hre) as HI.
    pose proof (enabled_live _ _ _ _ He) as Hdead.
    pose proof (enabled_deliverable _ _ _ _ He) as Hdel.
    pose proof (cb_dead (reachS _ Hre He)) as Hdead'.
    pose (vals' := upd (cb_vals (cst c)) j (Some v)).
    pose (nd := match cb_vals (cst c) j with
                | None => pred (cb_ndata (cst c))
                | Some _ => cb_ndata (cst c) end).
    pose (s' := {| cb_nstart := cb_nstart (cst c); cb_ndata := nd; cb_nend := cb_nend (cst c);
                   cb_vals := vals'; cb_tbs := cb_tbs (cst c) |}).
    assert (Hh : handle o (IDn j (DD v)) (cst c) =
                 if Nat.eqb nd 0
                 then match cb_tuple vals' n with
                      | Some l => (s', [], ACall (CDn 0 (DD (VT l))) CbDone)
                      | None => (s', [], APanic)
                      end
                 else (s', [], ARet)).
    { change (handle o (IDn j (DD v)) (cst c)) with (cb_handle n (IDn j (DD v)) (cst c)).
      unfold cb_handle. rewrite (proj2 (Nat.ltb_lt j n) Hj). reflexivity. }
    destruct (Nat.eqb_spec nd 0) as [End|End]; [destruct (cb_tuple vals' n) as [l|] eqn:Et|].
    - (* the tuple *)
      pose proof (step_in_trace p c _ Hdead Hdel Hh) as Htr.
      destruct (Inv_combine.cb_tuple_spec _ _ Et) as [Hlen Hnth].
      exists [EIn (IDn j (DD v)); ECall (CDn 0 (DD (VT l)))].
      split; [exact Htr|]. split.
      + intros _. exists l. split; [reflexivity|]. split; [exact Hlen|]. split.
        * rewrite (Hnth j Hj). unfold vals'. apply upd_same.
        * intros k Hk Hne. rewrite (Hnth k Hk). unfold vals'. apply upd_other. exact Hne.
      + intros (k & Hk & Hne & Hnone). exfalso.
        pose proof (Hnth k Hk) as E. unfold vals' in E. rewrite upd_other in E by exact Hne.
        rewrite Hnone in E. apply nth_error_None in E. lia.
    - (* the unwrap cannot fail in a reachable configuration *)
      exfalso. destruct (step_in p c _ Hdead Hdel Hh) as (_ & _ & _ & Hdd). congruence.
    - (* some member has no value yet *)
      pose proof (step_in_trace p c _ Hdead Hdel Hh) as Htr.
      exists [EIn (IDn j (DD v)); EDone].
      split; [exact Htr|]. split; [|intros _; reflexivity].
      intros Hall. exfalso. apply End.
      pose (P := fun k => Inv_combine.is_some (cb_vals (cst c) k)).
      pose (Q := fun k => Inv_combine.is_some (vals' k)).
      assert (Hnd : cb_ndata (cst c) + Inv_combine.cnt P n = n)
        by exact (Inv_combine.i_ndata HI).
      unfold nd. destruct (cb_vals (cst c) j) as [vj|] eqn:Ej.
      + assert (HP : Inv_combine.cnt P n = n).
        { apply Inv_combine.cnt_full_inv. intros k Hk. unfold P.
          destruct (Nat.eq_dec k j) as [->|Hne]; [now rewrite Ej|].
          specialize (Hall k Hk Hne). destruct (cb_vals (cst c) k); [reflexivity|congruence]. }
        lia.
      + assert (HQ : Inv_combine.cnt Q n = S (Inv_combine.cnt P n)).
        { apply Inv_combine.cnt_set with (i := j); [exact Hj| | |].
          - unfold P. now rewrite Ej.
          - unfold Q, vals'. now rewrite upd_same.
          - intros k Hk Hne. unfold Q, P, vals'. now rewrite upd_other by exact Hne. }
        assert (HQn : Inv_combine.cnt Q n = n).
        { apply Inv_combine.cnt_full_inv. intros k Hk. unfold Q, vals'.
          destruct (Nat.eq_dec k j) as [->|Hne]; [now rewrite upd_same|].
          rewrite upd_other by exact Hne.
          specialize (Hall k Hk Hne). destruct (cb_vals (cst c) k); [reflexivity|congruence]. }
        lia.
  Qed.
End CombineBcast.

(** *** Exported theorems for combine (regime of [combine_safe]) *)

(** C10 / KF2, strongest form for a Pull: EVERY member 0..n-1 gets the Pull (also members that
    have ended), once each, in index order.  As for merge, [reach p g_std c'] is guarded by the
    Pull being a move of the conformant environment ([one_pull p] is unconstrained in the
    regime of [combine_safe]); [combine_pull_broadcast] is the unguarded statement under
    [one_pull p = false]. *)
Theorem combine_pull_broadcast_partial p n :
  nsinks p = 1 -> resub p = false -> no_nest p = false -> c14 p = false -> late_ok p = false ->
  1 <= n ->
  forall c : cfg (combine_op n), reach p g_std c -> stack c = [] -> sk (ms c) 0 = SLive ->
  exists fuel,
    let c' := drain p fuel (step p c (MIn (IUp 0 UP))) in
    stack c' = [] /\
    exists evs, trace c' = trace c ++ evs /\
      calls_of evs = map (fun j => CUp j UP) (seq 0 n) /\
      (enabled p g_std c (MIn (IUp 0 UP)) = true -> reach p g_std c').
Proof.
  intros H1 H2 H3 H4 _ Hn c Hre Hst Hsk.
  exact (@cb_up_broadcast n Hn p H1 H2 H3 H4 UP c Hre Hst Hsk).
Qed.
Print Assumptions combine_pull_broadcast_partial.

Theorem combine_pull_broadcast p n :
  nsinks p = 1 -> resub p = false -> no_nest p = false -> c14 p = false -> late_ok p = false ->
  one_pull p = false ->
  1 <= n ->
  forall c : cfg (combine_op n), reach p g_std c -> stack c = [] -> sk (ms c) 0 = SLive ->
  exists fuel,
    let c' := drain p fuel (step p c (MIn (IUp 0 UP))) in
    stack c' = [] /\
    exists evs, trace c' = trace c ++ evs /\
      calls_of evs = map (fun j => CUp j UP) (seq 0 n) /\
      reach p g_std c'.
Proof.
  intros H1 H2 H3 H4 _ H6 Hn c Hre Hst Hsk.
  destruct (@cb_up_broadcast n Hn p H1 H2 H3 H4 UP c Hre Hst Hsk)
    as (fuel & Ha & evs & Hb & Hc & Hd).
  exists fuel. cbv zeta. split; [exact Ha|]. exists evs. split; [exact Hb|]. split; [exact Hc|].
  apply Hd. apply enabled_up_top; auto. eapply cb_dead; eassumption.
Qed.
Print Assumptions combine_pull_broadcast.

(** corollary (C10 "every sink Pull reaches every member that is still running") *)
Theorem combine_pull_reaches_running p n :
  nsinks p = 1 -> resub p = false -> no_nest p = false -> c14 p = false -> late_ok p = false ->
  1 <= n ->
  forall c : cfg (combine_op n), reach p g_std c ->
  forall j, us (ms c) j = ULive -> In (CUp j UP) (map (fun j => CUp j UP) (seq 0 n)).
Proof.
  intros H1 H2 H3 H4 _ Hn c Hre j Hj.
  apply in_map_iff. exists j. split; [reflexivity|]. apply in_seq.
  pose proof (@cb_running_lt n Hn p H1 H2 H3 H4 c j Hre Hj). lia.
Qed.
Print Assumptions combine_pull_reaches_running.

(** a sink Terminate is likewise forwarded to every member *)
Theorem combine_term_broadcast p n :
  nsinks p = 1 -> resub p = false -> no_nest p = false -> c14 p = false -> late_ok p = false ->
  1 <= n ->
  forall c : cfg (combine_op n), reach p g_std c -> stack c = [] -> sk (ms c) 0 = SLive ->
  exists fuel,
    let c' := drain p fuel (step p c (MIn (IUp 0 UT))) in
    stack c' = [] /\
    exists evs, trace c' = trace c ++ evs /\
      calls_of evs = map (fun j => CUp j UT) (seq 0 n) /\
      reach p g_std c'.
Proof.
  intros H1 H2 H3 H4 _ Hn c Hre Hst Hsk.
  destruct (@cb_up_broadcast n Hn p H1 H2 H3 H4 UT c Hre Hst Hsk)
    as (fuel & Ha & evs & Hb & Hc & Hd).
  exists fuel. cbv zeta. split; [exact Ha|]. exists evs. split; [exact Hb|]. split; [exact Hc|].
  apply Hd. apply enabled_up_top; auto; [eapply cb_dead; eassumption|discriminate].
Qed.
Print Assumptions combine_term_broadcast.

(** C10 "emits exactly one tuple per member datum" as a local step theorem.  No hypothesis on
    the sink is needed: the model's data arm (src/combine.rs:247-275) does not look at the
    sink, and a member can only send while it is live. *)
Theorem combine_one_tuple_per_datum p n :
  nsinks p = 1 -> resub p = false -> no_nest p = false -> c14 p = false -> late_ok p = false ->
  1 <= n ->
  forall (c : cfg (combine_op n)) j v, reach p g_std c ->
    enabled p g_std c (MIn (IDn j (DD v))) = true -> j < n ->
    let c' := step p c (MIn (IDn j (DD v))) in
    exists evs, trace c' = trace c ++ evs /\
      if others_have_value n (cb_vals (cst c)) j
      then exists l, calls_of evs = [CDn 0 (DD (VT l))] /\ length l = n /\
                     nth_error l j = Some v /\
                     forall k, k < n -> k <> j -> nth_error l k = cb_vals (cst c) k
      else calls_of evs = [].
Proof.
  intros H1 H2 H3 H4 _ Hn c j v Hre He Hj. cbv zeta.
  destruct (@cb_one_tuple n Hn p H1 H2 H3 H4 c j v Hre He Hj) as (evs & Htr & HA & HB).
  exists evs. split; [exact Htr|].
  destruct (others_have_value n (cb_vals (cst c)) j) eqn:E.
  - apply HA. intros k Hk Hne. unfold others_have_value in E. rewrite forallb_forall in E.
    assert (Hin : In k (seq 0 n)) by (apply in_seq; lia).
    apply E in Hin. apply orb_prop in Hin. destruct Hin as [H|H].
    + apply Nat.eqb_eq in H. contradiction.
    + destruct (cb_vals (cst c) k); [discriminate|discriminate H].
  - apply HB. destruct (forallb_false_ex _ _ E) as (k & Hin & Hf).
    apply in_seq in Hin. apply orb_false_iff in Hf. destruct Hf as [Hf1 Hf2].
    apply Nat.eqb_neq in Hf1. exists k. split; [lia|]. split; [exact Hf1|].
    destruct (cb_vals (cst c) k); [discriminate|reflexivity].
Qed.
Print Assumptions combine_one_tuple_per_datum.

(** the same with the case distinction as two implications *)
Theorem combine_one_tuple_per_datum_prop p n :
  nsinks p = 1 -> resub p = false -> no_nest p = false -> c14 p = false -> late_ok p = false ->
  1 <= n ->
  forall (c : cfg (combine_op n)) j v, reach p g_std c ->
    enabled p g_std c (MIn (IDn j (DD v))) = true -> j < n ->
    exists evs, trace (step p c (MIn (IDn j (DD v)))) = trace c ++ evs /\
      ((forall k, k < n -> k <> j -> cb_vals (cst c) k <> None) ->
         exists l, calls_of evs = [CDn 0 (DD (VT l))] /\ length l = n /\
                   nth_error l j = Some v /\
                   forall k, k < n -> k <> j -> nth_error l k = cb_vals (cst c) k) /\
      ((exists k, k < n /\ k <> j /\ cb_vals (cst c) k = None) -> calls_of evs = []).
Proof.
  intros H1 H2 H3 H4 _ Hn c j v Hre He Hj.
  exact (@cb_one_tuple n Hn p H1 H2 H3 H4 c j v Hre He Hj).
Qed.
Print Assumptions combine_one_tuple_per_datum_prop.
