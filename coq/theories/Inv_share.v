(** * Inv_share: the master invariant of share, for every number of sinks *)
From CB Require Import ProofLib Spec.

Set Implicit Arguments.

(** ** Lists: [remove_first] *)

Lemma rf_in s k l : In s (remove_first k l) -> In s l.
Proof.
  induction l as [|x l IH]; cbn; [tauto|].
  destruct (Nat.eqb_spec x k); cbn; intros H; tauto.
Qed.

Lemma rf_in_neq s k l : In s l -> s <> k -> In s (remove_first k l).
Proof.
  induction l as [|x l IH]; cbn; [tauto|].
  intros [->|H] Hn.
  - destruct (Nat.eqb_spec s k); [congruence|]. now left.
  - destruct (Nat.eqb_spec x k); [assumption|]. right. now apply IH.
Qed.

Lemma rf_nodup k l : NoDup l -> NoDup (remove_first k l).
Proof.
  induction 1 as [|x l Hx Hl IH]; cbn; [constructor|].
  destruct (Nat.eqb_spec x k); [assumption|].
  constructor; [|assumption]. intros H. apply Hx. eapply rf_in; eassumption.
Qed.

Lemma rf_notin k l : NoDup l -> ~ In k (remove_first k l).
Proof.
  induction 1 as [|x l Hx Hl IH]; cbn; [tauto|].
  destruct (Nat.eqb_spec x k); [now subst|].
  cbn. intros [H|H]; [congruence | tauto].
Qed.

Lemma nodup_snoc (s : nat) l : NoDup l -> ~ In s l -> NoDup (l ++ [s]).
Proof.
  induction 1 as [|x l Hx Hl IH]; cbn; intros Hn.
  - repeat constructor. tauto.
  - constructor.
    + rewrite in_app_iff. cbn. intros [H|[H|[]]]; [tauto | subst; tauto].
    + apply IH. tauto.
Qed.

(** ** Stacks of share *)

Definition stk := list (sh_fr * call).

(** the fan-out of a terminal message in progress (always the innermost activation) *)
Definition top_term (st : stk) : option (dmsg * list nat) :=
  match st with
  | (ShFan m rest, _) :: _ => if dmsg_is_term m then Some (m, rest) else None
  | _ => None
  end.

(** the sinks that suspended fan-outs will still call *)
Fixpoint fan_rest (st : stk) : list nat :=
  match st with
  | [] => []
  | (ShFan _ rest, _) :: st' => rest ++ fan_rest st'
  | (ShDone, _) :: st' => fan_rest st'
  end.

Definition frame_ok (k : sh_fr) (cl : call) (below : stk) : Prop :=
  top_term below = None /\
  match cl with
  | CDn s m =>
      pending_delivery (map snd below) = false /\
      match m with
      | DH => k = ShDone
      | _ => exists rest, k = ShFan m rest /\ NoDup (s :: rest)
      end
  | _ => k = ShDone
  end.

Fixpoint stk_ok (st : stk) : Prop :=
  match st with
  | [] => True
  | (k, cl) :: st' => frame_ok k cl st' /\ stk_ok st'
  end.

Lemma stk_ok_nofan st :
  stk_ok st -> pending_delivery (map snd st) = false -> fan_rest st = [].
Proof.
  induction st as [|[k cl] st IH]; cbn; [reflexivity|].
  intros [[Ht Hf] Hok] Hp. apply orb_false_elim in Hp. destruct Hp as [Hcl Hp].
  specialize (IH Hok Hp).
  destruct cl as [i|i u|s m]; try (subst k; exact IH).
  destruct Hf as [_ Hf]. destruct m; try discriminate. subst k. exact IH.
Qed.

Definition us_on (u : uss) : bool :=
  match u with USubd | ULive => true | _ => false end.

Section ShareInv.
  Variable p : mparams.
  Hypothesis Hresub : resub p = true.
  Hypothesis Hnonest : no_nest p = false.
  Hypothesis Hc14 : c14 p = false.
  Hypothesis Hlate : late_ok p = false.
  Let o := share_op.

  (** during the fan-out of a terminal message [d], [rest] still to be served *)
  Definition term_inv (m : mstate) (d : dmsg) (rest : list nat) : Prop :=
    us m 0 = UEnded /\
    (forall s, sk m s = SLive -> In s rest) /\
    (forall s e, err_due m s = Some e -> d = DE e /\ In s rest) /\
    (forall e, d = DE e -> existsb (Nat.eqb e) (errs_in m) = true).

  (** at every other control point *)
  Definition norm_inv (m : mstate) (s : sh_st) : Prop :=
    (forall x, sk m x = SLive -> In x (sh_sinks s)) /\
    (us m 0 <> USubd -> forall x, In x (sh_sinks s) -> sk m x = SLive) /\
    (sh_sinks s = [] <-> us_on (us m 0) = false) /\
    (forall x, err_due m x = None).

  Record Inv (c : cfg o) : Prop := {
    i_viols : viols (ms c) = [];
    i_dead : dead c = false;
    i_cs : cstack (ms c) = map snd (stack c);
    i_stk : stk_ok (stack c);
    i_nodup : NoDup (sh_sinks (cst c));
    i_fan : forall s, In s (fan_rest (stack c)) -> sk (ms c) s = SLive;
    i_subd : forall s, subd (ms c) s = false -> sk (ms c) s = SNone;
    i_tb : forall s, sk (ms c) s <> SNone -> sh_tb (cst c) = true;
    i_usubd : us (ms c) 0 = USubd ->
              sh_sinks (cst c) = [sh_first (cst c)] /\
              sk (ms c) (sh_first (cst c)) = SNone /\
              subd (ms c) (sh_first (cst c)) = true /\
              stack c = [(ShDone, CSub 0)];
    i_us_other : forall i, i <> 0 -> us (ms c) i = UNone;
    i_task : forall s, task (ms c) s = false;
    i_mode : match top_term (stack c) with
             | Some (d, rest) => term_inv (ms c) d rest
             | None => norm_inv (ms c) (cst c)
             end;
  }.

  Lemma inv0 : Inv (cfg0 o).
  Proof.
    constructor; cbn; auto; try constructor; intros; try tauto; try discriminate.
    repeat split; intros; cbn in *; try discriminate; try tauto.
  Qed.

  (** projections of the monitor state after one activation *)
  Lemma sc_all m cl (k : Fr o) :
    ms_settle p o m [] (ACall cl k) =
    set_cstack (mon_call_upd m cl) (cl :: cstack m)
      <| viols := check_call p m cl ++ viols (mon_call_upd m cl) |>.
  Proof.
    unfold ms_settle. cbn [map fold_left mon_event].
    rewrite add_viols_eq, mon_call_upd_cstack. reflexivity.
  Qed.

  Lemma mcu_viols m cl : viols (mon_call_upd m cl) = viols m.
  Proof.
    destruct cl as [i|i [|e|]|s [|v|e|]]; cbn; try reflexivity.
    - destruct (sk m s); reflexivity.
    - destruct (sk m s), (err_due m s) as [e'|]; cbn; try reflexivity;
        destruct (Nat.eqb e e'); reflexivity.
    - destruct (sk m s); reflexivity.
  Qed.

  Lemma sc_viols m cl (k : Fr o) :
    viols (ms_settle p o m [] (ACall cl k)) = check_call p m cl ++ viols m.
  Proof. rewrite sc_all. cbn. now rewrite mcu_viols. Qed.
  Lemma sc_sk m cl (k : Fr o) : sk (ms_settle p o m [] (ACall cl k)) = sk (mon_call_upd m cl).
  Proof. now rewrite sc_all. Qed.
  Lemma sc_us m cl (k : Fr o) : us (ms_settle p o m [] (ACall cl k)) = us (mon_call_upd m cl).
  Proof. now rewrite sc_all. Qed.
  Lemma sc_subd m cl (k : Fr o) : subd (ms_settle p o m [] (ACall cl k)) = subd (mon_call_upd m cl).
  Proof. now rewrite sc_all. Qed.
  Lemma sc_task m cl (k : Fr o) : task (ms_settle p o m [] (ACall cl k)) = task (mon_call_upd m cl).
  Proof. now rewrite sc_all. Qed.
  Lemma sc_due m cl (k : Fr o) :
    err_due (ms_settle p o m [] (ACall cl k)) = err_due (mon_call_upd m cl).
  Proof. now rewrite sc_all. Qed.
  Lemma sc_errs m cl (k : Fr o) :
    errs_in (ms_settle p o m [] (ACall cl k)) = errs_in (mon_call_upd m cl).
  Proof. now rewrite sc_all. Qed.

  Lemma sr_all m :
    ms_settle p o m [] ARet =
    match cstack m with [] => m <| viols := check_quiescent p m ++ viols m |> | _ => m end.
  Proof.
    unfold ms_settle. cbn [map fold_left mon_event].
    destruct (cstack m); [now rewrite add_viols_eq | reflexivity].
  Qed.
  Lemma sr_viols m :
    viols (ms_settle p o m [] ARet) =
    match cstack m with [] => check_quiescent p m ++ viols m | _ => viols m end.
  Proof. rewrite sr_all. now destruct (cstack m). Qed.
  Lemma sr_sk m : sk (ms_settle p o m [] ARet) = sk m.
  Proof. rewrite sr_all. now destruct (cstack m). Qed.
  Lemma sr_us m : us (ms_settle p o m [] ARet) = us m.
  Proof. rewrite sr_all. now destruct (cstack m). Qed.
  Lemma sr_subd m : subd (ms_settle p o m [] ARet) = subd m.
  Proof. rewrite sr_all. now destruct (cstack m). Qed.
  Lemma sr_task m : task (ms_settle p o m [] ARet) = task m.
  Proof. rewrite sr_all. now destruct (cstack m). Qed.
  Lemma sr_due m : err_due (ms_settle p o m [] ARet) = err_due m.
  Proof. rewrite sr_all. now destruct (cstack m). Qed.
  Lemma sr_errs m : errs_in (ms_settle p o m [] ARet) = errs_in m.
  Proof. rewrite sr_all. now destruct (cstack m). Qed.

  Lemma quiet m : (forall s, err_due m s = None) -> check_quiescent p m = [].
  Proof.
    intros H. apply quiescent_nil; auto.
    - rewrite Hresub. discriminate.
    - rewrite Hc14. discriminate.
  Qed.

  #[local] Arguments ms_settle : simpl never.

  Ltac proj :=
    rewrite ?sc_viols, ?sc_sk, ?sc_us, ?sc_subd, ?sc_task, ?sc_due, ?sc_errs,
            ?sr_viols, ?sr_sk, ?sr_us, ?sr_subd, ?sr_task, ?sr_due, ?sr_errs.

  Lemma inv_sub c s aux : Inv c -> enabled p g_share c (MIn (ISub s aux)) = true ->
                          Inv (step p c (MIn (ISub s aux))).
  Proof.
    intros HI He. pose proof (step_cstack p c (MIn (ISub s aux)) (i_cs HI)) as Hcs'.
    destruct HI. start_in He Hlive Hdel Hg.
    cbn in He, Hg. destruct aux; [|discriminate]. unfold at_top in He.
    destruct (stack c) as [|fr st] eqn:Est; cbn in He; try discriminate.
    apply andb_prop in He. destruct He as [_ He].
    apply negb_true_iff in He.
    cbn in i_mode0. destruct i_mode0 as (N0 & N1 & N2 & N3).
    pose proof (i_subd0 _ He) as Hsk.
    assert (Hus : us (ms c) 0 <> USubd).
    { intros E. destruct (i_usubd0 E) as (_ & _ & _ & E'). discriminate. }
    destruct (sh_sinks (cst c)) as [|x l] eqn:El.
    - destruct (step_in p c (ISub s 0) Hlive Hdel (s' := {| sh_sinks := [s]; sh_tb := sh_tb (cst c); sh_first := s |}) (os := []) (a := ACall (CSub 0) ShDone)) as (Hc & Hs & Hm & Hd).
      { cbn. rewrite El. reflexivity. }
      assert (Eus : us_on (us (ms c) 0) = false) by now apply N2.
      constructor; try exact Hcs'; rewrite ?Hc, ?Hs, ?Hm, ?Hd, ?Est; cbn;
        unfold norm_inv, term_inv; proj; cbn; repeat (progress (rw_st; cbn)).
      + destruct (us (ms c) 0); cbn in *; congruence.
      + reflexivity.
      + repeat split.
      + repeat constructor. tauto.
      + tauto.
      + intros s0. unfold upd. destruct (Nat.eqb_spec s0 s); [discriminate | apply i_subd0].
      + exact i_tb0.
      + intros _. rewrite upd_same. auto.
      + intros i Hi. rewrite upd_other by exact Hi. now apply i_us_other0.
      + exact i_task0.
      + repeat split; try discriminate; try tauto.
        intros x Hx. apply N0 in Hx. destruct Hx.
    - destruct (step_in p c (ISub s 0) Hlive Hdel
                  (s' := {| sh_sinks := (x :: l) ++ [s]; sh_tb := sh_tb (cst c);
                            sh_first := sh_first (cst c) |})
                  (os := []) (a := ACall (CDn s DH) ShDone)) as (Hc & Hs & Hm & Hd).
      { cbn. rewrite El. cbn. rewrite app_length, Nat.add_comm. reflexivity. }
      assert (Eus : us (ms c) 0 = ULive).
      { destruct (us (ms c) 0) eqn:E; try congruence;
          exfalso; assert (H : x :: l = []) by (now apply N2); discriminate. }
      assert (Hx : sk (ms c) x = SLive) by (apply N1; [exact Hus | now left]).
      assert (Htb : sh_tb (cst c) = true) by (apply (i_tb0 x); congruence).
      assert (Hnin : ~ In s (x :: l)).
      { intros H. apply N1 in H; [congruence | exact Hus]. }
      constructor; try exact Hcs'; rewrite ?Hc, ?Hs, ?Hm, ?Hd, ?Est; cbn;
        unfold norm_inv, term_inv; proj; cbn; repeat (progress (rw_st; cbn)).
      + exact i_viols0.
      + reflexivity.
      + repeat split.
      + change (NoDup ((x :: l) ++ [s])). now apply nodup_snoc.
      + tauto.
      + intros s0. unfold upd. destruct (Nat.eqb_spec s0 s); [discriminate | apply i_subd0].
      + intros _ _. exact Htb.
      + discriminate.
      + exact i_us_other0.
      + exact i_task0.
      + repeat split; try discriminate; try exact N3.
        * intros x0. unfold upd. destruct (Nat.eqb_spec x0 s).
          -- intros _. right. subst. apply in_or_app. right. now left.
          -- intros H. apply N0 in H. destruct H as [H|H]; [now left|].
             right. apply in_or_app. now left.
        * intros _ x0 [H|H].
          -- subst x0. unfold upd. destruct (Nat.eqb_spec x s); [reflexivity|exact Hx].
          -- apply in_app_or in H. unfold upd. destruct (Nat.eqb_spec x0 s); [reflexivity|].
             destruct H as [H|[H|[]]]; [|congruence].
             apply N1; [exact Hus | now right].
  Qed.

  Definition stk_top_is (st : stk) (q : peer) : bool :=
    match st with [] => true | (_, cl) :: _ => peer_eqb (peer_of cl) q end.

  Lemma top_peer_stk (c : cfg o) q : top_peer_is c q = stk_top_is (stack c) q.
  Proof. unfold top_peer_is, stk_top_is. destruct (stack c) as [|[k cl] st]; reflexivity. Qed.

  (** the sink being called is not among those a suspended fan-out will still call *)
  Lemma peer_notin_fan st s :
    stk_ok st -> stk_top_is st (PSink s) = true -> ~ In s (fan_rest st).
  Proof.
    destruct st as [|[k cl] below]; cbn; [tauto|].
    intros [[Ht Hf] Hok] Hp.
    destruct cl as [i|i u|x m]; cbn in Hp; try discriminate.
    apply Nat.eqb_eq in Hp. subst x. destruct Hf as [Hpd Hf].
    pose proof (stk_ok_nofan _ Hok Hpd) as Hnil.
    destruct m as [|v|e|].
    - subst k. now rewrite Hnil.
    - destruct Hf as (rest & -> & Hnd). rewrite Hnil, app_nil_r. now inversion Hnd.
    - destruct Hf as (rest & -> & Hnd). rewrite Hnil, app_nil_r. now inversion Hnd.
    - destruct Hf as (rest & -> & Hnd). rewrite Hnil, app_nil_r. now inversion Hnd.
  Qed.

  (** a live sink cannot be the one a terminal fan-out is calling *)
  Lemma up_normal c s :
    Inv c -> stk_top_is (stack c) (PSink s) = true -> sk (ms c) s = SLive ->
    top_term (stack c) = None.
  Proof.
    intros [] Hp Hsk.
    destruct (stack c) as [|[k cl] below]; [reflexivity|].
    cbn in *. destruct k as [|d rest]; [reflexivity|].
    destruct (dmsg_is_term d) eqn:Ed; [exfalso|reflexivity].
    destruct i_stk0 as [[Ht Hf] Hok].
    destruct cl as [i|i u|x m]; cbn in Hp; try discriminate.
    apply Nat.eqb_eq in Hp. subst x. destruct Hf as [Hpd Hf].
    destruct i_mode0 as (_ & T1 & _).
    apply T1 in Hsk.
    destruct m as [|v|e|]; try discriminate;
      destruct Hf as (rest' & Ek & Hnd); inversion Ek; subst; now inversion Hnd.
  Qed.

  Lemma live_us c s :
    Inv c -> top_term (stack c) = None -> sk (ms c) s = SLive ->
    us (ms c) 0 = ULive /\ In s (sh_sinks (cst c)).
  Proof.
    intros [] Ht Hsk. rewrite Ht in i_mode0. destruct i_mode0 as (N0 & N1 & N2 & N3).
    pose proof (N0 _ Hsk) as Hin. split; [|exact Hin].
    destruct (us (ms c) 0) eqn:E; try reflexivity; exfalso.
    2: { destruct (i_usubd0 eq_refl) as (E1 & E2 & _). rewrite E1 in Hin.
         destruct Hin as [<-|[]]. congruence. }
    all: assert (H : sh_sinks (cst c) = []) by (now apply N2); rewrite H in Hin; destruct Hin.
  Qed.

  Lemma inv_up c s u : Inv c -> enabled p g_share c (MIn (IUp s u)) = true ->
                       Inv (step p c (MIn (IUp s u))).
  Proof.
    intros HI He. pose proof (step_cstack p c (MIn (IUp s u)) (i_cs HI)) as Hcs'.
    start_in He Hlive Hdel Hg.
    cbn in He. apply andb_prop in He. destruct He as [He _].
    apply andb_prop in He. destruct He as [Htop Hsk].
    rewrite top_peer_stk in Htop.
    assert (Hsk' : sk (ms c) s = SLive) by (destruct (sk (ms c) s); congruence).
    clear Hsk. rename Hsk' into Hsk.
    pose proof (@up_normal c s HI Htop Hsk) as Hnorm.
    destruct (@live_us c s HI Hnorm Hsk) as [Eus Hin].
    destruct HI. rewrite Hnorm in i_mode0. destruct i_mode0 as (N0 & N1 & N2 & N3).
    assert (Htb : sh_tb (cst c) = true) by (apply (i_tb0 s); congruence).
    pose proof (@peer_notin_fan _ s i_stk0 Htop) as Hnf.
    destruct u as [|e|].
    - destruct (step_in p c (IUp s UP) Hlive Hdel (s' := cst c) (os := [])
                  (a := ACall (CUp 0 UP) ShDone)) as (Hc & Hs & Hm & Hd).
      { cbn. now rewrite Htb. }
      constructor; try exact Hcs'; rewrite ?Hc, ?Hs, ?Hm, ?Hd; cbn;
        unfold norm_inv, term_inv; proj; cbn; repeat (progress (rw_st; cbn)); auto.
      all: try (repeat split; auto; discriminate).
      rewrite Eus in N1, N2. cbn in N2. repeat split; auto; apply N2.
    - destruct (remove_first s (sh_sinks (cst c))) as [|y l'] eqn:Erf.
      + destruct (step_in p c (IUp s (UE e)) Hlive Hdel
                    (s' := {| sh_sinks := []; sh_tb := sh_tb (cst c);
                              sh_first := sh_first (cst c) |})
                    (os := []) (a := ACall (CUp 0 UT) ShDone)) as (Hc & Hs & Hm & Hd).
        { cbn. rewrite Erf, Htb. reflexivity. }
        constructor; try exact Hcs'; rewrite ?Hc, ?Hs, ?Hm, ?Hd; cbn;
          unfold norm_inv, term_inv; proj; cbn; repeat (progress (rw_st; cbn)); auto.
        * repeat split; auto.
        * constructor.
        * intros s0 H. rewrite upd_other; [auto|]. intros ->. tauto.
        * intros s0 H. unfold upd. destruct (Nat.eqb_spec s0 s); subst; auto.
          apply i_subd0 in H. congruence.
        * discriminate.
        * intros i Hi. rewrite upd_other; auto.
        * repeat split; try tauto.
          -- intros x. unfold upd. destruct (Nat.eqb_spec x s); subst; [discriminate|].
             intros H. apply N0 in H.
             assert (H' : In x (remove_first s (sh_sinks (cst c)))) by (apply rf_in_neq; auto).
             now rewrite Erf in H'.
          -- intros x. unfold upd. destruct (Nat.eqb_spec x s); subst; auto.
      + destruct (step_in p c (IUp s (UE e)) Hlive Hdel
                    (s' := {| sh_sinks := remove_first s (sh_sinks (cst c));
                              sh_tb := sh_tb (cst c); sh_first := sh_first (cst c) |})
                    (os := []) (a := ARet)) as (Hc & Hs & Hm & Hd).
        { cbn. rewrite Erf. reflexivity. }
        assert (Hne : remove_first s (sh_sinks (cst c)) <> []) by (rewrite Erf; discriminate).
        clear Erf.
        constructor; try exact Hcs'; rewrite ?Hc, ?Hs, ?Hm, ?Hd, ?Hnorm; cbn;
          unfold norm_inv, term_inv; proj; cbn; repeat (progress (rw_st; cbn)); auto.
        * destruct (cstack (ms c)); [rewrite quiet|]; auto.
          cbn. intros x. unfold upd. destruct (Nat.eqb_spec x s); auto.
        * now apply rf_nodup.
        * intros s0 H. rewrite upd_other; [auto|]. intros ->. tauto.
        * intros s0 H. unfold upd. destruct (Nat.eqb_spec s0 s); subst; auto.
          apply i_subd0 in H. congruence.
        * discriminate.
        * repeat split; try tauto.
          -- intros x. unfold upd. destruct (Nat.eqb_spec x s); subst; [discriminate|].
             intros H. apply N0 in H. apply rf_in_neq; auto.
          -- intros _ x H. unfold upd. destruct (Nat.eqb_spec x s); subst.
             ++ exfalso. revert H. now apply rf_notin.
             ++ apply N1; [congruence|]. eapply rf_in; eassumption.
          -- discriminate.
          -- intros x. unfold upd. destruct (Nat.eqb_spec x s); subst; auto.
    - destruct (remove_first s (sh_sinks (cst c))) as [|y l'] eqn:Erf.
      + destruct (step_in p c (IUp s UT) Hlive Hdel
                    (s' := {| sh_sinks := []; sh_tb := sh_tb (cst c);
                              sh_first := sh_first (cst c) |})
                    (os := []) (a := ACall (CUp 0 UT) ShDone)) as (Hc & Hs & Hm & Hd).
        { cbn. rewrite Erf, Htb. reflexivity. }
        constructor; try exact Hcs'; rewrite ?Hc, ?Hs, ?Hm, ?Hd; cbn;
          unfold norm_inv, term_inv; proj; cbn; repeat (progress (rw_st; cbn)); auto.
        * repeat split; auto.
        * constructor.
        * intros s0 H. rewrite upd_other; [auto|]. intros ->. tauto.
        * intros s0 H. unfold upd. destruct (Nat.eqb_spec s0 s); subst; auto.
          apply i_subd0 in H. congruence.
        * discriminate.
        * intros i Hi. rewrite upd_other; auto.
        * repeat split; try tauto.
          -- intros x. unfold upd. destruct (Nat.eqb_spec x s); subst; [discriminate|].
             intros H. apply N0 in H.
             assert (H' : In x (remove_first s (sh_sinks (cst c)))) by (apply rf_in_neq; auto).
             now rewrite Erf in H'.
          -- intros x. unfold upd. destruct (Nat.eqb_spec x s); subst; auto.
      + destruct (step_in p c (IUp s UT) Hlive Hdel
                    (s' := {| sh_sinks := remove_first s (sh_sinks (cst c));
                              sh_tb := sh_tb (cst c); sh_first := sh_first (cst c) |})
                    (os := []) (a := ARet)) as (Hc & Hs & Hm & Hd).
        { cbn. rewrite Erf. reflexivity. }
        assert (Hne : remove_first s (sh_sinks (cst c)) <> []) by (rewrite Erf; discriminate).
        clear Erf.
        constructor; try exact Hcs'; rewrite ?Hc, ?Hs, ?Hm, ?Hd, ?Hnorm; cbn;
          unfold norm_inv, term_inv; proj; cbn; repeat (progress (rw_st; cbn)); auto.
        * destruct (cstack (ms c)); [rewrite quiet|]; auto.
          cbn. intros x. unfold upd. destruct (Nat.eqb_spec x s); auto.
        * now apply rf_nodup.
        * intros s0 H. rewrite upd_other; [auto|]. intros ->. tauto.
        * intros s0 H. unfold upd. destruct (Nat.eqb_spec s0 s); subst; auto.
          apply i_subd0 in H. congruence.
        * discriminate.
        * repeat split; try tauto.
          -- intros x. unfold upd. destruct (Nat.eqb_spec x s); subst; [discriminate|].
             intros H. apply N0 in H. apply rf_in_neq; auto.
          -- intros _ x H. unfold upd. destruct (Nat.eqb_spec x s); subst.
             ++ exfalso. revert H. now apply rf_notin.
             ++ apply N1; [congruence|]. eapply rf_in; eassumption.
          -- discriminate.
          -- intros x. unfold upd. destruct (Nat.eqb_spec x s); subst; auto.
  Qed.

  (** inside a call to the upstream (or at top level) no terminal fan-out is in progress *)
  Lemma dn_normal st i : stk_ok st -> stk_top_is st (PUp i) = true -> top_term st = None.
  Proof.
    destruct st as [|[k cl] below]; cbn; [reflexivity|].
    intros [[Ht Hf] Hok] Hp.
    destruct cl as [j|j u|x m]; cbn in Hp; try discriminate; now subst k.
  Qed.

  Lemma inv_dn c i d : Inv c -> enabled p g_share c (MIn (IDn i d)) = true ->
                       Inv (step p c (MIn (IDn i d))).
  Proof.
    intros HI He. pose proof (step_cstack p c (MIn (IDn i d)) (i_cs HI)) as Hcs'.
    start_in He Hlive Hdel Hg.
    cbn in He. apply andb_prop in He. destruct He as [Htop He].
    rewrite top_peer_stk in Htop.
    pose proof (@dn_normal _ i (i_stk HI) Htop) as Hnorm.
    destruct HI. rewrite Hnorm in i_mode0. destruct i_mode0 as (N0 & N1 & N2 & N3).
    destruct i as [|i].
    2: { rewrite i_us_other0 in He by lia. destruct d; cbn in He; discriminate. }
    destruct d as [|v|e|].
    - (* the upstream greets *)
      apply andb_prop in He. destruct He as [He _].
      assert (Eus : us (ms c) 0 = USubd) by (destruct (us (ms c) 0); congruence).
      destruct (i_usubd0 Eus) as (El & Hf & Hsf & Est).
      destruct (step_in p c (IDn 0 DH) Hlive Hdel
                  (s' := {| sh_sinks := sh_sinks (cst c); sh_tb := true;
                            sh_first := sh_first (cst c) |})
                  (os := []) (a := ACall (CDn (sh_first (cst c)) DH) ShDone))
        as (Hc & Hs & Hm & Hd).
      { reflexivity. }
      constructor; try exact Hcs'; rewrite ?Hc, ?Hs, ?Hm, ?Hd, ?Est; cbn;
        unfold norm_inv, term_inv; proj; cbn; repeat (progress (rw_st; cbn)); auto.
      + repeat split; auto.
      + tauto.
      + intros s H. unfold upd. destruct (Nat.eqb_spec s (sh_first (cst c))); subst; auto.
        congruence.
      + discriminate.
      + intros i Hi. rewrite upd_other; auto.
      + rewrite El. repeat split; try discriminate; auto.
        * intros x. unfold upd. destruct (Nat.eqb_spec x (sh_first (cst c))); subst.
          -- intros _. now left.
          -- intros H. apply N0 in H. now rewrite El in H.
        * intros _ x [<-|[]]. now rewrite upd_same.
    - (* Data: fan-out over the snapshot *)
      apply andb_prop in He. destruct He as [He _].
      assert (Eus : us (ms c) 0 = ULive) by (destruct (us (ms c) 0); cbn in He; congruence).
      cbn in Hg. apply negb_true_iff in Hg. rewrite i_cs0 in Hg.
      destruct (sh_sinks (cst c)) as [|x rest] eqn:El.
      { exfalso. rewrite Eus in N2. cbn in N2. destruct N2 as [N2 _].
        specialize (N2 eq_refl). discriminate. }
      assert (Hx : sk (ms c) x = SLive) by (apply N1; [congruence | now left]).
      destruct (step_in p c (IDn 0 (DD v)) Hlive Hdel (s' := cst c) (os := [])
                  (a := ACall (CDn x (DD v)) (ShFan (DD v) rest))) as (Hc & Hs & Hm & Hd).
      { cbn. rewrite El. reflexivity. }
      constructor; try exact Hcs'; rewrite ?Hc, ?Hs, ?Hm, ?Hd, ?Hnorm, ?El; cbn;
        unfold norm_inv, term_inv; proj; cbn; repeat (progress (rw_st; cbn)); auto.
      + repeat split; auto. exists rest. split; auto.
      + intros s H. apply in_app_or in H. destruct H as [H|H]; auto.
        apply N1; [congruence | now right].
      + discriminate.
      + rewrite Eus in N1, N2. rewrite El. repeat split; auto; apply N2.
    - (* Error: fan-out of a terminal message *)
      apply andb_prop in He. destruct He as [He _].
      assert (Eus : us (ms c) 0 = ULive) by (destruct (us (ms c) 0); cbn in He; congruence).
      cbn in Hg. apply negb_true_iff in Hg. rewrite i_cs0 in Hg.
      destruct (sh_sinks (cst c)) as [|x rest] eqn:El.
      { exfalso. rewrite Eus in N2. cbn in N2. destruct N2 as [N2 _].
        specialize (N2 eq_refl). discriminate. }
      assert (Hx : sk (ms c) x = SLive) by (apply N1; [congruence | now left]).
      destruct (step_in p c (IDn 0 (DE e)) Hlive Hdel (s' := cst c) (os := [])
                  (a := ACall (CDn x (DE e)) (ShFan (DE e) rest))) as (Hc & Hs & Hm & Hd).
      { cbn. rewrite El. reflexivity. }
      pose proof (stk_ok_nofan _ i_stk0 Hg) as Hnf.
      assert (Hdue : forall s e0, due_on_error p (ms c) e s = Some e0 ->
                                  e0 = e /\ sk (ms c) s = SLive).
      { intros s e0. unfold due_on_error. rewrite N3.
        destruct (s <? nsinks p); cbn; [|discriminate].
        destruct (sk (ms c) s); try discriminate. intros H. inversion H. auto. }
      assert (Edue : due_on_error p (ms c) e x = Some e \/ due_on_error p (ms c) e x = None).
      { unfold due_on_error. rewrite Hx, N3. destruct (x <? nsinks p); auto. }
      destruct Edue as [Edue|Edue].
      + constructor; try exact Hcs'; rewrite ?Hc, ?Hs, ?Hm, ?Hd, ?Hnorm, ?El; cbn;
          unfold norm_inv, term_inv; proj; cbn;
          repeat (progress (rw_st; rewrite ?Edue, ?Nat.eqb_refl; cbn)); auto.
        * repeat split; auto. exists rest. split; auto.
        * intros s H. rewrite Hnf, app_nil_r in H.
          rewrite upd_other; [apply N1; [congruence | now right]|].
          intros ->. inversion i_nodup0; tauto.
        * intros s H. unfold upd. destruct (Nat.eqb_spec s x); subst; auto.
          apply i_subd0 in H. congruence.
        * intros s. unfold upd. destruct (Nat.eqb_spec s x); subst; [|apply i_tb0].
          intros _. apply (i_tb0 x). congruence.
        * discriminate.
        * intros i Hi. rewrite upd_other; auto.
        * split; [reflexivity|]. split; [|split].
          -- intros s. unfold upd. destruct (Nat.eqb_spec s x); [discriminate|].
             intros H. apply N0 in H. destruct H; [congruence | auto].
          -- intros s e0. unfold upd. destruct (Nat.eqb_spec s x); [discriminate|].
             intros H. apply Hdue in H. destruct H as [-> H]. split; auto.
             apply N0 in H. destruct H; [congruence | auto].
          -- intros e0 H. inversion H. now rewrite Nat.eqb_refl.
      + constructor; try exact Hcs'; rewrite ?Hc, ?Hs, ?Hm, ?Hd, ?Hnorm, ?El; cbn;
          unfold norm_inv, term_inv; proj; cbn;
          repeat (progress (rw_st; rewrite ?Edue, ?Nat.eqb_refl; cbn)); auto.
        * repeat split; auto. exists rest. split; auto.
        * intros s H. rewrite Hnf, app_nil_r in H.
          rewrite upd_other; [apply N1; [congruence | now right]|].
          intros ->. inversion i_nodup0; tauto.
        * intros s H. unfold upd. destruct (Nat.eqb_spec s x); subst; auto.
          apply i_subd0 in H. congruence.
        * intros s. unfold upd. destruct (Nat.eqb_spec s x); subst; [|apply i_tb0].
          intros _. apply (i_tb0 x). congruence.
        * discriminate.
        * intros i Hi. rewrite upd_other; auto.
        * split; [reflexivity|]. split; [|split].
          -- intros s. unfold upd. destruct (Nat.eqb_spec s x); [discriminate|].
             intros H. apply N0 in H. destruct H; [congruence | auto].
          -- intros s e0 H. destruct (Nat.eq_dec s x) as [->|Hn]; [congruence|].
             apply Hdue in H. destruct H as [-> H]. split; auto.
             apply N0 in H. destruct H; [congruence | auto].
          -- intros e0 H. inversion H. now rewrite Nat.eqb_refl.
    - (* Terminate *)
      apply andb_prop in He. destruct He as [He _].
      assert (Eus : us (ms c) 0 = ULive) by (destruct (us (ms c) 0); cbn in He; congruence).
      cbn in Hg. apply negb_true_iff in Hg. rewrite i_cs0 in Hg.
      destruct (sh_sinks (cst c)) as [|x rest] eqn:El.
      { exfalso. rewrite Eus in N2. cbn in N2. destruct N2 as [N2 _].
        specialize (N2 eq_refl). discriminate. }
      assert (Hx : sk (ms c) x = SLive) by (apply N1; [congruence | now left]).
      destruct (step_in p c (IDn 0 DT) Hlive Hdel (s' := cst c) (os := [])
                  (a := ACall (CDn x DT) (ShFan DT rest))) as (Hc & Hs & Hm & Hd).
      { cbn. rewrite El. reflexivity. }
      pose proof (stk_ok_nofan _ i_stk0 Hg) as Hnf.
      constructor; try exact Hcs'; rewrite ?Hc, ?Hs, ?Hm, ?Hd, ?Hnorm, ?El; cbn;
          unfold norm_inv, term_inv; proj; cbn;
          repeat (progress (rw_st; cbn)); auto.
      + repeat split; auto. exists rest. split; auto.
      + intros s H. rewrite Hnf, app_nil_r in H.
        rewrite upd_other; [apply N1; [congruence | now right]|].
        intros ->. inversion i_nodup0; tauto.
      + intros s H. unfold upd. destruct (Nat.eqb_spec s x); subst; auto.
        apply i_subd0 in H. congruence.
      + intros s. unfold upd. destruct (Nat.eqb_spec s x); subst; [|apply i_tb0].
        intros _. apply (i_tb0 x). congruence.
      + discriminate.
      + intros i Hi. rewrite upd_other; auto.
      + split; [reflexivity|]. split; [|split].
        * intros s. unfold upd. destruct (Nat.eqb_spec s x); [discriminate|].
          intros H. apply N0 in H. destruct H; [congruence | auto].
        * intros s e0. rewrite N3. discriminate.
        * discriminate.
  Qed.

  Lemma inv_ret c : Inv c -> enabled p g_share c MRet = true -> Inv (step p c MRet).
  Proof.
    intros HI He. pose proof (step_cstack p c MRet (i_cs HI)) as Hcs'.
    pose proof (enabled_live _ _ _ _ He) as Hlive.
    destruct (enabled_ret_stack _ _ _ He) as (k & cl & below & Hst).
    destruct HI.
    assert (Hnsub : us (ms c) 0 <> USubd).
    { intros E. destruct (i_usubd0 E) as (_ & _ & _ & Est).
      unfold enabled in He. rewrite Hlive, Est, Hlate, E in He. discriminate. }
    rewrite Hst in i_stk0, i_fan0, i_mode0. cbn in i_stk0.
    destruct i_stk0 as [[Htb Hf] Hok].
    destruct k as [|m rest].
    - (* a handler that has nothing left to do *)
      destruct (step_ret p c Hlive Hst (s' := cst c) (os := []) (a := ARet) eq_refl)
        as (Hc & Hs & Hm & Hd).
      cbn in i_mode0, i_fan0. destruct i_mode0 as (N0 & N1 & N2 & N3).
      constructor; try exact Hcs'; rewrite ?Hc, ?Hs, ?Hm, ?Hd, ?Htb; cbn;
        unfold norm_inv, term_inv; proj; cbn; repeat (progress (rw_st; cbn)); auto.
      + destruct (tl (cstack (ms c))); [rewrite quiet|]; auto.
      + tauto.
    - (* a fan-out continues *)
      assert (Ecl : exists x, cl = CDn x m /\ pending_delivery (map snd below) = false /\
                              NoDup (x :: rest) /\ m <> DH).
      { destruct cl as [i|i u|x m']; try discriminate.
        destruct Hf as [Hp Hf]. exists x.
        destruct m' as [|v|e|]; try discriminate;
          destruct Hf as (rest' & Ek & Hnd); inversion Ek; subst;
          repeat split; auto; discriminate. }
      destruct Ecl as (x & -> & Hpd & Hnd & HnDH). clear Hf.
      pose proof (stk_ok_nofan _ Hok Hpd) as Hnf.
      cbn in i_fan0. rewrite Hnf, app_nil_r in i_fan0.
      destruct rest as [|b rest'].
      + (* the fan-out is complete *)
        cbn in i_mode0.
        destruct m as [|v|e|]; [congruence| | |]; cbn in i_mode0.
        * destruct (step_ret p c Hlive Hst (s' := cst c) (os := []) (a := ARet) eq_refl)
            as (Hc & Hs & Hm & Hd).
          destruct i_mode0 as (N0 & N1 & N2 & N3).
          constructor; try exact Hcs'; rewrite ?Hc, ?Hs, ?Hm, ?Hd, ?Htb; cbn;
            unfold norm_inv, term_inv; proj; cbn; repeat (progress (rw_st; cbn)); auto.
          -- destruct (tl (cstack (ms c))); [rewrite quiet|]; auto.
          -- rewrite Hnf. tauto.
          -- tauto.
        * destruct (step_ret p c Hlive Hst
                      (s' := {| sh_sinks := []; sh_tb := sh_tb (cst c);
                                sh_first := sh_first (cst c) |})
                      (os := []) (a := ARet) eq_refl) as (Hc & Hs & Hm & Hd).
          destruct i_mode0 as (T1 & T2 & T3 & T4).
          assert (N3 : forall s, err_due (ms c) s = None).
          { intros s. destruct (err_due (ms c) s) as [e0|] eqn:E; [|reflexivity].
            destruct (T3 _ _ E) as [_ []]. }
          constructor; try exact Hcs'; rewrite ?Hc, ?Hs, ?Hm, ?Hd, ?Htb; cbn;
            unfold norm_inv, term_inv; proj; cbn; repeat (progress (rw_st; cbn)); auto.
          -- destruct (tl (cstack (ms c))); [rewrite quiet|]; auto.
          -- constructor.
          -- rewrite Hnf. tauto.
          -- discriminate.
          -- repeat split; auto; tauto.
        * destruct (step_ret p c Hlive Hst
                      (s' := {| sh_sinks := []; sh_tb := sh_tb (cst c);
                                sh_first := sh_first (cst c) |})
                      (os := []) (a := ARet) eq_refl) as (Hc & Hs & Hm & Hd).
          destruct i_mode0 as (T1 & T2 & T3 & T4).
          assert (N3 : forall s, err_due (ms c) s = None).
          { intros s. destruct (err_due (ms c) s) as [e0|] eqn:E; [|reflexivity].
            destruct (T3 _ _ E) as [_ []]. }
          constructor; try exact Hcs'; rewrite ?Hc, ?Hs, ?Hm, ?Hd, ?Htb; cbn;
            unfold norm_inv, term_inv; proj; cbn; repeat (progress (rw_st; cbn)); auto.
          -- destruct (tl (cstack (ms c))); [rewrite quiet|]; auto.
          -- constructor.
          -- rewrite Hnf. tauto.
          -- discriminate.
          -- repeat split; auto; tauto.
      + (* the next sink of the snapshot is called *)
        assert (Hb : sk (ms c) b = SLive) by (apply i_fan0; now left).
        assert (Hnd' : NoDup (b :: rest')) by (now inversion Hnd).
        assert (Hbr : ~ In b rest') by (now inversion Hnd').
        destruct (step_ret p c Hlive Hst (s' := cst c) (os := [])
                    (a := ACall (CDn b m) (ShFan m rest')) eq_refl) as (Hc & Hs & Hm & Hd).
        cbn in i_mode0.
        destruct m as [|v|e|]; [congruence| | |]; cbn in i_mode0.
        * destruct i_mode0 as (N0 & N1 & N2 & N3).
          constructor; try exact Hcs'; rewrite ?Hc, ?Hs, ?Hm, ?Hd, ?Htb; cbn;
            unfold norm_inv, term_inv; proj; cbn; repeat (progress (rw_st; cbn)); auto.
          -- repeat split; auto. exists rest'. split; auto.
          -- intros s H. rewrite Hnf, app_nil_r in H. apply i_fan0. now right.
          -- tauto.
        * destruct i_mode0 as (T1 & T2 & T3 & T4).
          pose proof (T4 e eq_refl) as Hex.
          assert (Edue : err_due (ms c) b = Some e \/ err_due (ms c) b = None).
          { destruct (err_due (ms c) b) as [e'|] eqn:E; auto.
            destruct (T3 _ _ E) as [E' _]. inversion E'. auto. }
          destruct Edue as [Edue|Edue].
          -- constructor; try exact Hcs'; rewrite ?Hc, ?Hs, ?Hm, ?Hd, ?Htb; cbn;
               unfold norm_inv, term_inv; proj; cbn;
               repeat (progress (rw_st; rewrite ?Edue, ?Hex, ?Nat.eqb_refl; cbn)); auto.
             ++ repeat split; auto. exists rest'. split; auto.
             ++ intros s H. rewrite Hnf, app_nil_r in H.
                rewrite upd_other; [apply i_fan0; now right|]. intros ->. tauto.
             ++ intros s H. unfold upd. destruct (Nat.eqb_spec s b); subst; auto.
                apply i_subd0 in H. congruence.
             ++ intros s. unfold upd. destruct (Nat.eqb_spec s b); subst; [|apply i_tb0].
                intros _. apply (i_tb0 b). congruence.
             ++ discriminate.
             ++ split; [reflexivity|]. split; [|split]; auto.
                ** intros s. unfold upd. destruct (Nat.eqb_spec s b); [discriminate|].
                   intros H. apply T2 in H. destruct H; [congruence | auto].
                ** intros s e0. unfold upd. destruct (Nat.eqb_spec s b); [discriminate|].
                   intros H. apply T3 in H. destruct H as [-> H]. split; auto.
                   destruct H; [congruence | auto].
          -- constructor; try exact Hcs'; rewrite ?Hc, ?Hs, ?Hm, ?Hd, ?Htb; cbn;
               unfold norm_inv, term_inv; proj; cbn;
               repeat (progress (rw_st; rewrite ?Edue, ?Hex, ?Nat.eqb_refl; cbn)); auto.
             ++ repeat split; auto. exists rest'. split; auto.
             ++ intros s H. rewrite Hnf, app_nil_r in H.
                rewrite upd_other; [apply i_fan0; now right|]. intros ->. tauto.
             ++ intros s H. unfold upd. destruct (Nat.eqb_spec s b); subst; auto.
                apply i_subd0 in H. congruence.
             ++ intros s. unfold upd. destruct (Nat.eqb_spec s b); subst; [|apply i_tb0].
                intros _. apply (i_tb0 b). congruence.
             ++ discriminate.
             ++ split; [reflexivity|]. split; [|split]; auto.
                ** intros s. unfold upd. destruct (Nat.eqb_spec s b); [discriminate|].
                   intros H. apply T2 in H. destruct H; [congruence | auto].
                ** intros s e0 H. destruct (Nat.eq_dec s b) as [->|Hn]; [congruence|].
                   apply T3 in H. destruct H as [-> H]. split; auto.
                   destruct H; [congruence | auto].
        * destruct i_mode0 as (T1 & T2 & T3 & T4).
          assert (Edue : err_due (ms c) b = None).
          { destruct (err_due (ms c) b) as [e'|] eqn:E; auto.
            destruct (T3 _ _ E) as [E' _]. discriminate. }
          constructor; try exact Hcs'; rewrite ?Hc, ?Hs, ?Hm, ?Hd, ?Htb; cbn;
            unfold norm_inv, term_inv; proj; cbn;
            repeat (progress (rw_st; rewrite ?Edue; cbn)); auto.
          -- repeat split; auto. exists rest'. split; auto.
          -- intros s H. rewrite Hnf, app_nil_r in H.
             rewrite upd_other; [apply i_fan0; now right|]. intros ->. tauto.
          -- intros s H. unfold upd. destruct (Nat.eqb_spec s b); subst; auto.
             apply i_subd0 in H. congruence.
          -- intros s. unfold upd. destruct (Nat.eqb_spec s b); subst; [|apply i_tb0].
             intros _. apply (i_tb0 b). congruence.
          -- discriminate.
          -- split; [reflexivity|]. split; [|split]; auto.
             ++ intros s. unfold upd. destruct (Nat.eqb_spec s b); [discriminate|].
                intros H. apply T2 in H. destruct H; [congruence | auto].
             ++ intros s e0 H. destruct (Nat.eq_dec s b) as [->|Hn]; [congruence|].
                apply T3 in H. destruct H as [H _]. discriminate.
  Qed.

  Lemma inv_step c m : Inv c -> enabled p g_share c m = true -> Inv (step p c m).
  Proof.
    intros HI He. destruct m as [[s aux|s u|i d|s]|].
    - now apply inv_sub.
    - now apply inv_up.
    - now apply inv_dn.
    - exfalso. destruct HI. unfold enabled in He.
      repeat (apply andb_prop in He; destruct He as [? He]).
      cbn in He. now rewrite i_task0 in He.
    - now apply inv_ret.
  Qed.

  Theorem inv_reach c : reach p g_share c -> Inv c.
  Proof. induction 1; [apply inv0 | now apply inv_step]. Qed.

  (** C12, state form: outside the fan-out of a terminal message the upstream
      subscription is on exactly while the list of sinks is non-empty; during
      such a fan-out the upstream has ended (and the list is cleared when the
      fan-out completes) *)
  Theorem one_upstream (c : cfg o) :
    reach p g_share c ->
    match top_term (stack c) with
    | None => (us (ms c) 0 = ULive \/ us (ms c) 0 = USubd) <-> sh_sinks (cst c) <> []
    | Some _ => us (ms c) 0 = UEnded
    end.
  Proof.
    intros Hr. destruct (inv_reach Hr).
    destruct (top_term (stack c)) as [[d rest]|].
    - now destruct i_mode0.
    - destruct i_mode0 as (_ & _ & N2 & _).
      destruct (us (ms c) 0); cbn in N2; split; intros H.
      all: try (destruct H; discriminate).
      all: try (exfalso; apply H; now apply N2).
      all: try (intros E; apply N2 in E; discriminate).
      all: auto.
  Qed.

  (** C12: at a quiescent configuration the upstream is alive exactly while
      some sink is attached *)
  Theorem refcount (c : cfg o) :
    reach p g_share c -> stack c = [] ->
    (exists s, sk (ms c) s = SLive) <-> us (ms c) 0 = ULive.
  Proof.
    intros Hr Hst. pose proof (inv_reach Hr) as HI.
    assert (Hn : top_term (stack c) = None) by now rewrite Hst.
    split.
    - intros [s Hs]. now destruct (@live_us c s HI Hn Hs).
    - intros Eus. destruct HI. rewrite Hn in i_mode0.
      destruct i_mode0 as (_ & N1 & N2 & _).
      destruct (sh_sinks (cst c)) as [|x l] eqn:El.
      + exfalso. rewrite Eus in N2. cbn in N2. destruct N2 as [N2 _].
        specialize (N2 eq_refl). discriminate.
      + exists x. apply N1; [congruence | now left].
  Qed.

  (** C12, event form: share subscribes to its upstream only inside the
      subscription of a sink that finds no sink attached (and the upstream
      subscription off) *)
  Lemma handle_sub inp s s' os i k :
    sh_handle inp s = (s', os, ACall (CSub i) k) ->
    i = 0 /\ sh_sinks s = [] /\ exists x aux, inp = ISub x aux.
  Proof.
    destruct inp as [x aux|x [|e|]|[|j] [|v|e|]|x]; cbn.
    - destruct (sh_sinks s) as [|y l]; cbn.
      + intros H. inversion H. repeat split; eauto.
      + rewrite app_length, Nat.add_comm. cbn. intros H. inversion H.
    - destruct (sh_tb s); intros H; inversion H.
    - destruct (remove_first x (sh_sinks s)); [destruct (sh_tb s)|]; intros H; inversion H.
    - destruct (remove_first x (sh_sinks s)); [destruct (sh_tb s)|]; intros H; inversion H.
    - intros H; inversion H.
    - destruct (sh_sinks s); intros H; inversion H.
    - destruct (sh_sinks s); intros H; inversion H.
    - destruct (sh_sinks s); intros H; inversion H.
    - intros H; inversion H.
    - intros H; inversion H.
    - intros H; inversion H.
    - intros H; inversion H.
    - intros H; inversion H.
  Qed.

  Lemma resume_sub fr s s' os i k : sh_resume fr s = (s', os, ACall (CSub i) k) -> False.
  Proof.
    destruct fr as [|m rest]; cbn; [intros H; inversion H|].
    destruct rest; cbn; [destruct (dmsg_is_term m)|]; intros H; inversion H.
  Qed.

  Theorem sub_only_first (c : cfg o) m :
    reach p g_share c -> enabled p g_share c m = true ->
    forall i tr, rtrace (step p c m) = ECall (CSub i) :: tr ->
    i = 0 /\ (exists s, m = MIn (ISub s 0)) /\ stack c = [] /\
    sh_sinks (cst c) = [] /\ (forall s, sk (ms c) s <> SLive) /\
    us (ms c) 0 <> ULive /\ us (ms c) 0 <> USubd.
  Proof.
    intros Hr He i tr Htr. pose proof (inv_reach Hr) as HI.
    pose proof (enabled_live _ _ _ _ He) as Hlive.
    destruct m as [inp|].
    - pose proof (enabled_deliverable _ _ _ _ He) as Hdel.
      destruct (handle o inp (cst c)) as [[s' os] a] eqn:Hh.
      rewrite (step_in_rtrace p c inp Hlive Hdel Hh) in Htr.
      destruct a as [| |cl k]; cbn in Htr; try discriminate.
      inversion Htr; subst cl. clear Htr.
      destruct (handle_sub _ _ Hh) as (-> & El & x & aux & ->).
      start_in He Hlive' Hdel' Hg. cbn in Hg. destruct aux; [|discriminate].
      cbn in He. unfold at_top in He.
      destruct (stack c) as [|fr st] eqn:Est; [|discriminate].
      destruct HI. rewrite Est in i_mode0. cbn in i_mode0.
      destruct i_mode0 as (N0 & N1 & N2 & N3).
      assert (Eus : us_on (us (ms c) 0) = false) by now apply N2.
      repeat split; eauto.
      + intros s Hs. apply N0 in Hs. now rewrite El in Hs.
      + intros E. now rewrite E in Eus.
      + intros E. now rewrite E in Eus.
    - destruct (enabled_ret_stack _ _ _ He) as (k & cl & rest & Hst).
      destruct (resume o k (cst c)) as [[s' os] a] eqn:Hres.
      rewrite (step_ret_rtrace p c Hlive Hst Hres) in Htr.
      destruct a as [| |cl' k']; cbn in Htr; try discriminate.
      inversion Htr; subst cl'. exfalso. eapply resume_sub. exact Hres.
  Qed.
End ShareInv.

(** ** Exported theorems.  The regime of share: the upstream may be
    subscribed again after it is over ([resub]), the C14/C15 checks are off,
    upstreams greet inside the subscribing call; [nsinks p] is arbitrary. *)

(** C01-C05, C17: no protocol violation and no panic in any reachable configuration *)
Theorem share_safe p :
  resub p = true -> no_nest p = false -> c14 p = false -> late_ok p = false ->
  forall c : cfg share_op, reach p g_share c -> viols (ms c) = [] /\ dead c = false.
Proof.
  intros H1 H2 H3 H4 c Hr. destruct (inv_reach H1 H2 H3 H4 Hr). split; assumption.
Qed.
Print Assumptions share_safe.

(** the innermost activation is the fan-out of a Terminate/Error *)
Definition in_term_fanout (c : cfg share_op) : bool :=
  match stack c with
  | (ShFan m _, _) :: _ => dmsg_is_term m
  | _ => false
  end.

(** C12: one upstream subscription, on exactly while sinks are attached.
    State form, at every control point: outside the fan-out of a terminal
    message the upstream is subscribed/alive iff the list of sinks is not
    empty (inside one the upstream has just ended and the list, not yet
    cleared, is cleared when the fan-out completes).  Event form: a step
    calls [CSub i] only if it is the subscription of a sink, at top level, that
    finds no sink attached and no upstream subscription on; [i = 0]. *)
Theorem share_one_upstream p :
  resub p = true -> no_nest p = false -> c14 p = false -> late_ok p = false ->
  forall c : cfg share_op, reach p g_share c ->
  (if in_term_fanout c then us (ms c) 0 = UEnded
   else (us (ms c) 0 = ULive \/ us (ms c) 0 = USubd) <-> sh_sinks (cst c) <> []) /\
  (forall m, enabled p g_share c m = true ->
   forall i tr, rtrace (step p c m) = ECall (CSub i) :: tr ->
   i = 0 /\ (exists s, m = MIn (ISub s 0)) /\ stack c = [] /\
   sh_sinks (cst c) = [] /\ (forall s, sk (ms c) s <> SLive) /\
   us (ms c) 0 <> ULive /\ us (ms c) 0 <> USubd).
Proof.
  intros H1 H2 H3 H4 c Hr. split.
  - pose proof (one_upstream H1 H2 H3 H4 Hr) as H.
    unfold in_term_fanout. unfold top_term in H.
    destruct (stack c) as [|[[|m rest] cl] st]; try exact H.
    destruct (dmsg_is_term m); exact H.
  - intros m He i tr Htr. eapply sub_only_first; eauto.
Qed.
Print Assumptions share_one_upstream.

(** C12: at a quiescent configuration the upstream is alive exactly while
    some sink is attached (disposed when the last sink detaches, subscribed
    again when a sink attaches afterwards) *)
Theorem share_refcount p :
  resub p = true -> no_nest p = false -> c14 p = false -> late_ok p = false ->
  forall c : cfg share_op, reach p g_share c -> stack c = [] ->
  ((exists s, sk (ms c) s = SLive) <-> us (ms c) 0 = ULive).
Proof. intros H1 H2 H3 H4 c Hr Hst. now apply (refcount H1 H2 H3 H4 Hr). Qed.
Print Assumptions share_refcount.

(** ** Non-vacuity: the scenarios the invariant was designed against are
    scripts of the conformant environment (five sinks): a sink pulling inside
    its greeting, a middle sink detaching inside its own data handler during
    a fan-out, the last sink detaching inside a fan-out (upstream disposed),
    re-attachment afterwards (upstream subscribed again), and an upstream
    Error fanned out to two sinks. *)
Definition p_demo : mparams :=
  {| nsinks := 5; late_ok := false; pullable := false; one_pull := false;
     resub := true; no_nest := false; c14 := false |}.

Definition demo_script : list move :=
  [ MIn (ISub 0 0); MIn (IDn 0 DH); MIn (IUp 0 UP); MRet; MRet; MRet;
    MIn (ISub 1 0); MRet; MIn (ISub 2 0); MRet;
    MIn (IDn 0 (DD (VN 7))); MRet; MIn (IUp 1 UT); MRet; MRet;
    MIn (IDn 0 (DD (VN 8))); MIn (IUp 0 UT); MRet; MIn (IUp 2 UT); MRet; MRet;
    MIn (ISub 3 0); MIn (IDn 0 DH); MRet; MRet; MIn (ISub 4 0); MRet;
    MIn (IDn 0 (DE 100)); MRet; MRet ].

Example demo_reachable : reach p_demo g_share (run p_demo share_op demo_script).
Proof. apply reach_run. vm_compute. reflexivity. Qed.

Example demo_end :
  let c := run p_demo share_op demo_script in
  stack c = [] /\ sh_sinks (cst c) = [] /\ us (ms c) 0 = UEnded /\
  map (sk (ms c)) [0; 1; 2; 3; 4] = [SDisposed; SDisposed; SDisposed; SFinished; SFinished] /\
  ports (ms c) = [0; 0] /\ viols (ms c) = [].
Proof. vm_compute. repeat split. Qed.
