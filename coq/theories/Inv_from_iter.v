(** * Inv_from_iter: the master invariant of from_iter, over every reachable
      configuration, with the C15 monitor check (no_nest) switched on. *)
From CB Require Import ProofLib Spec.

Set Implicit Arguments.

(** ** Trace projection: the results of Iterator::next, in order *)
Fixpoint nexts (tr : list event) : list (option val) :=
  match tr with
  | [] => []
  | EObs (ONext r) :: tr' => r :: nexts tr'
  | _ :: tr' => nexts tr'
  end.

Lemma nexts_app tr1 tr2 : nexts (tr1 ++ tr2) = nexts tr1 ++ nexts tr2.
Proof.
  induction tr1 as [|e tr1 IH]; cbn; [reflexivity|].
  destruct e as [i|cl| | |[r|v|s b|s]|]; cbn; try exact IH. now rewrite IH.
Qed.

Definition is_some (r : option val) : bool :=
  match r with Some _ => true | None => false end.

Lemma filter_app_one A (f : A -> bool) l x :
  filter f (l ++ [x]) = filter f l ++ (if f x then [x] else []).
Proof. induction l as [|y l IH]; cbn; [reflexivity|]. rewrite IH. now destruct (f y). Qed.

Lemma map_seq_S A (f : nat -> A) n : map f (seq 0 (S n)) = map f (seq 0 n) ++ [f n].
Proof. now rewrite seq_S, map_app. Qed.

Local Arguments trace : simpl never.
Local Arguments seq : simpl never.

Lemma in_none_snoc_some (l : list (option val)) v : In None (l ++ [Some v]) <-> In None l.
Proof.
  rewrite in_app_iff. cbn. split; [intros [H|[H|[]]]; [exact H | discriminate] | now left].
Qed.

Lemma in_none_snoc_none (l : list (option val)) : In None (l ++ [None]) <-> True.
Proof. rewrite in_app_iff. cbn. tauto. Qed.

Section FromIterInv.
  Variable it : nat -> option val.
  Variable p : mparams.
  Hypothesis Hns : nsinks p = 1.
  Hypothesis Hresub : resub p = false.
  Hypothesis Hnonest : no_nest p = true.
  Hypothesis Hc14 : c14 p = false.
  Let o := from_iter_op it.
  Notation gstd := g_std.

  (** what can be below the emission loop: nothing, or the subscribing
      activation suspended in its Handshake delivery *)
  Definition is_base (st : list (fi_fr * call)) : Prop :=
    st = [] \/ st = [(FiDone, CDn 0 DH)].

  (** [fi_in_loop] is tied to the stack: it is set iff exactly one loop frame
      ([FiLoop] inside a Data delivery, [FiAfterBreak] inside the Terminate
      delivery) is on the stack, and that frame is the innermost one.  In
      particular at most one [CDn 0 (DD _)] is pending at any time. *)
  Definition shape (il : bool) (k : sks) (st : list (fi_fr * call)) : Prop :=
    exists b, is_base b /\
      ((il = false /\ st = b) \/
       (il = true /\ (k = SLive \/ k = SDisposed) /\
        exists v, st = (FiLoop, CDn 0 (DD v)) :: b) \/
       (il = true /\ k = SFinished /\ st = (FiAfterBreak, CDn 0 DT) :: b)).

  Record Inv (c : cfg o) : Prop := {
    i_viols : viols (ms c) = [];
    i_dead : dead c = false;
    i_cstack : cstack (ms c) = map snd (stack c);
    i_shape : shape (fi_in_loop (cst c)) (sk (ms c) 0) (stack c);
    i_subd : subd (ms c) 0 = match sk (ms c) 0 with SNone => false | _ => true end;
    i_none : sk (ms c) 0 = SNone -> stack c = [] /\ fi_pos (cst c) = 0;
    i_compl : fi_completed (cst c) = match sk (ms c) 0 with SDisposed => true | _ => false end;
    i_rdone : fi_res_done (cst c) = match sk (ms c) 0 with SFinished => true | _ => false end;
    i_us : forall i, us (ms c) i = UNone;
    i_due : forall s, err_due (ms c) s = None;
    i_ports : ports (ms c) = [];
    i_sk_other : forall s, s <> 0 -> sk (ms c) s = SNone;
    i_task : forall s, task (ms c) s = false;
    (* the trace *)
    i_nexts : nexts (trace c) = map it (seq 0 (fi_pos (cst c)));
    i_data : map Some (data_out 0 (trace c)) = filter is_some (nexts (trace c));
    i_lazy : length (nexts (trace c)) + (if fi_got_pull (cst c) then 1 else 0) <= npull (ms c) 0;
    i_fin : In None (nexts (trace c)) <-> sk (ms c) 0 = SFinished;
    i_last : ~ In None (removelast (nexts (trace c)));
  }.

  Lemma base_nil : is_base []. Proof. now left. Qed.
  Lemma base_hs : is_base [(FiDone, CDn 0 DH)]. Proof. now right. Qed.
  Hint Resolve base_nil base_hs : core.

  Lemma base_no_data b : is_base b -> in_data_delivery 0 (map snd b) = false.
  Proof. intros [-> | ->]; reflexivity. Qed.

  Lemma inv0 : Inv (cfg0 o).
  Proof.
    constructor; unfold trace; cbn; auto; intros; try tauto; try discriminate.
    - exists []. split; auto.
    - split; [tauto | discriminate].
  Qed.

  (** *** What one activation does to the monitor, case by case *)

  Lemma quiet m : ports m = [] -> (forall s, err_due m s = None) -> check_quiescent p m = [].
  Proof.
    intros H1 H2. apply quiescent_nil.
    - intros _ _ i Hi. rewrite H1 in Hi. destruct Hi.
    - exact H2.
    - rewrite Hc14. discriminate.
  Qed.

  Lemma settle_ret m :
    ports m = [] -> (forall s, err_due m s = None) -> ms_settle p o m [] ARet = m.
  Proof.
    intros H1 H2. unfold ms_settle. cbn.
    destruct (cstack m); [|reflexivity].
    rewrite (quiet _ H1 H2). cbn. reflexivity.
  Qed.

  Lemma settle_dd m v k :
    sk m 0 = SLive -> in_data_delivery 0 (cstack m) = false ->
    ms_settle p o m [ONext (Some v)] (ACall (CDn 0 (DD v)) k) =
    set_cstack (inc_ndata (set_credit m 0 (S (credit m 0))) 0) (CDn 0 (DD v) :: cstack m).
  Proof.
    intros H1 H2. unfold ms_settle. cbn. rewrite H1, H2, Hc14, andb_false_r. cbn. reflexivity.
  Qed.

  Lemma settle_dt m k :
    sk m 0 = SLive -> err_due m 0 = None -> in_data_delivery 0 (cstack m) = false ->
    ms_settle p o m [ONext None] (ACall (CDn 0 DT) k) =
    set_cstack (set_sk m 0 SFinished) (CDn 0 DT :: cstack m).
  Proof.
    intros H1 H2 H3. unfold ms_settle. cbn. rewrite H1, H2, H3, andb_false_r. cbn. reflexivity.
  Qed.

  Ltac simp_fields Hc Hs Hm Hd Ht :=
    constructor; rewrite ?Hm, ?Hs, ?Hd, ?Hc, ?Ht, ?nexts_app, ?data_out_app; cbn;
    rewrite ?add_viols_eq; cbn; repeat (rw_st; cbn; rewrite ?Nat.eqb_refl; cbn);
    rewrite ?app_nil_r;
    try assumption; try reflexivity; try congruence; auto; try (crush; fail).

  Lemma inv_sub c s aux : Inv c -> enabled p gstd c (MIn (ISub s aux)) = true ->
                          Inv (step p c (MIn (ISub s aux))).
  Proof.
    intros [] He. start_in He Hlive Hdel Hg.
    cbn in He, Hg. rewrite Hns in He. destruct aux; [|discriminate].
    destruct (at_top c) eqn:Htop; cbn in He; try discriminate.
    destruct s; cbn in He; try discriminate.
    apply negb_true_iff in He. rewrite He in i_subd0.
    destruct (sk (ms c) 0) eqn:Esk; try discriminate.
    destruct (i_none0 eq_refl) as [Hst Hpos].
    destruct (step_in p c (ISub 0 0) Hlive Hdel eq_refl) as (Hc & Hs & Hm & Hd).
    pose proof (step_in_trace p c (ISub 0 0) Hlive Hdel eq_refl) as Ht.
    simp_fields Hc Hs Hm Hd Ht.
    all: try (rewrite ?Hst; crush; fail).
    - f_equal. exact i_cstack0.
    - exists [(FiDone, CDn 0 DH)]. rewrite Hst. split; auto.
    - rewrite i_nexts0, Hpos. unfold seq. cbn. split; [tauto | discriminate].
  Qed.

  (** the trace fields, for one more call of next() *)
  Lemma tr_nexts tr pos r :
    nexts tr = map it (seq 0 pos) -> it pos = r -> nexts tr ++ [r] = map it (seq 0 (S pos)).
  Proof. intros H <-. now rewrite map_seq_S, H. Qed.

  Lemma tr_data_some tr v :
    map Some (data_out 0 tr) = filter is_some (nexts tr) ->
    map Some (data_out 0 tr ++ [v]) = filter is_some (nexts tr ++ [Some v]).
  Proof. intros H. now rewrite map_app, filter_app_one, H. Qed.

  Lemma tr_data_none tr :
    map Some (data_out 0 tr) = filter is_some (nexts tr) ->
    map Some (data_out 0 tr) = filter is_some (nexts tr ++ [None]).
  Proof. intros H. rewrite filter_app_one, H. cbn. now rewrite app_nil_r. Qed.

  Ltac trace_goal :=
    match goal with
    | |- nexts _ ++ [_] = map _ (seq 0 (S _)) => apply tr_nexts; assumption
    | |- map Some (data_out 0 _ ++ [_]) = _ => apply tr_data_some; assumption
    | |- map Some (data_out 0 _) = filter _ (_ ++ [None]) => apply tr_data_none; assumption
    | |- length (_ ++ [_]) + _ <= _ => rewrite app_length; cbn; lia
    | |- In None (_ ++ [Some _]) <-> _ =>
        rewrite in_none_snoc_some;
        match goal with H : In None _ <-> _ |- _ =>
          split; [intros HX; apply H in HX; discriminate | discriminate] end
    | |- In None (_ ++ [None]) <-> _ => rewrite in_none_snoc_none; tauto
    | |- ~ In None (removelast (_ ++ [_])) =>
        rewrite removelast_last;
        match goal with H : In None _ <-> _ |- _ =>
          intros HX; apply H in HX; discriminate end
    end.

  Ltac fin_same :=
    match goal with
    | H : In None ?l <-> _ |- In None ?l <-> _ =>
        split; [intros HX; apply H in HX; discriminate | discriminate]
    end.

  Lemma inv_up c s u : Inv c -> enabled p gstd c (MIn (IUp s u)) = true ->
                       Inv (step p c (MIn (IUp s u))).
  Proof.
    intros [] He. start_in He Hlive Hdel Hg.
    cbn in He. apply andb_prop in He. destruct He as [He Hu].
    apply andb_prop in He. destruct He as [Htop Hsk].
    destruct s as [|s]; [|rewrite i_sk_other0 in Hsk by lia; discriminate].
    destruct (sk (ms c) 0) eqn:Esk; try discriminate.
    destruct (cst c) as [pos il gp cp rd] eqn:Ecst. cbn in *. subst cp rd.
    destruct i_shape0 as (b & Hb & [(Hil & Hst) | [(Hil & Hk & v0 & Hst) | (Hil & Hk & Hst)]]);
      try discriminate; subst il.
    - (* no loop is running *)
      destruct u as [|e|].
      + (* Pull: run the loop *)
        assert (Hnd : in_data_delivery 0 (cstack (mon_input p (ms c) (IUp 0 UP))) = false).
        { cbn. rewrite i_cstack0, Hst. now apply base_no_data. }
        assert (Hlz : length (nexts (trace c)) <= npull (ms c) 0) by lia.
        destruct (it pos) as [v|] eqn:Eit.
        * assert (Hh : handle o (IUp 0 UP) (cst c) =
                       ({| fi_pos := S pos; fi_in_loop := true; fi_got_pull := false;
                           fi_completed := false; fi_res_done := false |},
                        [ONext (Some v)], ACall (CDn 0 (DD v)) FiLoop)).
          { rewrite Ecst. cbn. unfold fi_loop. cbn. now rewrite Eit. }
          destruct (step_in p c (IUp 0 UP) Hlive Hdel Hh) as (Hc & Hs & Hm & Hd).
          pose proof (step_in_trace p c (IUp 0 UP) Hlive Hdel Hh) as Ht.
          rewrite settle_dd in Hm; [|exact Esk|exact Hnd].
          simp_fields Hc Hs Hm Hd Ht; try trace_goal.
          exists b. split; [exact Hb|]. right; left. rewrite Hst. eauto.
        * assert (Hh : handle o (IUp 0 UP) (cst c) =
                       ({| fi_pos := S pos; fi_in_loop := true; fi_got_pull := false;
                           fi_completed := false; fi_res_done := true |},
                        [ONext None], ACall (CDn 0 DT) FiAfterBreak)).
          { rewrite Ecst. cbn. unfold fi_loop. cbn. now rewrite Eit. }
          destruct (step_in p c (IUp 0 UP) Hlive Hdel Hh) as (Hc & Hs & Hm & Hd).
          pose proof (step_in_trace p c (IUp 0 UP) Hlive Hdel Hh) as Ht.
          rewrite settle_dt in Hm; [|exact Esk|apply i_due0|exact Hnd].
          simp_fields Hc Hs Hm Hd Ht; try trace_goal.
          exists b. split; [exact Hb|]. right; right. rewrite Hst. auto.
      + (* Error: completed *)
        assert (Hh : handle o (IUp 0 (UE e)) (cst c) =
                     ({| fi_pos := pos; fi_in_loop := false; fi_got_pull := gp;
                         fi_completed := true; fi_res_done := false |}, [], ARet))
          by (rewrite Ecst; reflexivity).
        destruct (step_in p c (IUp 0 (UE e)) Hlive Hdel Hh) as (Hc & Hs & Hm & Hd).
        pose proof (step_in_trace p c (IUp 0 (UE e)) Hlive Hdel Hh) as Ht.
        rewrite settle_ret in Hm; [|exact i_ports0|cbn; crush].
        simp_fields Hc Hs Hm Hd Ht; try fin_same.
        exists b. split; [exact Hb|]. left. auto.
      + (* Terminate: completed *)
        assert (Hh : handle o (IUp 0 UT) (cst c) =
                     ({| fi_pos := pos; fi_in_loop := false; fi_got_pull := gp;
                         fi_completed := true; fi_res_done := false |}, [], ARet))
          by (rewrite Ecst; reflexivity).
        destruct (step_in p c (IUp 0 UT) Hlive Hdel Hh) as (Hc & Hs & Hm & Hd).
        pose proof (step_in_trace p c (IUp 0 UT) Hlive Hdel Hh) as Ht.
        rewrite settle_ret in Hm; [|exact i_ports0|cbn; crush].
        simp_fields Hc Hs Hm Hd Ht; try fin_same.
        exists b. split; [exact Hb|]. left. auto.
    - (* inside the Data delivery of the running loop *)
      destruct u as [|e|].
      + (* Pull: only the flag *)
        assert (Hh : handle o (IUp 0 UP) (cst c) =
                     ({| fi_pos := pos; fi_in_loop := true; fi_got_pull := true;
                         fi_completed := false; fi_res_done := false |}, [], ARet))
          by (rewrite Ecst; reflexivity).
        destruct (step_in p c (IUp 0 UP) Hlive Hdel Hh) as (Hc & Hs & Hm & Hd).
        pose proof (step_in_trace p c (IUp 0 UP) Hlive Hdel Hh) as Ht.
        rewrite settle_ret in Hm; [|exact i_ports0|cbn; crush].
        simp_fields Hc Hs Hm Hd Ht.
        exists b. split; [exact Hb|]. right; left. eauto.
      + assert (Hh : handle o (IUp 0 (UE e)) (cst c) =
                     ({| fi_pos := pos; fi_in_loop := true; fi_got_pull := gp;
                         fi_completed := true; fi_res_done := false |}, [], ARet))
          by (rewrite Ecst; reflexivity).
        destruct (step_in p c (IUp 0 (UE e)) Hlive Hdel Hh) as (Hc & Hs & Hm & Hd).
        pose proof (step_in_trace p c (IUp 0 (UE e)) Hlive Hdel Hh) as Ht.
        rewrite settle_ret in Hm; [|exact i_ports0|cbn; crush].
        simp_fields Hc Hs Hm Hd Ht; try fin_same.
        exists b. split; [exact Hb|]. right; left. eauto.
      + assert (Hh : handle o (IUp 0 UT) (cst c) =
                     ({| fi_pos := pos; fi_in_loop := true; fi_got_pull := gp;
                         fi_completed := true; fi_res_done := false |}, [], ARet))
          by (rewrite Ecst; reflexivity).
        destruct (step_in p c (IUp 0 UT) Hlive Hdel Hh) as (Hc & Hs & Hm & Hd).
        pose proof (step_in_trace p c (IUp 0 UT) Hlive Hdel Hh) as Ht.
        rewrite settle_ret in Hm; [|exact i_ports0|cbn; crush].
        simp_fields Hc Hs Hm Hd Ht; try fin_same.
        exists b. split; [exact Hb|]. right; left. eauto.
  Qed.

  Lemma inv_ret c : Inv c -> enabled p gstd c MRet = true -> Inv (step p c MRet).
  Proof.
    intros [] He.
    pose proof (enabled_live _ _ _ _ He) as Hlive.
    destruct (enabled_ret_stack _ _ _ He) as (k & cl & rest & Hst0).
    assert (Hp : ports (mon_event p (ms c) ERet) = []) by exact i_ports0.
    assert (Hdue : forall s, err_due (mon_event p (ms c) ERet) s = None) by exact i_due0.
    destruct i_shape0 as (b & Hb & [(Hil & Hst) | [(Hil & Hk & v0 & Hst) | (Hil & Hk & Hst)]]).
    - (* the subscribing activation returns from the Handshake delivery *)
      destruct Hb as [-> | ->]; rewrite Hst in Hst0; [discriminate|].
      assert (Hh : resume o FiDone (cst c) = (cst c, [], ARet)) by reflexivity.
      destruct (step_ret p c Hlive Hst Hh) as (Hc & Hs & Hm & Hd).
      pose proof (step_ret_trace p c Hlive Hst Hh) as Ht.
      rewrite settle_ret in Hm by assumption.
      simp_fields Hc Hs Hm Hd Ht.
      + now rewrite i_cstack0, Hst.
      + exists []. split; auto.
    - (* back at the while condition after a Data delivery *)
      rewrite Hst in Hst0. inversion Hst0; subst k cl rest.
      assert (Hnd : in_data_delivery 0 (cstack (mon_event p (ms c) ERet)) = false).
      { cbn. rewrite i_cstack0, Hst. cbn. now apply base_no_data. }
      destruct (cst c) as [pos il gp cp rd] eqn:Ecst. cbn in *. subst il.
      destruct (gp && negb cp) eqn:Egc.
      + (* one more iteration *)
        destruct gp; [|discriminate]. destruct cp; [discriminate|]. clear Egc.
        assert (Esk : sk (ms c) 0 = SLive).
        { destruct Hk as [Hk|Hk]; [exact Hk | rewrite Hk in i_compl0; discriminate]. }
        rewrite Esk in *. subst rd.
        assert (Hlz : S (length (nexts (trace c))) <= npull (ms c) 0) by lia.
        destruct (it pos) as [v|] eqn:Eit.
        * assert (Hh : resume o FiLoop (cst c) =
                       ({| fi_pos := S pos; fi_in_loop := true; fi_got_pull := false;
                           fi_completed := false; fi_res_done := false |},
                        [ONext (Some v)], ACall (CDn 0 (DD v)) FiLoop)).
          { rewrite Ecst. cbn. unfold fi_loop. cbn. now rewrite Eit. }
          destruct (step_ret p c Hlive Hst Hh) as (Hc & Hs & Hm & Hd).
          pose proof (step_ret_trace p c Hlive Hst Hh) as Ht.
          rewrite settle_dd in Hm; [|exact Esk|exact Hnd].
          simp_fields Hc Hs Hm Hd Ht; try trace_goal.
          -- now rewrite i_cstack0, Hst.
          -- exists b. split; [exact Hb|]. right; left. eauto.
        * assert (Hh : resume o FiLoop (cst c) =
                       ({| fi_pos := S pos; fi_in_loop := true; fi_got_pull := false;
                           fi_completed := false; fi_res_done := true |},
                        [ONext None], ACall (CDn 0 DT) FiAfterBreak)).
          { rewrite Ecst. cbn. unfold fi_loop. cbn. now rewrite Eit. }
          destruct (step_ret p c Hlive Hst Hh) as (Hc & Hs & Hm & Hd).
          pose proof (step_ret_trace p c Hlive Hst Hh) as Ht.
          rewrite settle_dt in Hm; [|exact Esk|apply i_due0|exact Hnd].
          simp_fields Hc Hs Hm Hd Ht; try trace_goal.
          -- now rewrite i_cstack0, Hst.
          -- exists b. split; [exact Hb|]. right; right. auto.
      + (* leave the loop *)
        assert (Hh : resume o FiLoop (cst c) =
                     ({| fi_pos := pos; fi_in_loop := false; fi_got_pull := gp;
                         fi_completed := cp; fi_res_done := rd |}, [], ARet)).
        { rewrite Ecst. cbn. unfold fi_loop. cbn. now rewrite Egc. }
        destruct (step_ret p c Hlive Hst Hh) as (Hc & Hs & Hm & Hd).
        pose proof (step_ret_trace p c Hlive Hst Hh) as Ht.
        rewrite settle_ret in Hm by assumption.
        simp_fields Hc Hs Hm Hd Ht.
        all: try (now rewrite i_cstack0, Hst).
        all: try (intros HX; destruct Hk; congruence).
        exists b. split; [exact Hb|]. left. auto.
    - (* after the Terminate delivery *)
      rewrite Hst in Hst0. inversion Hst0; subst k cl rest.
      destruct (cst c) as [pos il gp cp rd] eqn:Ecst. cbn in *. subst il.
      rewrite Hk in *.
      assert (Hh : resume o FiAfterBreak (cst c) =
                   ({| fi_pos := pos; fi_in_loop := false; fi_got_pull := gp;
                       fi_completed := cp; fi_res_done := rd |}, [], ARet)).
      { rewrite Ecst. reflexivity. }
      destruct (step_ret p c Hlive Hst Hh) as (Hc & Hs & Hm & Hd).
      pose proof (step_ret_trace p c Hlive Hst Hh) as Ht.
      rewrite settle_ret in Hm by assumption.
      simp_fields Hc Hs Hm Hd Ht.
      all: try (now rewrite i_cstack0, Hst).
      all: try (intros HX; congruence).
      exists b. split; [exact Hb|]. left. auto.
  Qed.

  Lemma inv_step c m : Inv c -> enabled p gstd c m = true -> Inv (step p c m).
  Proof.
    intros HI He. destruct m as [[s aux|s u|i d|s]|].
    - now apply inv_sub.
    - now apply inv_up.
    - exfalso. destruct HI. start_in He Hlive Hdel Hg.
      cbn in He. apply andb_prop in He. destruct He as [_ He].
      rewrite i_us0 in He. destruct d; cbn in He; discriminate.
    - exfalso. destruct HI. unfold enabled in He.
      repeat (apply andb_prop in He; destruct He as [? He]).
      cbn in He. now rewrite i_task0 in He.
    - now apply inv_ret.
  Qed.

  Theorem inv_reach c : reach p gstd c -> Inv c.
  Proof. induction 1; [apply inv0 | now apply inv_step]. Qed.

  (** once the sink has disposed ([fi_completed]), no move advances the
      iterator, and the flag stays set *)
  Lemma completed_step c m :
    Inv c -> fi_completed (cst c) = true -> enabled p gstd c m = true ->
    fi_completed (cst (step p c m)) = true /\ nexts (trace (step p c m)) = nexts (trace c).
  Proof.
    intros HI Hcp He. destruct HI.
    assert (Esk : sk (ms c) 0 = SDisposed).
    { rewrite Hcp in i_compl0. destruct (sk (ms c) 0); try discriminate. reflexivity. }
    destruct m as [[s aux|s u|i d|s]|].
    - exfalso. start_in He Hlive Hdel Hg. cbn in He. rewrite Hns in He.
      destruct s as [|s].
      + rewrite i_subd0, Esk in He. rewrite andb_false_r in He. discriminate.
      + cbn in He. rewrite andb_false_r in He. discriminate.
    - exfalso. start_in He Hlive Hdel Hg. cbn in He.
      destruct s as [|s]; [rewrite Esk in He | rewrite i_sk_other0 in He by lia];
        rewrite andb_false_r in He; discriminate.
    - exfalso. start_in He Hlive Hdel Hg.
      cbn in He. apply andb_prop in He. destruct He as [_ He].
      rewrite i_us0 in He. destruct d; cbn in He; discriminate.
    - exfalso. unfold enabled in He.
      repeat (apply andb_prop in He; destruct He as [? He]).
      cbn in He. now rewrite i_task0 in He.
    - pose proof (enabled_live _ _ _ _ He) as Hlive.
      destruct (enabled_ret_stack _ _ _ He) as (k & cl & rest & Hst).
      destruct (resume o k (cst c)) as [[s' os] a] eqn:Hres.
      destruct (step_ret p c Hlive Hst Hres) as (Hc & _).
      rewrite Hc, (step_ret_trace p c Hlive Hst Hres), nexts_app.
      assert (E : fi_completed s' = true /\ os = []).
      { destruct k; cbn in Hres; unfold fi_loop in Hres;
          rewrite ?Hcp, ?andb_false_r in Hres; inversion Hres; subst; cbn; auto. }
      destruct E as [E1 ->]. split; [exact E1|]. destruct a; cbn; now rewrite app_nil_r.
  Qed.

End FromIterInv.

(** ** Exported theorems.  Regime: one sink, no resubscription, the C15
    monitor check [no_nest] on, C14 counts off, guard [g_std]. *)

(** 1. no protocol violation (in particular no [VNested]: no delivery begins
    while a Data delivery to the sink is pending) and no panic *)
Theorem from_iter_safe (it : nat -> option val) p :
  nsinks p = 1 -> resub p = false -> no_nest p = true -> c14 p = false ->
  forall c : cfg (from_iter_op it), reach p g_std c -> viols (ms c) = [] /\ dead c = false.
Proof.
  intros H1 _ _ H4 c Hr. destruct (inv_reach H1 H4 Hr). split; assumption.
Qed.
Print Assumptions from_iter_safe.

(** the structural reason: [fi_in_loop] is set iff the innermost frame is the
    one loop frame; nothing but the Handshake frame can be below it, so at
    most one Data delivery is pending and it is the innermost call *)
Theorem from_iter_loop_stack (it : nat -> option val) p :
  nsinks p = 1 -> resub p = false -> no_nest p = true -> c14 p = false ->
  forall c : cfg (from_iter_op it), reach p g_std c ->
    shape (fi_in_loop (cst c)) (sk (ms c) 0) (stack c) /\
    (forall cl rest, cstack (ms c) = cl :: rest -> in_data_delivery 0 rest = false).
Proof.
  intros H1 _ _ H4 c Hr. destruct (inv_reach H1 H4 Hr). split; [assumption|].
  intros cl rest E. rewrite i_cstack0 in E.
  destruct i_shape0 as (b & Hb & [(Hil & Hst) | [(Hil & Hk & v0 & Hst) | (Hil & Hk & Hst)]]);
    rewrite Hst in E.
  - destruct Hb as [-> | ->]; cbn in E; inversion E; reflexivity.
  - cbn in E. inversion E. now apply base_no_data.
  - cbn in E. inversion E. now apply base_no_data.
Qed.
Print Assumptions from_iter_loop_stack.

(** 2. (C15) the results of next() are the iterator's items in order, and every
    item obtained is delivered, in order, at once *)
Theorem from_iter_order (it : nat -> option val) p :
  nsinks p = 1 -> resub p = false -> no_nest p = true -> c14 p = false ->
  forall c : cfg (from_iter_op it), reach p g_std c ->
    nexts (trace c) = map it (seq 0 (fi_pos (cst c))) /\
    map Some (data_out 0 (trace c)) =
      filter (fun r => match r with Some _ => true | None => false end) (nexts (trace c)).
Proof.
  intros H1 _ _ H4 c Hr. destruct (inv_reach H1 H4 Hr). split; assumption.
Qed.
Print Assumptions from_iter_order.

(** 3. (C15) the iterator is never advanced without a Pull *)
Theorem from_iter_lazy (it : nat -> option val) p :
  nsinks p = 1 -> resub p = false -> no_nest p = true -> c14 p = false ->
  forall c : cfg (from_iter_op it), reach p g_std c ->
    length (nexts (trace c)) <= npull (ms c) 0.
Proof.
  intros H1 _ _ H4 c Hr. destruct (inv_reach H1 H4 Hr). lia.
Qed.
Print Assumptions from_iter_lazy.

(** 4. (C15) Terminate is sent exactly when next() returned None *)
Theorem from_iter_done (it : nat -> option val) p :
  nsinks p = 1 -> resub p = false -> no_nest p = true -> c14 p = false ->
  forall c : cfg (from_iter_op it), reach p g_std c ->
    (sk (ms c) 0 = SFinished <-> In None (nexts (trace c))).
Proof.
  intros H1 _ _ H4 c Hr. destruct (inv_reach H1 H4 Hr). symmetry. assumption.
Qed.
Print Assumptions from_iter_done.

Lemma filter_is_some_id (l : list (option val)) : ~ In None l -> filter is_some l = l.
Proof.
  induction l as [|[v|] l IH]; cbn; intros H; [reflexivity | | tauto].
  rewrite IH; tauto.
Qed.

Lemma none_last (l : list (option val)) :
  ~ In None (removelast l) ->
  (~ In None l /\ l = filter is_some l) \/ (In None l /\ l = filter is_some l ++ [None]).
Proof.
  destruct l as [|y l0].
  - intros _. left. cbn. tauto.
  - destruct (@exists_last _ (y :: l0)) as (l' & x & E); [discriminate|]. rewrite E.
    rewrite removelast_last. intros Hl. rewrite filter_app_one, (@filter_is_some_id l' Hl).
    destruct x as [v|]; cbn.
    + left. split; [|reflexivity]. intros HX. apply in_app_or in HX.
      destruct HX as [HX|[HX|[]]]; [tauto | discriminate].
    + right. split; [|now rewrite app_nil_r]. apply in_or_app. right. now left.
Qed.

(** the exact form: the iterator is not touched after its first None, so
    the results of next() are the delivered items, followed by None iff the
    sink was sent Terminate *)
Theorem from_iter_done_exact (it : nat -> option val) p :
  nsinks p = 1 -> resub p = false -> no_nest p = true -> c14 p = false ->
  forall c : cfg (from_iter_op it), reach p g_std c ->
    nexts (trace c) =
    map Some (data_out 0 (trace c)) ++
    match sk (ms c) 0 with SFinished => [None] | _ => [] end.
Proof.
  intros H1 _ _ H4 c Hr. destruct (inv_reach H1 H4 Hr).
  rewrite i_data0.
  destruct (none_last _ i_last0) as [[Hn E] | [Hn E]].
  - rewrite <- E. destruct (sk (ms c) 0); try (now rewrite app_nil_r).
    exfalso. apply Hn. now apply i_fin0.
  - apply i_fin0 in Hn. now rewrite Hn.
Qed.
Print Assumptions from_iter_done_exact.

(** once the sink has disposed ([fi_completed], i.e. [sk = SDisposed]) the
    iterator is never advanced again, whatever the environment does *)
Theorem from_iter_disposed_stops (it : nat -> option val) p :
  nsinks p = 1 -> resub p = false -> no_nest p = true -> c14 p = false ->
  forall c : cfg (from_iter_op it), reach p g_std c ->
    (fi_completed (cst c) = true <-> sk (ms c) 0 = SDisposed) /\
    (fi_completed (cst c) = true ->
     forall mvs, all_enabled p g_std c mvs = true ->
       nexts (trace (fold_left (@step p (from_iter_op it)) mvs c)) = nexts (trace c)).
Proof.
  intros H1 _ _ H4 c Hr. split.
  - destruct (inv_reach H1 H4 Hr). rewrite i_compl0.
    destruct (sk (ms c) 0); split; intros; try discriminate; reflexivity.
  - intros Hcp mvs. revert c Hr Hcp.
    induction mvs as [|m mvs IH]; intros c Hr Hcp Hall; cbn in *; [reflexivity|].
    apply andb_prop in Hall. destruct Hall as [Hm Hall].
    destruct (@completed_step it p H1 c m (inv_reach H1 H4 Hr) Hcp Hm) as [Hcp' Hn].
    rewrite IH; [exact Hn | now apply reachS | exact Hcp' | exact Hall].
Qed.
Print Assumptions from_iter_disposed_stops.

(** ** Non-vacuity: a conformant script that exercises the trampoline.  The
    sink pulls from inside the Handshake delivery, pulls again from inside the
    first Data delivery (only the flag is set; the outer loop serves it after
    the delivery returned), and pulls a third time later: next() = None. *)
Definition ex_it (k : nat) : option val := if k <? 2 then Some (VN k) else None.
Definition ex_p : mparams :=
  {| nsinks := 1; late_ok := false; pullable := false; one_pull := false;
     resub := false; no_nest := true; c14 := false |}.
Definition ex_script : list move :=
  [MIn (ISub 0 0); MIn (IUp 0 UP); MIn (IUp 0 UP); MRet; MRet; MRet; MIn (IUp 0 UP); MRet].

Example from_iter_nonvacuous :
  all_enabled ex_p g_std (cfg0 (from_iter_op ex_it)) ex_script = true /\
  let c := run ex_p (from_iter_op ex_it) ex_script in
  data_out 0 (trace c) = [VN 0; VN 1] /\ nexts (trace c) = [Some (VN 0); Some (VN 1); None] /\
  sk (ms c) 0 = SFinished /\ npull (ms c) 0 = 3 /\ viols (ms c) = [] /\ stack c = [].
Proof. vm_compute. repeat split; reflexivity. Qed.
