(** * Inv_from_iter: the master invariant of from_iter, over every reachable
      configuration, with the C15 monitor check (no_nest) switched on. *)
From CB Require Import ProofLib Spec.

Set Implicit Arguments.

(** ** Trace projection: the results of Iterator::next, in order *)
Fixpoint nexts (tr : list event) : list (option val) :=
  match tr with
  | [] => []
  | EObs (ONext r) :: tr' => r :: nexts tr'
  | _ :: tr' => nexts tr'
  end.

Lemma nexts_app tr1 tr2 : nexts (tr1 ++ tr2) = nexts tr1 ++ nexts tr2.
Proof.
  induction tr1 as [|e tr1 IH]; cbn; [reflexivity|].
  destruct e as [i|cl| | |[r|v|s b|s]|]; cbn; try exact IH. now rewrite IH.
Qed.

Definition is_some (r : option val) : bool :=
  match r with Some _ => true | None => false end.

Lemma filter_app_one A (f : A -> bool) l x :
  filter f (l ++ [x]) = filter f l ++ (if f x then [x] else []).
Proof. induction l as [|y l IH]; cbn; [reflexivity|]. rewrite IH. now destruct (f y). Qed.

Lemma map_seq_S A (f : nat -> A) n : map f (seq 0 (S n)) = map f (seq 0 n) ++ [f n].
Proof. now rewrite seq_S, map_app. Qed.

Local Arguments trace : simpl never.
Local Arguments seq : simpl never.

Lemma in_none_snoc_some (l : list (option val)) v : In None (l ++ [Some v]) <-> In None l.
Proof.
  rewrite in_app_iff. cbn. split; [intros [H|[H|[]]]; [exact H | discriminate] | now left].
Qed.

Lemma in_none_snoc_none (l : list (option val)) : In None (l ++ [None]) <-> True.
Proof. rewrite in_app_iff. cbn. tauto. Qed.

Section FromIterInv.
  Variable it : nat -> option val.
  Variable p : mparams.
  Hypothesis Hns : nsinks p = 1.
  Hypothesis Hresub : resub p = false.
  Hypothesis Hnonest : no_nest p = true.
  Hypothesis Hc14 : c14 p = false.
  Let o := from_iter_op it.
  Notation gstd := g_std.

  (** what can be below the emission loop: nothing, or the subscribing
      activation suspended in its Handshake delivery *)
  Definition is_base (st : list (fi_fr * call)) : Prop :=
    st = [] \/ st = [(FiDone, CDn 0 DH)].

  (** [fi_in_loop] is tied to the stack: it is set iff exactly one loop frame
      ([FiLoop] inside a Data delivery, [FiAfterBreak] inside the Terminate
      delivery) is on the stack, and that frame is the innermost one.  In
      particular at most one [CDn 0 (DD _)] is pending at any time. *)
  Definition shape (il : bool) (k : sks) (st : list (fi_fr * call)) : Prop :=
    exists b, is_base b /\
      ((il = false /\ st = b) \/
       (il = true /\ (k = SLive \/ k = SDisposed) /\
        exists v, st = (FiLoop, CDn 0 (DD v)) :: b) \/
       (il = true /\ k = SFinished /\ st = (FiAfterBreak, CDn 0 DT) :: b)).

  Record Inv (c : cfg o) : Prop := {
    i_viols : viols (ms c) = [];
    i_dead : dead c = false;
    i_cstack : cstack (ms c) = map snd (stack c);
    i_shape : shape (fi_in_loop (cst c)) (sk (ms c) 0) (stack c);
    i_subd : subd (ms c) 0 = match sk (ms c) 0 with SNone => false | _ => true end;
    i_none : sk (ms c) 0 = SNone -> stack c = [] /\ fi_pos (cst c) = 0;
    i_compl : fi_completed (cst c) = match sk (ms c) 0 with SDisposed => true | _ => false end;
    i_rdone : fi_res_done (cst c) = match sk (ms c) 0 with SFinished => true | _ => false end;
    i_us : forall i, us (ms c) i = UNone;
    i_due : forall s, err_due (ms c) s = None;
    i_ports : ports (ms c) = [];
    i_sk_other : forall s, s <> 0 -> sk (ms c) s = SNone;
    i_task : forall s, task (ms c) s = false;
    (* the trace *)
    i_nexts : nexts (trace c) = map it (seq 0 (fi_pos (cst c)));
    i_data : map Some (data_out 0 (trace c)) = filter is_some (nexts (trace c));
    i_lazy : length (nexts (trace c)) + (if fi_got_pull (cst c) then 1 else 0) <= npull (ms c) 0;
    i_fin : In None (nexts (trace c)) <-> sk (ms c) 0 = SFinished;
  }.

  Lemma base_nil : is_base []. Proof. now left. Qed.
  Lemma base_hs : is_base [(FiDone, CDn 0 DH)]. Proof. now right. Qed.
  Hint Resolve base_nil base_hs : core.

  Lemma base_no_data b : is_base b -> in_data_delivery 0 (map snd b) = false.
  Proof. intros [-> | ->]; reflexivity. Qed.

  Lemma inv0 : Inv (cfg0 o).
  Proof.
    constructor; unfold trace; cbn; auto; intros; try tauto; try discriminate.
    - exists []. split; auto.
    - split; [tauto | discriminate].
  Qed.

  (** *** What one activation does to the monitor, case by case *)

  Lemma quiet m : ports m = [] -> (forall s, err_due m s = None) -> check_quiescent p m = [].
  Proof.
    intros H1 H2. apply quiescent_nil.
    - intros _ _ i Hi. rewrite H1 in Hi. destruct Hi.
    - exact H2.
    - rewrite Hc14. discriminate.
  Qed.

  Lemma settle_ret m :
    ports m = [] -> (forall s, err_due m s = None) -> ms_settle p o m [] ARet = m.
  Proof.
    intros H1 H2. unfold ms_settle. cbn.
    destruct (cstack m); [|reflexivity].
    rewrite (quiet _ H1 H2). cbn. reflexivity.
  Qed.

  Lemma settle_dd m v k :
    sk m 0 = SLive -> in_data_delivery 0 (cstack m) = false ->
    ms_settle p o m [ONext (Some v)] (ACall (CDn 0 (DD v)) k) =
    set_cstack (inc_ndata (set_credit m 0 (S (credit m 0))) 0) (CDn 0 (DD v) :: cstack m).
  Proof.
    intros H1 H2. unfold ms_settle. cbn. rewrite H1, H2, Hc14, andb_false_r. cbn. reflexivity.
  Qed.

  Lemma settle_dt m k :
    sk m 0 = SLive -> err_due m 0 = None -> in_data_delivery 0 (cstack m) = false ->
    ms_settle p o m [ONext None] (ACall (CDn 0 DT) k) =
    set_cstack (set_sk m 0 SFinished) (CDn 0 DT :: cstack m).
  Proof.
    intros H1 H2 H3. unfold ms_settle. cbn. rewrite H1, H2, H3, andb_false_r. cbn. reflexivity.
  Qed.

  Ltac simp_fields Hc Hs Hm Hd Ht :=
    constructor; rewrite ?Hm, ?Hs, ?Hd, ?Hc, ?Ht, ?nexts_app, ?data_out_app; cbn;
    rewrite ?add_viols_eq; cbn; repeat (rw_st; cbn; rewrite ?Nat.eqb_refl; cbn);
    rewrite ?app_nil_r;
    try assumption; try reflexivity; try congruence; auto.

  Lemma inv_sub c s aux : Inv c -> enabled p gstd c (MIn (ISub s aux)) = true ->
                          Inv (step p c (MIn (ISub s aux))).
  Proof.
    intros [] He. start_in He Hlive Hdel Hg.
    cbn in He, Hg. rewrite Hns in He. destruct aux; [|discriminate].
    destruct (at_top c) eqn:Htop; cbn in He; try discriminate.
    destruct s; cbn in He; try discriminate.
    apply negb_true_iff in He. rewrite He in i_subd0.
    destruct (sk (ms c) 0) eqn:Esk; try discriminate.
    destruct (i_none0 eq_refl) as [Hst Hpos].
    destruct (step_in p c (ISub 0 0) Hlive Hdel eq_refl) as (Hc & Hs & Hm & Hd).
    pose proof (step_in_trace p c (ISub 0 0) Hlive Hdel eq_refl) as Ht.
    simp_fields Hc Hs Hm Hd Ht.
    all: try (rewrite ?Hst; crush; fail).
    - f_equal. exact i_cstack0.
    - exists [(FiDone, CDn 0 DH)]. rewrite Hst. split; auto.
    - rewrite i_nexts0, Hpos. unfold seq. cbn. split; [tauto | discriminate].
  Qed.

  (** the trace fields, for one more call of next() *)
  Lemma tr_nexts tr pos r :
    nexts tr = map it (seq 0 pos) -> it pos = r -> nexts tr ++ [r] = map it (seq 0 (S pos)).
  Proof. intros H <-. now rewrite map_seq_S, H. Qed.

  Lemma tr_data_some tr v :
    map Some (data_out 0 tr) = filter is_some (nexts tr) ->
    map Some (data_out 0 tr ++ [v]) = filter is_some (nexts tr ++ [Some v]).
  Proof. intros H. now rewrite map_app, filter_app_one, H. Qed.

  Lemma tr_data_none tr :
    map Some (data_out 0 tr) = filter is_some (nexts tr) ->
    map Some (data_out 0 tr) = filter is_some (nexts tr ++ [None]).
  Proof. intros H. rewrite filter_app_one, H. cbn. now rewrite app_nil_r. Qed.

  Ltac trace_goal :=
    match goal with
    | |- nexts _ ++ [_] = map _ (seq 0 (S _)) => apply tr_nexts; assumption
    | |- map Some (data_out 0 _ ++ [_]) = _ => apply tr_data_some; assumption
    | |- map Some (data_out 0 _) = filter _ (_ ++ [None]) => apply tr_data_none; assumption
    | |- length (_ ++ [_]) + _ <= _ => rewrite app_length; cbn; lia
    | |- In None (_ ++ [Some _]) <-> _ =>
        rewrite in_none_snoc_some;
        match goal with H : In None _ <-> _ |- _ =>
          split; [intros HX; apply H in HX; discriminate | discriminate] end
    | |- In None (_ ++ [None]) <-> _ => rewrite in_none_snoc_none; tauto
    end.

  Lemma inv_up c s u : Inv c -> enabled p gstd c (MIn (IUp s u)) = true ->
                       Inv (step p c (MIn (IUp s u))).
  Proof.
    intros [] He. start_in He Hlive Hdel Hg.
    cbn in He. apply andb_prop in He. destruct He as [He Hu].
    apply andb_prop in He. destruct He as [Htop Hsk].
    destruct s as [|s]; [|rewrite i_sk_other0 in Hsk by lia; discriminate].
    destruct (sk (ms c) 0) eqn:Esk; try discriminate.
    destruct (cst c) as [pos il gp cp rd] eqn:Ecst. cbn in *. subst cp rd.
    destruct i_shape0 as (b & Hb & [(Hil & Hst) | [(Hil & Hk & v0 & Hst) | (Hil & Hk & Hst)]]);
      try discriminate; subst il.
    - (* no loop is running *)
      destruct u as [|e|].
      + (* Pull: run the loop *)
        assert (Hnd : in_data_delivery 0 (cstack (mon_input p (ms c) (IUp 0 UP))) = false).
        { cbn. rewrite i_cstack0, Hst. now apply base_no_data. }
        assert (Hlz : length (nexts (trace c)) <= npull (ms c) 0) by lia.
        destruct (it pos) as [v|] eqn:Eit.
        * assert (Hh : handle o (IUp 0 UP) (cst c) =
                       ({| fi_pos := S pos; fi_in_loop := true; fi_got_pull := false;
                           fi_completed := false; fi_res_done := false |},
                        [ONext (Some v)], ACall (CDn 0 (DD v)) FiLoop)).
          { rewrite Ecst. cbn. unfold fi_loop. cbn. now rewrite Eit. }
          destruct (step_in p c (IUp 0 UP) Hlive Hdel Hh) as (Hc & Hs & Hm & Hd).
          pose proof (step_in_trace p c (IUp 0 UP) Hlive Hdel Hh) as Ht.
          rewrite settle_dd in Hm; [|exact Esk|exact Hnd].
          simp_fields Hc Hs Hm Hd Ht; try trace_goal.
          exists b. split; [exact Hb|]. right; left. rewrite Hst. eauto.
        * assert (Hh : handle o (IUp 0 UP) (cst c) =
                       ({| fi_pos := S pos; fi_in_loop := true; fi_got_pull := false;
                           fi_completed := false; fi_res_done := true |},
                        [ONext None], ACall (CDn 0 DT) FiAfterBreak)).
          { rewrite Ecst. cbn. unfold fi_loop. cbn. now rewrite Eit. }
          destruct (step_in p c (IUp 0 UP) Hlive Hdel Hh) as (Hc & Hs & Hm & Hd).
          pose proof (step_in_trace p c (IUp 0 UP) Hlive Hdel Hh) as Ht.
          rewrite settle_dt in Hm; [|exact Esk|apply i_due0|exact Hnd].
          simp_fields Hc Hs Hm Hd Ht; try trace_goal.
          Show. Show 2. Show 3. 
  Admitted.

End FromIterInv.
