(** * Fanout_share: C12, completeness clause - every attached sink receives every datum and
      the termination emitted while it is attached.

    Stated for the passive continuation (Passive.v) of a reachable quiescent configuration:
    the upstream emits, and every call share then makes is answered by a plain return until
    control is back at top level.  The loop is the frame [ShFan m rest]; [fan_loop] is the
    induction on [rest]. *)
From CB Require Import ProofLib Spec Passive Inv_share.

Set Implicit Arguments.

Section Fanout.
  Variable p : mparams.
  Hypothesis Hresub : resub p = true.
  Hypothesis Hnonest : no_nest p = false.
  Hypothesis Hc14 : c14 p = false.
  Hypothesis Hlate : late_ok p = false.


  Lemma reach_inv (c : cfg share_op) : reach p g_share c -> Inv c.
  Proof. intros Hr. exact (inv_reach Hresub Hnonest Hc14 Hlate Hr). Qed.

  (** ** The attached list of a reachable quiescent configuration *)
  Lemma attached_char (c : cfg share_op) :
    reach p g_share c -> stack c = [] ->
    (forall s, In s (sh_sinks (cst c)) <-> sk (ms c) s = SLive) /\
    NoDup (sh_sinks (cst c)).
  Proof.
    intros Hr Hst. pose proof (reach_inv Hr) as HI.
    pose proof (i_mode HI) as Hmode. pose proof (i_usubd HI) as Hus.
    rewrite Hst in Hmode. cbn in Hmode. destruct Hmode as (N0 & N1 & _ & _).
    split; [|exact (i_nodup HI)].
    intros s. split; [|apply N0].
    apply N1. intros E. destruct (Hus E) as (_ & _ & _ & E'). rewrite Hst in E'. discriminate.
  Qed.

  (** ** The loop: a suspended fan-out [ShFan m rest] alone on the stack, every call returns *)
  Lemma fan_loop m : forall rest (c : cfg share_op) x,
    reach p g_share c -> stack c = [(ShFan m rest, CDn x m)] ->
    exists fuel,
      drain_enabled p g_share fuel c = true /\
      stack (drain p fuel c) = [] /\
      exists evs, trace (drain p fuel c) = trace c ++ evs /\
        calls_of evs = map (fun s => CDn s m) rest /\
        sh_sinks (cst (drain p fuel c)) = (if dmsg_is_term m then [] else sh_sinks (cst c)).
  Proof.
    induction rest as [|b rest IH]; intros c x Hr Hst.
    - (* the fan-out is complete: the handler returns *)
      pose proof (i_dead (reach_inv Hr)) as Hd.
      assert (Hen : enabled p g_share c MRet = true).
      { unfold enabled. rewrite Hd, Hst. reflexivity. }
      exists 1. cbn [drain drain_enabled]. rewrite Hst, Hen. split; [reflexivity|].
      destruct (dmsg_is_term m) eqn:Et.
      + assert (Hres : resume share_op (ShFan m []) (cst c) =
                       ({| sh_sinks := []; sh_tb := sh_tb (cst c); sh_first := sh_first (cst c) |},
                        [], ARet)).
        { cbn. rewrite Et. reflexivity. }
        destruct (step_ret p c Hd Hst Hres) as (Hc & Hs & _ & _).
        pose proof (step_ret_trace p c Hd Hst Hres) as Htr.
        split; [exact Hs|]. exists [ERet; EDone]. split; [exact Htr|].
        split; [reflexivity|]. rewrite Hc. reflexivity.
      + assert (Hres : resume share_op (ShFan m []) (cst c) = (cst c, [], ARet)).
        { cbn. rewrite Et. reflexivity. }
        destruct (step_ret p c Hd Hst Hres) as (Hc & Hs & _ & _).
        pose proof (step_ret_trace p c Hd Hst Hres) as Htr.
        split; [exact Hs|]. exists [ERet; EDone]. split; [exact Htr|].
        split; [reflexivity|]. rewrite Hc. reflexivity.
    - (* the next sink of the snapshot is called *)
      pose proof (i_dead (reach_inv Hr)) as Hd.
      assert (Hen : enabled p g_share c MRet = true).
      { unfold enabled. rewrite Hd, Hst. reflexivity. }
      assert (Hres : resume share_op (ShFan m (b :: rest)) (cst c) =
                     (cst c, [], ACall (CDn b m) (ShFan m rest))) by reflexivity.
      destruct (step_ret p c Hd Hst Hres) as (Hc & Hs & _ & _).
      pose proof (step_ret_trace p c Hd Hst Hres) as Htr.
      assert (Hr' : reach p g_share (step p c MRet)) by (apply reachS; assumption).
      destruct (IH (step p c MRet) b Hr' Hs) as (fuel & Hde & Hstk & evs & Hevs & Hcalls & Hsinks).
      exists (S fuel). cbn [drain drain_enabled]. rewrite Hst, Hen, Hde.
      split; [reflexivity|]. split; [exact Hstk|].
      exists ([ERet; ECall (CDn b m)] ++ evs). split; [|split].
      + rewrite Hevs, Htr. cbn. rewrite <- app_assoc. reflexivity.
      + rewrite calls_of_app. cbn. rewrite Hcalls. reflexivity.
      + rewrite Hsinks, Hc. reflexivity.
  Qed.

  (** ** The first step: the upstream emits [d] (not the greeting) at a quiescent point *)
  Lemma fan_start (c : cfg share_op) d :
    reach p g_share c -> stack c = [] -> d <> DH ->
    enabled p g_share c (MIn (IDn 0 d)) = true ->
    exists x rest,
      sh_sinks (cst c) = x :: rest /\
      cst (step p c (MIn (IDn 0 d))) = cst c /\
      stack (step p c (MIn (IDn 0 d))) = [(ShFan d rest, CDn x d)] /\
      trace (step p c (MIn (IDn 0 d))) = trace c ++ [EIn (IDn 0 d); ECall (CDn x d)] /\
      reach p g_share (step p c (MIn (IDn 0 d))).
  Proof.
    intros Hr Hst HnDH He.
    assert (Hr' : reach p g_share (step p c (MIn (IDn 0 d)))) by (apply reachS; assumption).
    pose proof (reach_inv Hr) as HI.
    pose proof (i_mode HI) as Hmode. rewrite Hst in Hmode. cbn in Hmode.
    destruct Hmode as (_ & _ & N2 & _).
    start_in He Hlive Hdel Hg.
    cbn in He. apply andb_prop in He. destruct He as [_ He].
    assert (Eus : us (ms c) 0 = ULive).
    { destruct d as [|v|e|]; [congruence| | |];
        apply andb_prop in He; destruct He as [He _];
        destruct (us (ms c) 0); cbn in He; congruence. }
    destruct (sh_sinks (cst c)) as [|x rest] eqn:El.
    { exfalso. rewrite Eus in N2. cbn in N2. destruct N2 as [N2 _].
      specialize (N2 eq_refl). discriminate. }
    exists x, rest. split; [reflexivity|].
    assert (Hh : handle share_op (IDn 0 d) (cst c) = (cst c, [], ACall (CDn x d) (ShFan d rest))).
    { destruct d as [|v|e|]; [congruence| | |]; cbn; rewrite El; reflexivity. }
    destruct (step_in p c (IDn 0 d) Hlive Hdel Hh) as (Hc & Hs & _ & _).
    pose proof (step_in_trace p c (IDn 0 d) Hlive Hdel Hh) as Htr.
    rewrite Hst in Hs.
    repeat split; assumption.
  Qed.

  (** ** One upstream message, fanned out passively *)
  Lemma fanout (c : cfg share_op) d :
    reach p g_share c -> stack c = [] -> d <> DH ->
    enabled p g_share c (MIn (IDn 0 d)) = true ->
    exists fuel,
      let c' := drain p fuel (step p c (MIn (IDn 0 d))) in
      stack c' = [] /\
      exists evs, trace c' = trace c ++ evs /\
        calls_of evs = map (fun s => CDn s d) (sh_sinks (cst c)) /\
        sh_sinks (cst c') = (if dmsg_is_term d then [] else sh_sinks (cst c)) /\
        reach p g_share c'.
  Proof.
    intros Hr Hst HnDH He.
    destruct (fan_start Hr Hst HnDH He) as (x & rest & El & Hc1 & Hs1 & Htr1 & Hr1).
    destruct (fan_loop Hr1 Hs1) as (fuel & Hde & Hstk & evs & Hevs & Hcalls & Hsinks).
    exists fuel. cbv zeta. split; [exact Hstk|].
    exists ([EIn (IDn 0 d); ECall (CDn x d)] ++ evs). split; [|split; [|split]].
    - rewrite Hevs, Htr1, <- app_assoc. reflexivity.
    - rewrite calls_of_app, El. cbn. rewrite Hcalls. reflexivity.
    - rewrite Hsinks, Hc1. reflexivity.
    - exact (drain_reach fuel Hr1 Hde).
  Qed.
End Fanout.

(** ** Exported theorems.  Regime of [share_safe]. *)

(** the attached list of a reachable quiescent configuration is exactly the set of live
    sinks, without repetition (in attach order: [ISub k] appends [k], Ops.v sh_handle) *)
Theorem share_attached p :
  resub p = true -> no_nest p = false -> c14 p = false -> late_ok p = false ->
  forall c : cfg share_op, reach p g_share c -> stack c = [] ->
    (forall s, In s (sh_sinks (cst c)) <-> sk (ms c) s = SLive) /\
    NoDup (sh_sinks (cst c)).
Proof. intros H1 H2 H3 H4 c Hr Hst. exact (attached_char H1 H2 H3 H4 Hr Hst). Qed.
Print Assumptions share_attached.

(** C12, data: the calls of the passive continuation of an upstream datum are exactly one
    [CDn s (DD v)] per attached sink [s], in attach order; the attached list is unchanged *)
Theorem share_fanout_data p :
  resub p = true -> no_nest p = false -> c14 p = false -> late_ok p = false ->
  forall (c : cfg share_op) v, reach p g_share c -> stack c = [] ->
    enabled p g_share c (MIn (IDn 0 (DD v))) = true ->
    exists fuel,
      let c' := drain p fuel (step p c (MIn (IDn 0 (DD v)))) in
      stack c' = [] /\
      exists evs, trace c' = trace c ++ evs /\
        calls_of evs = map (fun s => CDn s (DD v)) (sh_sinks (cst c)) /\
        sh_sinks (cst c') = sh_sinks (cst c) /\ reach p g_share c'.
Proof.
  intros H1 H2 H3 H4 c v Hr Hst He.
  assert (Hn : DD v <> DH) by discriminate.
  exact (fanout H1 H2 H3 H4 Hr Hst Hn He).
Qed.
Print Assumptions share_fanout_data.

(** C12, termination: for [d = DT] or [d = DE e] the calls of the passive continuation are
    exactly one [CDn s d] per attached sink, in attach order; afterwards nothing is attached,
    and the handler of the next subscription calls [CSub 0]: a fresh upstream subscription *)
Theorem share_fanout_term p :
  resub p = true -> no_nest p = false -> c14 p = false -> late_ok p = false ->
  forall (c : cfg share_op) d, reach p g_share c -> stack c = [] ->
    dmsg_is_term d = true ->
    enabled p g_share c (MIn (IDn 0 d)) = true ->
    exists fuel,
      let c' := drain p fuel (step p c (MIn (IDn 0 d))) in
      stack c' = [] /\
      exists evs, trace c' = trace c ++ evs /\
        calls_of evs = map (fun s => CDn s d) (sh_sinks (cst c)) /\
        sh_sinks (cst c') = [] /\ reach p g_share c' /\
        (forall k aux,
           handle share_op (ISub k aux) (cst c') =
           ({| sh_sinks := [k]; sh_tb := sh_tb (cst c'); sh_first := k |}, [],
            ACall (CSub 0) ShDone)) /\
        (forall k, enabled p g_share c' (MIn (ISub k 0)) = true ->
           trace (step p c' (MIn (ISub k 0))) = trace c' ++ [EIn (ISub k 0); ECall (CSub 0)]).
Proof.
  intros H1 H2 H3 H4 c d Hr Hst Ht He.
  assert (Hn : d <> DH) by (intros ->; discriminate).
  destruct (fanout H1 H2 H3 H4 Hr Hst Hn He) as (fuel & Hstk & evs & Hevs & Hcalls & Hsinks & Hr').
  cbv zeta in *. rewrite Ht in Hsinks.
  exists fuel. cbv zeta. split; [exact Hstk|].
  exists evs. split; [exact Hevs|]. split; [exact Hcalls|]. split; [exact Hsinks|].
  split; [exact Hr'|].
  set (c' := drain p fuel (step p c (MIn (IDn 0 d)))) in *.
  assert (Hh : forall k aux,
           handle share_op (ISub k aux) (cst c') =
           ({| sh_sinks := [k]; sh_tb := sh_tb (cst c'); sh_first := k |}, [],
            ACall (CSub 0) ShDone)).
  { intros k aux. cbn. rewrite Hsinks. reflexivity. }
  split; [exact Hh|].
  intros k Hek.
  pose proof (enabled_live _ _ _ _ Hek) as Hlive.
  pose proof (enabled_deliverable _ _ _ _ Hek) as Hdel.
  exact (step_in_trace p c' (ISub k 0) Hlive Hdel (Hh k 0)).
Qed.
Print Assumptions share_fanout_term.

(** ** "Exactly once", spelled out: in the passive continuation of an upstream message [d]
    (a datum or a terminal message) at a reachable quiescent configuration, no call is made
    twice, and sink [s] is called with [d] iff it is attached ([SLive]) *)
Lemma map_cdn_nodup d l : NoDup l -> NoDup (map (fun s => CDn s d) l).
Proof.
  induction 1 as [|x l Hx Hl IH]; cbn; constructor; [|exact IH].
  intros H. apply in_map_iff in H. destruct H as (y & E & Hy). inversion E. subst. tauto.
Qed.

Theorem share_fanout_once p :
  resub p = true -> no_nest p = false -> c14 p = false -> late_ok p = false ->
  forall (c : cfg share_op) d, reach p g_share c -> stack c = [] -> d <> DH ->
    enabled p g_share c (MIn (IDn 0 d)) = true ->
    exists fuel,
      let c' := drain p fuel (step p c (MIn (IDn 0 d))) in
      stack c' = [] /\ reach p g_share c' /\
      exists evs, trace c' = trace c ++ evs /\
        NoDup (calls_of evs) /\
        (forall cl, In cl (calls_of evs) -> exists s, cl = CDn s d) /\
        (forall s, In (CDn s d) (calls_of evs) <-> sk (ms c) s = SLive).
Proof.
  intros H1 H2 H3 H4 c d Hr Hst Hn He.
  destruct (attached_char H1 H2 H3 H4 Hr Hst) as [Hlive Hnd].
  destruct (fanout H1 H2 H3 H4 Hr Hst Hn He) as (fuel & Hstk & evs & Hevs & Hcalls & _ & Hr').
  cbv zeta in *. exists fuel. cbv zeta. split; [exact Hstk|]. split; [exact Hr'|].
  exists evs. split; [exact Hevs|]. rewrite Hcalls. split; [|split].
  - now apply map_cdn_nodup.
  - intros cl H. apply in_map_iff in H. destruct H as (s & <- & _). now exists s.
  - intros s. rewrite <- Hlive. split.
    + intros H. apply in_map_iff in H. destruct H as (y & E & Hy). inversion E. now subst.
    + intros H. apply in_map_iff. now exists s.
Qed.
Print Assumptions share_fanout_once.

(** ** Non-vacuity: three sinks attached, a datum then an Error fanned out passively;
    the hypotheses of the theorems hold of these runs *)
Definition p_fan : mparams :=
  {| nsinks := 5; late_ok := false; pullable := false; one_pull := false;
     resub := true; no_nest := false; c14 := false |}.

Definition fan_script : list move :=
  [ MIn (ISub 0 0); MIn (IDn 0 DH); MRet; MRet; MIn (ISub 1 0); MRet; MIn (ISub 2 0); MRet ].

Example fan_demo :
  let c := run p_fan share_op fan_script in
  reach p_fan g_share c /\ stack c = [] /\ sh_sinks (cst c) = [0; 1; 2] /\
  enabled p_fan g_share c (MIn (IDn 0 (DD (VN 7)))) = true /\
  enabled p_fan g_share c (MIn (IDn 0 (DE 100))) = true /\
  enabled p_fan g_share c (MIn (IDn 0 DT)) = true /\
  calls_of (skipn (length (trace c))
              (trace (drain p_fan 3 (step p_fan c (MIn (IDn 0 (DD (VN 7)))))))) =
    [CDn 0 (DD (VN 7)); CDn 1 (DD (VN 7)); CDn 2 (DD (VN 7))] /\
  calls_of (skipn (length (trace c))
              (trace (drain p_fan 3 (step p_fan c (MIn (IDn 0 (DE 100))))))) =
    [CDn 0 (DE 100); CDn 1 (DE 100); CDn 2 (DE 100)].
Proof.
  cbv zeta. split; [apply reach_run; vm_compute; reflexivity|].
  vm_compute. repeat split.
Qed.
