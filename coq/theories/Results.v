(** * Results: per-component bundles of readable, monitor-free protocol
      statements, derived from the invariant theorems (Inv_*.v) through the
      generic bridge MonitorSound.v.  Properties/Cnn.v only restates these. *)

From CB Require Import ProofLib Spec MonitorSound.
From CB Require Import Inv_map Inv_filter Inv_scan Inv_skip Inv_take Inv_from_iter Inv_for_each
  Inv_interval Inv_merge Inv_concat Inv_combine Inv_share Inv_flatten.

Set Implicit Arguments.

(** ** Parameter regimes (which sub-relation of the conformant environment) *)
Definition std (p : mparams) : Prop :=
  nsinks p = 1 /\ resub p = false /\ no_nest p = false /\ c14 p = false /\ late_ok p = false.
(** merge: members may greet late *)
Definition std_late (p : mparams) : Prop :=
  nsinks p = 1 /\ resub p = false /\ no_nest p = false /\ c14 p = false /\ late_ok p = true.
(** from_iter: the monitor also rejects nested deliveries (C15) *)
Definition std_nonest (p : mparams) : Prop :=
  nsinks p = 1 /\ resub p = false /\ no_nest p = true /\ c14 p = false.
(** share: any number of sinks, the upstream may be re-subscribed *)
Definition share_regime (p : mparams) : Prop :=
  resub p = true /\ no_nest p = false /\ c14 p = false /\ late_ok p = false.
(** C14: pullable upstreams, one Pull per message received *)
Definition pull_regime (p : mparams) : Prop :=
  nsinks p = 1 /\ resub p = false /\ no_nest p = false /\ c14 p = true /\ pullable p = true
  /\ one_pull p = true.

(** ** What "obeys the protocol" means for a trace, without any monitor *)
Record protocol_ok (tr : list event) : Prop := {
  pk_c17 : no_panic tr;
  pk_c01 : forall s, greet_once s tr /\ greet_first s tr;
  pk_c02 : forall s, term_final s tr;
  pk_c03 : forall s, dispose_respected s tr;
  pk_c04 : forall i, sub_once i tr /\ talkback_only_live i tr /\ stop_once i tr
                     /\ no_pull_outside i tr;
}.

Lemma protocol_of_safe p o g (c : cfg o) :
  resub p = false -> reach p g c -> viols (ms c) = [] -> protocol_ok (trace c).
Proof.
  intros Hr Hc Hv. destruct (reach_sound Hr Hc Hv) as (H17 & Hs & Hi).
  constructor; [exact H17| | | |exact Hi]; intros s; destruct (Hs s) as (A & B & C & D); auto.
Qed.

(** the sink-side half, which does not need [resub p = false] (share) *)
Record sink_side_ok (tr : list event) : Prop := {
  sk_c17 : no_panic tr;
  sk_c01 : forall s, greet_once s tr /\ greet_first s tr;
  sk_c02 : forall s, term_final s tr;
  sk_c03 : forall s, dispose_respected s tr;
}.

Lemma sink_side_of_safe p o g (c : cfg o) :
  reach p g c -> viols (ms c) = [] -> sink_side_ok (trace c).
Proof.
  intros Hc Hv. rewrite (reach_ms_trace Hc) in Hv.
  constructor.
  - now apply sound_C17 with p.
  - intros s. now apply sound_C01 with p.
  - intros s. now apply sound_C02 with p.
  - intros s. now apply sound_C03 with p.
Qed.

Ltac unstd H := destruct H as (?Hn & ?Hr & ?Hx & ?Hc & ?Hl).

(** ** The bundles *)
Theorem map_protocol (f : val -> val) p (c : cfg (map_op f)) :
  std p -> reach p g_std c -> protocol_ok (trace c).
Proof.
  intros H Hc. unstd H. eapply protocol_of_safe; eauto.
  now destruct (@map_safe f p Hn Hr Hx Hc0 c Hc).
Qed.

Theorem filter_protocol (cond : val -> bool) p (c : cfg (filter_op cond)) :
  std p -> reach p g_std c -> protocol_ok (trace c).
Proof.
  intros H Hc. unstd H. eapply protocol_of_safe; eauto.
  now destruct (@filter_safe cond p Hn Hr Hx Hc0 c Hc).
Qed.

Theorem scan_protocol (r : val -> val -> val) (seed : val) p (c : cfg (scan_op r seed)) :
  std p -> reach p g_std c -> protocol_ok (trace c).
Proof.
  intros H Hc. unstd H. eapply protocol_of_safe; eauto.
  now destruct (@scan_safe r seed p Hn Hr Hx Hc0 c Hc).
Qed.

Theorem skip_protocol (max : nat) p (c : cfg (skip_op max)) :
  std p -> reach p g_std c -> protocol_ok (trace c).
Proof.
  intros H Hc. unstd H. eapply protocol_of_safe; eauto.
  now destruct (@skip_safe max p Hn Hr Hx Hc0 c Hc).
Qed.

Theorem take_protocol (max : nat) p (c : cfg (take_op max)) :
  1 <= max -> std p -> reach p g_std c -> protocol_ok (trace c).
Proof.
  intros Hm H Hc. unstd H. eapply protocol_of_safe; eauto.
  now destruct (@take_safe p Hn Hr Hx Hc0 max Hm c Hc).
Qed.

Theorem from_iter_protocol (it : nat -> option val) p (c : cfg (from_iter_op it)) :
  std_nonest p -> reach p g_std c -> protocol_ok (trace c).
Proof.
  intros (Hn & Hr & Hx & Hc0) Hc. eapply protocol_of_safe; eauto.
  now destruct (@from_iter_safe it p Hn Hr Hx Hc0 c Hc).
Qed.

Theorem for_each_protocol p (c : cfg for_each_op) :
  std p -> reach p g_std c -> protocol_ok (trace c).
Proof.
  intros H Hc. unstd H. eapply protocol_of_safe; eauto.
  now destruct (@for_each_safe p Hn Hr Hx Hc0 c Hc).
Qed.

Theorem interval_protocol p (c : cfg interval_op) :
  std p -> reach p (fun _ _ => true) c -> protocol_ok (trace c).
Proof.
  intros H Hc. unstd H. eapply protocol_of_safe; eauto.
  now destruct (@interval_safe p Hn Hr Hx Hc0 c Hc).
Qed.

Theorem merge_protocol (n : nat) p (c : cfg (merge_op n)) :
  1 <= n -> std_late p -> reach p g_std c -> protocol_ok (trace c).
Proof.
  intros Hm H Hc. unstd H. eapply protocol_of_safe; eauto.
  now destruct (@merge_safe p Hn Hr Hx Hc0 Hl n Hm c Hc).
Qed.

Theorem concat_protocol (n : nat) p (c : cfg (concat_op n)) :
  std p -> reach p g_std c -> protocol_ok (trace c).
Proof.
  intros H Hc. unstd H. eapply protocol_of_safe; eauto.
  now destruct (@concat_safe n p Hn Hr Hx Hc0 Hl c Hc).
Qed.

Theorem flatten_protocol p (c : cfg flatten_op) :
  std p -> reach p g_flatten c -> protocol_ok (trace c).
Proof.
  intros H Hc. unstd H. eapply protocol_of_safe; eauto.
  now destruct (@flatten_safe p Hn Hr Hx Hc0 Hl c Hc).
Qed.

Theorem share_protocol p (c : cfg share_op) :
  share_regime p -> reach p g_share c -> sink_side_ok (trace c).
Proof.
  intros (Hr & Hx & Hc0 & Hl) Hc. eapply sink_side_of_safe; eauto.
  now destruct (@share_safe p Hr Hx Hc0 Hl c Hc).
Qed.

(** ** combine: only the four recorded kinds ever occur *)
Section CombineKinds.
  Variable n : nat.
  Variable p : mparams.
  Variable c : cfg (combine_op n).
  Hypothesis Hn : 1 <= n.
  Hypothesis Hs : std p.
  Hypothesis Hc : reach p g_std c.

  Lemma combine_known : dead c = false /\ Forall known_combine (viols (ms c)).
  Proof. unstd Hs. exact (@combine_safe n p Hn Hn0 Hr Hx Hc0 Hl c Hc). Qed.

  Ltac notin := intros Hin; destruct combine_known as [_ Hf]; rewrite Forall_forall in Hf;
                exact (Hf _ Hin).

  Lemma combine_c01 :
    forall s, ~ In (VGreetTwice s) (viols (ms c)) /\ ~ In (VBeforeGreet s) (viols (ms c)).
  Proof. intros s; split; notin. Qed.
  Lemma combine_c02 : forall s, ~ In (VAfterFinish s) (viols (ms c)).
  Proof. intros s; notin. Qed.
  Lemma combine_c03 : forall s, ~ In (VAfterDispose s) (viols (ms c)).
  Proof. intros s; notin. Qed.
  Lemma combine_c04 :
    forall i, ~ In (VSubTwice i) (viols (ms c)) /\ ~ In (VSubAfterOver i) (viols (ms c))
              /\ ~ In (VUpEarly i) (viols (ms c)) /\ ~ In (VStopAfterStop i) (viols (ms c))
              /\ ~ In (VOrphan i) (viols (ms c)).
  Proof. intros i; repeat split; notin. Qed.
  Lemma combine_c17 : dead c = false /\ ~ In VPanic (viols (ms c)).
  Proof. split; [exact (proj1 combine_known) | notin]. Qed.
End CombineKinds.

Theorem map_functional_top (f : val -> val) p :
  nsinks p = 1 -> resub p = false -> no_nest p = false -> c14 p = false ->
  forall c : cfg (map_op f), reach p g_std c ->
    data_out 0 (trace c) = map f (data_in 0 (trace c)).
Proof. intros H1 H2 H3 H4 c Hc. exact (@map_functional f p H1 H2 H3 H4 c Hc). Qed.

(** ** C05: what [viols = []] says about errors.
    The monitor (Machine.v) records [VErrLost s] when a sink that was live when an upstream
    failed has not received that Error by the next quiescent point, or is sent Terminate while
    the Error is still due; and [VErrChanged s] when a sink is sent an Error whose id no peer
    has sent.  Neither is ever recorded. *)
Definition errors_ok (m : mstate) : Prop :=
  forall s, ~ In (VErrLost s) (viols m) /\ ~ In (VErrChanged s) (viols m).

Lemma errors_ok_nil m : viols m = [] -> errors_ok m.
Proof. intros E s. rewrite E. split; intros []. Qed.

(** combine swallows errors (known finding KF1): the witness script of known_findings.json *)
Definition kf1_script : list move :=
  [MIn (ISub 0 0); MIn (IDn 0 DH); MRet; MIn (IDn 1 DH); MRet; MRet;
   MIn (IDn 0 (DD (VN 1))); MIn (IDn 1 (DD (VN 2))); MRet;
   MIn (IDn 0 (DE 100)); MIn (IDn 1 DT); MRet].
Definition p_std : mparams :=
  {| nsinks := 1; late_ok := false; pullable := false; one_pull := false; resub := false;
     no_nest := false; c14 := false |}.

Lemma combine_c05_refuted :
  all_enabled p_std g_std (cfg0 (combine_op 2)) kf1_script = true
  /\ In (VErrLost 0) (viols (ms (run p_std (combine_op 2) kf1_script))).
Proof. split; [vm_compute; reflexivity | vm_compute; auto]. Qed.
