(** * PipeNet: the nets of Liveness.v made runnable, for the pipelines the harness can write.

    [stage] (Pipe.v) is the first-order description of a stage that the driver parses and the harness
    builds on the real crate; [ustage_of] maps its unary cases to the stages of Programs.v, so that the
    very net [pipeline_completes] talks about can be run (extracted) next to the crate: values given
    to f, number of Iterator::next calls, completion. *)

From CB Require Import ProofLib Spec Chain Programs Pipe Flow LivenessG.
From CB Require Inv_for_each Inv_from_iter.

Set Implicit Arguments.

Definition ustage_of (s : stage) : option ustage :=
  match s with
  | StMap a b => Some (UMap (fun v => match v with VN x => VN (affn a b x) | _ => v end))
  | StFilter m r => Some (UFilter (fun v => match v with VN x => condn m r x | _ => false end))
  | StScan k seed =>
      Some (UScan (fun acc v => match acc, v with VN a, VN x => VN (redn k a x) | _, _ => acc end)
                  (VN seed))
  | StTake n => Some (UTake n)
  | StSkip n => Some (USkip n)
  | _ => None
  end.

Fixpoint ustages_of (p : list stage) : option (list ustage) :=
  match p with
  | [] => Some []
  | s :: p' =>
      match ustage_of s, ustages_of p' with
      | Some u, Some us => Some (u :: us)
      | _, _ => None
      end
  end.

Definition nat_of_val (v : val) : nat := match v with VN x => x | VT _ => 0 end.

Definition count_nexts (tr : list event) : nat :=
  length (filter (fun e => match e with EObs (ONext _) => true | _ => false end) tr).

(** the iterator the harness builds: the items of [xs], then (if [inf = Some b]) b, b+1, .. for ever *)
Definition it_of (xs : list nat) (inf : option nat) (k : nat) : option val :=
  match nth_error xs k with
  | Some x => Some (VN x)
  | None => match inf with Some b => Some (VN (b + (k - length xs))) | None => None end
  end.

(** run the net to rest, at most [steps_max ust B] transfers:
    (arguments of f, Iterator::next calls, for_each saw the end, at rest) *)
Definition net_pipe_run (p : list stage) (xs : list nat) (inf : option nat) (B : nat)
  : option (list nat * nat * bool * bool) :=
  match ustages_of p with
  | None => None
  | Some ust =>
      let it := it_of xs inf in
      let N := taus (steps_max ust B) (net_step (NP it ust) (kick ust)) in
      let calls := match nth_error (nodes N) (last ust) with
                   | Some nf => map nat_of_val (Inv_for_each.user_calls (ntrace nf))
                   | None => []
                   end in
      let nx := match nth_error (nodes N) 0 with
                | Some n0 => count_nexts (ntrace n0)
                | None => 0
                end in
      let fin := match nth_error (nodes N) (last ust) with
                 | Some nf => match us (nms nf) 0 with UEnded => true | _ => false end
                 | None => false
                 end in
      Some (calls, nx, fin, match pend N with PIdle => true | _ => false end)
  end.

(** ** What the runner returns, by [pipeline_completes] *)

Lemma taus_idle m N : pend N = PIdle -> taus m N = N.
Proof.
  revert N. induction m as [|m IH]; intros N Hp; cbn [taus]; [reflexivity|].
  assert (E : net_step N NTau = N) by (unfold net_step; rewrite Hp; reflexivity).
  rewrite E. now apply IH.
Qed.

Lemma taus_add a b N : taus (a + b) N = taus b (taus a N).
Proof. revert N. induction a as [|a IH]; intros N; cbn [taus Nat.add]; [reflexivity|apply IH]. Qed.

Lemma ustages_sem p us (l : list nat) :
  ustages_of p = Some us -> usem us (map VN l) = map VN (sem p l).
Proof.
  revert us l. induction p as [|s p IH]; intros us l H; cbn in H.
  - inversion H. reflexivity.
  - destruct (ustage_of s) as [u|] eqn:Eu; [|discriminate].
    destruct (ustages_of p) as [us'|] eqn:Ep; [|discriminate]. inversion H; subst us. clear H.
    unfold usem, sem. cbn [fold_left]. fold (usem us' (usem1 u (map VN l))). fold (sem p (sem1 s l)).
    assert (E1 : usem1 u (map VN l) = map VN (sem1 s l)).
    { destruct s as [a b|m r|k seed|n|n|ys|ys|m]; cbn in Eu; inversion Eu; subst u; cbn.
      - now rewrite !map_map.
      - induction l as [|x l IHl]; cbn; [reflexivity|]. destruct (condn m r x); cbn; now rewrite IHl.
      - generalize seed. induction l as [|x l IHl]; intros sd; cbn; [reflexivity|]. now rewrite IHl.
      - now rewrite firstn_map.
      - now rewrite skipn_map. }
    rewrite E1. now apply IH.
Qed.

Lemma ustages_ok p us :
  ustages_of p = Some us -> Forall (fun s => match s with StTake n => 1 <= n | _ => True end) p ->
  Forall ustage_ok us.
Proof.
  revert us. induction p as [|s p IH]; intros us H Hall; cbn in H.
  - inversion H. constructor.
  - destruct (ustage_of s) as [u|] eqn:Eu; [|discriminate].
    destruct (ustages_of p) as [us'|] eqn:Ep; [|discriminate]. inversion H; subst us. clear H.
    inversion Hall as [|? ? Hs Hp]; subst. constructor; [|now apply IH].
    destruct s; cbn in Eu; inversion Eu; subst u; cbn; auto.
Qed.

Lemma it_of_fin xs k : it_of xs None k = nth_error (map VN xs) k.
Proof.
  unfold it_of. rewrite nth_error_map. destruct (nth_error xs k); reflexivity.
Qed.

(** for every pipeline of unary stages (take counts >= 1) over every finite input, the runner ends
    at rest, for_each has seen the end, and f was called on exactly the list function *)
Theorem net_pipe_run_correct p xs us :
  ustages_of p = Some us ->
  Forall (fun s => match s with StTake n => 1 <= n | _ => True end) p ->
  exists nx, net_pipe_run p xs None (length xs) = Some (sem p xs, nx, true, true).
Proof.
  intros Hu Hall. pose proof (ustages_ok Hu Hall) as Hok.
  destruct (@pipeline_completes (it_of xs None) us Hok (map VN xs) (it_of_fin xs))
    as (m & N & Hm & HN & Hr & Hp & _ & nf & Hnf & Hend & Hcalls).
  rewrite map_length in Hm.
  unfold net_pipe_run. rewrite Hu. cbv zeta.
  assert (E : taus (steps_max us (length xs)) (net_step (NP (it_of xs None) us) (kick us)) = N).
  { replace (steps_max us (length xs)) with (m + (steps_max us (length xs) - m)) by lia.
    rewrite taus_add, <- HN. now apply taus_idle. }
  rewrite E, Hnf, Hend, Hp, Hcalls, (@ustages_sem p us xs Hu), map_map. cbn [nat_of_val].
  rewrite map_id. eexists. reflexivity.
Qed.
Print Assumptions net_pipe_run_correct.

Lemma count_nexts_nexts tr : count_nexts tr = length (Inv_from_iter.nexts tr).
Proof.
  unfold count_nexts. induction tr as [|e tr IH]; cbn; [reflexivity|].
  destruct e as [i|c| | |[r|v|s b|s]|]; cbn; rewrite ?IH; reflexivity.
Qed.

(** ... and over ANY input - unbounded too - when a take follows stages that pass every datum on
    (map, scan): the runner ends at rest within the bound computed from the take's count alone,
    for_each has seen the end, and next() was called at most n times *)
Theorem net_pipe_run_take_stops p1 n p2 xs inf us :
  ustages_of (p1 ++ StTake n :: p2) = Some us ->
  Forall (fun s => match s with StTake k => 1 <= k | _ => True end) (p1 ++ StTake n :: p2) ->
  Forall (fun s => match s with StMap _ _ | StScan _ _ => True | _ => False end) p1 ->
  exists calls nx, net_pipe_run (p1 ++ StTake n :: p2) xs inf n = Some (calls, nx, true, true) /\ nx <= n.
Proof.
  intros Hu Hall Hone. pose proof (ustages_ok Hu Hall) as Hok.
  (* split the translated stage list at the take *)
  assert (Hsplit : exists u1 u2, us = u1 ++ UTake n :: u2 /\ Forall oneshot u1).
  { clear Hall Hok. revert us Hu. induction p1 as [|s p1 IH]; intros us Hu; cbn in Hu.
    - destruct (ustages_of p2) as [u2|]; [|discriminate]. inversion Hu.
      exists [], u2. split; [reflexivity | constructor].
    - inversion Hone as [|? ? Hs Hp1]; subst.
      destruct (ustage_of s) as [u|] eqn:Eu; [|discriminate].
      destruct (ustages_of (p1 ++ StTake n :: p2)) as [us'|] eqn:Ep; [|discriminate].
      inversion Hu; subst us. destruct (IH Hp1 us' eq_refl) as (u1 & u2 & -> & Ho).
      exists (u :: u1), u2. split; [reflexivity|]. constructor; [|exact Ho].
      destruct s; try contradiction; cbn in Eu; inversion Eu; exact I. }
  destruct Hsplit as (u1 & u2 & Hus & Ho).
  destruct (@take_stops (it_of xs inf) us Hok u1 u2 n Hus Ho)
    as (m & N & Hm & HN & Hr & Hp & nf & n0 & Hnf & Hn0 & Hend & _ & Hnx).
  unfold net_pipe_run. rewrite Hu. cbv zeta.
  assert (E : taus (steps_max us n) (net_step (NP (it_of xs inf) us) (kick us)) = N).
  { replace (steps_max us n) with (m + (steps_max us n - m)) by lia.
    rewrite taus_add, <- HN. now apply taus_idle. }
  rewrite E, Hnf, Hn0, Hend, Hp. do 2 eexists. split; [reflexivity|].
  now rewrite count_nexts_nexts.
Qed.
Print Assumptions net_pipe_run_take_stops.

(** non-vacuity: pipe!(from_iter([1;2;3;4;5]), map(+1), filter(even), take(2), for_each), and
    pipe!(from_iter(0..), map(2x+1), take(3), for_each) over an unbounded iterator *)
Example net_pipe_run_example :
  net_pipe_run [StMap 1 1; StFilter 2 0; StTake 2] [1; 2; 3; 4; 5] None 5 = Some ([2; 4], 3, true, true).
Proof. vm_compute. reflexivity. Qed.

Example net_pipe_run_unbounded_example :
  net_pipe_run [StMap 2 1; StTake 3] [] (Some 0) 3 = Some ([1; 3; 5], 3, true, true).
Proof. vm_compute. reflexivity. Qed.
