(** * Inv_from_iter_pull: property C14 (demand conservation) for from_iter in
      the pull regime.

    from_iter has no upstream, so of the three C14 checks only [VOverData]
    (never more Data than Pulls) and [VUnanswered] (at a quiescent point with
    the sink live every Pull has been answered by a Data) are at stake.

    The structural invariant is the one of Inv_from_iter.v ([fi_in_loop] is set
    iff the one loop frame is the innermost frame).  The counting invariant,
    while the sink is live:

      ndata 0 + (1 if fi_got_pull) = npull 0     (a Pull is answered or pending in the flag)
      credit 0 + npull 0 = 1 + ndata 0           (one Pull per message received)
      fi_in_loop = false -> fi_got_pull = false  (outside the loop no Pull is pending)

    Together the first two say [credit 0 + (1 if fi_got_pull) = 1]: while the
    flag is set the sink has no credit, so it cannot send the second Pull that
    from_iter would coalesce with the first.  Coalescing (two Pulls served by
    one item, hence [VUnanswered]) is therefore unreachable in this regime; it
    is reachable as soon as [one_pull] is dropped, see [coalescing_script]
    at the end of the file.

    Nothing here depends on [no_nest]: the section makes no assumption on it
    (the structural invariant shows that no delivery begins inside a Data
    delivery, so the C15 check passes when it is on). *)
From CB Require Import ProofLib Spec.

Set Implicit Arguments.

Section FromIterPull.
  Variable it : nat -> option val.
  Variable p : mparams.
  Hypothesis Hns : nsinks p = 1.
  Hypothesis Hresub : resub p = false.
  Hypothesis Hc14 : c14 p = true.
  Hypothesis Hpullable : pullable p = true.
  Hypothesis Hone : one_pull p = true.
  Let o := from_iter_op it.
  Notation gstd := g_std.

  (** what can be below the emission loop: nothing, or the subscribing
      activation suspended in its Handshake delivery *)
  Definition is_base (st : list (fi_fr * call)) : Prop :=
    st = [] \/ st = [(FiDone, CDn 0 DH)].

  (** [fi_in_loop] is tied to the stack: it is set iff exactly one loop frame
      ([FiLoop] inside a Data delivery, [FiAfterBreak] inside the Terminate
      delivery) is on the stack, and that frame is the innermost one. *)
  Definition shape (il : bool) (k : sks) (st : list (fi_fr * call)) : Prop :=
    exists b, is_base b /\
      ((il = false /\ st = b) \/
       (il = true /\ (k = SLive \/ k = SDisposed) /\
        exists v, st = (FiLoop, CDn 0 (DD v)) :: b) \/
       (il = true /\ k = SFinished /\ st = (FiAfterBreak, CDn 0 DT) :: b)).

  Definition flag (b : bool) : nat := if b then 1 else 0.

  Record Inv (c : cfg o) : Prop := {
    i_viols : viols (ms c) = [];
    i_dead : dead c = false;
    i_cstack : cstack (ms c) = map snd (stack c);
    i_shape : shape (fi_in_loop (cst c)) (sk (ms c) 0) (stack c);
    i_subd : subd (ms c) 0 = match sk (ms c) 0 with SNone => false | _ => true end;
    i_none : sk (ms c) 0 = SNone -> stack c = [];
    i_compl : fi_completed (cst c) = match sk (ms c) 0 with SDisposed => true | _ => false end;
    i_rdone : fi_res_done (cst c) = match sk (ms c) 0 with SFinished => true | _ => false end;
    i_us : forall i, us (ms c) i = UNone;
    i_due : forall s, err_due (ms c) s = None;
    i_ports : ports (ms c) = [];
    i_sk_other : forall s, s <> 0 -> sk (ms c) s = SNone;
    i_task : forall s, task (ms c) s = false;
    (* nothing is counted before the greeting *)
    i_zero : sk (ms c) 0 = SNone ->
             credit (ms c) 0 = 0 /\ npull (ms c) 0 = 0 /\ ndata (ms c) 0 = 0;
    (* outside the loop no Pull is pending *)
    i_gp : sk (ms c) 0 = SLive -> fi_in_loop (cst c) = false -> fi_got_pull (cst c) = false;
    (* every Pull is answered or pending in the flag; one Pull per message *)
    i_cnt : sk (ms c) 0 = SLive ->
            ndata (ms c) 0 + flag (fi_got_pull (cst c)) = npull (ms c) 0 /\
            credit (ms c) 0 + npull (ms c) 0 = S (ndata (ms c) 0);
  }.

  Lemma base_nil : is_base []. Proof. now left. Qed.
  Lemma base_hs : is_base [(FiDone, CDn 0 DH)]. Proof. now right. Qed.
  Hint Resolve base_nil base_hs : core.

  Lemma base_no_data b : is_base b -> in_data_delivery 0 (map snd b) = false.
  Proof. intros [-> | ->]; reflexivity. Qed.

  Lemma inv0 : Inv (cfg0 o).
  Proof.
    constructor; cbn; auto; intros; try tauto; try discriminate.
    exists []. split; auto.
  Qed.

  (** *** What one activation does to the monitor, case by case *)

  (** a quiescent point: no upstream port, no error due; if the sink is live
      every Pull must have been answered *)
  Lemma quiet m :
    ports m = [] -> (forall s, err_due m s = None) ->
    (sk m 0 = SLive -> npull m 0 = ndata m 0) -> check_quiescent p m = [].
  Proof.
    intros H1 H2 H3. apply quiescent_nil.
    - intros _ _ i Hi. rewrite H1 in Hi. destruct Hi.
    - exact H2.
    - intros _ Hl _. exact (H3 Hl).
  Qed.

  Lemma settle_ret m :
    ports m = [] -> (forall s, err_due m s = None) ->
    (cstack m = [] -> sk m 0 = SLive -> npull m 0 = ndata m 0) ->
    ms_settle p o m [] ARet = m.
  Proof.
    intros H1 H2 H3. unfold ms_settle. cbn.
    destruct (cstack m); [|reflexivity].
    rewrite (quiet _ H1 H2 (H3 eq_refl)). cbn. reflexivity.
  Qed.

  (** a Data delivery: not inside another one (C15), and asked for (C14) *)
  Lemma settle_dd m v k :
    sk m 0 = SLive -> in_data_delivery 0 (cstack m) = false -> ndata m 0 < npull m 0 ->
    ms_settle p o m [ONext (Some v)] (ACall (CDn 0 (DD v)) k) =
    set_cstack (inc_ndata (set_credit m 0 (S (credit m 0))) 0) (CDn 0 (DD v) :: cstack m).
  Proof.
    intros H1 H2 H3. unfold ms_settle. cbn -[Nat.leb].
    rewrite H1, H2, Hc14, andb_false_r.
    rewrite (proj2 (Nat.leb_gt (npull m 0) (ndata m 0)) H3). cbn. reflexivity.
  Qed.

  Lemma settle_dt m k :
    sk m 0 = SLive -> err_due m 0 = None -> in_data_delivery 0 (cstack m) = false ->
    ms_settle p o m [ONext None] (ACall (CDn 0 DT) k) =
    set_cstack (set_sk m 0 SFinished) (CDn 0 DT :: cstack m).
  Proof.
    intros H1 H2 H3. unfold ms_settle. cbn. rewrite H1, H2, H3, andb_false_r. cbn. reflexivity.
  Qed.

  Ltac simp_fields Hc Hs Hm Hd :=
    constructor; rewrite ?Hm, ?Hs, ?Hd, ?Hc; cbn;
    rewrite ?add_viols_eq; cbn; repeat (rw_st; cbn; rewrite ?Nat.eqb_refl; cbn);
    try assumption; try reflexivity; try congruence; auto;
    try (intros; discriminate); try (unfold flag in *; cbn in *; intros; lia);
    try (crush; fail).

  Lemma inv_sub c s aux : Inv c -> enabled p gstd c (MIn (ISub s aux)) = true ->
                          Inv (step p c (MIn (ISub s aux))).
  Proof.
    intros [] He. start_in He Hlive Hdel Hg.
    cbn in He, Hg. rewrite Hns in He. destruct aux; [|discriminate].
    destruct (at_top c) eqn:Htop; cbn in He; try discriminate.
    destruct s; cbn in He; try discriminate.
    apply negb_true_iff in He. rewrite He in i_subd0.
    destruct (sk (ms c) 0) eqn:Esk; try discriminate.
    pose proof (i_none0 eq_refl) as Hst.
    destruct (i_zero0 eq_refl) as (Hcr & Hnp & Hnd).
    destruct (step_in p c (ISub 0 0) Hlive Hdel eq_refl) as (Hc & Hs & Hm & Hd).
    simp_fields Hc Hs Hm Hd.
    all: try (rewrite ?Hst; crush; fail).
    - f_equal. exact i_cstack0.
    - exists [(FiDone, CDn 0 DH)]. rewrite Hst. split; auto.
  Qed.

  Lemma inv_up c s u : Inv c -> enabled p gstd c (MIn (IUp s u)) = true ->
                       Inv (step p c (MIn (IUp s u))).
  Proof.
    intros [] He. start_in He Hlive Hdel Hg.
    cbn -[Nat.ltb] in He. apply andb_prop in He. destruct He as [He Hu].
    apply andb_prop in He. destruct He as [Htop Hsk].
    destruct s as [|s]; [|rewrite i_sk_other0 in Hsk by lia; discriminate].
    destruct (sk (ms c) 0) eqn:Esk; try discriminate.
    specialize (i_gp0 eq_refl). destruct (i_cnt0 eq_refl) as [Hn Hco]. clear i_cnt0 i_zero0.
    destruct (cst c) as [pos il gp cp rd] eqn:Ecst. cbn -[Nat.ltb] in *. subst cp rd.
    destruct i_shape0 as (b & Hb & [(Hil & Hst) | [(Hil & Hk & v0 & Hst) | (Hil & Hk & Hst)]]);
      try discriminate; subst il.
    - (* no loop is running: no Pull is pending *)
      specialize (i_gp0 eq_refl). subst gp. unfold flag in Hn.
      destruct u as [|e|].
      + (* Pull: run the loop *)
        rewrite Hone in Hu. cbn -[Nat.ltb] in Hu. apply Nat.ltb_lt in Hu.
        assert (Hnd : in_data_delivery 0 (cstack (mon_input p (ms c) (IUp 0 UP))) = false).
        { cbn. rewrite i_cstack0, Hst. now apply base_no_data. }
        destruct (it pos) as [v|] eqn:Eit.
        * assert (Hh : handle o (IUp 0 UP) (cst c) =
                       ({| fi_pos := S pos; fi_in_loop := true; fi_got_pull := false;
                           fi_completed := false; fi_res_done := false |},
                        [ONext (Some v)], ACall (CDn 0 (DD v)) FiLoop)).
          { rewrite Ecst. cbn. unfold fi_loop. cbn. now rewrite Eit. }
          destruct (step_in p c (IUp 0 UP) Hlive Hdel Hh) as (Hc & Hs & Hm & Hd).
          rewrite settle_dd in Hm; [|exact Esk|exact Hnd|cbn; lia].
          simp_fields Hc Hs Hm Hd.
          exists b. split; [exact Hb|]. right; left. rewrite Hst. eauto.
        * assert (Hh : handle o (IUp 0 UP) (cst c) =
                       ({| fi_pos := S pos; fi_in_loop := true; fi_got_pull := false;
                           fi_completed := false; fi_res_done := true |},
                        [ONext None], ACall (CDn 0 DT) FiAfterBreak)).
          { rewrite Ecst. cbn. unfold fi_loop. cbn. now rewrite Eit. }
          destruct (step_in p c (IUp 0 UP) Hlive Hdel Hh) as (Hc & Hs & Hm & Hd).
          rewrite settle_dt in Hm; [|exact Esk|apply i_due0|exact Hnd].
          simp_fields Hc Hs Hm Hd.
          exists b. split; [exact Hb|]. right; right. rewrite Hst. auto.
      + (* Error: completed *)
        assert (Hh : handle o (IUp 0 (UE e)) (cst c) =
                     ({| fi_pos := pos; fi_in_loop := false; fi_got_pull := false;
                         fi_completed := true; fi_res_done := false |}, [], ARet))
          by (rewrite Ecst; reflexivity).
        destruct (step_in p c (IUp 0 (UE e)) Hlive Hdel Hh) as (Hc & Hs & Hm & Hd).
        rewrite settle_ret in Hm; [|exact i_ports0|cbn; crush|cbn; intros; discriminate].
        simp_fields Hc Hs Hm Hd.
        exists b. split; [exact Hb|]. left. auto.
      + (* Terminate: completed *)
        assert (Hh : handle o (IUp 0 UT) (cst c) =
                     ({| fi_pos := pos; fi_in_loop := false; fi_got_pull := false;
                         fi_completed := true; fi_res_done := false |}, [], ARet))
          by (rewrite Ecst; reflexivity).
        destruct (step_in p c (IUp 0 UT) Hlive Hdel Hh) as (Hc & Hs & Hm & Hd).
        rewrite settle_ret in Hm; [|exact i_ports0|cbn; crush|cbn; intros; discriminate].
        simp_fields Hc Hs Hm Hd.
        exists b. split; [exact Hb|]. left. auto.
    - (* inside the Data delivery of the running loop *)
      destruct u as [|e|].
      + (* Pull: only the flag.  The sink has a credit, so the flag is not yet
           set: this Pull is not coalesced with an earlier one *)
        rewrite Hone in Hu. cbn -[Nat.ltb] in Hu. apply Nat.ltb_lt in Hu.
        assert (Hgp : gp = false).
        { destruct gp; [|reflexivity]. unfold flag in Hn. lia. }
        subst gp. unfold flag in Hn.
        assert (Hh : handle o (IUp 0 UP) (cst c) =
                     ({| fi_pos := pos; fi_in_loop := true; fi_got_pull := true;
                         fi_completed := false; fi_res_done := false |}, [], ARet))
          by (rewrite Ecst; reflexivity).
        destruct (step_in p c (IUp 0 UP) Hlive Hdel Hh) as (Hc & Hs & Hm & Hd).
        rewrite settle_ret in Hm; [|exact i_ports0|cbn; crush|].
        2: { cbn. rewrite i_cstack0, Hst. discriminate. }
        simp_fields Hc Hs Hm Hd.
        exists b. split; [exact Hb|]. right; left. eauto.
      + assert (Hh : handle o (IUp 0 (UE e)) (cst c) =
                     ({| fi_pos := pos; fi_in_loop := true; fi_got_pull := gp;
                         fi_completed := true; fi_res_done := false |}, [], ARet))
          by (rewrite Ecst; reflexivity).
        destruct (step_in p c (IUp 0 (UE e)) Hlive Hdel Hh) as (Hc & Hs & Hm & Hd).
        rewrite settle_ret in Hm; [|exact i_ports0|cbn; crush|cbn; intros; discriminate].
        simp_fields Hc Hs Hm Hd.
        exists b. split; [exact Hb|]. right; left. eauto.
      + assert (Hh : handle o (IUp 0 UT) (cst c) =
                     ({| fi_pos := pos; fi_in_loop := true; fi_got_pull := gp;
                         fi_completed := true; fi_res_done := false |}, [], ARet))
          by (rewrite Ecst; reflexivity).
        destruct (step_in p c (IUp 0 UT) Hlive Hdel Hh) as (Hc & Hs & Hm & Hd).
        rewrite settle_ret in Hm; [|exact i_ports0|cbn; crush|cbn; intros; discriminate].
        simp_fields Hc Hs Hm Hd.
        exists b. split; [exact Hb|]. right; left. eauto.
  Qed.

  Lemma inv_ret c : Inv c -> enabled p gstd c MRet = true -> Inv (step p c MRet).
  Proof.
    intros [] He.
    pose proof (enabled_live _ _ _ _ He) as Hlive.
    destruct (enabled_ret_stack _ _ _ He) as (k & cl & rest & Hst0).
    assert (Hp : ports (mon_event p (ms c) ERet) = []) by exact i_ports0.
    assert (Hdue : forall s, err_due (mon_event p (ms c) ERet) s = None) by exact i_due0.
    destruct i_shape0 as (b & Hb & [(Hil & Hst) | [(Hil & Hk & v0 & Hst) | (Hil & Hk & Hst)]]).
    - (* the subscribing activation returns from the Handshake delivery: a
         quiescent point, outside the loop *)
      destruct Hb as [-> | ->]; rewrite Hst in Hst0; [discriminate|].
      assert (Hh : resume o FiDone (cst c) = (cst c, [], ARet)) by reflexivity.
      destruct (step_ret p c Hlive Hst Hh) as (Hc & Hs & Hm & Hd).
      rewrite settle_ret in Hm; [|assumption|assumption|].
      2: { cbn. intros _ Hl. destruct (i_cnt0 Hl) as [Hn _].
           rewrite (i_gp0 Hl Hil) in Hn. unfold flag in Hn. lia. }
      simp_fields Hc Hs Hm Hd.
      + now rewrite i_cstack0, Hst.
      + exists []. split; auto.
    - (* back at the while condition after a Data delivery *)
      rewrite Hst in Hst0. inversion Hst0; subst k cl rest.
      assert (Hnd : in_data_delivery 0 (cstack (mon_event p (ms c) ERet)) = false).
      { cbn. rewrite i_cstack0, Hst. cbn. now apply base_no_data. }
      destruct (cst c) as [pos il gp cp rd] eqn:Ecst. cbn in *. subst il.
      destruct (gp && negb cp) eqn:Egc.
      + (* one more iteration: the pending Pull is answered *)
        destruct gp; [|discriminate]. destruct cp; [discriminate|]. clear Egc.
        assert (Esk : sk (ms c) 0 = SLive).
        { destruct Hk as [Hk|Hk]; [exact Hk | rewrite Hk in i_compl0; discriminate]. }
        rewrite Esk in *. subst rd.
        destruct (i_cnt0 eq_refl) as [Hn Hco]. unfold flag in Hn. clear i_cnt0 i_gp0 i_zero0.
        destruct (it pos) as [v|] eqn:Eit.
        * assert (Hh : resume o FiLoop (cst c) =
                       ({| fi_pos := S pos; fi_in_loop := true; fi_got_pull := false;
                           fi_completed := false; fi_res_done := false |},
                        [ONext (Some v)], ACall (CDn 0 (DD v)) FiLoop)).
          { rewrite Ecst. cbn. unfold fi_loop. cbn. now rewrite Eit. }
          destruct (step_ret p c Hlive Hst Hh) as (Hc & Hs & Hm & Hd).
          rewrite settle_dd in Hm; [|exact Esk|exact Hnd|cbn; lia].
          simp_fields Hc Hs Hm Hd.
          -- now rewrite i_cstack0, Hst.
          -- exists b. split; [exact Hb|]. right; left. eauto.
        * assert (Hh : resume o FiLoop (cst c) =
                       ({| fi_pos := S pos; fi_in_loop := true; fi_got_pull := false;
                           fi_completed := false; fi_res_done := true |},
                        [ONext None], ACall (CDn 0 DT) FiAfterBreak)).
          { rewrite Ecst. cbn. unfold fi_loop. cbn. now rewrite Eit. }
          destruct (step_ret p c Hlive Hst Hh) as (Hc & Hs & Hm & Hd).
          rewrite settle_dt in Hm; [|exact Esk|apply i_due0|exact Hnd].
          simp_fields Hc Hs Hm Hd.
          -- now rewrite i_cstack0, Hst.
          -- exists b. split; [exact Hb|]. right; right. auto.
      + (* leave the loop: if the sink is still live no Pull is pending, so
           this may be a quiescent point *)
        assert (Hgp : sk (ms c) 0 = SLive -> gp = false).
        { intros Hl. rewrite Hl in i_compl0. subst cp. destruct gp; [discriminate|reflexivity]. }
        assert (Hh : resume o FiLoop (cst c) =
                     ({| fi_pos := pos; fi_in_loop := false; fi_got_pull := gp;
                         fi_completed := cp; fi_res_done := rd |}, [], ARet)).
        { rewrite Ecst. cbn. unfold fi_loop. cbn. now rewrite Egc. }
        destruct (step_ret p c Hlive Hst Hh) as (Hc & Hs & Hm & Hd).
        rewrite settle_ret in Hm; [|assumption|assumption|].
        2: { cbn. intros _ Hl. destruct (i_cnt0 Hl) as [Hn _].
             rewrite (Hgp Hl) in Hn. unfold flag in Hn. lia. }
        simp_fields Hc Hs Hm Hd.
        all: try (now rewrite i_cstack0, Hst).
        all: try (intros HX; destruct Hk; congruence).
        exists b. split; [exact Hb|]. left. auto.
    - (* after the Terminate delivery *)
      rewrite Hst in Hst0. inversion Hst0; subst k cl rest.
      destruct (cst c) as [pos il gp cp rd] eqn:Ecst. cbn in *. subst il.
      rewrite Hk in *.
      assert (Hh : resume o FiAfterBreak (cst c) =
                   ({| fi_pos := pos; fi_in_loop := false; fi_got_pull := gp;
                       fi_completed := cp; fi_res_done := rd |}, [], ARet)).
      { rewrite Ecst. reflexivity. }
      destruct (step_ret p c Hlive Hst Hh) as (Hc & Hs & Hm & Hd).
      rewrite settle_ret in Hm; [|assumption|assumption|].
      2: { cbn. rewrite Hk. intros; discriminate. }
      simp_fields Hc Hs Hm Hd.
      all: try (now rewrite i_cstack0, Hst).
      all: try (intros HX; congruence).
      exists b. split; [exact Hb|]. left. auto.
  Qed.

  Lemma inv_step c m : Inv c -> enabled p gstd c m = true -> Inv (step p c m).
  Proof.
    intros HI He. destruct m as [[s aux|s u|i d|s]|].
    - now apply inv_sub.
    - now apply inv_up.
    - exfalso. destruct HI. start_in He Hlive Hdel Hg.
      cbn in He. apply andb_prop in He. destruct He as [_ He].
      rewrite i_us0 in He. destruct d; cbn in He; discriminate.
    - exfalso. destruct HI. unfold enabled in He.
      repeat (apply andb_prop in He; destruct He as [? He]).
      cbn in He. now rewrite i_task0 in He.
    - now apply inv_ret.
  Qed.

  Theorem inv_reach c : reach p gstd c -> Inv c.
  Proof. induction 1; [apply inv0 | now apply inv_step]. Qed.

End FromIterPull.

(** ** Exported theorems.  Regime: one sink, no resubscription, C14 counts on,
    upstreams only answer Pulls (vacuous here), sinks send at most one Pull per
    message received, guard [g_std]. *)

(** C14 for from_iter, whatever [no_nest] is: no unrequested Data, no
    unanswered Pull (and none of the C01-C05, C15, C17 violations either) *)
Theorem from_iter_safe_pull_any (it : nat -> option val) p :
  nsinks p = 1 -> resub p = false ->
  c14 p = true -> pullable p = true -> one_pull p = true ->
  forall c : cfg (from_iter_op it), reach p g_std c -> viols (ms c) = [] /\ dead c = false.
Proof.
  intros H1 _ H4 _ H6 c Hr. destruct (inv_reach H1 H4 H6 Hr). split; assumption.
Qed.
Print Assumptions from_iter_safe_pull_any.

(** the pull regime as PROOF_GUIDE.md defines it ([no_nest p = false]) *)
Theorem from_iter_safe_pull (it : nat -> option val) p :
  nsinks p = 1 -> resub p = false -> no_nest p = false ->
  c14 p = true -> pullable p = true -> one_pull p = true ->
  forall c : cfg (from_iter_op it), reach p g_std c -> viols (ms c) = [] /\ dead c = false.
Proof. intros H1 H2 _. now apply from_iter_safe_pull_any. Qed.
Print Assumptions from_iter_safe_pull.

(** the same with the C15 check switched on ([no_nest p = true]) *)
Theorem from_iter_safe_pull_nonest (it : nat -> option val) p :
  nsinks p = 1 -> resub p = false -> no_nest p = true ->
  c14 p = true -> pullable p = true -> one_pull p = true ->
  forall c : cfg (from_iter_op it), reach p g_std c -> viols (ms c) = [] /\ dead c = false.
Proof. intros H1 H2 _. now apply from_iter_safe_pull_any. Qed.
Print Assumptions from_iter_safe_pull_nonest.

(** the demand-conservation equations themselves, while the sink is live; at a
    quiescent point with the sink live they give [npull = ndata] *)
Theorem from_iter_counts_pull (it : nat -> option val) p :
  nsinks p = 1 -> resub p = false ->
  c14 p = true -> pullable p = true -> one_pull p = true ->
  forall c : cfg (from_iter_op it), reach p g_std c -> sk (ms c) 0 = SLive ->
    ndata (ms c) 0 + (if fi_got_pull (cst c) then 1 else 0) = npull (ms c) 0 /\
    credit (ms c) 0 + (if fi_got_pull (cst c) then 1 else 0) = 1 /\
    (stack c = [] -> fi_got_pull (cst c) = false /\ npull (ms c) 0 = ndata (ms c) 0).
Proof.
  intros H1 _ H4 _ H6 c Hr Hl. destruct (inv_reach H1 H4 H6 Hr).
  destruct (i_cnt0 Hl) as [Hn Hco]. unfold flag in Hn.
  split; [exact Hn|]. split; [lia|].
  intros Hst.
  assert (Hil : fi_in_loop (cst c) = false).
  { destruct i_shape0 as (b & Hb & [(Hil & _) | [(_ & _ & v0 & Hs) | (_ & _ & Hs)]]);
      [exact Hil | rewrite Hst in Hs; discriminate | rewrite Hst in Hs; discriminate]. }
  pose proof (i_gp0 Hl Hil) as Hgp. rewrite Hgp in Hn. split; [exact Hgp | lia].
Qed.
Print Assumptions from_iter_counts_pull.

(** coalescing cannot happen in this regime: while a Pull is pending in
    [fi_got_pull] the sink has no credit, so a further Pull is not a conformant
    move *)
Theorem from_iter_no_coalescing (it : nat -> option val) p :
  nsinks p = 1 -> resub p = false ->
  c14 p = true -> pullable p = true -> one_pull p = true ->
  forall c : cfg (from_iter_op it), reach p g_std c ->
    fi_got_pull (cst c) = true -> enabled p g_std c (MIn (IUp 0 UP)) = false.
Proof.
  intros H1 _ H4 _ H6 c Hr Hgp.
  destruct (enabled p g_std c (MIn (IUp 0 UP))) eqn:He; [exfalso | reflexivity].
  destruct (inv_reach H1 H4 H6 Hr).
  start_in He Hlive Hdel Hg.
  cbn -[Nat.ltb] in He. apply andb_prop in He. destruct He as [He Hu].
  apply andb_prop in He. destruct He as [_ Hsk].
  destruct (sk (ms c) 0) eqn:Esk; try discriminate.
  rewrite H6 in Hu. cbn -[Nat.ltb] in Hu. apply Nat.ltb_lt in Hu.
  destruct (i_cnt0 eq_refl) as [Hn Hco]. rewrite Hgp in Hn. unfold flag in Hn. lia.
Qed.
Print Assumptions from_iter_no_coalescing.

(** ** Non-vacuity and the role of [one_pull] *)
Module FromIterPullSanity.
  Definition ex_it (k : nat) : option val := if k <? 2 then Some (VN k) else None.
  Definition pp (nn : bool) : mparams :=
    {| nsinks := 1; late_ok := false; pullable := true; one_pull := true;
       resub := false; no_nest := nn; c14 := true |}.

  (** a conformant script of the pull regime that exercises the trampoline:
      the sink pulls from inside the Handshake delivery, pulls again from
      inside the first Data delivery (only the flag is set; the outer loop
      serves it after that delivery returned), the run becomes quiescent with
      the sink live and npull = ndata = 2, and the third Pull gets Terminate *)
  Definition script : list move :=
    [MIn (ISub 0 0); MIn (IUp 0 UP); MIn (IUp 0 UP); MRet; MRet; MRet].
  Definition script2 : list move := script ++ [MIn (IUp 0 UP); MRet].

  Example script_ok nn :
    all_enabled (pp nn) g_std (cfg0 (from_iter_op ex_it)) script = true /\
    let c := run (pp nn) (from_iter_op ex_it) script in
    stack c = [] /\ sk (ms c) 0 = SLive /\ data_out 0 (trace c) = [VN 0; VN 1] /\
    npull (ms c) 0 = 2 /\ ndata (ms c) 0 = 2 /\ viols (ms c) = [].
  Proof. destruct nn; vm_compute; repeat split; reflexivity. Qed.

  Example script2_ok nn :
    all_enabled (pp nn) g_std (cfg0 (from_iter_op ex_it)) script2 = true /\
    let c := run (pp nn) (from_iter_op ex_it) script2 in
    stack c = [] /\ sk (ms c) 0 = SFinished /\ data_out 0 (trace c) = [VN 0; VN 1] /\
    npull (ms c) 0 = 3 /\ ndata (ms c) 0 = 2 /\ viols (ms c) = [].
  Proof. destruct nn; vm_compute; repeat split; reflexivity. Qed.

  (** from_iter coalesces Pulls: two Pulls sent from inside the same Data
      delivery set the one flag [fi_got_pull] and are served by one item.  The
      script below does that.  It is conformant as soon as [one_pull] is
      dropped, and then ends quiescent with the sink live, npull = 3 and
      ndata = 2: [VUnanswered 0].  In the pull regime its fourth move (the
      second Pull in a row) is not enabled, which is what
      [from_iter_no_coalescing] says in general. *)
  Definition coalescing_script : list move :=
    [MIn (ISub 0 0); MIn (IUp 0 UP); MIn (IUp 0 UP); MIn (IUp 0 UP); MRet; MRet; MRet].
  Definition p_many : mparams :=
    {| nsinks := 1; late_ok := false; pullable := true; one_pull := false;
       resub := false; no_nest := false; c14 := true |}.

  Example coalescing_without_one_pull :
    all_enabled p_many g_std (cfg0 (from_iter_op ex_it)) coalescing_script = true /\
    let c := run p_many (from_iter_op ex_it) coalescing_script in
    stack c = [] /\ sk (ms c) 0 = SLive /\ npull (ms c) 0 = 3 /\ ndata (ms c) 0 = 2 /\
    viols (ms c) = [VUnanswered 0].
  Proof. vm_compute. repeat split; reflexivity. Qed.

  Example coalescing_not_conformant_in_pull_regime :
    all_enabled (pp false) g_std (cfg0 (from_iter_op ex_it)) coalescing_script = false /\
    all_enabled (pp false) g_std (cfg0 (from_iter_op ex_it)) (firstn 3 coalescing_script) = true.
  Proof. vm_compute. split; reflexivity. Qed.
End FromIterPullSanity.
