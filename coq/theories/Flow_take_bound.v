(** * Flow_take_bound: under a one-Pull-per-message sink, take(n) sends at most n Pulls up and
      delivers at most n data.

    Why: take forwards a Pull only while [tk_taken < n]; [tk_taken = dout] (Flow_take.dout_taken);
    under [one_pull] the monitor's credit is exactly greetings + data - Pulls received
    (FlowGeneric.credit_exact), so  pin <= hout + dout <= 1 + dout;  and a Pull sent up is a Pull
    received ([pout <= pin]).  Hence right after a Pull is forwarded
        pout <= pin <= 1 + tk_taken <= n. *)

From CB Require Import ProofLib Spec Flow Inv_take Flow_take FlowGeneric.

Set Implicit Arguments.

Section TakeBound.
  Variable max : nat.
  Hypothesis Hmax : 1 <= max.
  Variable p : mparams.
  Hypothesis Hns : nsinks p = 1.
  Hypothesis Hresub : resub p = false.
  Hypothesis Hnonest : no_nest p = false.
  Hypothesis Hc14 : c14 p = false.
  Local Notation o := (take_op max).

  Lemma take_safe_sec :
    forall c : cfg o, reach p g_std c -> viols (ms c) = [] /\ dead c = false.
  Proof. intros c Hr. exact (take_safe Hns Hresub Hnonest Hc14 Hmax Hr). Qed.

  (** needs no [one_pull] *)
  Lemma take_data_bounded_sec (c : cfg o) : reach p g_std c -> dout (trace c) <= max.
  Proof.
    intros Hr. rewrite (dout_taken Hmax Hns Hresub Hnonest Hc14 Hr).
    exact (i_le (inv_reach Hmax Hns Hresub Hnonest Hc14 Hr)).
  Qed.

  Hypothesis Hone : one_pull p = true.

  (** Pulls received are bounded by the messages delivered to the sink *)
  Lemma pin_le_taken (c : cfg o) : reach p g_std c -> pin (trace c) <= 1 + tk_taken (cst c).
  Proof.
    intros Hr.
    pose proof (@credit_exact p o g_std c Hone Hr) as Hcr.
    pose proof (@greet_once p o g_std c take_safe_sec (fun _ _ => eq_refl) Hresub Hr) as Hg.
    rewrite (dout_taken Hmax Hns Hresub Hnonest Hc14 Hr) in Hcr. lia.
  Qed.

  Record BInv (c : cfg o) : Prop := {
    b_le_pin : pout (trace c) <= pin (trace c);
    b_le_max : pout (trace c) <= max;
  }.

  Ltac inj Hh s' os a := injection Hh as ? ? ?; subst s' os a.
  Ltac split_ifs Hh :=
    repeat match type of Hh with
           | context [if ?b then _ else _] => destruct b eqn:?
           end.

  Ltac counts Htr :=
    rewrite Htr, ?pin_step, ?pout_step;
    repeat match goal with
           | H : ?X = pin (trace ?c) |- context [pin (trace ?c)] => rewrite <- H
           | H : ?X = pout (trace ?c) |- context [pout (trace ?c)] => rewrite <- H
           end; cbn.

  Ltac quiet Htr := constructor; counts Htr; lia.

  Theorem binv_reach (c : cfg o) : reach p g_std c -> BInv c.
  Proof.
    induction 1 as [|c m Hr IH He].
    { constructor; cbn; lia. }
    pose proof (pin_le_taken (reachS m Hr He)) as Hpin'.
    pose proof (enabled_live _ _ _ _ He) as Hlive.
    destruct IH as [Ipin Imax].
    remember (pin (trace c)) as Pi eqn:EPi. remember (pout (trace c)) as Po eqn:EPo.
    destruct m as [inp|].
    - pose proof (enabled_deliverable _ _ _ _ He) as Hdel.
      destruct (handle o inp (cst c)) as [[s' os] a] eqn:Hh.
      pose proof (step_in_trace p c inp Hlive Hdel Hh) as Htr.
      destruct (step_in p c inp Hlive Hdel Hh) as (Hc & _).
      destruct inp as [[|s] aux|[|s] u|[|i] d|s].
      + cbn in Hh. inj Hh s' os a. quiet Htr.
      + cbn in Hh. inj Hh s' os a. quiet Htr.
      + destruct u as [|e|]; cbn -[Nat.ltb] in Hh; split_ifs Hh; inj Hh s' os a;
          try (quiet Htr).
        (* Pull passed on: the only step that increases [pout] *)
        match goal with H : (_ <? _) = true |- _ => apply Nat.ltb_lt in H; rename H into Hlt end.
        rewrite Hc, Htr, pin_step in Hpin'. rewrite <- EPi in Hpin'. cbn in Hpin'.
        constructor; counts Htr; lia.
      + cbn in Hh. inj Hh s' os a. quiet Htr.
      + destruct d as [|v|e|]; cbn -[Nat.ltb] in Hh; split_ifs Hh; inj Hh s' os a; quiet Htr.
      + cbn in Hh. destruct d; inj Hh s' os a; quiet Htr.
      + cbn in Hh. inj Hh s' os a. quiet Htr.
    - destruct (enabled_ret_stack _ _ _ He) as (k & cl & rest & Hst).
      destruct (resume o k (cst c)) as [[s' os] a] eqn:Hres.
      pose proof (step_ret_trace p c Hlive Hst Hres) as Htr.
      destruct k as [|t|]; cbn in Hres; split_ifs Hres; inj Hres s' os a; quiet Htr.
  Qed.

End TakeBound.

Theorem take_pulls_bounded (n : nat) p :
  nsinks p = 1 -> resub p = false -> no_nest p = false -> c14 p = false -> 1 <= n ->
  one_pull p = true ->
  forall c : cfg (take_op n), reach p g_std c -> pout (trace c) <= n.
Proof.
  intros H1 H2 H3 H4 Hn Hone c Hr. exact (b_le_max (@binv_reach n Hn p H1 H2 H3 H4 Hone c Hr)).
Qed.
Print Assumptions take_pulls_bounded.

(** a Pull sent up is a Pull received (by-product of the same invariant) *)
Theorem take_pulls_le_pin (n : nat) p :
  nsinks p = 1 -> resub p = false -> no_nest p = false -> c14 p = false -> 1 <= n ->
  one_pull p = true ->
  forall c : cfg (take_op n), reach p g_std c -> pout (trace c) <= pin (trace c).
Proof.
  intros H1 H2 H3 H4 Hn Hone c Hr. exact (b_le_pin (@binv_reach n Hn p H1 H2 H3 H4 Hone c Hr)).
Qed.
Print Assumptions take_pulls_le_pin.

Theorem take_data_bounded (n : nat) p :
  nsinks p = 1 -> resub p = false -> no_nest p = false -> c14 p = false -> 1 <= n ->
  one_pull p = true ->
  forall c : cfg (take_op n), reach p g_std c -> dout (trace c) <= n.
Proof.
  intros H1 H2 H3 H4 Hn _ c Hr. exact (@take_data_bounded_sec n Hn p H1 H2 H3 H4 c Hr).
Qed.
Print Assumptions take_data_bounded.

(** not vacuous, and the bound is attained: the fully nested run of take(2) under a one-Pull sink
    is conformant with [one_pull = true]; the sink's third Pull (after the 2nd datum) is swallowed *)
Module TakeBoundSanity.
  Definition p1 : mparams :=
    {| nsinks := 1; late_ok := false; pullable := false; one_pull := true;
       resub := false; no_nest := false; c14 := false |}.
  Definition script : list move :=
    [MIn (ISub 0 0); MIn (IDn 0 DH); MIn (IUp 0 UP); MIn (IDn 0 (DD (VN 1)));
     MIn (IUp 0 UP); MIn (IDn 0 (DD (VN 2))); MIn (IUp 0 UP);
     MRet; MRet; MRet; MRet; MRet; MRet; MRet; MRet].
  Example script_enabled : all_enabled p1 g_std (cfg0 (take_op 2)) script = true.
  Proof. vm_compute. reflexivity. Qed.
  Example script_end :
    let c := run p1 (take_op 2) script in
    stack c = [] /\ pin (trace c) = 3 /\ pout (trace c) = 2 /\ dout (trace c) = 2.
  Proof. vm_compute. repeat split; reflexivity. Qed.
End TakeBoundSanity.
