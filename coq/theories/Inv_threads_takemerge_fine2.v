(** * Inv_threads_takemerge_fine2: take ends its upstream (the stretch theorem of T29, task T30)
      for take(max) behind merge! at the granularity of every shared-state access
      (ThreadsTakeMergeFine.v), over ALL schedules.

    [takemerge_fine_members_stopped]: once max data were delivered and every member is finished (in a
    run in which no delivery began before the greeting, KF4), every member was told to stop exactly once
    or had ended by itself (its queue is empty, its ending is Terminate or Error, it was never stopped).

    Invariants (each preserved by [xf_step], any thread, on top of I1-I4 of Inv_threads_takemerge_fine.v):
    - [LJ]   per-thread, per-pc bookkeeping: on the greeting / delivering / sink-side sweeping pcs an
             unstopped member's cell is set; on the Terminate / Error arms the queue is empty and the
             ending is the arm's; at XfAtEndSwapT n <= end_count; at XfAtSweepE / XfAtEndSwapE [ended]
             is set; a finished, never stopped member (no panic) has an empty queue, and if it never
             ends by itself its cell is still set;
    - [CNT]  end_count <= number of members past the counter whose ending is Terminate;
    - [T3]   take's [end] is set => [ended] \/ n <= end_count \/ a thread at XfAtTakeTbLoad /
             XfAtMgEnded \/ a panic;
    - [D]    the Dekker invariant for BOTH kinds of sweepers: [ended] and the cell of a member j that
             never ends by itself is set => j is at XfAtEndedLoad / XfAtSelfSwap (it will read [ended]
             and dispose itself) or a sweeper that has not yet passed j is pending (sink side:
             XfAtMgEnded / XfAtSweepT i, i <= j; a failing member t <> j: XfAtEndedStore /
             XfAtSweepE _ i, i <= j). *)

From CB Require Import Threads ThreadSpec ThreadsFine ThreadsTakeMergeFine Inv_threads_merge
  Inv_threads_takemerge_fine.
From Coq Require Import List Arith Lia Bool.
Import ListNotations.

Set Implicit Arguments.

#[local] Arguments count : simpl never.

Lemma cnt_mono2 P Q k : (forall j, j < k -> P j = true -> Q j = true) -> cnt P k <= cnt Q k.
Proof.
  induction k; cbn; intros H; [lia|].
  assert (IH : cnt P k <= cnt Q k) by (apply IHk; intros; apply H; auto).
  destruct (P k) eqn:E; [rewrite (H k) by auto|destruct (Q k)]; lia.
Qed.

Lemma cnt_lt2 P k t : t < k -> P t = false -> cnt P k < k.
Proof.
  intros Ht HP. pose proof (cnt_le P k).
  destruct (Nat.eq_dec (cnt P k) k) as [e|]; [|lia].
  rewrite (cnt_full _ e Ht) in HP. discriminate.
Qed.

Section Proofs2.
  Variable max n : nat.
  Variable qs : nat -> list val.
  Variable fins : nat -> final.

  (** *** LJ: per-thread bookkeeping (cell / stop / queue / ending per program counter) *)
  Definition panicked (s : xf_state) : bool := existsb is_panic (xfs_tr s).

  Definition LJ (s : xf_state) (j : nat) : Prop :=
    xf_fin (xfs_th s j) = fins j /\
    match pcof s j with
    | XfAtPublish => True
    | XfAtEndedLoad | XfAtSelfSwap | XfAtStartInc | XfAtTakeTbStore | XfInGreet | XfAtTaken _
    | XfInData _ | XfAtEndSwap | XfAtTakeTbLoad | XfAtMgEnded | XfAtSweepT _ | XfInTerm =>
        xfs_stopped s j = false -> xfs_cell s j = true
    | XfAtClear | XfAtEndInc | XfInTermAll =>
        xf_q (xfs_th s j) = [] /\ xf_fin (xfs_th s j) = FinTerm
    | XfAtEndSwapT =>
        xf_q (xfs_th s j) = [] /\ xf_fin (xfs_th s j) = FinTerm /\ n <= xfs_endc s
    | XfAtEndedStore e => xf_q (xfs_th s j) = [] /\ xf_fin (xfs_th s j) = FinErr e
    | XfAtSweepE e _ | XfAtEndSwapE e =>
        xf_q (xfs_th s j) = [] /\ xf_fin (xfs_th s j) = FinErr e /\ xfs_ended s = true
    | XfInErr => xf_q (xfs_th s j) = [] /\ xf_fin (xfs_th s j) <> FinNone
    | XfFinished =>
        j < n -> xfs_stopped s j = false -> panicked s = false ->
        xf_q (xfs_th s j) = [] /\ (xf_fin (xfs_th s j) = FinNone -> xfs_cell s j = true)
    end.

  Lemma LJ_init j : LJ (xf_init n qs fins) j.
  Proof.
    unfold LJ, pcof. cbn -[Nat.ltb]. split; [reflexivity|].
    destruct (Nat.ltb_spec j n); auto. intros; lia.
  Qed.

  Lemma LJ_other s s' j :
    LJ s j -> xfs_th s' j = xfs_th s j ->
    (xfs_stopped s' j = false -> xfs_stopped s j = false /\ xfs_cell s' j = xfs_cell s j) ->
    (xfs_ended s = true -> xfs_ended s' = true) -> xfs_endc s <= xfs_endc s' ->
    (panicked s' = false -> panicked s = false) -> LJ s' j.
  Proof.
    unfold LJ, pcof. intros [Hf H] Hth Hst Hen Hec Hp. rewrite Hth. split; [exact Hf|].
    destruct (xf_pcv (xfs_th s j)); try exact H;
      try (intros Hs; destruct (Hst Hs) as [Hs0 Hc]; rewrite Hc; auto; fail);
      try (intuition lia; fail).
    intros Hn Hs Hpp. destruct (Hst Hs) as [Hs0 Hc]. rewrite Hc. apply H; auto.
  Qed.

  Lemma LJ_step s t : (forall j, LJ s j) -> forall j, LJ (xf_step max n s t) j.
  Proof.
    destruct s as [st ec en cell stp tk te ttb th tr].
    intros HJ jj. destruct (Nat.eq_dec jj t) as [->|ne].
    - specialize (HJ t). unfold LJ, pcof, panicked in *.
      cbn [xfs_tr xfs_stopped xfs_cell xfs_th xfs_ended xfs_endc] in *.
      destruct (th t) as [pc q f] eqn:Hth. destruct HJ as [Hfin Ht].
      unfold xf_step. cbn [xfs_th]. rewrite Hth. cbn [xf_pcv xf_q xf_fin] in *.
      destruct pc; xf_crunch; props.
      all: (split; [try exact Hfin|]).
      all: pwx t; xf_red.
      all: try (rewrite Hth; cbn [xf_pcv xf_q xf_fin]).
      all: try (first [exact Ht | exact I | intros; congruence | intuition (try congruence; try lia)]; fail).
    - eapply LJ_other; [exact (HJ jj) | ..].
      all: unfold xf_step; destruct (th t) as [pc q f] eqn:Hth; cbn [xfs_th]; rewrite ?Hth; cbn [xf_pcv].
      all: destruct pc; xf_crunch; props.
      all: rewrite ?upd_other by exact ne; try reflexivity; try lia; auto.
      all: try (unfold panicked; xf_red; intros Hx; first [exact Hx | discriminate Hx]).
      all: try (pwx jj; intros Hx; first [discriminate Hx | split; [exact Hx|reflexivity]]).
  Qed.

  (** *** CNT: end_count <= number of members past the counter whose ending is Terminate *)
  Definition ppc (p : xf_pc) : bool :=
    match p with XfAtEndSwapT | XfInTermAll | XfFinished => true | _ => false end.
  Definition is_fterm (f : final) : bool := match f with FinTerm => true | _ => false end.
  Definition past (s : xf_state) (j : nat) : bool :=
    ppc (pcof s j) && is_fterm (xf_fin (xfs_th s j)).
  Definition CNT (s : xf_state) : Prop := xfs_endc s <= cnt (past s) n.

  Lemma CNT_init : CNT (xf_init n qs fins).
  Proof. unfold CNT. cbn. lia. Qed.

  Lemma CNT_step s t : I1 max n s -> LJ s t -> CNT s -> CNT (xf_step max n s t).
  Proof.
    destruct s as [st ec en cell stp tk te ttb th tr].
    intros H1 HJ HC. pose proof (fun Hge : n <= t => a_out H1 Hge) as Hout. unfold CNT, LJ, pcof in *.
    cbn [xfs_tr xfs_stopped xfs_cell xfs_th xfs_ended xfs_endc] in *.
    destruct (th t) as [pc q f] eqn:Hth. destruct HJ as [_ Ht].
    unfold xf_step. cbn [xfs_th]. rewrite Hth. cbn [xf_pcv xf_q xf_fin] in *.
    destruct pc; xf_crunch; props.
    all: try exact HC.
    all: try (eapply Nat.le_trans; [exact HC|]; apply cnt_mono2; intros jj Hjj; unfold past, pcof; xf_red;
              pwx jj; rewrite ?Hth; cbn [xf_pcv xf_fin ppc andb]; auto; try discriminate; fail).
    all: assert (Htn : t < n)
      by (destruct (Nat.lt_ge_cases t n) as [|Hge]; [assumption|specialize (Hout Hge); discriminate Hout]).
    all: destruct Ht as [Hq Hf]; subst f.
    all: apply Nat.le_trans with (S (cnt (past (XS st ec en cell stp tk te ttb th tr)) n)); [lia|].
    all: apply Nat.eq_le_incl; symmetry; apply cnt_flip with (t := t); [exact Htn | | |].
    all: try (intros jj _ nej); unfold past, pcof; xf_red; rewrite ?upd_other by assumption;
      rewrite ?Hth; reflexivity.
  Qed.

  (** *** T3: why take's [end] flag is set *)
  Definition hpc2 (p : xf_pc) : bool :=
    match p with XfAtTakeTbLoad | XfAtMgEnded => true | _ => false end.
  Definition T3 (s : xf_state) : Prop :=
    xfs_tend s = true ->
    xfs_ended s = true \/ n <= xfs_endc s \/ (exists t, hpc2 (pcof s t) = true) \/ panicked s = true.

  Lemma T3_init : T3 (xf_init n qs fins).
  Proof. intros H. discriminate H. Qed.

  Lemma T3_frame s s' t :
    T3 s -> (xfs_ended s = true -> xfs_ended s' = true) -> xfs_endc s <= xfs_endc s' ->
    (panicked s = true -> panicked s' = true) ->
    (forall t0, t0 <> t -> pcof s' t0 = pcof s t0) ->
    (hpc2 (pcof s t) = true ->
     hpc2 (pcof s' t) = true \/ xfs_ended s' = true \/ panicked s' = true) ->
    (xfs_tend s' = true ->
     xfs_tend s = true \/ xfs_ended s' = true \/ n <= xfs_endc s' \/ hpc2 (pcof s' t) = true) ->
    T3 s'.
  Proof.
    intros HT He Hc Hp Ho Hh Hn Ht'.
    destruct (Hn Ht') as [Ht|[H|[H|H]]];
      [| left; exact H | right; left; exact H | right; right; left; exists t; exact H].
    destruct (HT Ht) as [H|[H|[[t0 H]|H]]];
      [left; auto | right; left; lia | | right; right; right; auto].
    destruct (Nat.eq_dec t0 t) as [->|ne].
    - destruct (Hh H) as [H'|[H'|H']];
        [right; right; left; exists t; exact H' | left; exact H' | right; right; right; exact H'].
    - right; right; left. exists t0. rewrite Ho by exact ne. exact H.
  Qed.

  Lemma T3_step s t : LJ s t -> T3 s -> T3 (xf_step max n s t).
  Proof.
    destruct s as [st ec en cell stp tk te ttb th tr].
    intros HJ HT. unfold LJ, pcof in HJ.
    cbn [xfs_tr xfs_stopped xfs_cell xfs_th xfs_ended xfs_endc] in HJ.
    destruct (th t) as [pc q f] eqn:Hth. destruct HJ as [_ Ht].
    unfold xf_step. cbn [xfs_th]. rewrite Hth. cbn [xf_pcv xf_q xf_fin] in *.
    destruct pc; xf_crunch; props.
    all: try exact HT.
    all: eapply T3_frame with (t := t); [exact HT | ..]; unfold pcof, panicked; xf_red;
      rewrite ?Hth; cbn [hpc2 xf_pcv].
    all: try (intros t0 ne0; rewrite upd_other by exact ne0; reflexivity).
    all: try lia.
    all: try (intros Hx; first [exact Hx | reflexivity | discriminate Hx | left; exact Hx | left; reflexivity
                               | right; left; reflexivity | right; right; reflexivity
                               | right; right; right; reflexivity | right; right; left; tauto
                               | right; left; tauto]; fail).
  Qed.

  (** *** D: the Dekker invariant for both kinds of sweepers, for a member that never ends by itself *)
  Definition selfpc (p : xf_pc) : bool :=
    match p with XfAtEndedLoad | XfAtSelfSwap => true | _ => false end.
  Definition sw (p : xf_pc) (t j : nat) : bool :=
    match p with
    | XfAtMgEnded => true
    | XfAtSweepT i => i <=? j
    | XfAtEndedStore _ => negb (t =? j)
    | XfAtSweepE _ i => (i <=? j) && negb (t =? j)
    | _ => false
    end.
  Definition D (s : xf_state) : Prop :=
    xfs_ended s = true -> forall j, j < n -> xf_fin (xfs_th s j) = FinNone -> xfs_cell s j = true ->
    selfpc (pcof s j) = true \/ exists t, sw (pcof s t) t j = true.

  Lemma D_init : D (xf_init n qs fins).
  Proof. intros H. discriminate H. Qed.

  Lemma D_frame s s' t :
    D s -> xfs_ended s = true ->
    (forall t0, t0 <> t -> xfs_th s' t0 = xfs_th s t0) ->
    xf_fin (xfs_th s' t) = xf_fin (xfs_th s t) ->
    (forall j, xfs_cell s' j = true -> xfs_cell s j = true \/ (j = t /\ selfpc (pcof s' t) = true)) ->
    (selfpc (pcof s t) = true -> xfs_cell s' t = true -> selfpc (pcof s' t) = true) ->
    (forall j, j < n -> sw (pcof s t) t j = true -> xfs_cell s' j = true -> sw (pcof s' t) t j = true) ->
    D s'.
  Proof.
    unfold pcof. intros HD He Ho Hf Hc Hs Hw _ j Hj Hfj Hcj.
    assert (Hfj0 : xf_fin (xfs_th s j) = FinNone).
    { destruct (Nat.eq_dec j t) as [->|ne]; [rewrite <- Hf; exact Hfj | rewrite <- (Ho j ne); exact Hfj]. }
    destruct (Hc j Hcj) as [Hc0|[-> Hsp]]; [|left; exact Hsp].
    destruct (HD He j Hj Hfj0 Hc0) as [Hsj|[t0 Ht0]]; unfold pcof in *.
    - left. destruct (Nat.eq_dec j t) as [->|ne]; [apply Hs; auto | rewrite (Ho j ne); exact Hsj].
    - right. destruct (Nat.eq_dec t0 t) as [->|ne];
        [exists t; apply Hw; auto | exists t0; rewrite (Ho t0 ne); exact Ht0].
  Qed.

  Ltac barith :=
    repeat match goal with
           | H : context [if (?a =? ?b) then _ else _] |- _ => destruct (Nat.eqb_spec a b)
           end;
    repeat match goal with
           | H : _ && _ = true |- _ => apply andb_true_iff in H; destruct H
           | H : negb _ = true |- _ => apply negb_true_iff in H
           | H : (_ <=? _) = true |- _ => apply Nat.leb_le in H
           | H : (_ =? _) = false |- _ => apply Nat.eqb_neq in H
           end;
    first [ lia | exfalso; lia
          | apply andb_true_iff; split; [apply Nat.leb_le; lia | apply negb_true_iff, Nat.eqb_neq; lia]
          | apply Nat.leb_le; lia ].

  Ltac sweep_arith cell jj Hx Hy :=
    try match type of Hy with
        | context [upd _ ?i _ jj] =>
            destruct (Nat.eq_dec jj i) as [->|?];
            [rewrite upd_same in Hy; discriminate Hy | rewrite upd_other in Hy by assumption]
        end;
    repeat match goal with
           | Hc : cell ?i = false |- _ => assert (jj <> i) by (intros ->; congruence); clear Hc
           end;
    first [ discriminate Hx | reflexivity | barith ].

  Lemma D_step s t : LJ s t -> D s -> D (xf_step max n s t).
  Proof.
    destruct s as [st ec en cell stp tk te ttb th tr].
    intros HJ HD. unfold LJ, pcof in HJ.
    cbn [xfs_tr xfs_stopped xfs_cell xfs_th xfs_ended xfs_endc] in HJ.
    destruct (th t) as [pc q f] eqn:Hth. destruct HJ as [_ Ht].
    unfold xf_step. cbn [xfs_th]. rewrite Hth. cbn [xf_pcv xf_q xf_fin] in *.
    destruct en.
    - destruct pc; xf_crunch; props.
      all: try exact HD.
      all: eapply D_frame with (t := t); [exact HD | reflexivity | ..]; unfold pcof; xf_red;
        rewrite ?Hth; cbn -[Nat.ltb Nat.eqb Nat.leb upd count b2n].
      all: try (intros t0 ne0; apply upd_other; exact ne0).
      all: try reflexivity.
      all: try (intros jj; pwx jj; intros Hx;
                first [left; exact Hx | discriminate Hx | right; split; reflexivity]; fail).
      all: try (intros Hx Hy; first [discriminate Hx | reflexivity | rewrite ?upd_same in Hy; congruence]; fail).
      all: try (intros jj Hjj Hx Hy; sweep_arith cell jj Hx Hy; fail).
    - destruct pc; xf_crunch; props.
      all: try exact HD.
      all: try (intros Hx; discriminate Hx).
      all: intros _ jj Hjj Hfj Hcj; right; exists t; unfold pcof; xf_red; cbn -[Nat.ltb Nat.eqb Nat.leb upd count b2n].
      all: try reflexivity.
      all: try (exfalso; lia).
      all: assert (jj <> t)
        by (intros ->; cbn -[upd Nat.ltb Nat.eqb Nat.leb] in Hfj; rewrite upd_same in Hfj;
            cbn in Hfj; destruct Ht; congruence).
      all: try barith.
  Qed.

  (** *** together *)
  Definition Inv2 (s : xf_state) : Prop := (forall j, LJ s j) /\ CNT s /\ T3 s /\ D s.

  Lemma reach_inv2 s : xf_reach max n qs fins s -> Inv2 s.
  Proof.
    induction 1 as [|s t Hr (HJ & HC & HT & HD)].
    - split; [|split; [|split]]; [apply LJ_init | apply CNT_init | apply T3_init | apply D_init].
    - destruct (reach_inv Hr) as (H1 & _).
      split; [|split; [|split]].
      + now apply LJ_step.
      + now apply CNT_step.
      + now apply T3_step.
      + now apply D_step.
  Qed.

  Theorem takemerge_fine_members_stopped s : 1 <= max -> xf_reach max n qs fins s ->
    (forall t, t < n -> xf_finished s t = true) -> before_greet_ok (rev (xfs_tr s)) = true ->
    max <= count is_begin_data (xfs_tr s) ->
    forall j, j < n -> count (is_up_term_of j) (xfs_tr s) = 1
                       \/ (xf_q (xfs_th s j) = [] /\ fins j <> FinNone /\ xfs_stopped s j = false).
  Proof.
    intros Hpos Hr Hfin Hbg Hmax j Hj.
    destruct (reach_inv Hr) as (H1 & H2 & H3 & H4). destruct (reach_inv2 Hr) as (HJ & HC & HT & HD).
    pose proof (finished_pc H1 Hfin) as Hpc.
    pose proof (c_panic H4 Hbg) as Hnp.
    destruct (xfs_stopped s j) eqn:Hst.
    - left. rewrite (a_up H1). rewrite Hst. reflexivity.
    - right. destruct (HJ j) as [Hf HL]. rewrite Hpc in HL. destruct (HL Hj Hst Hnp) as [Hq Hc].
      split; [exact Hq|]. split; [|reflexivity]. intros Hn. rewrite <- Hf in Hn. specialize (Hc Hn).
      assert (Hm : xfs_taken s = max) by (pose proof (a_taken H1); pose proof (a_le H1); lia).
      assert (Hte : xfs_tend s = true).
      { destruct (H3 Hpos Hm) as [Ht|[t Ht]]; [exact Ht|]. rewrite Hpc in Ht. discriminate. }
      destruct (HT Hte) as [He|[He|[[t0 He]|He]]].
      + destruct (HD He j Hj Hn Hc) as [Hs|[t0 Hs]]; rewrite Hpc in Hs; discriminate.
      + unfold CNT in HC.
        assert (Hp : past s j = false) by (unfold past; rewrite Hn; apply andb_false_r).
        pose proof (cnt_lt2 (past s) Hj Hp). lia.
      + rewrite Hpc in He. discriminate.
      + unfold panicked in He. congruence.
  Qed.
End Proofs2.

Print Assumptions takemerge_fine_members_stopped.
Check takemerge_fine_members_stopped.

(** the two halves together at this granularity: with enough fuel every run ends, and unless a delivery
    overtook the greeting (KF4) the finished trace passes the whole check *)
Theorem takemerge_fine_always_passes max n qs fins sch fuel :
  1 <= max -> fuel >= takemerge_fine_fuel n qs n ->
  let s := run_full (xf_step max n) xf_finished n sch fuel (xf_init n qs fins) in
  before_greet_ok (rev (xfs_tr s)) = true -> takemerge_check max (rev (xfs_tr s)) = [].
Proof.
  intros Hm Hf s Hb. apply (@takemerge_fine_driver_final max n qs fins n sch fuel Hm); [|exact Hb].
  exact (@takemerge_fine_run_full_total max n qs fins n sch fuel Hf).
Qed.
Print Assumptions takemerge_fine_always_passes.
