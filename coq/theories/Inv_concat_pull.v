(** * Inv_concat_pull: property C14 (demand conservation) for concat, for every
      member count [n], in the pull regime.

    The invariant is the one of Inv_concat.v (same phases, same description of
    the members around the cursor [cc_i]) extended with the demand counters of
    the monitor:

    - before the first member greets nothing is counted;
    - while the current member [cc_i] and the sink are live ([PhLive])

        owed cc_i + ndata 0 = npull 0     (every Pull is answered or owed by the member)
        credit 0 + owed cc_i = 1          (the one credit is with the sink or upstream)

    - during a boundary ([PhSubd] with [cc_i > 0]: member [cc_i - 1] ended,
      member [cc_i] is subscribed and has not greeted) the outstanding demand is
      in transit: nothing is owed by anybody, the sink holds no credit and
      [npull 0 = 1 + ndata 0].  In particular the sink has pulled, so
      [cc_got_pull] is set and the greeting of the new member re-issues the
      Pull: [owed cc_i] becomes 1 again and the equations of [PhLive] hold;
    - members after the cursor are owed nothing ([i_owed_after]); the current
      member is among the subscribed [ports], so that "nothing is owed on any
      port" at a quiescent point gives [owed cc_i = 0] and thus
      [npull 0 = ndata 0];
    - zero members: the sink may pull once inside its greeting, but it is
      completed (or has disposed) before the subscription returns, so it is
      never live at a quiescent point.

    Exported: [concat_safe_pull] (closed) and a non-vacuity witness. *)
From CB Require Import ProofLib Spec.

Set Implicit Arguments.

(** decide the comparisons the C14 checks make, from the arithmetic facts in
    the context (as in Inv_relay_pull.v) *)
Ltac solve_cmp :=
  repeat match goal with
         | |- context [?a <=? ?b] =>
             first [ rewrite (proj2 (Nat.leb_gt a b)) by lia
                   | rewrite (proj2 (Nat.leb_le a b)) by lia ]
         | |- context [?a <? ?b] =>
             first [ rewrite (proj2 (Nat.ltb_ge a b)) by lia
                   | rewrite (proj2 (Nat.ltb_lt a b)) by lia ]
         end.

(** rewrite with the known values of the demand counters *)
Ltac rw_cnt :=
  repeat match goal with
         | H : owed ?m ?i = _ |- context [owed ?m ?i] => rewrite H
         | H : credit ?m 0 = _ |- context [credit ?m 0] => rewrite H
         end.

Section ConcatPull.
  Variable n : nat.
  Variable p : mparams.
  Hypothesis Hns : nsinks p = 1.
  Hypothesis Hresub : resub p = false.
  Hypothesis Hnonest : no_nest p = false.
  Hypothesis Hc14 : c14 p = true.
  Hypothesis Hpullable : pullable p = true.
  Hypothesis Hone : one_pull p = true.
  Hypothesis Hlate : late_ok p = false.
  Let o := concat_op n.

  (** every suspended activation is one that just returns when resumed *)
  Definition done_frames (stk : list (cc_fr * call)) : Prop :=
    Forall (fun fc => fst fc = CcDone) stk.

  Lemma done_cons cl stk : done_frames stk -> done_frames ((CcDone, cl) :: stk).
  Proof. intros H. constructor; [reflexivity | exact H]. Qed.

  Lemma done_nil : done_frames [].
  Proof. constructor. Qed.

  Lemma done_inv k cl stk : done_frames ((k, cl) :: stk) -> k = CcDone /\ done_frames stk.
  Proof. intros H. inversion H. split; assumption. Qed.

  (** ** Where the run is (the phases of Inv_concat.v, with the counters).

      [PhInit]: nobody subscribed yet, nothing counted.
      [PhSubd]: member [cc_i] has been subscribed and has not greeted; the
                subscribing call is on top of the stack, so only that member
                can act (and it can only greet).  Nothing is owed, the sink has
                no credit; for [cc_i > 0] one Pull of the sink is in transit.
      [PhLive]: member [cc_i] is live, its talkback is the stored one, the
                sink is live; the two conservation equations hold.
      [PhOver]: the output is over (disposed, failed or completed); nobody
                can act any more, the stack just unwinds.
      [PhZGreet], [PhZDisp]: zero members, inside the greeting of the sink. *)
  Inductive phase (c : cfg o) : Prop :=
  | PhInit :
      subd (ms c) 0 = false -> cst c = st0 o -> stack c = [] ->
      sk (ms c) 0 = SNone -> us (ms c) 0 = UNone -> npull (ms c) 0 = 0 ->
      ndata (ms c) 0 = 0 -> credit (ms c) 0 = 0 -> owed (ms c) 0 = 0 -> phase c
  | PhSubd k rest :
      subd (ms c) 0 = true -> cc_i (cst c) < n ->
      us (ms c) (cc_i (cst c)) = USubd ->
      stack c = (k, CSub (cc_i (cst c))) :: rest -> done_frames (stack c) ->
      sk (ms c) 0 = match cc_i (cst c) with 0 => SNone | S _ => SLive end ->
      credit (ms c) 0 = 0 -> owed (ms c) (cc_i (cst c)) = 0 ->
      npull (ms c) 0 = match cc_i (cst c) with 0 => 0 | S _ => 1 end + ndata (ms c) 0 ->
      In (cc_i (cst c)) (ports (ms c)) -> phase c
  | PhLive :
      subd (ms c) 0 = true -> cc_i (cst c) < n ->
      us (ms c) (cc_i (cst c)) = ULive -> sk (ms c) 0 = SLive ->
      cc_tb (cst c) = Some (cc_i (cst c)) -> done_frames (stack c) ->
      owed (ms c) (cc_i (cst c)) + ndata (ms c) 0 = npull (ms c) 0 ->
      credit (ms c) 0 + owed (ms c) (cc_i (cst c)) = 1 ->
      In (cc_i (cst c)) (ports (ms c)) -> phase c
  | PhOver :
      subd (ms c) 0 = true -> sk_over (sk (ms c) 0) = true ->
      match us (ms c) (cc_i (cst c)) with USubd | ULive => False | _ => True end ->
      done_frames (stack c) -> phase c
  | PhZGreet :
      subd (ms c) 0 = true -> n = 0 -> cc_i (cst c) = 0 -> us (ms c) 0 = UNone ->
      sk (ms c) 0 = SLive -> cc_disposed (cst c) = false ->
      stack c = [(CcZero, CDn 0 DH)] -> phase c
  | PhZDisp :
      subd (ms c) 0 = true -> n = 0 -> cc_i (cst c) = 0 -> us (ms c) 0 = UNone ->
      sk (ms c) 0 = SDisposed -> cc_disposed (cst c) = true ->
      stack c = [(CcZero, CDn 0 DH)] -> phase c.

  Record Inv (c : cfg o) : Prop := {
    i_viols : viols (ms c) = [];
    i_dead : dead c = false;
    i_due : forall s, err_due (ms c) s = None;
    i_sk_other : forall s, s <> 0 -> sk (ms c) s = SNone;
    i_task : forall s, task (ms c) s = false;
    i_le : cc_i (cst c) <= n;
    i_before : forall j, j < cc_i (cst c) -> us (ms c) j = UEnded;
    i_after : forall j, cc_i (cst c) < j -> us (ms c) j = UNone;
    i_owed_after : forall j, cc_i (cst c) < j -> owed (ms c) j = 0;
    i_pull : 0 < n -> (cc_got_pull (cst c) = true <-> 0 < npull (ms c) 0);
    i_phase : phase c;
  }.

  Lemma inv0 : Inv (cfg0 o).
  Proof.
    constructor; cbn; auto; try lia.
    apply PhInit; reflexivity.
  Qed.

  Ltac phases H :=
    destruct H as [A B C D E F K1 K2 K3|k rest A B C D E F K1 K2 K3 K4|A B C D E F K1 K2 K3
                  |A B C D|A B C D E F G|A B C D E F G].

  (** a live upstream is the current member, and then the sink is live and the
      conservation equations hold *)
  Lemma live_current c j : Inv c -> us (ms c) j = ULive ->
                           j = cc_i (cst c) /\ sk (ms c) 0 = SLive /\ cc_i (cst c) < n /\
                           cc_tb (cst c) = Some (cc_i (cst c)) /\ done_frames (stack c) /\
                           subd (ms c) 0 = true /\
                           owed (ms c) (cc_i (cst c)) + ndata (ms c) 0 = npull (ms c) 0 /\
                           credit (ms c) 0 + owed (ms c) (cc_i (cst c)) = 1 /\
                           In (cc_i (cst c)) (ports (ms c)).
  Proof.
    intros [] Hj.
    assert (E' : j = cc_i (cst c)).
    { destruct (Nat.lt_trichotomy j (cc_i (cst c))) as [H|[H|H]]; [|exact H|].
      - rewrite i_before0 in Hj by exact H. discriminate.
      - rewrite i_after0 in Hj by exact H. discriminate. }
    subst j. split; [reflexivity|].
    phases i_phase0; try congruence.
    - rewrite B in Hj. cbn in Hj. congruence.
    - tauto.
    - rewrite Hj in C. destruct C.
  Qed.

  (** a subscribed upstream that has not greeted is the current member, and
      the demand (if any) is in transit *)
  Lemma subd_current c j : Inv c -> us (ms c) j = USubd ->
                           j = cc_i (cst c) /\ cc_i (cst c) < n /\
                           sk (ms c) 0 = match cc_i (cst c) with 0 => SNone | S _ => SLive end /\
                           done_frames (stack c) /\ subd (ms c) 0 = true /\
                           credit (ms c) 0 = 0 /\ owed (ms c) (cc_i (cst c)) = 0 /\
                           npull (ms c) 0 =
                             match cc_i (cst c) with 0 => 0 | S _ => 1 end + ndata (ms c) 0 /\
                           In (cc_i (cst c)) (ports (ms c)).
  Proof.
    intros [] Hj.
    assert (E' : j = cc_i (cst c)).
    { destruct (Nat.lt_trichotomy j (cc_i (cst c))) as [H|[H|H]]; [|exact H|].
      - rewrite i_before0 in Hj by exact H. discriminate.
      - rewrite i_after0 in Hj by exact H. discriminate. }
    subst j. split; [reflexivity|].
    phases i_phase0; try congruence.
    - rewrite B in Hj. cbn in Hj. congruence.
    - tauto.
    - rewrite Hj in C. destruct C.
  Qed.

  (** the checks made at a quiescent point, the C14 one included *)
  Lemma quiescent_ok m' :
    (forall j, us m' j = ULive -> sk_over (sk m' 0) = false) ->
    (forall s, err_due m' s = None) ->
    (sk m' 0 = SLive -> (forall i, In i (ports m') -> owed m' i = 0) ->
     npull m' 0 = ndata m' 0) ->
    check_quiescent p m' = [].
  Proof.
    intros H1 H2 H3. apply quiescent_nil.
    - intros _ Hov j _. destruct (us m' j) eqn:E; try reflexivity.
      rewrite (H1 j E) in Hov. discriminate.
    - exact H2.
    - intros _. exact H3.
  Qed.

  Lemma done_eq m : check_quiescent p m = [] -> mon_event p m EDone = m.
  Proof.
    intros H. cbn. destruct (cstack m); [|reflexivity].
    rewrite H. destruct m; reflexivity.
  Qed.

  (** an activation that returns into a pending call is not a quiescent point *)
  Lemma done_busy m : cstack m <> [] -> mon_event p m EDone = m.
  Proof. intros H. cbn. destruct (cstack m); [congruence | reflexivity]. Qed.

  (** ** What the handlers do, case by case *)
  Definition s_init : cc_st :=
    {| cc_i := 0; cc_tb := None; cc_got_pull := false; cc_disposed := false |}.

  Lemma h_sub_z aux s : n = 0 ->
    handle o (ISub 0 aux) s = (s_init, [], ACall (CDn 0 DH) CcZero).
  Proof.
    intros H. unfold o, concat_op, handle, cc_handle.
    destruct (Nat.eqb_spec n 0); [reflexivity | congruence].
  Qed.

  Lemma h_sub_s aux s : n <> 0 ->
    handle o (ISub 0 aux) s = (s_init, [], ACall (CSub 0) CcDone).
  Proof.
    intros H. unfold o, concat_op, handle, cc_handle, cc_next. cbn [cc_i].
    destruct (Nat.eqb_spec n 0); [congruence|].
    destruct (Nat.eqb_spec 0 n); [congruence | reflexivity].
  Qed.

  Lemma h_up_z u s : n = 0 ->
    handle o (IUp 0 u) s =
    (if umsg_is_term u
     then {| cc_i := cc_i s; cc_tb := cc_tb s; cc_got_pull := cc_got_pull s; cc_disposed := true |}
     else s, [], ARet).
  Proof.
    intros H. unfold o, concat_op, handle, cc_handle.
    destruct (Nat.eqb_spec n 0); [|congruence]. destruct (umsg_is_term u); reflexivity.
  Qed.

  Lemma h_up_s u s k : n <> 0 -> cc_tb s = Some k ->
    handle o (IUp 0 u) s =
    (match u with
     | UP => {| cc_i := cc_i s; cc_tb := cc_tb s; cc_got_pull := true;
                cc_disposed := cc_disposed s |}
     | _ => s end, [], ACall (CUp k u) CcDone).
  Proof.
    intros H Htb. unfold o, concat_op, handle, cc_handle.
    destruct (Nat.eqb_spec n 0); [congruence|]. rewrite Htb. reflexivity.
  Qed.

  Lemma h_dt_last j s : S (cc_i s) = n ->
    handle o (IDn j DT) s =
    ({| cc_i := S (cc_i s); cc_tb := cc_tb s; cc_got_pull := cc_got_pull s;
        cc_disposed := cc_disposed s |}, [], ACall (CDn 0 DT) CcDone).
  Proof.
    intros H. unfold o, concat_op, handle, cc_handle, cc_next. cbn [cc_i].
    destruct (Nat.eqb_spec (S (cc_i s)) n); [reflexivity | congruence].
  Qed.

  Lemma h_dt_next j s : S (cc_i s) <> n ->
    handle o (IDn j DT) s =
    ({| cc_i := S (cc_i s); cc_tb := cc_tb s; cc_got_pull := cc_got_pull s;
        cc_disposed := cc_disposed s |}, [], ACall (CSub (S (cc_i s))) CcDone).
  Proof.
    intros H. unfold o, concat_op, handle, cc_handle, cc_next. cbn [cc_i].
    destruct (Nat.eqb_spec (S (cc_i s)) n); [congruence | reflexivity].
  Qed.

  Definition with_tb (s : cc_st) (j : nat) : cc_st :=
    {| cc_i := cc_i s; cc_tb := Some j; cc_got_pull := cc_got_pull s;
       cc_disposed := cc_disposed s |}.

  Lemma h_dh_first j s : cc_i s = 0 ->
    handle o (IDn j DH) s = (with_tb s j, [], ACall (CDn 0 DH) CcDone).
  Proof. intros H. unfold with_tb. cbn. destruct (cc_i s); [reflexivity | discriminate]. Qed.

  Lemma h_dh_pull j s : cc_i s <> 0 -> cc_got_pull s = true ->
    handle o (IDn j DH) s = (with_tb s j, [], ACall (CUp j UP) CcDone).
  Proof.
    intros H H'. unfold with_tb. cbn. rewrite H'. destruct (cc_i s); [congruence | reflexivity].
  Qed.

  Ltac crush2 :=
    repeat match goal with
           | |- forall _, _ => intro
           | H : _ \/ _ |- _ => destruct H
           | H : False |- _ => destruct H
           | |- context [upd _ ?k _ ?x] =>
               unfold upd; destruct (Nat.eqb_spec x k); subst
           | |- context [if Nat.eqb ?x ?k then _ else _] =>
               destruct (Nat.eqb_spec x k); subst
           end;
    auto; try congruence; try lia; try tauto; try reflexivity;
    try (match goal with
         | H : forall j, _ -> us _ j = _ |- us _ _ = _ => apply H; lia
         end);
    try (match goal with
         | H : forall j, _ -> owed _ j = 0 |- owed _ _ = 0 => apply H; lia
         end);
    try (repeat apply done_cons; first [assumption | apply done_nil]);
    try (match goal with
         | H : forall s, s <> 0 -> sk _ s = SNone, H' : ?s <> 0 |- context [sk _ ?s] =>
             rewrite (H s H'); rewrite ?Bool.andb_false_r; auto
         end);
    try (rw_st; cbn; auto; fail).

  Ltac fin4 Hc Hm Hs Hd :=
    rewrite ?Hc, ?Hm, ?Hs, ?Hd; unfold ms_settle; cbn [fold_left map mon_event];
    rewrite ?add_viols_eq; cbn -[Nat.ltb Nat.leb];
    unfold due_on_error;
    repeat (rw_st; rw_cnt; solve_cmp; cbn -[Nat.ltb Nat.leb];
            rewrite ?upd_same, ?Nat.eqb_refl; cbn -[Nat.ltb Nat.leb]);
    crush2.

  Lemma inv_sub c s aux : Inv c -> enabled p g_std c (MIn (ISub s aux)) = true ->
                          Inv (step p c (MIn (ISub s aux))).
  Proof.
    intros HI He. pose proof HI as []. start_in He Hlive Hdel Hg.
    cbn in He, Hg. rewrite Hns in He. destruct aux; [|discriminate].
    destruct (at_top c) eqn:Htop; cbn in He; try discriminate.
    destruct s; cbn in He; try discriminate.
    apply negb_true_iff in He.
    phases i_phase0; try congruence.
    rewrite B in *. cbn in i_le0, i_before0, i_after0, i_owed_after0, i_pull0.
    destruct (Nat.eq_dec n 0) as [Hn|Hn].
    - destruct (step_in p c (ISub 0 0) Hlive Hdel (h_sub_z 0 _ Hn)) as (Hc & Hs & Hm & Hd).
      rewrite C in Hs.
      constructor; [..|apply PhZGreet]; fin4 Hc Hm Hs Hd.
    - destruct (step_in p c (ISub 0 0) Hlive Hdel (h_sub_s 0 _ Hn)) as (Hc & Hs & Hm & Hd).
      rewrite C in Hs.
      constructor; [..|eapply PhSubd]; fin4 Hc Hm Hs Hd.
  Qed.

  Lemma inv_up c s u : Inv c -> cstack (ms c) = map snd (stack c) ->
                       enabled p g_std c (MIn (IUp s u)) = true ->
                       Inv (step p c (MIn (IUp s u))).
  Proof.
    intros HI Hcs He. pose proof HI as []. start_in He Hlive Hdel Hg.
    cbn -[Nat.ltb] in He. apply andb_prop in He. destruct He as [He Hu].
    apply andb_prop in He. destruct He as [Htop Hsk].
    destruct s as [|s]; [|rewrite i_sk_other0 in Hsk by lia; discriminate].
    destruct (sk (ms c) 0) eqn:Esk; try discriminate.
    phases i_phase0; rewrite ?Esk in *; try discriminate; try congruence.
    - (* PhSubd: the subscribing call is on top, the sink cannot act *)
      unfold top_peer_is in Htop. rewrite D in Htop. discriminate.
    - (* PhLive *)
      assert (Hn : n <> 0) by lia.
      destruct (step_in p c (IUp 0 u) Hlive Hdel (h_up_s u _ Hn E)) as (Hc & Hs & Hm & Hd).
      destruct u as [|e|].
      + (* Pull: the sink holds the credit, so nothing is owed by the member *)
        rewrite Hone in Hu. cbn -[Nat.ltb] in Hu. apply Nat.ltb_lt in Hu.
        assert (Hcr : credit (ms c) 0 = 1) by lia.
        assert (How : owed (ms c) (cc_i (cst c)) = 0) by lia.
        constructor; [..|eapply PhLive]; fin4 Hc Hm Hs Hd.
      + constructor; [..|eapply PhOver]; fin4 Hc Hm Hs Hd.
      + constructor; [..|eapply PhOver]; fin4 Hc Hm Hs Hd.
    - (* PhZGreet: the no-op talkback returns into the pending greeting *)
      destruct (step_in p c (IUp 0 u) Hlive Hdel (h_up_z u _ B)) as (Hc & Hs & Hm & Hd).
      unfold ms_settle in Hm; cbn [fold_left map] in Hm. rewrite done_busy in Hm.
      2:{ rewrite mon_input_cstack, Hcs, G. discriminate. }
      destruct u as [|e|]; cbn in Hc.
      + constructor; [..|eapply PhZGreet]; fin4 Hc Hm Hs Hd.
      + constructor; [..|eapply PhZDisp]; fin4 Hc Hm Hs Hd.
      + constructor; [..|eapply PhZDisp]; fin4 Hc Hm Hs Hd.
  Qed.

  Lemma inv_dn c j d : Inv c -> enabled p g_std c (MIn (IDn j d)) = true ->
                       Inv (step p c (MIn (IDn j d))).
  Proof.
    intros HI He. pose proof HI as []. start_in He Hlive Hdel Hg.
    cbn -[Nat.ltb] in He. apply andb_prop in He. destruct He as [Htop He].
    destruct d as [|v|e|].
    - (* the current member greets *)
      apply andb_prop in He. destruct He as [He _].
      destruct (us (ms c) j) eqn:Eus; try discriminate.
      destruct (subd_current j HI Eus) as (-> & Hlt & Hsk & Hfr & Hsub & Hcr & How & Hnp & Hin).
      destruct (Nat.eq_dec (cc_i (cst c)) 0) as [Ei|Ei];
        [|destruct (cc_got_pull (cst c)) eqn:Egp].
      + (* the first member: the sink is greeted, nothing has been counted *)
        destruct (step_in p c (IDn (cc_i (cst c)) DH) Hlive Hdel (h_dh_first _ _ Ei))
          as (Hc & Hs & Hm & Hd).
        rewrite Ei in Hsk, Hnp.
        constructor; [..|eapply PhLive]; unfold with_tb in Hc; fin4 Hc Hm Hs Hd.
      + (* a later member: the Pull in transit is re-issued *)
        destruct (step_in p c (IDn (cc_i (cst c)) DH) Hlive Hdel (h_dh_pull _ _ Ei Egp))
          as (Hc & Hs & Hm & Hd).
        destruct (cc_i (cst c)) as [|i'] eqn:Ei'; [congruence|]. rewrite <- Ei' in *.
        constructor; [..|eapply PhLive]; unfold with_tb in Hc; fin4 Hc Hm Hs Hd.
      + (* a later member can only be subscribed because its predecessor
           answered a Pull: the sink has pulled, the flag is set *)
        exfalso.
        destruct (cc_i (cst c)) as [|i'] eqn:Ei'; [congruence|].
        assert (Hpos : 0 < n) by lia.
        assert (Hgp : false = true) by (apply (i_pull0 Hpos); lia).
        discriminate.
    - (* Data from the current member: it answers the one Pull it owes *)
      apply andb_prop in He. destruct He as [He Hpl].
      destruct (us (ms c) j) eqn:Eus; try discriminate.
      destruct (live_current j HI Eus) as (-> & Hsk & Hlt & Htb & Hfr & Hsub & Hcnt & Hco & Hin).
      rewrite Hpullable in Hpl. cbn -[Nat.ltb] in Hpl. apply Nat.ltb_lt in Hpl.
      assert (Hcr : credit (ms c) 0 = 0) by lia.
      assert (How : owed (ms c) (cc_i (cst c)) = 1) by lia.
      destruct (step_in p c (IDn (cc_i (cst c)) (DD v)) Hlive Hdel eq_refl) as (Hc & Hs & Hm & Hd).
      constructor; [..|eapply PhLive]; fin4 Hc Hm Hs Hd.
    - (* Error from the current member *)
      apply andb_prop in He. destruct He as [He _].
      destruct (us (ms c) j) eqn:Eus; try discriminate.
      destruct (live_current j HI Eus) as (-> & Hsk & Hlt & Htb & Hfr & Hsub & Hcnt & Hco & Hin).
      destruct (step_in p c (IDn (cc_i (cst c)) (DE e)) Hlive Hdel eq_refl) as (Hc & Hs & Hm & Hd).
      constructor; [..|eapply PhOver]; fin4 Hc Hm Hs Hd.
    - (* Terminate from the current member (the answer to the outstanding
         Pull): subscribe the next one or complete *)
      apply andb_prop in He. destruct He as [He Hpl].
      destruct (us (ms c) j) eqn:Eus; try discriminate.
      destruct (live_current j HI Eus) as (-> & Hsk & Hlt & Htb & Hfr & Hsub & Hcnt & Hco & Hin).
      rewrite Hpullable in Hpl. cbn -[Nat.ltb] in Hpl. apply Nat.ltb_lt in Hpl.
      assert (Hcr : credit (ms c) 0 = 0) by lia.
      assert (How : owed (ms c) (cc_i (cst c)) = 1) by lia.
      destruct (Nat.eq_dec (S (cc_i (cst c))) n) as [Hn|Hn].
      + destruct (step_in p c (IDn (cc_i (cst c)) DT) Hlive Hdel (h_dt_last _ _ Hn))
          as (Hc & Hs & Hm & Hd).
        assert (Enext : us (ms c) (S (cc_i (cst c))) = UNone) by (apply i_after0; lia).
        constructor; [..|eapply PhOver]; fin4 Hc Hm Hs Hd.
      + destruct (step_in p c (IDn (cc_i (cst c)) DT) Hlive Hdel (h_dt_next _ _ Hn))
          as (Hc & Hs & Hm & Hd).
        assert (Enext : us (ms c) (S (cc_i (cst c))) = UNone) by (apply i_after0; lia).
        assert (Onext : owed (ms c) (S (cc_i (cst c))) = 0) by (apply i_owed_after0; lia).
        constructor; [..|eapply PhSubd]; fin4 Hc Hm Hs Hd.
  Qed.

  Lemma inv_ret c : Inv c -> enabled p g_std c MRet = true -> Inv (step p c MRet).
  Proof.
    intros HI He. pose proof HI as [].
    pose proof (enabled_live _ _ _ _ He) as Hlive.
    destruct (enabled_ret_stack _ _ _ He) as (k0 & cl & rest0 & Hst).
    (* the checks of a quiescent point, whenever the sink is not live or the
       current member is: an unanswered Pull is owed by the current member,
       which is one of the subscribed ports *)
    assert (Hq : sk (ms c) 0 <> SLive \/ us (ms c) (cc_i (cst c)) = ULive ->
                 check_quiescent p (mon_event p (ms c) ERet) = []).
    { intros Hcase. apply quiescent_ok; cbn; [|exact i_due0|].
      - intros j Hj. destruct (live_current j HI Hj) as (_ & Hsk & _). now rewrite Hsk.
      - intros Hl Hall. destruct Hcase as [Hnl|Hcur]; [congruence|].
        destruct (live_current _ HI Hcur) as (_ & _ & _ & _ & _ & _ & Hcnt & _ & Hin).
        specialize (Hall _ Hin). lia. }
    phases i_phase0.
    - congruence.
    - (* PhSubd: the member has not greeted, the return is not enabled *)
      unfold enabled in He. rewrite Hlive, D, Hlate, C in He. discriminate.
    - rewrite Hst in F. destruct (done_inv F) as [-> Hfr].
      destruct (step_ret p c Hlive Hst eq_refl) as (Hc & Hs & Hm & Hd).
      unfold ms_settle in Hm; cbn [fold_left map] in Hm.
      rewrite (done_eq _ (Hq (or_intror C))) in Hm.
      constructor; [..|eapply PhLive]; fin4 Hc Hm Hs Hd.
    - rewrite Hst in D. destruct (done_inv D) as [-> Hfr].
      destruct (step_ret p c Hlive Hst eq_refl) as (Hc & Hs & Hm & Hd).
      assert (Hnl : sk (ms c) 0 <> SLive) by (intros Hl; rewrite Hl in B; discriminate).
      unfold ms_settle in Hm; cbn [fold_left map] in Hm.
      rewrite (done_eq _ (Hq (or_introl Hnl))) in Hm.
      constructor; [..|eapply PhOver]; fin4 Hc Hm Hs Hd.
    - (* zero members, the greeting returns and the sink has not disposed:
         it is completed before the subscription returns *)
      assert (Hres : resume o CcZero (cst c) = (cst c, [], ACall (CDn 0 DT) CcDone)).
      { cbn. now rewrite F. }
      destruct (step_ret p c Hlive G Hres) as (Hc & Hs & Hm & Hd).
      constructor; [..|eapply PhOver]; fin4 Hc Hm Hs Hd.
      all: rewrite C, D; exact I.
    - (* zero members, the sink disposed inside the greeting *)
      assert (Hres : resume o CcZero (cst c) = (cst c, [], ARet)).
      { cbn. now rewrite F. }
      destruct (step_ret p c Hlive G Hres) as (Hc & Hs & Hm & Hd).
      assert (Hnl : sk (ms c) 0 <> SLive) by congruence.
      unfold ms_settle in Hm; cbn [fold_left map] in Hm.
      rewrite (done_eq _ (Hq (or_introl Hnl))) in Hm.
      constructor; [..|eapply PhOver]; fin4 Hc Hm Hs Hd.
      all: rewrite C, D; exact I.
  Qed.

  Lemma inv_step c m : Inv c -> cstack (ms c) = map snd (stack c) ->
                       enabled p g_std c m = true -> Inv (step p c m).
  Proof.
    intros HI Hcs He. destruct m as [[s aux|s u|i d|s]|].
    - now apply inv_sub.
    - now apply inv_up.
    - now apply inv_dn.
    - exfalso. destruct HI. unfold enabled in He.
      repeat (apply andb_prop in He; destruct He as [? He]).
      cbn in He. now rewrite i_task0 in He.
    - now apply inv_ret.
  Qed.

  Theorem inv_reach c : reach p g_std c -> Inv c.
  Proof.
    induction 1 as [|c m Hr IH He]; [apply inv0|].
    apply inv_step; [exact IH | exact (reach_cstack Hr) | exact He].
  Qed.

End ConcatPull.

(** ** The exported theorem.

    C14 for concat, for every member count (zero included): in the pull
    regime no Pull is sent to a member that still owes an answer, the sink
    never gets more Data than it pulled for, and no Pull of the sink is left
    without an answer at a quiescent point - in particular across member
    boundaries, where the Pull answered by the Terminate of member [k] is
    re-issued to member [k+1] when it greets.  (None of the C01-C05, C17
    violations occurs either.) *)
Theorem concat_safe_pull n p :
  nsinks p = 1 -> resub p = false -> no_nest p = false ->
  c14 p = true -> pullable p = true -> one_pull p = true -> late_ok p = false ->
  forall c : cfg (concat_op n), reach p g_std c -> viols (ms c) = [] /\ dead c = false.
Proof.
  intros H1 H2 H3 H4 H5 H6 H7 c Hr.
  destruct (inv_reach H1 H2 H3 H4 H5 H6 H7 Hr). split; assumption.
Qed.
Print Assumptions concat_safe_pull.

(** the conservation equations themselves, for use by clients: while the sink
    and a member are live that member is the one at the cursor, every Pull of
    the sink is answered or owed by it, and exactly one of "the sink holds a
    credit" / "the member owes an answer" is the case; members past the cursor
    are owed nothing *)
Theorem concat_pull_counts n p :
  nsinks p = 1 -> resub p = false -> no_nest p = false ->
  c14 p = true -> pullable p = true -> one_pull p = true -> late_ok p = false ->
  forall c : cfg (concat_op n), reach p g_std c ->
    (forall j, us (ms c) j = ULive ->
       j = cc_i (cst c) /\ sk (ms c) 0 = SLive /\
       owed (ms c) j + ndata (ms c) 0 = npull (ms c) 0 /\
       credit (ms c) 0 + owed (ms c) j = 1 /\ In j (ports (ms c))) /\
    (forall j, us (ms c) j = USubd ->
       j = cc_i (cst c) /\ credit (ms c) 0 = 0 /\ owed (ms c) j = 0 /\
       npull (ms c) 0 = match j with 0 => 0 | S _ => 1 end + ndata (ms c) 0) /\
    (forall j, cc_i (cst c) < j -> owed (ms c) j = 0).
Proof.
  intros H1 H2 H3 H4 H5 H6 H7 c Hr.
  pose proof (inv_reach H1 H2 H3 H4 H5 H6 H7 Hr) as HI.
  split; [|split].
  - intros j Hj. destruct (live_current j HI Hj) as (-> & ? & ? & ? & ? & ? & ? & ? & ?).
    tauto.
  - intros j Hj. destruct (subd_current j HI Hj) as (-> & ? & ? & ? & ? & ? & ? & ? & ?).
    tauto.
  - exact (i_owed_after HI).
Qed.
Print Assumptions concat_pull_counts.

(** ** Non-vacuity: a conformant run of the pull regime over two members.  The
    sink pulls inside its greeting, member 0 answers with one item, the sink
    pulls again inside that delivery, member 0 answers with Terminate, member 1
    is subscribed inside that Terminate, greets and is pulled at once, answers
    with one item, the sink pulls, member 1 terminates, the sink is completed
    and everything unwinds to a quiescent point. *)
Definition p_pull : mparams :=
  {| nsinks := 1; late_ok := false; pullable := true; one_pull := true;
     resub := false; no_nest := false; c14 := true |}.

Definition witness_script : list move :=
  [MIn (ISub 0 0); MIn (IDn 0 DH); MIn (IUp 0 UP);
   MIn (IDn 0 (DD (VN 1))); MIn (IUp 0 UP);
   MIn (IDn 0 DT); MIn (IDn 1 DH);
   MIn (IDn 1 (DD (VN 2))); MIn (IUp 0 UP);
   MIn (IDn 1 DT);
   MRet; MRet; MRet; MRet; MRet; MRet; MRet; MRet; MRet; MRet].

Example concat_pull_witness :
  let c := run p_pull (concat_op 2) witness_script in
  reach p_pull g_std c /\ stack c = [] /\ sk (ms c) 0 = SFinished /\
  data_out 0 (trace c) = [VN 1; VN 2] /\ npull (ms c) 0 = 3 /\ ndata (ms c) 0 = 2 /\
  In (ECall (CUp 1 UP)) (trace c) /\ viols (ms c) = [].
Proof.
  split; [apply reach_run; vm_compute; reflexivity|].
  vm_compute. repeat split; auto 40.
Qed.

(** the boundary at a quiescent point: member 0 answers the sink's only Pull
    with Terminate, member 1 greets and is pulled, and everything returns.  The
    sink is live, [npull 0 = 1 <> 0 = ndata 0], and [VUnanswered] does not fire
    because the re-issued Pull is owed by member 1 *)
Definition boundary_script : list move :=
  [MIn (ISub 0 0); MIn (IDn 0 DH); MIn (IUp 0 UP); MIn (IDn 0 DT); MIn (IDn 1 DH);
   MRet; MRet; MRet; MRet; MRet].

Example concat_pull_boundary :
  let c := run p_pull (concat_op 2) boundary_script in
  reach p_pull g_std c /\ stack c = [] /\ sk (ms c) 0 = SLive /\
  npull (ms c) 0 = 1 /\ ndata (ms c) 0 = 0 /\ owed (ms c) 0 = 0 /\ owed (ms c) 1 = 1 /\
  ports (ms c) = [1; 0] /\ viols (ms c) = [].
Proof.
  split; [apply reach_run; vm_compute; reflexivity|].
  vm_compute. repeat split.
Qed.

(** zero members: the sink pulls inside its greeting (the no-op talkback), is
    completed when the greeting returns, and is not live at the quiescent point *)
Example concat_pull_zero :
  let c := run p_pull (concat_op 0) [MIn (ISub 0 0); MIn (IUp 0 UP); MRet; MRet] in
  reach p_pull g_std c /\ stack c = [] /\ sk (ms c) 0 = SFinished /\
  npull (ms c) 0 = 1 /\ ndata (ms c) 0 = 0 /\ viols (ms c) = [].
Proof.
  split; [apply reach_run; vm_compute; reflexivity|].
  vm_compute. repeat split.
Qed.
