(** * Inv_for_each: the master invariant of for_each (a sink: there is no
      downstream side, [ISub 0 0] stands for applying [for_each f] to the source) *)
From CB Require Import ProofLib Spec.

Set Implicit Arguments.

(** the values on which the user closure was called, in order *)
Fixpoint user_calls (tr : list event) : list val :=
  match tr with
  | [] => []
  | EObs (OUser v) :: tr' => v :: user_calls tr'
  | _ :: tr' => user_calls tr'
  end.

Lemma user_calls_app tr1 tr2 : user_calls (tr1 ++ tr2) = user_calls tr1 ++ user_calls tr2.
Proof.
  induction tr1 as [|e tr1 IH]; cbn; [reflexivity|].
  destruct e as [i|c| | |[r|v|s b|s]|]; cbn; try exact IH. now rewrite IH.
Qed.

Section ForEachInv.
  Variable p : mparams.
  Hypothesis Hns : nsinks p = 1.
  Hypothesis Hresub : resub p = false.
  Hypothesis Hnonest : no_nest p = false.
  Hypothesis Hc14 : c14 p = false.
  Let o := for_each_op.

  (** Every Pull is the last action of the handler of a message that a live
      upstream has just sent (the greeting or a datum), so the only fact needed
      about suspended activations is that they do nothing when resumed, which
      holds of the single frame [FDone] by computation. *)
  Record Inv (c : cfg o) : Prop := {
    i_viols : viols (ms c) = [];
    i_dead : dead c = false;
    i_sk : forall s, sk (ms c) s = SNone;               (* there is no sink *)
    i_tb : us (ms c) 0 = ULive -> cst c = true;         (* the talkback cell is set *)
    i_subd : subd (ms c) 0 = false -> us (ms c) 0 = UNone;
    i_due : forall s, err_due (ms c) s = None;
    i_us_other : forall i, i <> 0 -> us (ms c) i = UNone;
    i_task : forall s, task (ms c) s = false;
  }.

  Lemma inv0 : Inv (cfg0 o).
  Proof. constructor; cbn; auto; intros; try tauto; discriminate. Qed.

  Lemma quiescent (c : cfg o) :
    Inv c -> forall m', sk m' = sk (ms c) -> (forall s, err_due m' s = None) ->
    check_quiescent p m' = [].
  Proof.
    intros [] m' E1 E2. apply quiescent_nil.
    - intros _ Hov. rewrite E1, i_sk0 in Hov. discriminate.
    - exact E2.
    - rewrite Hc14. discriminate.
  Qed.

  (** [crush] of ProofLib, except that implications are only specialised with
      proofs (error ids in the context are [nat]s) *)
  Ltac crush' :=
    repeat match goal with
           | |- forall _, _ => intro
           | H : _ \/ _ |- _ => destruct H
           | H : False |- _ => destruct H
           | H : ?A -> _, H' : ?A |- _ =>
               match type of A with Prop => specialize (H H') end
           | |- context [upd _ ?k _ ?x] =>
               unfold upd; destruct (Nat.eqb_spec x k); subst
           | H : context [upd _ ?k _ ?x] |- _ =>
               unfold upd in H; destruct (Nat.eqb_spec x k); subst
           end;
    auto; try congruence; try lia; try tauto.

  (** an upstream Error is owed to nobody: there is no sink *)
  Lemma no_due (c : cfg o) e : Inv c -> forall s, due_on_error p (ms c) e s = None.
  Proof. intros [] s. unfold due_on_error. now rewrite i_sk0, andb_false_r. Qed.

  Lemma inv_sub c s aux : Inv c -> enabled p g_std c (MIn (ISub s aux)) = true ->
                          Inv (step p c (MIn (ISub s aux))).
  Proof.
    intros [] He. start_in He Hlive Hdel Hg.
    cbn in He, Hg. rewrite Hns in He. destruct aux; [|discriminate].
    destruct (at_top c) eqn:Htop; cbn in He; try discriminate.
    destruct s; cbn in He; try discriminate.
    apply negb_true_iff in He. specialize (i_subd0 He).
    destruct (step_in p c (ISub 0 0) Hlive Hdel eq_refl) as (Hc & Hs & Hm & Hd).
    pose proof (i_sk0 0) as Esk.
    constructor; rewrite ?Hc, ?Hm, ?Hs, ?Hd; cbn; rewrite ?add_viols_eq; cbn;
      repeat (rw_st; cbn); crush.
  Qed.

  Lemma inv_up c s u : Inv c -> enabled p g_std c (MIn (IUp s u)) = true ->
                       Inv (step p c (MIn (IUp s u))).
  Proof.
    intros [] He. start_in He Hlive Hdel Hg. exfalso.
    cbn in Hdel. now rewrite i_sk0 in Hdel.
  Qed.

  Lemma inv_dn c i d : Inv c -> enabled p g_std c (MIn (IDn i d)) = true ->
                       Inv (step p c (MIn (IDn i d))).
  Proof.
    intros HI He. pose proof (quiescent HI) as Hq.
    pose proof (fun e => @no_due c e HI) as Hnd. destruct HI.
    start_in He Hlive Hdel Hg.
    cbn in He. apply andb_prop in He. destruct He as [Htop He].
    destruct i as [|i].
    2: { rewrite i_us_other0 in He by lia. destruct d; cbn in He; discriminate. }
    pose proof (i_sk0 0) as Esk.
    destruct (us (ms c) 0) eqn:Eus; destruct d as [|v|e|]; cbn in He; try discriminate.
    - (* greeting: store the talkback, pull *)
      destruct (step_in p c (IDn 0 DH) Hlive Hdel eq_refl) as (Hc & Hs & Hm & Hd).
      fin Hm Hs Hd.
    - (* data: call the closure, pull; the upstream is live, it has just spoken *)
      assert (Hh : handle o (IDn 0 (DD v)) (cst c) = (cst c, [OUser v], ACall (CUp 0 UP) FDone)).
      { cbn. now rewrite i_tb0. }
      destruct (step_in p c (IDn 0 (DD v)) Hlive Hdel Hh) as (Hc & Hs & Hm & Hd).
      rewrite <- Hc in i_tb0.
      fin Hm Hs Hd.
    - (* error: ignored *)
      destruct (step_in p c (IDn 0 (DE e)) Hlive Hdel eq_refl) as (Hc & Hs & Hm & Hd).
      constructor; rewrite ?Hc, ?Hm, ?Hs, ?Hd; cbn;
        destruct (cstack (ms c)); rewrite ?add_viols_eq; cbn; rewrite ?Hq; auto.
      all: cbn; crush'; apply Hnd.
    - (* completion: ignored *)
      destruct (step_in p c (IDn 0 DT) Hlive Hdel eq_refl) as (Hc & Hs & Hm & Hd).
      constructor; rewrite ?Hc, ?Hm, ?Hs, ?Hd; cbn;
        destruct (cstack (ms c)); rewrite ?add_viols_eq; cbn; rewrite ?Hq; auto.
      all: crush'.
  Qed.

  Lemma inv_ret c : Inv c -> enabled p g_std c MRet = true -> Inv (step p c MRet).
  Proof.
    intros HI He. pose proof (quiescent HI) as Hq. destruct HI.
    pose proof (enabled_live _ _ _ _ He) as Hlive.
    destruct (enabled_ret_stack _ _ _ He) as (k & cl & rest & Hst).
    destruct (step_ret p c Hlive Hst eq_refl) as (Hc & Hs & Hm & Hd).
    constructor; rewrite ?Hc, ?Hm, ?Hs, ?Hd; cbn;
      destruct (tl (cstack (ms c))); rewrite ?add_viols_eq; cbn; rewrite ?Hq; auto.
  Qed.

  Lemma inv_step c m : Inv c -> enabled p g_std c m = true -> Inv (step p c m).
  Proof.
    intros HI He. destruct m as [[s aux|s u|i d|s]|].
    - now apply inv_sub.
    - now apply inv_up.
    - now apply inv_dn.
    - exfalso. destruct HI. unfold enabled in He.
      repeat (apply andb_prop in He; destruct He as [? He]).
      cbn in He. now rewrite i_task0 in He.
    - now apply inv_ret.
  Qed.

  Theorem inv_reach c : reach p g_std c -> Inv c.
  Proof. induction 1; [apply inv0 | now apply inv_step]. Qed.

  (** the closure is called on exactly the data received, in order, at every
      control point (no invariant needed: the Data arm calls it before the
      [expect]) *)
  Theorem user_reach (c : cfg o) :
    reach p g_std c -> user_calls (trace c) = data_in 0 (trace c).
  Proof.
    induction 1 as [|c m Hr IH He]; [reflexivity|].
    pose proof (enabled_live _ _ _ _ He) as Hlive.
    destruct m as [inp|].
    - pose proof (enabled_deliverable _ _ _ _ He) as Hdel.
      destruct (handle o inp (cst c)) as [[s' os] a] eqn:Hh.
      rewrite (step_in_trace p c inp Hlive Hdel Hh), user_calls_app, data_in_app, IH.
      f_equal. cbn in Hh.
      destruct inp as [[|s] aux|[|s] u|[|i] [|v|e|]|s]; try destruct (cst c);
        injection Hh as ? ? ?; subst s' os a; reflexivity.
    - destruct (enabled_ret_stack _ _ _ He) as (k & cl & rest & Hst).
      destruct (resume o k (cst c)) as [[s' os] a] eqn:Hres.
      rewrite (step_ret_trace p c Hlive Hst Hres), user_calls_app, data_in_app, IH.
      f_equal. cbn in Hres. injection Hres as ? ? ?; subst s' os a; reflexivity.
  Qed.
End ForEachInv.

(** no protocol violation (towards the upstream: C04) and no panic in any
    reachable configuration *)
Theorem for_each_safe p :
  nsinks p = 1 -> resub p = false -> no_nest p = false -> c14 p = false ->
  forall c : cfg for_each_op, reach p g_std c -> viols (ms c) = [] /\ dead c = false.
Proof.
  intros H1 H2 H3 H4 c Hr.
  assert (HI : Inv c) by (eapply inv_reach; eassumption).
  destruct HI. split; assumption.
Qed.
Print Assumptions for_each_safe.

Theorem for_each_user p :
  forall c : cfg for_each_op, reach p g_std c -> user_calls (trace c) = data_in 0 (trace c).
Proof. intros c Hr. exact (user_reach Hr). Qed.
Print Assumptions for_each_user.

(** sanity check (non-vacuity): the upstream answers every Pull from inside
    the Pull and ends from inside the last one; the outer activations return
    afterwards without touching the ended upstream *)
Module ForEachSanity.
  Definition p0 : mparams :=
    {| nsinks := 1; late_ok := false; pullable := false; one_pull := false;
       resub := false; no_nest := false; c14 := false |}.
  Definition script : list move :=
    [MIn (ISub 0 0); MIn (IDn 0 DH); MIn (IDn 0 (DD (VN 1))); MIn (IDn 0 (DD (VN 2)));
     MIn (IDn 0 DT); MRet; MRet; MRet; MRet].
  Example script_enabled : all_enabled p0 g_std (cfg0 for_each_op) script = true.
  Proof. vm_compute. reflexivity. Qed.
  Example script_end :
    let c := run p0 for_each_op script in
    stack c = [] /\ user_calls (trace c) = [VN 1; VN 2] /\
    us (ms c) 0 = UEnded /\ viols (ms c) = [].
  Proof. vm_compute. repeat split; reflexivity. Qed.
End ForEachSanity.
