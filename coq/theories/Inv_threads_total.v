(** * Inv_threads_total: the thread models always run to the end (liveness half of C18/C19)

    [run_full step finished nthreads sch fuel s0] (end of Threads.v) runs an arbitrary schedule prefix
    and then the remaining threads to completion one at a time, in index order.  The property theorems
    of Inv_threads_*.v say "IF every thread is finished THEN the check is empty".  Here: the premise
    always becomes true, for every schedule, all queues, all endings, any number of failing members,
    as soon as the fuel is at least an explicit bound (linear in the queue lengths).

    Method.  A generic section ([drain_total]): a per-thread measure [mu s t] that strictly decreases
    when the unfinished thread [t] is stepped, is bounded by [bnd t] in every state satisfying an
    invariant [P] preserved by every step, while a step of [t] does not change [finished] of the
    others.  Then [drain_threads] with fuel >= the sum of the bounds finishes every thread.
    Per model: [mu s t = c * |remaining queue of t| + rank (pc of t)] (for combine's rcu loop the rank
    of the compare-and-swap pc depends on whether the version it loaded is still current: a thread
    running alone never retries twice; for the fine merge sweep it is [n - j + 2]), and
    [P s := forall t, |queue of t in s| <= |qs t|] (queues only shrink; for take additionally "a
    thread in front of [taken] has an item"). *)

From CB Require Import Threads ThreadSpec ThreadsFine ThreadsTakeMerge ThreadsTakeCombine.
From Coq Require Import List Arith Lia Bool.
Import ListNotations.

Set Implicit Arguments.

(** ** The generic argument *)

Fixpoint sum_from (f : nat -> nat) (k d : nat) : nat :=
  match d with 0 => 0 | S d' => f k + sum_from f (S k) d' end.

Section Total.
  Variable St : Type.
  Variable step : St -> nat -> St.
  Variable finished : St -> nat -> bool.
  Variable nth : nat.
  Variable P : St -> Prop.
  Variable mu : St -> nat -> nat.
  Variable bnd : nat -> nat.

  Hypothesis P_step : forall s t, P s -> P (step s t).
  Hypothesis mu_dec : forall s t, P s -> finished s t = false -> mu (step s t) t < mu s t.
  Hypothesis others : forall s t t', t' <> t -> finished (step s t) t' = finished s t'.
  Hypothesis mu_bnd : forall s t, P s -> mu s t <= bnd t.

  Notation drain := (drain_threads step finished nth).
  Notation fu := (first_unfinished finished).

  Lemma fu_none k s : (forall t, t < k -> finished s t = true) -> fu k s = None.
  Proof.
    induction k as [|k IH]; intros H; cbn; [reflexivity|].
    rewrite IH by (intros t Ht; apply H; lia). rewrite (H k) by lia. reflexivity.
  Qed.

  Lemma fu_some k s t :
    t < k -> finished s t = false -> (forall t', t' < t -> finished s t' = true) -> fu k s = Some t.
  Proof.
    induction k as [|k IH]; intros Hlt Hf Hb; [lia|]. cbn.
    destruct (Nat.eq_dec t k) as [->|ne].
    - rewrite (fu_none Hb), Hf. reflexivity.
    - rewrite IH by (auto; lia). reflexivity.
  Qed.

  Lemma P_run_sched sch : forall s, P s -> P (run_sched step finished sch s).
  Proof.
    induction sch as [|t sch IH]; intros s Hp; cbn; auto.
    apply IH. destruct (finished s t); auto.
  Qed.

  Lemma drain_done fuel s : (forall t, t < nth -> finished s t = true) -> drain fuel s = s.
  Proof. intros H. destruct fuel; cbn; [reflexivity|]. now rewrite (fu_none H). Qed.

  (** the first unfinished thread [k] runs alone until it finishes, in at most [mu s k] steps *)
  Lemma solo m : forall s k,
    P s -> k < nth -> (forall t, t < k -> finished s t = true) -> finished s k = false ->
    mu s k <= m ->
    exists s' j, j <= m /\ P s' /\ (forall t, t < S k -> finished s' t = true)
                 /\ forall fuel, drain (j + fuel) s = drain fuel s'.
  Proof.
    induction m as [|m IH]; intros s k Hp Hk Hb Hf Hm.
    - pose proof (@mu_dec s k Hp Hf). lia.
    - pose proof (@mu_dec s k Hp Hf) as Hd.
      assert (Hb1 : forall t, t < k -> finished (step s k) t = true).
      { intros t Ht. rewrite others by lia. auto. }
      assert (Hdr : forall fuel, drain (S fuel) s = drain fuel (step s k)).
      { intros fuel. cbn. now rewrite (fu_some Hk Hf Hb). }
      destruct (finished (step s k) k) eqn:Hf1.
      + exists (step s k), 1. repeat split; [lia | auto | | exact Hdr].
        intros t Ht. destruct (Nat.eq_dec t k) as [->|ne]; [exact Hf1 | apply Hb1; lia].
      + destruct (IH (step s k) k) as (s' & j & Hj & Hp' & Hb' & Hdr'); auto; [lia|].
        exists s', (S j). repeat split; [lia | auto | auto |].
        intros fuel. change (S j + fuel) with (S (j + fuel)).
        rewrite Hdr. apply Hdr'.
  Qed.

  Lemma drain_total_from d : forall k s fuel,
    k + d = nth -> P s -> (forall t, t < k -> finished s t = true) ->
    fuel >= sum_from bnd k d ->
    forall t, t < nth -> finished (drain fuel s) t = true.
  Proof.
    induction d as [|d IH]; intros k s fuel Hk Hp Hb Hfuel t Ht.
    - rewrite drain_done; [apply Hb; lia | intros t' Ht'; apply Hb; lia].
    - cbn in Hfuel. destruct (finished s k) eqn:Hf.
      + apply (IH (S k)); auto; [lia | | lia].
        intros t' Ht'. destruct (Nat.eq_dec t' k) as [->|ne]; [exact Hf | apply Hb; lia].
      + destruct (@solo (bnd k) s k) as (s' & j & Hj & Hp' & Hb' & Hdr); auto; [lia|].
        replace fuel with (j + (fuel - j)) by lia. rewrite Hdr.
        apply (IH (S k)); auto; lia.
  Qed.

  Theorem drain_total s fuel :
    P s -> fuel >= sum_from bnd 0 nth ->
    forall t, t < nth -> finished (drain fuel s) t = true.
  Proof. intros Hp Hfuel. apply (@drain_total_from nth 0); auto. intros t Ht. lia. Qed.

  Theorem run_full_total s0 sch fuel :
    P s0 -> fuel >= sum_from bnd 0 nth ->
    forall t, t < nth -> finished (run_full step finished nth sch fuel s0) t = true.
  Proof. intros Hp Hfuel. unfold run_full. apply drain_total; auto. now apply P_run_sched. Qed.
End Total.

(** the bounds below are sums of per-thread bounds; if every thread's bound is at most [b] the sum is
    at most [nthreads * b] *)
Lemma sum_from_le f b d : forall k, (forall t, f t <= b) -> sum_from f k d <= d * b.
Proof.
  induction d as [|d IH]; intros k H; cbn; [lia|]. specialize (IH (S k) H). specialize (H k). lia.
Qed.

(** ** merge (Threads.v) *)

Section MergeTotal.
  Variable n : nat.
  Variable qs : nat -> list val.

  Definition mg_rank (pc : mg_pc) : nat :=
    match pc with
    | MgFinished => 0
    | MgInTerm | MgInErr => 1
    | MgAtEndInc | MgAtEndedStore _ => 2
    | MgInData | MgInGreet => 3
    | MgAtStartInc => 4
    | MgAtEndedLoad => 5
    end.

  Definition mg_mu (s : mg_state) (t : nat) : nat :=
    length (mg_q (mgs_th s t)) + mg_rank (mg_pcv (mgs_th s t)).

  Definition mg_P (s : mg_state) : Prop := forall t, length (mg_q (mgs_th s t)) <= length (qs t).

  Lemma mg_stop_siblings_th k t s : mgs_th (mg_stop_siblings k t s) = mgs_th s.
  Proof.
    induction k as [|k IH]; cbn; [reflexivity|].
    destruct (negb (k =? t) && mgs_tbs s k); cbn; exact IH.
  Qed.

  Ltac mg_crunch s t :=
    unfold mg_step, mg_next, mg_set, mg_emit;
    destruct (mgs_th s t) as [pc q f] eqn:Eth; destruct pc; cbn;
    repeat match goal with
           | |- context [if ?b then _ else _] => destruct b eqn:?; cbn
           | |- context [match ?q with [] => _ | _ :: _ => _ end] => destruct q; cbn
           | |- context [match ?f with FinTerm => _ | FinErr _ => _ | FinNone => _ end] =>
               destruct f; cbn
           end;
    rewrite ?mg_stop_siblings_th; cbn.

  Lemma mg_step_other s t t' : t' <> t -> mgs_th (mg_step n s t) t' = mgs_th s t'.
  Proof.
    intros ne. mg_crunch s t; rewrite ?upd_other by exact ne; reflexivity.
  Qed.

  Lemma mg_step_q s t :
    length (mg_q (mgs_th (mg_step n s t) t)) <= length (mg_q (mgs_th s t)).
  Proof.
    mg_crunch s t; rewrite ?upd_same, ?Eth; cbn; lia.
  Qed.

  Lemma mg_step_dec s t : mg_finished s t = false -> mg_mu (mg_step n s t) t < mg_mu s t.
  Proof.
    unfold mg_finished, mg_mu.
    mg_crunch s t; intros Hf; try discriminate; rewrite ?upd_same; cbn; lia.
  Qed.

  Lemma mg_P_step s t : mg_P s -> mg_P (mg_step n s t).
  Proof.
    intros Hp t'. destruct (Nat.eq_dec t' t) as [->|ne].
    - pose proof (mg_step_q s t). specialize (Hp t). lia.
    - rewrite mg_step_other by exact ne. apply Hp.
  Qed.

  Definition mg_bnd (t : nat) : nat := length (qs t) + 5.

  Lemma mg_mu_bnd s t : mg_P s -> mg_mu s t <= mg_bnd t.
  Proof.
    intros Hp. specialize (Hp t). unfold mg_mu, mg_bnd.
    destruct (mg_pcv (mgs_th s t)); cbn; lia.
  Qed.

  Lemma mg_others s t t' : t' <> t -> mg_finished (mg_step n s t) t' = mg_finished s t'.
  Proof. intros ne. unfold mg_finished. now rewrite mg_step_other. Qed.
End MergeTotal.

Definition merge_fuel (n : nat) (qs : nat -> list val) (nth : nat) : nat :=
  sum_from (fun t => length (qs t) + 5) 0 nth.

Theorem merge_run_full_total n qs fins nth sch fuel :
  fuel >= merge_fuel n qs nth ->
  let s := run_full (mg_step n) mg_finished nth sch fuel (mg_init n qs fins) in
  forall t, t < nth -> mg_finished s t = true.
Proof.
  intros Hfuel s. subst s.
  apply (@run_full_total _ (mg_step n) mg_finished nth (mg_P qs) mg_mu (mg_bnd qs)).
  - intros s t. apply mg_P_step.
  - intros s t _. apply mg_step_dec.
  - intros s t t'. apply mg_others.
  - intros s t. apply mg_mu_bnd.
  - intros t. cbn. lia.
  - exact Hfuel.
Qed.

Example merge_fuel_driver :
  merge_fuel 3 (fun _ => [VN 1; VN 2; VN 3; VN 4]) 3 <= 400.
Proof. vm_compute. lia. Qed.

Print Assumptions merge_run_full_total.

(** ** take (Threads.v: [tk_step true max]; ThreadsFine.v: [tkf_step max]) *)

Section TakeTotal.
  Variable max : nat.
  Variable qs : nat -> list val.

  Definition tk_rank (pc : tk_pc) : nat :=
    match pc with
    | TkFinished => 0
    | TkInTerm => 1
    | TkAtEndStore => 2
    | TkAtEndLoad => 3
    | TkInData _ => 4
    | TkAtInc => 5
    | TkAtLoad => 6
    end.

  Definition tk_mu (s : tk_state) (t : nat) : nat :=
    6 * length (tk_q (tks_th s t)) + tk_rank (tk_pcv (tks_th s t)).

  (** a thread in front of the counter has an item *)
  Definition tk_ok (th : tk_thread) : Prop :=
    match tk_pcv th with TkAtLoad | TkAtInc => tk_q th <> [] | _ => True end.

  Definition tk_P (s : tk_state) : Prop :=
    forall t, length (tk_q (tks_th s t)) <= length (qs t) /\ tk_ok (tks_th s t).

  Ltac tk_crunch s t :=
    unfold tkf_step, tk_step, tk_end_now, tk_next, tk_set, tk_emit;
    destruct (tks_th s t) as [pc q] eqn:Eth; destruct pc; cbn;
    repeat match goal with
           | |- context [if ?b then _ else _] => destruct b eqn:?; cbn
           | |- context [match ?q with [] => _ | _ :: _ => _ end] => destruct q; cbn
           end.

  Section Step.
    Variable step : tk_state -> nat -> tk_state.
    Hypothesis step_is : step = tk_step true max \/ step = tkf_step max.

    Lemma tk_step_other s t t' : t' <> t -> tks_th (step s t) t' = tks_th s t'.
    Proof.
      intros ne. destruct step_is as [-> | ->];
        tk_crunch s t; rewrite ?upd_other by exact ne; reflexivity.
    Qed.

    Lemma tk_step_q s t :
      length (tk_q (tks_th (step s t) t)) <= length (tk_q (tks_th s t)).
    Proof.
      destruct step_is as [-> | ->];
        tk_crunch s t; rewrite ?upd_same, ?Eth; cbn; lia.
    Qed.

    Lemma tk_step_ok s t : tk_ok (tks_th s t) -> tk_ok (tks_th (step s t) t).
    Proof.
      unfold tk_ok.
      destruct step_is as [-> | ->];
        tk_crunch s t; rewrite ?upd_same, ?Eth; cbn; auto; try discriminate.
    Qed.

    Lemma tk_step_dec s t :
      tk_ok (tks_th s t) -> tk_finished s t = false -> tk_mu (step s t) t < tk_mu s t.
    Proof.
      unfold tk_ok, tk_finished, tk_mu.
      destruct step_is as [-> | ->];
        tk_crunch s t; intros Hok Hf; try discriminate; try congruence;
        rewrite ?upd_same; cbn; lia.
    Qed.

    Lemma tk_P_step s t : tk_P s -> tk_P (step s t).
    Proof.
      intros Hp t'. destruct (Nat.eq_dec t' t) as [->|ne].
      - pose proof (tk_step_q s t). destruct (Hp t) as [Hq Hok]. split; [lia|].
        now apply tk_step_ok.
      - rewrite tk_step_other by exact ne. apply Hp.
    Qed.

    Lemma tk_others s t t' : t' <> t -> tk_finished (step s t) t' = tk_finished s t'.
    Proof. intros ne. unfold tk_finished. now rewrite tk_step_other. Qed.
  End Step.

  Definition tk_bnd (t : nat) : nat := 6 * length (qs t) + 6.

  Lemma tk_mu_bnd s t : tk_P s -> tk_mu s t <= tk_bnd t.
  Proof.
    intros Hp. destruct (Hp t) as [Hq _]. unfold tk_mu, tk_bnd.
    destruct (tk_pcv (tks_th s t)); cbn; lia.
  Qed.

  Lemma tk_P_init : tk_P (tk_init qs).
  Proof.
    intros t. cbn. unfold tk_ok. destruct (qs t); cbn; split; auto; discriminate.
  Qed.

  Theorem tk_total_gen step nth sch fuel :
    step = tk_step true max \/ step = tkf_step max ->
    fuel >= sum_from tk_bnd 0 nth ->
    forall t, t < nth -> tk_finished (run_full step tk_finished nth sch fuel (tk_init qs)) t = true.
  Proof.
    intros Hs Hfuel.
    apply (@run_full_total _ step tk_finished nth tk_P tk_mu tk_bnd).
    - intros s t. now apply tk_P_step.
    - intros s t Hp. apply tk_step_dec; [exact Hs | apply Hp].
    - intros s t t'. now apply tk_others.
    - intros s t. apply tk_mu_bnd.
    - exact tk_P_init.
    - exact Hfuel.
  Qed.
End TakeTotal.

Definition take_fuel (qs : nat -> list val) (nth : nat) : nat :=
  sum_from (fun t => 6 * length (qs t) + 6) 0 nth.

Theorem take_run_full_total max qs nth sch fuel :
  fuel >= take_fuel qs nth ->
  let s := run_full (tk_step true max) tk_finished nth sch fuel (tk_init qs) in
  forall t, t < nth -> tk_finished s t = true.
Proof. intros Hfuel s. subst s. apply (@tk_total_gen max); auto. Qed.

Theorem take_fine_run_full_total max qs nth sch fuel :
  fuel >= take_fuel qs nth ->
  let s := run_full (tkf_step max) tk_finished nth sch fuel (tk_init qs) in
  forall t, t < nth -> tk_finished s t = true.
Proof. intros Hfuel s. subst s. apply (@tk_total_gen max); auto. Qed.

Example take_fuel_driver :
  take_fuel (fun _ => [VN 1; VN 2; VN 3; VN 4]) 3 <= 400.
Proof. vm_compute. lia. Qed.

Print Assumptions take_run_full_total.
Print Assumptions take_fine_run_full_total.

(** ** a stuttering extension ([stut_step], ThreadsFine.v) of a total system is total: one more step
    per thread *)

Section StutTotal.
  Variable St : Type.
  Variable step : St -> nat -> St.
  Variable finished : St -> nat -> bool.
  Variable nth : nat.
  Variable P : St -> Prop.
  Variable mu : St -> nat -> nat.
  Variable bnd : nat -> nat.

  Hypothesis P_step : forall s t, P s -> P (step s t).
  Hypothesis mu_dec : forall s t, P s -> finished s t = false -> mu (step s t) t < mu s t.
  Hypothesis others : forall s t t', t' <> t -> finished (step s t) t' = finished s t'.
  Hypothesis mu_bnd : forall s t, P s -> mu s t <= bnd t.

  Definition stut_mu (s : stut St) (t : nat) : nat :=
    mu (st_base s) t + (if st_pub s t then 0 else 1).

  Theorem stut_run_full_total s0 sch fuel :
    P s0 -> fuel >= sum_from (fun t => bnd t + 1) 0 nth ->
    forall t, t < nth ->
      stut_finished finished
        (run_full (stut_step step) (stut_finished finished) nth sch fuel (stut_init s0)) t = true.
  Proof.
    intros Hp Hfuel.
    apply (@run_full_total _ (stut_step step) (stut_finished finished) nth
             (fun s => P (st_base s)) stut_mu (fun t => bnd t + 1)).
    - intros s t Hs. unfold stut_step. destruct (st_pub s t); cbn; auto.
    - intros s t Hs Hf. unfold stut_finished in Hf. unfold stut_mu, stut_step.
      destruct (st_pub s t) eqn:Hpub; cbn.
      + rewrite Hpub. pose proof (@mu_dec (st_base s) t Hs Hf). lia.
      + rewrite upd_same. lia.
    - intros s t t' ne. unfold stut_finished, stut_step. destruct (st_pub s t); cbn; auto.
    - intros s t Hs. unfold stut_mu. pose proof (@mu_bnd (st_base s) t Hs).
      destruct (st_pub s t); lia.
    - exact Hp.
    - exact Hfuel.
  Qed.
End StutTotal.

(** ** combine (Threads.v: [cb_step true n]; at the granularity of every access: its stuttering
    extension) *)

Section CombineTotal.
  Variable n : nat.
  Variable qs : nat -> list val.

  (** [ver]: the current version of [vals].  A compare-and-swap whose loaded version is current
      succeeds; one that is stale fails once, and the retry (nobody else running) succeeds. *)
  Definition cb_rank (ver : nat) (pc : cb_pc) : nat :=
    match pc with
    | CbFinished => 0
    | CbInTerm => 1
    | CbAtEndDec => 2
    | CbInData | CbInGreet => 3
    | CbAtEmitLoad | CbAtStartDec => 4
    | CbAtDataDec _ | CbAtDataLoad _ => 5
    | CbAtRcuCas _ _ _ v => if Nat.eqb v ver then 6 else 8
    | CbAtRcuLoad _ _ _ => 7
    | CbAtValsLoad _ => 8
    end.

  Definition cb_mu (s : cb_state) (t : nat) : nat :=
    6 * length (cb_q (cbs_th s t)) + cb_rank (cbs_ver s) (cb_pcv (cbs_th s t)).

  Definition cb_P (s : cb_state) : Prop := forall t, length (cb_q (cbs_th s t)) <= length (qs t).

  Ltac cb_crunch s t :=
    unfold cb_step, cb_after_count, cb_next, cb_set, cb_emit;
    destruct (cbs_th s t) as [pc q f] eqn:Eth; destruct pc; cbn;
    repeat match goal with
           | |- context [if ?b then _ else _] => destruct b eqn:?; cbn
           | |- context [match ?q with [] => _ | _ :: _ => _ end] => destruct q; cbn
           | |- context [match ?f with FinTerm => _ | FinErr _ => _ | FinNone => _ end] =>
               destruct f; cbn
           | |- context [match ?o with Some _ => _ | None => _ end] => destruct o eqn:?; cbn
           end.

  Lemma cb_step_other s t t' : t' <> t -> cbs_th (cb_step true n s t) t' = cbs_th s t'.
  Proof.
    intros ne. cb_crunch s t; rewrite ?upd_other by exact ne; reflexivity.
  Qed.

  Lemma cb_step_q s t :
    length (cb_q (cbs_th (cb_step true n s t) t)) <= length (cb_q (cbs_th s t)).
  Proof.
    cb_crunch s t; rewrite ?upd_same, ?Eth; cbn; lia.
  Qed.

  Lemma cb_step_dec s t : cb_finished s t = false -> cb_mu (cb_step true n s t) t < cb_mu s t.
  Proof.
    unfold cb_finished, cb_mu.
    cb_crunch s t; intros Hf; try discriminate; rewrite ?upd_same; cbn;
      rewrite ?Nat.eqb_refl; lia.
  Qed.

  Lemma cb_P_step s t : cb_P s -> cb_P (cb_step true n s t).
  Proof.
    intros Hp t'. destruct (Nat.eq_dec t' t) as [->|ne].
    - pose proof (cb_step_q s t). specialize (Hp t). lia.
    - rewrite cb_step_other by exact ne. apply Hp.
  Qed.

  Definition cb_bnd (t : nat) : nat := 6 * length (qs t) + 8.

  Lemma cb_mu_bnd s t : cb_P s -> cb_mu s t <= cb_bnd t.
  Proof.
    intros Hp. specialize (Hp t). unfold cb_mu, cb_bnd.
    destruct (cb_pcv (cbs_th s t)); cbn; try lia.
    destruct (Nat.eqb _ _); lia.
  Qed.

  Lemma cb_others s t t' : t' <> t -> cb_finished (cb_step true n s t) t' = cb_finished s t'.
  Proof. intros ne. unfold cb_finished. now rewrite cb_step_other. Qed.
End CombineTotal.

Definition combine_fuel (n : nat) (qs : nat -> list val) (nth : nat) : nat :=
  sum_from (fun t => 6 * length (qs t) + 8) 0 nth.

Theorem combine_run_full_total n qs fins nth sch fuel :
  fuel >= combine_fuel n qs nth ->
  let s := run_full (cb_step true n) cb_finished nth sch fuel (cb_init n qs fins) in
  forall t, t < nth -> cb_finished s t = true.
Proof.
  intros Hfuel s. subst s.
  apply (@run_full_total _ (cb_step true n) cb_finished nth (cb_P qs) cb_mu (cb_bnd qs)).
  - intros s t. apply cb_P_step.
  - intros s t _. apply cb_step_dec.
  - intros s t t'. apply cb_others.
  - intros s t. apply cb_mu_bnd.
  - intros t. cbn. lia.
  - exact Hfuel.
Qed.

Definition combine_fine_fuel (n : nat) (qs : nat -> list val) (nth : nat) : nat :=
  sum_from (fun t => 6 * length (qs t) + 8 + 1) 0 nth.

Theorem combine_fine_run_full_total n qs fins nth sch fuel :
  fuel >= combine_fine_fuel n qs nth ->
  let s := run_full (stut_step (cb_step true n)) (stut_finished cb_finished) nth sch fuel
             (stut_init (cb_init n qs fins)) in
  forall t, t < nth -> stut_finished cb_finished s t = true.
Proof.
  intros Hfuel s. subst s.
  apply (@stut_run_full_total _ (cb_step true n) cb_finished nth (cb_P qs) cb_mu (cb_bnd qs)).
  - intros s t. apply cb_P_step.
  - intros s t _. apply cb_step_dec.
  - intros s t t'. apply cb_others.
  - intros s t. apply cb_mu_bnd.
  - intros t. cbn. lia.
  - exact Hfuel.
Qed.

Example combine_fuel_driver :
  combine_fuel 3 (fun _ => [VN 1; VN 2; VN 3; VN 4]) 3 <= 400
  /\ combine_fine_fuel 3 (fun _ => [VN 1; VN 2; VN 3; VN 4]) 3 <= 400.
Proof. vm_compute. lia. Qed.

Print Assumptions combine_run_full_total.
Print Assumptions combine_fine_run_full_total.

(** ** merge at the granularity of every talkback-cell access (ThreadsFine.v: [mf_step true n]) *)

Section MergeFineTotal.
  Variable n : nat.
  Variable qs : nat -> list val.

  Definition mf_rank (pc : mf_pc) : nat :=
    match pc with
    | MfFinished => 0
    | MfInTerm | MfInErr => 1
    | MfAtEndInc => 2
    | MfAtClear => 3
    | MfAtSweep _ j => (n - j) + 2        (* the sweep only moves forward *)
    | MfAtEndedStore _ => n + 3
    | MfInData | MfInGreet | MfAtSelfSwap => n + 4
    | MfAtStartInc => n + 5
    | MfAtPublishOld | MfAtEndedLoad => n + 6
    | MfAtPublish => n + 7
    end.

  Definition mf_mu (s : mf_state) (t : nat) : nat :=
    length (mf_q (mfs_th s t)) + mf_rank (mf_pcv (mfs_th s t)).

  Definition mf_P (s : mf_state) : Prop := forall t, length (mf_q (mfs_th s t)) <= length (qs t).

  Ltac mf_crunch s t :=
    unfold mf_step, mf_sweep_goto, mf_next, mf_dispose, mf_set, mf_emit;
    destruct (mfs_th s t) as [pc q f] eqn:Eth; destruct pc; cbn -[Nat.ltb Nat.eqb Nat.sub];
    repeat match goal with
           | |- context [if ?b then _ else _] => destruct b eqn:?; cbn -[Nat.ltb Nat.eqb Nat.sub]
           | |- context [match ?q with [] => _ | _ :: _ => _ end] => destruct q; cbn -[Nat.ltb Nat.eqb Nat.sub]
           | |- context [match ?f with FinTerm => _ | FinErr _ => _ | FinNone => _ end] =>
               destruct f; cbn -[Nat.ltb Nat.eqb Nat.sub]
           end.

  Ltac ltb_props :=
    repeat match goal with
           | H : (_ <? _) = true |- _ => apply Nat.ltb_lt in H
           | H : (_ <? _) = false |- _ => apply Nat.ltb_ge in H
           end.

  Lemma mf_step_other s t t' : t' <> t -> mfs_th (mf_step true n s t) t' = mfs_th s t'.
  Proof.
    intros ne. mf_crunch s t; rewrite ?upd_other by exact ne; reflexivity.
  Qed.

  Lemma mf_step_q s t :
    length (mf_q (mfs_th (mf_step true n s t) t)) <= length (mf_q (mfs_th s t)).
  Proof.
    mf_crunch s t; rewrite ?upd_same, ?Eth; cbn; lia.
  Qed.

  Lemma mf_step_dec s t : mf_finished s t = false -> mf_mu (mf_step true n s t) t < mf_mu s t.
  Proof.
    unfold mf_finished, mf_mu.
    mf_crunch s t; intros Hf; try discriminate; rewrite ?upd_same; cbn -[Nat.ltb Nat.eqb Nat.sub];
      ltb_props; lia.
  Qed.

  Lemma mf_P_step s t : mf_P s -> mf_P (mf_step true n s t).
  Proof.
    intros Hp t'. destruct (Nat.eq_dec t' t) as [->|ne].
    - pose proof (mf_step_q s t). specialize (Hp t). lia.
    - rewrite mf_step_other by exact ne. apply Hp.
  Qed.

  Definition mf_bnd (t : nat) : nat := length (qs t) + n + 7.

  Lemma mf_mu_bnd s t : mf_P s -> mf_mu s t <= mf_bnd t.
  Proof.
    intros Hp. specialize (Hp t). unfold mf_mu, mf_bnd.
    destruct (mf_pcv (mfs_th s t)); cbn; lia.
  Qed.

  Lemma mf_others s t t' : t' <> t -> mf_finished (mf_step true n s t) t' = mf_finished s t'.
  Proof. intros ne. unfold mf_finished. now rewrite mf_step_other. Qed.
End MergeFineTotal.

Definition merge_fine_fuel (n : nat) (qs : nat -> list val) (nth : nat) : nat :=
  sum_from (fun t => length (qs t) + n + 7) 0 nth.

Theorem merge_fine_run_full_total n qs fins nth sch fuel :
  fuel >= merge_fine_fuel n qs nth ->
  let s := run_full (mf_step true n) mf_finished nth sch fuel (mf_init true n qs fins) in
  forall t, t < nth -> mf_finished s t = true.
Proof.
  intros Hfuel s. subst s.
  apply (@run_full_total _ (mf_step true n) mf_finished nth (mf_P qs) (mf_mu n) (mf_bnd n qs)).
  - intros s t. apply mf_P_step.
  - intros s t _. apply mf_step_dec.
  - intros s t t'. apply mf_others.
  - intros s t. apply mf_mu_bnd.
  - intros t. cbn. lia.
  - exact Hfuel.
Qed.

Example merge_fine_fuel_driver :
  merge_fine_fuel 3 (fun _ => [VN 1; VN 2; VN 3; VN 4]) 3 <= 400.
Proof. vm_compute. lia. Qed.

Print Assumptions merge_fine_run_full_total.

(** ** take behind merge (ThreadsTakeMerge.v: [xm_step true max n]) *)

Section TakeMergeTotal.
  Variable max : nat.
  Variable n : nat.
  Variable qs : nat -> list val.

  Definition xm_rank (pc : xm_pc) : nat :=
    match pc with
    | XmFinished => 0
    | XmInTermAll | XmInErr => 1
    | XmAtEndSwapT | XmAtEndSwapE _ => 2
    | XmAtEndInc | XmAtEndedStore _ => 3
    | XmInTerm | XmInGreet => 4
    | XmAtMgEnded | XmAtStartInc => 5
    | XmAtEndStore | XmAtEndSwap | XmAtEndedLoad => 6
    | XmAtEndLoad => 7
    | XmInData _ => 8
    | XmAtTaken _ => 9
    end.

  Definition xm_mu (s : xm_state) (t : nat) : nat :=
    6 * length (xm_q (xms_th s t)) + xm_rank (xm_pcv (xms_th s t)).

  Definition xm_P (s : xm_state) : Prop := forall t, length (xm_q (xms_th s t)) <= length (qs t).

  Lemma xm_sweep_th k skip t s : xms_th (xm_sweep k skip t s) = xms_th s.
  Proof.
    induction k as [|k IH]; cbn; [reflexivity|].
    destruct (negb _ && xms_cell s k); cbn; exact IH.
  Qed.

  Ltac xm_crunch s t :=
    unfold xm_step, xm_take_end, xm_next, xm_set, xm_emit;
    destruct (xms_th s t) as [pc q f] eqn:Eth; destruct pc; cbn;
    repeat match goal with
           | |- context [if ?b then _ else _] => destruct b eqn:?; cbn
           | |- context [match ?q with [] => _ | _ :: _ => _ end] => destruct q; cbn
           | |- context [match ?f with FinTerm => _ | FinErr _ => _ | FinNone => _ end] =>
               destruct f; cbn
           end;
    rewrite ?xm_sweep_th; cbn.

  Lemma xm_step_other s t t' : t' <> t -> xms_th (xm_step true max n s t) t' = xms_th s t'.
  Proof.
    intros ne. xm_crunch s t; rewrite ?upd_other by exact ne; reflexivity.
  Qed.

  Lemma xm_step_q s t :
    length (xm_q (xms_th (xm_step true max n s t) t)) <= length (xm_q (xms_th s t)).
  Proof.
    xm_crunch s t; rewrite ?upd_same, ?Eth; cbn; lia.
  Qed.

  Lemma xm_step_dec s t :
    xm_finished s t = false -> xm_mu (xm_step true max n s t) t < xm_mu s t.
  Proof.
    unfold xm_finished, xm_mu.
    xm_crunch s t; intros Hf; try discriminate; rewrite ?upd_same; cbn; lia.
  Qed.

  Lemma xm_P_step s t : xm_P s -> xm_P (xm_step true max n s t).
  Proof.
    intros Hp t'. destruct (Nat.eq_dec t' t) as [->|ne].
    - pose proof (xm_step_q s t). specialize (Hp t). lia.
    - rewrite xm_step_other by exact ne. apply Hp.
  Qed.

  Definition xm_bnd (t : nat) : nat := 6 * length (qs t) + 9.

  Lemma xm_mu_bnd s t : xm_P s -> xm_mu s t <= xm_bnd t.
  Proof.
    intros Hp. specialize (Hp t). unfold xm_mu, xm_bnd.
    destruct (xm_pcv (xms_th s t)); cbn; lia.
  Qed.

  Lemma xm_others s t t' :
    t' <> t -> xm_finished (xm_step true max n s t) t' = xm_finished s t'.
  Proof. intros ne. unfold xm_finished. now rewrite xm_step_other. Qed.
End TakeMergeTotal.

Definition takemerge_fuel (n : nat) (qs : nat -> list val) (nth : nat) : nat :=
  sum_from (fun t => 6 * length (qs t) + 9) 0 nth.

Theorem takemerge_run_full_total max n qs fins nth sch fuel :
  fuel >= takemerge_fuel n qs nth ->
  let s := run_full (xm_step true max n) xm_finished nth sch fuel (xm_init n qs fins) in
  forall t, t < nth -> xm_finished s t = true.
Proof.
  intros Hfuel s. subst s.
  apply (@run_full_total _ (xm_step true max n) xm_finished nth (xm_P qs) xm_mu (xm_bnd qs)).
  - intros s t. apply xm_P_step.
  - intros s t _. apply xm_step_dec.
  - intros s t t'. apply xm_others.
  - intros s t. apply xm_mu_bnd.
  - intros t. cbn. lia.
  - exact Hfuel.
Qed.

Example takemerge_fuel_driver :
  takemerge_fuel 3 (fun _ => [VN 1; VN 2; VN 3; VN 4]) 3 <= 400.
Proof. vm_compute. lia. Qed.

Print Assumptions takemerge_run_full_total.

(** ** take behind combine (ThreadsTakeCombine.v: [xc_step true max n]) *)

Section TakeCombineTotal.
  Variable max : nat.
  Variable n : nat.
  Variable qs : nat -> list val.

  Definition xc_rank (ver : nat) (pc : xc_pc) : nat :=
    match pc with
    | XcFinished => 0
    | XcInTermAll => 1
    | XcAtEndSwapT => 2
    | XcAtEndDec => 3
    | XcInTerm | XcInGreet => 4
    | XcAtEndStore | XcAtStartDec => 5
    | XcAtEndSwap | XcAtEndLoad => 6
    | XcInData _ => 7
    | XcAtTaken _ => 8
    | XcAtEmitLoad => 9
    | XcAtDataDec | XcAtDataLoad => 10
    | XcAtRcuCas _ _ v => if Nat.eqb v ver then 11 else 13
    | XcAtRcuLoad _ _ => 12
    | XcAtValsLoad _ => 13
    end.

  Definition xc_mu (s : xc_state) (t : nat) : nat :=
    10 * length (xc_q (xcs_th s t)) + xc_rank (xcs_ver s) (xc_pcv (xcs_th s t)).

  Definition xc_P (s : xc_state) : Prop := forall t, length (xc_q (xcs_th s t)) <= length (qs t).

  Lemma xc_stop_all_th k t s : xcs_th (xc_stop_all k t s) = xcs_th s.
  Proof. induction k as [|k IH]; cbn; [reflexivity | exact IH]. Qed.

  Lemma xc_stop_all_ver k t s : xcs_ver (xc_stop_all k t s) = xcs_ver s.
  Proof. induction k as [|k IH]; cbn; [reflexivity | exact IH]. Qed.

  Ltac xc_crunch s t :=
    unfold xc_step, xc_end_now, xc_after_count, xc_next, xc_set, xc_emit;
    destruct (xcs_th s t) as [pc q f] eqn:Eth; destruct pc; cbn;
    repeat match goal with
           | |- context [if ?b then _ else _] => destruct b eqn:?; cbn
           | |- context [match ?q with [] => _ | _ :: _ => _ end] => destruct q; cbn
           | |- context [match ?f with FinTerm => _ | FinErr _ => _ | FinNone => _ end] =>
               destruct f; cbn
           | |- context [match ?o with Some _ => _ | None => _ end] => destruct o eqn:?; cbn
           end;
    rewrite ?xc_stop_all_th, ?xc_stop_all_ver; cbn.

  Lemma xc_step_other s t t' : t' <> t -> xcs_th (xc_step true max n s t) t' = xcs_th s t'.
  Proof.
    intros ne. xc_crunch s t; rewrite ?upd_other by exact ne; reflexivity.
  Qed.

  Lemma xc_step_q s t :
    length (xc_q (xcs_th (xc_step true max n s t) t)) <= length (xc_q (xcs_th s t)).
  Proof.
    xc_crunch s t; rewrite ?upd_same, ?Eth; cbn; lia.
  Qed.

  Lemma xc_step_dec s t :
    xc_finished s t = false -> xc_mu (xc_step true max n s t) t < xc_mu s t.
  Proof.
    unfold xc_finished, xc_mu.
    xc_crunch s t; intros Hf; try discriminate; rewrite ?upd_same; cbn;
      rewrite ?Nat.eqb_refl; lia.
  Qed.

  Lemma xc_P_step s t : xc_P s -> xc_P (xc_step true max n s t).
  Proof.
    intros Hp t'. destruct (Nat.eq_dec t' t) as [->|ne].
    - pose proof (xc_step_q s t). specialize (Hp t). lia.
    - rewrite xc_step_other by exact ne. apply Hp.
  Qed.

  Definition xc_bnd (t : nat) : nat := 10 * length (qs t) + 13.

  Lemma xc_mu_bnd s t : xc_P s -> xc_mu s t <= xc_bnd t.
  Proof.
    intros Hp. specialize (Hp t). unfold xc_mu, xc_bnd.
    destruct (xc_pcv (xcs_th s t)); cbn; try lia.
    destruct (Nat.eqb _ _); lia.
  Qed.

  Lemma xc_others s t t' :
    t' <> t -> xc_finished (xc_step true max n s t) t' = xc_finished s t'.
  Proof. intros ne. unfold xc_finished. now rewrite xc_step_other. Qed.
End TakeCombineTotal.

Definition takecombine_fuel (n : nat) (qs : nat -> list val) (nth : nat) : nat :=
  sum_from (fun t => 10 * length (qs t) + 13) 0 nth.

Theorem takecombine_run_full_total max n qs fins nth sch fuel :
  fuel >= takecombine_fuel n qs nth ->
  let s := run_full (xc_step true max n) xc_finished nth sch fuel (xc_init n qs fins) in
  forall t, t < nth -> xc_finished s t = true.
Proof.
  intros Hfuel s. subst s.
  apply (@run_full_total _ (xc_step true max n) xc_finished nth (xc_P qs) xc_mu (xc_bnd qs)).
  - intros s t. apply xc_P_step.
  - intros s t _. apply xc_step_dec.
  - intros s t t'. apply xc_others.
  - intros s t. apply xc_mu_bnd.
  - intros t. cbn. lia.
  - exact Hfuel.
Qed.

Example takecombine_fuel_driver :
  takecombine_fuel 3 (fun _ => [VN 1; VN 2; VN 3; VN 4]) 3 <= 400.
Proof. vm_compute. lia. Qed.

Print Assumptions takecombine_run_full_total.
