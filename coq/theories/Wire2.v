(** * Wire2: every message crosses a link exactly once, in order, in both directions.

    [Chain.chain_wire] says that the DATA a node receives on port 0 are the data its upstream
    neighbour sent to its sink.  Here the same is proved of the full message sequences of Flow.v:
    greetings, data and terminations downward ([dn_out] of the upstream node against [dn_in] of the
    downstream node), subscriptions and talkback calls upward ([up_out] of the downstream node
    against [up_in] of the upstream node).  At most one message is in flight (the pending internal
    transfer [PTo]). *)

From CB Require Import ProofLib Spec Chain Flow.

Set Implicit Arguments.

(** ** Messages in flight on the link into node [t] *)

Definition infl_dn (pd : pending) (t : nat) : list dmsg :=
  match pd with PTo k (IDn 0 d) => if k =? t then [d] else [] | _ => [] end.

Definition infl_up (pd : pending) (t : nat) : list (option umsg) :=
  match pd with
  | PTo k (ISub 0 _) => if k =? t then [None] else []
  | PTo k (IUp 0 u) => if k =? t then [Some u] else []
  | _ => []
  end.

Definition wire2_ok (ns : list node) (pd : pending) : Prop :=
  forall i U D, nth_error ns i = Some U -> nth_error ns (S i) = Some D ->
    dn_out (ntrace U) = dn_in (ntrace D) ++ infl_dn pd (S i) /\
    up_out (ntrace D) = up_in (ntrace U) ++ infl_up pd i.

(** ** What one step appends to each of the four sequences *)

Definition dn_of_fin (fin : event) : list dmsg :=
  match fin with ECall (CDn 0 d) => [d] | _ => [] end.
Definition dn_of_move (m : move) : list dmsg :=
  match m with MIn (IDn 0 d) => [d] | _ => [] end.
Definition up_of_fin (fin : event) : list (option umsg) :=
  match fin with
  | ECall (CSub 0) => [None]
  | ECall (CUp 0 u) => [Some u]
  | _ => []
  end.
Definition up_of_move (m : move) : list (option umsg) :=
  match m with
  | MIn (ISub 0 _) => [None]
  | MIn (IUp 0 u) => [Some u]
  | _ => []
  end.

Lemma dn_out_ext tr m os fin :
  dn_out (tr ++ move_event m :: map EObs os ++ [fin]) = dn_out tr ++ dn_of_fin fin.
Proof.
  rewrite dn_out_app. f_equal.
  change (move_event m :: map EObs os ++ [fin]) with ([move_event m] ++ map EObs os ++ [fin]).
  rewrite !dn_out_app, dn_out_obs.
  assert (E : dn_out [move_event m] = []) by (destruct m as [[]|]; reflexivity).
  rewrite E. cbn [app].
  destruct fin as [j|[j|j u|[|s] d]| | |ob|]; reflexivity.
Qed.

Lemma up_out_ext tr m os fin :
  up_out (tr ++ move_event m :: map EObs os ++ [fin]) = up_out tr ++ up_of_fin fin.
Proof.
  rewrite up_out_app. f_equal.
  change (move_event m :: map EObs os ++ [fin]) with ([move_event m] ++ map EObs os ++ [fin]).
  rewrite !up_out_app, up_out_obs.
  assert (E : up_out [move_event m] = []) by (destruct m as [[]|]; reflexivity).
  rewrite E. cbn [app].
  destruct fin as [j|[[|j]|[|j] u|s d]| | |ob|]; reflexivity.
Qed.

Lemma dn_in_ext tr m os fin :
  (forall i, fin <> EIn i) ->
  dn_in (tr ++ move_event m :: map EObs os ++ [fin]) = dn_in tr ++ dn_of_move m.
Proof.
  intros Hfin.
  rewrite dn_in_app. f_equal.
  change (move_event m :: map EObs os ++ [fin]) with ([move_event m] ++ map EObs os ++ [fin]).
  rewrite !dn_in_app, dn_in_obs.
  assert (E : dn_in [fin] = []).
  { destruct fin as [j| | | | |]; try reflexivity. exfalso. exact (Hfin j eq_refl). }
  rewrite E, !app_nil_r.
  destruct m as [[s a|s u|[|i] d|s]|]; reflexivity.
Qed.

Lemma up_in_ext tr m os fin :
  (forall i, fin <> EIn i) ->
  up_in (tr ++ move_event m :: map EObs os ++ [fin]) = up_in tr ++ up_of_move m.
Proof.
  intros Hfin.
  rewrite up_in_app. f_equal.
  change (move_event m :: map EObs os ++ [fin]) with ([move_event m] ++ map EObs os ++ [fin]).
  rewrite !up_in_app, up_in_obs.
  assert (E : up_in [fin] = []).
  { destruct fin as [j| | | | |]; try reflexivity. exfalso. exact (Hfin j eq_refl). }
  rewrite E, !app_nil_r.
  destruct m as [[[|s] a|[|s] u|i d|s]|]; reflexivity.
Qed.

(** ** One step of node [x] preserves the wires *)

Lemma eqb_false_of_neq a b : a <> b -> (a =? b) = false.
Proof. intros H. now apply Nat.eqb_neq. Qed.

Lemma after_step_wire2 (ns : list node) G1 pd_old pd0 x n m :
  nth_error ns x = Some n ->
  nenabled n m = true ->
  wire2_ok ns pd_old ->
  (forall t, t <> x -> infl_dn pd_old t = [] /\ infl_up pd_old t = []) ->
  (0 < x -> infl_dn pd_old x = dn_of_move m) ->
  (S x < length ns -> infl_up pd_old x = up_of_move m) ->
  let N' := after_step (mk_net ns G1 pd0) x (nstep n m) in
  wire2_ok (nodes N') (pend N').
Proof.
  intros Hn He Hw Hoth Hxd Hxu N'.
  destruct (step_trace_shape _ _ _ _ He) as (os & fin & Htr & Hl & Hfin).
  set (n' := nstep n m) in *.
  change (trace (step (npar n) (ncfg n) m)) with (ntrace n') in Htr.
  change (trace (ncfg n)) with (ntrace n) in Htr.
  change (hd_error (rtrace (step (npar n) (ncfg n) m))) with (nlast n') in Hl.
  assert (Hdo : dn_out (ntrace n') = dn_out (ntrace n) ++ dn_of_fin fin)
    by (rewrite Htr; apply dn_out_ext).
  assert (Hdi : dn_in (ntrace n') = dn_in (ntrace n) ++ dn_of_move m)
    by (rewrite Htr; apply dn_in_ext; exact Hfin).
  assert (Huo : up_out (ntrace n') = up_out (ntrace n) ++ up_of_fin fin)
    by (rewrite Htr; apply up_out_ext).
  assert (Hui : up_in (ntrace n') = up_in (ntrace n) ++ up_of_move m)
    by (rewrite Htr; apply up_in_ext; exact Hfin).
  set (ns' := set_nth x n' ns).
  assert (Hx' : nth_error ns' x = Some n') by (eapply nth_set_same; eauto).
  assert (Ho' : forall j, j <> x -> nth_error ns' j = nth_error ns j)
    by (intros j Hj; apply nth_set_other; congruence).
  assert (Hnodes : nodes N' = ns').
  { unfold N', after_step. cbn [nodes gst]. fold n'. fold ns'. rewrite Hl.
    destruct fin as [|cl| | | |]; try reflexivity.
    - destruct (route (length ns) x cl); reflexivity.
    - destruct G1 as [|[j [| |]] G1']; reflexivity. }
  (* the new pending transfer and the message in flight *)
  assert (Hinfd : forall t, infl_dn (pend N') t =
                            if (t =? S x) && (S x <? length ns) then dn_of_fin fin else []).
  { intros t. unfold N', after_step. cbn [nodes gst]. fold n'. rewrite Hl.
    destruct fin as [|cl| | | |]; cbn [pend infl_dn dn_of_fin];
      try (destruct ((t =? S x) && (S x <? length ns)); reflexivity).
    - destruct cl as [[|j]|[|j] u|[|s] d]; unfold route;
        try (destruct (0 <? x)); cbn [pend infl_dn dn_of_fin xlate];
        try (destruct ((t =? S x) && (S x <? length ns)); reflexivity).
      all: destruct (S x <? length ns) eqn:E; cbn [pend infl_dn xlate];
        [ rewrite andb_true_r, (Nat.eqb_sym t (S x)); reflexivity
        | rewrite andb_false_r; reflexivity ].
    - destruct G1 as [|[j [| |]] G1']; cbn [pend infl_dn];
        destruct ((t =? S x) && (S x <? length ns)); reflexivity. }
  assert (Hinfu : forall t, infl_up (pend N') t =
                            if (S t =? x) then up_of_fin fin else []).
  { intros t. unfold N', after_step. cbn [nodes gst]. fold n'. rewrite Hl.
    destruct fin as [|cl| | | |]; cbn [pend infl_up up_of_fin];
      try (destruct (S t =? x); reflexivity).
    - destruct cl as [[|j]|[|j] u|[|s] d]; unfold route;
        try (destruct (S x <? length ns)); cbn [pend infl_up up_of_fin xlate];
        try (destruct (S t =? x); reflexivity).
      all: destruct x as [|x0]; cbn [Nat.ltb Nat.leb pend infl_up xlate pred];
        [ reflexivity | rewrite (Nat.eqb_sym x0 t); reflexivity ].
    - destruct G1 as [|[j [| |]] G1']; cbn [pend infl_up];
        destruct (S t =? x); reflexivity. }
  rewrite Hnodes. intros i U' D' HU HD. rewrite Hinfd, Hinfu.
  destruct (Nat.eq_dec i x) as [->|Hix].
  - (* the upstream side of the pair stepped *)
    rewrite Hx' in HU. inversion HU; subst U'. rewrite Ho' in HD by lia.
    rewrite Nat.eqb_refl. apply nth_error_lt in HD as Hlt.
    destruct (Hw x n D' Hn HD) as [Hwd Hwu].
    destruct (Hoth (S x)) as [Hod _]; [lia|].
    split.
    + apply Nat.ltb_lt in Hlt. rewrite Hlt. cbn [andb].
      rewrite Hdo, Hwd, Hod. now rewrite app_nil_r.
    + rewrite (eqb_false_of_neq (a := S x) (b := x)) by lia.
      rewrite app_nil_r, Hui, Hwu, (Hxu Hlt). reflexivity.
  - destruct (Nat.eq_dec (S i) x) as [Hsx|Hsx].
    + (* the downstream side stepped *)
      rewrite Hsx, Hx' in HD. inversion HD; subst D'. rewrite Ho' in HU by exact Hix.
      specialize (Hw i U' n HU). rewrite Hsx in Hw. destruct (Hw Hn) as [Hwd Hwu].
      destruct (Hoth i Hix) as [_ Hou].
      rewrite Hsx. split.
      * rewrite (eqb_false_of_neq (a := x) (b := S x)) by lia. cbn [andb].
        rewrite app_nil_r, Hdi, Hwd, Hxd by lia. reflexivity.
      * rewrite Nat.eqb_refl. rewrite Huo, Hwu, Hou. now rewrite app_nil_r.
    + rewrite Ho' in HU, HD by assumption.
      destruct (Hw i U' D' HU HD) as [Hwd Hwu].
      destruct (Hoth (S i) Hsx) as [Hod _]. destruct (Hoth i Hix) as [_ Hou].
      rewrite (eqb_false_of_neq (a := S i) (b := S x)) by lia. cbn [andb].
      rewrite (eqb_false_of_neq Hsx).
      rewrite Hwd, Hwu, Hod, Hou. split; reflexivity.
Qed.

Section ChainWire2.
  Variable sigs : list (op * mparams * (mstate -> input -> bool)).
  Hypothesis Hsafe : forall s, In s sigs -> safe_sig s.
  Hypothesis Hreg : forall i s, nth_error sigs i = Some s -> regime_ok i s.

  Lemma net_step_wire2 N mv :
    Inv sigs N -> net_enabled N mv = true ->
    wire2_ok (nodes N) (pend N) -> wire2_ok (nodes (net_step N mv)) (pend (net_step N mv)).
  Proof.
    destruct N as [ns G pd]. intros (Hnodes & Hst & Hwf & Hpend & Hlk) He Hw.
    cbn [nodes gst pend] in *. unfold net_enabled, net_step in *. cbn [nodes gst pend] in *.
    destruct mv as [x m|]; destruct pd as [|t inp|j]; try discriminate.
    - (* the environment acts on node x *)
      destruct (nth_error ns x) as [n|] eqn:Hn; [|discriminate].
      apply andb_prop in He. destruct He as [Hen He].
      destruct m as [inp|].
      + apply andb_prop in He. destruct He as [Hext _].
        apply (@after_step_wire2 ns G PIdle PIdle x n (MIn inp)); auto.
        * intros Hx0. cbn. destruct inp as [s a|s u|[|i] d|s]; try reflexivity.
          unfold ext_input_ok in Hext. apply Nat.eqb_eq in Hext. lia.
        * intros Hlt. cbn. destruct inp as [[|s] a|[|s] u|i d|s]; try reflexivity;
            unfold ext_input_ok in Hext; apply Nat.eqb_eq in Hext; lia.
      + apply (@after_step_wire2 ns (tl G) PIdle PIdle x n MRet); auto.
    - (* the pending internal transfer into node t *)
      destruct Hpend as [_ (n & Hn & Hen)]. rewrite Hn.
      apply (@after_step_wire2 ns G (PTo t inp) (PTo t inp) t n (MIn inp)); auto.
      + intros t' Ht. cbn.
        destruct inp as [[|s] a|[|s] u|[|i] d|s]; try (split; reflexivity);
          rewrite (eqb_false_of_neq (a := t) (b := t')) by congruence; split; reflexivity.
      + intros _. cbn. destruct inp as [s a|s u|[|i] d|s]; try reflexivity.
        now rewrite Nat.eqb_refl.
      + intros _. cbn. destruct inp as [[|s] a|[|s] u|i d|s]; try reflexivity;
          now rewrite Nat.eqb_refl.
    - (* the return to node j *)
      destruct Hpend as (k & Hhd & Hk).
      destruct G as [|e G']; [discriminate|]. cbn in Hhd. inversion Hhd; subst e.
      assert (Hj : j < length ns).
      { destruct Hwf as (Hko & _). destruct k; cbn in Hko; lia. }
      destruct (nth_error ns j) as [n|] eqn:Hn.
      2: { apply nth_error_None in Hn. lia. }
      pose proof (ret_enabled Hsafe Hreg Hnodes Hst Hk Hn) as Hen.
      apply (@after_step_wire2 ns G' (PRet j) PIdle j n MRet); auto.
  Qed.

  Theorem chain_wire2 ns N :
    map nsig ns = sigs -> (forall n, In n ns -> ninit n) ->
    net_reach (net0 ns) N -> wire2_ok (nodes N) (pend N).
  Proof.
    intros Hsig Hinit Hr. induction Hr as [|N mv Hr IH He].
    - intros i U D HU HD. unfold net0 in *. cbn [nodes pend infl_dn infl_up] in *.
      unfold ntrace. rewrite (Hinit U (nth_error_In _ _ HU)), (Hinit D (nth_error_In _ _ HD)).
      split; reflexivity.
    - apply net_step_wire2; [|exact He|exact IH].
      exact (chain_inv Hsafe Hreg Hsig Hinit Hr).
  Qed.

  (** at an idle point nothing is in flight: the two ends of every link have seen the same
      messages *)
  Corollary chain_wire2_idle ns N i U D :
    map nsig ns = sigs -> (forall n, In n ns -> ninit n) ->
    net_reach (net0 ns) N ->
    nth_error (nodes N) i = Some U -> nth_error (nodes N) (S i) = Some D ->
    pend N = PIdle ->
    dn_in (ntrace D) = dn_out (ntrace U) /\ up_in (ntrace U) = up_out (ntrace D).
  Proof.
    intros Hsig Hinit Hr HU HD Hp.
    destruct (chain_wire2 Hsig Hinit Hr i HU HD) as [Hd Hu].
    rewrite Hp in Hd, Hu. cbn [infl_dn infl_up] in Hd, Hu. rewrite app_nil_r in Hd, Hu.
    split; congruence.
  Qed.

  (** in general a receiver has counted no more than its neighbour has sent *)
  Corollary chain_wire2_counts ns N i U D :
    map nsig ns = sigs -> (forall n, In n ns -> ninit n) ->
    net_reach (net0 ns) N ->
    nth_error (nodes N) i = Some U -> nth_error (nodes N) (S i) = Some D ->
    hin (ntrace D) <= hout (ntrace U) /\ din (ntrace D) <= dout (ntrace U) /\
    pin (ntrace U) <= pout (ntrace D).
  Proof.
    intros Hsig Hinit Hr HU HD.
    destruct (chain_wire2 Hsig Hinit Hr i HU HD) as [Hd Hu].
    unfold hin, hout, din, dout, pin, pout. rewrite Hd, Hu, !cnt_app. lia.
  Qed.
End ChainWire2.

Print Assumptions chain_wire2.
Print Assumptions chain_wire2_idle.
Print Assumptions chain_wire2_counts.
