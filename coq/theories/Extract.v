(** Extraction of the executable model for the correspondence check.
    Only [ExtrOcamlBasic] is used (bool, option, list, prod, unit, sumbool map
    to OCaml's own); nat stays the Coq datatype.  No [Extract Constant]. *)
From CB Require Import Driver NetDriver TraceEnv PipeNetG.
Require Extraction.
Require ExtrOcamlBasic.
Extraction Language OCaml.
Extraction "model.ml"
  run_spec step_spec enabled_spec cfg0_spec trace_spec viols_spec depth_spec dead_spec
  monitor_trace classes_trace smonitor_trace run_pipe_spec
  trun tcheck tinit tstep1 tfinished ttrace
  chain_net chain_step chain_trace chain_idle chain_viols
  tree_net tree_step tree_trace tree_viols tree_edges_ok
  enabled_on_trace conformant_trace
  net_pipe_run.
