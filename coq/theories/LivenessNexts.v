(** * LivenessNexts: "the iterator is advanced only on demand, once per element delivered plus once to
      discover exhaustion" - for every reachable state of every pipeline (C06, C15 composed). *)

From CB Require Import ProofLib Spec Chain Programs Flow FlowLists.
From CB Require Flow_ends.
From CB Require Inv_from_iter.

Set Implicit Arguments.

(** in every reachable state of every pipeline (with or without for_each, any iterator): the results of
    next() so far are exactly the items from_iter delivered, followed by None iff from_iter told its
    sink the end; and never more calls of next() than Pulls from_iter received *)
Theorem pipeline_nexts it stages b N :
  Forall ustage_ok stages -> net_reach (pipe_net it stages b) N ->
  forall n0, nth_error (nodes N) 0 = Some n0 ->
    Inv_from_iter.nexts (ntrace n0) =
      map Some (data_out 0 (ntrace n0)) ++
      match sk (nms n0) 0 with SFinished => [None] | _ => [] end /\
    length (Inv_from_iter.nexts (ntrace n0)) <= pin (ntrace n0).
Proof.
  intros Hok Hr n0 Hn0.
  destruct (@pipeline_sound it stages b N Hok Hr 0 n0 Hn0) as (Hsig & Hre & _).
  cbn in Hsig. destruct n0 as [o p g c]. unfold nsig, sig_src in Hsig. cbn [nop npar ngrd] in Hsig.
  inversion Hsig; subst o p g. clear Hsig.
  unfold nreach, ntrace, nms in *. cbn [nop npar ngrd ncfg] in *.
  split.
  - exact (@Inv_from_iter.from_iter_done_exact it p_src eq_refl eq_refl eq_refl eq_refl c Hre).
  - pose proof (Inv_from_iter.inv_reach (p := p_src) eq_refl eq_refl Hre) as HI.
    pose proof (Inv_from_iter.i_lazy HI) as Hl.
    rewrite (Flow_ends.reach_npull_pin Hre) in Hl. lia.
Qed.
Print Assumptions pipeline_nexts.

(** over a finite input: at most [length xs + 1] calls of next(), in every reachable state *)
Theorem pipeline_nexts_bound (xs : list val) stages b N :
  Forall ustage_ok stages -> net_reach (pipe_net (fun k => nth_error xs k) stages b) N ->
  forall n0, nth_error (nodes N) 0 = Some n0 ->
    length (Inv_from_iter.nexts (ntrace n0)) <= S (length xs).
Proof.
  intros Hok Hr n0 Hn0.
  destruct (pipeline_nexts Hok Hr Hn0) as [E _]. rewrite E, app_length, map_length.
  destruct (@pipeline_sound _ stages b N Hok Hr 0 n0 Hn0) as (Hsig & Hre & _). cbn in Hsig.
  destruct (src_functional Hsig Hre) as [pos Hpos].
  pose proof (prefix_length (finite_it_prefix _ _ _ Hpos)) as Hl.
  destruct (sk (nms n0) 0); cbn; lia.
Qed.
Print Assumptions pipeline_nexts_bound.
