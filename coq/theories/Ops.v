(** * Ops: hand-written executable models of every source, operator and sink
      of callbag-rs, one [op] each.

    Reading guide.  Every cell of the Rust closure tree ([Arc<AtomicUsize>],
    [ArcSwapOption<Source<T>>], ...) is a field of the state record; a
    talkback cell is modelled by *which peer's* talkback it holds.  Every
    [call!(peer, msg)] is an [ACall], whose continuation frame names what the
    Rust handler still does after that call returns; loops whose body calls a
    peer are frames carrying the loop position.  Every [panic!], [expect] and
    [unwrap] that depends on state is an [APanic] branch.  The source location
    each clause mirrors is given in the comments (line numbers of the pinned
    tree).

    The correspondence check (harness/ + driver/) runs these definitions,
    extracted, against the real crate on the same move scripts. *)

From CB Require Export Machine.

Set Implicit Arguments.

(** frame shared by the pass-through operators: nothing left to do *)
Inductive fdone : Type := FDone.

Definition call_done {F} (k : F) (c : call) : list obs * act F := ([], ACall c k).

(** ** map (src/map.rs) — no cells at all *)
Section Map.
  Variable f : val -> val.
  Definition map_handle (i : input) (s : unit) : unit * list obs * act fdone :=
    match i with
    | ISub 0 _ => (s, [], ACall (CSub 0) FDone)                      (* :113-203 *)
    | IDn 0 DH => (s, [], ACall (CDn 0 DH) FDone)                    (* :124-176 *)
    | IDn 0 (DD v) => (s, [], ACall (CDn 0 (DD (f v))) FDone)        (* :177-183 *)
    | IDn 0 (DE e) => (s, [], ACall (CDn 0 (DE e)) FDone)            (* :187-193 *)
    | IDn 0 DT => (s, [], ACall (CDn 0 DT) FDone)                    (* :194-196 *)
    | IUp 0 u => (s, [], ACall (CUp 0 u) FDone)                      (* :148-168 *)
    | _ => (s, [], ARet)
    end.
  Definition map_op : op :=
    {| St := unit; Fr := fdone; st0 := tt; handle := map_handle;
       resume := fun _ s => (s, [], ARet) |}.
End Map.

(** ** filter (src/filter.rs) — one cell: the upstream talkback *)
Section Filter.
  Variable cond : val -> bool.
  Definition filter_handle (i : input) (tb : bool) : bool * list obs * act fdone :=
    match i with
    | ISub 0 _ => (false, [], ACall (CSub 0) FDone)                  (* :109-110 fresh cell *)
    | IDn 0 DH => (true, [], ACall (CDn 0 DH) FDone)                 (* :122-123 store, then greet *)
    | IDn 0 (DD v) =>
        if cond v then (tb, [], ACall (CDn 0 (DD v)) FDone)          (* :194-199 *)
        else if tb then (tb, [], ACall (CUp 0 UP) FDone)             (* :200-210 re-request *)
        else (tb, [], APanic)
    | IDn 0 (DE e) => (tb, [], ACall (CDn 0 (DE e)) FDone)
    | IDn 0 DT => (tb, [], ACall (CDn 0 DT) FDone)
    | IUp 0 u =>
        if tb then (tb, [], ACall (CUp 0 u) FDone) else (tb, [], APanic) (* :146-184 expect *)
    | _ => (tb, [], ARet)
    end.
  Definition filter_op : op :=
    {| St := bool; Fr := fdone; st0 := false; handle := filter_handle;
       resume := fun _ s => (s, [], ARet) |}.
End Filter.

(** ** scan (src/scan.rs) — one cell: the accumulator *)
Section Scan.
  Variable reducer : val -> val -> val.
  Variable seed : val.
  Definition scan_handle (i : input) (acc : val) : val * list obs * act fdone :=
    match i with
    | ISub 0 _ => (seed, [], ACall (CSub 0) FDone)                   (* :120 acc = seed.clone() *)
    | IDn 0 DH => (acc, [], ACall (CDn 0 DH) FDone)
    | IDn 0 (DD v) =>
        let acc' := reducer acc v in                                 (* :183-186 store first *)
        (acc', [], ACall (CDn 0 (DD acc')) FDone)                    (* :187-191 then send the stored value *)
    | IDn 0 (DE e) => (acc, [], ACall (CDn 0 (DE e)) FDone)
    | IDn 0 DT => (acc, [], ACall (CDn 0 DT) FDone)
    | IUp 0 u => (acc, [], ACall (CUp 0 u) FDone)
    | _ => (acc, [], ARet)
    end.
  Definition scan_op : op :=
    {| St := val; Fr := fdone; st0 := seed; handle := scan_handle;
       resume := fun _ s => (s, [], ARet) |}.
End Scan.

(** ** skip (src/skip.rs) *)
Record skip_st : Type := { sk_skipped : nat; sk_tb : bool }.
Section Skip.
  Variable max : nat.
  Definition skip_handle (i : input) (s : skip_st) : skip_st * list obs * act fdone :=
    match i with
    | ISub 0 _ => ({| sk_skipped := 0; sk_tb := false |}, [], ACall (CSub 0) FDone)
    | IDn 0 DH => ({| sk_skipped := sk_skipped s; sk_tb := true |}, [], ACall (CDn 0 DH) FDone)
    | IDn 0 (DD v) =>
        if sk_skipped s <? max then                                   (* :235 *)
          let s' := {| sk_skipped := S (sk_skipped s); sk_tb := sk_tb s |} in
          if sk_tb s then (s', [], ACall (CUp 0 UP) FDone)            (* :236-247 *)
          else (s', [], APanic)
        else (s, [], ACall (CDn 0 (DD v)) FDone)                      (* :249 *)
    | IDn 0 (DE e) => (s, [], ACall (CDn 0 (DE e)) FDone)
    | IDn 0 DT => (s, [], ACall (CDn 0 DT) FDone)
    | IUp 0 u =>
        if sk_tb s then (s, [], ACall (CUp 0 u) FDone) else (s, [], APanic)
    | _ => (s, [], ARet)
    end.
  Definition skip_op : op :=
    {| St := skip_st; Fr := fdone; st0 := {| sk_skipped := 0; sk_tb := false |};
       handle := skip_handle; resume := fun _ s => (s, [], ARet) |}.
End Skip.

(** ** take (src/take.rs) *)
Record take_st : Type := { tk_taken : nat; tk_tb : bool; tk_end : bool }.
Inductive take_fr : Type :=
| TkDone
| TkAfterData (taken' : nat)   (* :235 the shadowing local [taken] of this delivery *)
| TkAfterStop.                 (* :250-255 upstream was told to stop; complete the sink *)
Section Take.
  Variable max : nat.
  Definition take_handle (i : input) (s : take_st) : take_st * list obs * act take_fr :=
    match i with
    | ISub 0 _ =>
        ({| tk_taken := 0; tk_tb := false; tk_end := false |}, [], ACall (CSub 0) TkDone)
    | IUp 0 UP =>
        if tk_taken s <? max then                                     (* :166 *)
          if tk_tb s then (s, [], ACall (CUp 0 UP) TkDone) else (s, [], APanic)
        else (s, [], ARet)
    | IUp 0 u =>                                                      (* :179-204 *)
        let s' := {| tk_taken := tk_taken s; tk_tb := tk_tb s; tk_end := true |} in
        if tk_tb s then (s', [], ACall (CUp 0 u) TkDone) else (s', [], APanic)
    | IDn 0 DH =>                                                     (* :218-225 *)
        ({| tk_taken := tk_taken s; tk_tb := true; tk_end := tk_end s |}, [],
         ACall (CDn 0 DH) TkDone)
    | IDn 0 (DD v) =>
        if tk_taken s <? max then                                     (* :227 *)
          let t' := S (tk_taken s) in                                 (* :228-229 *)
          ({| tk_taken := t'; tk_tb := tk_tb s; tk_end := tk_end s |}, [],
           ACall (CDn 0 (DD v)) (TkAfterData t'))
        else (s, [], ARet)
    (* the end of the source: [end.swap(true)] - forwarded by whoever finds the flag unset *)
    | IDn 0 (DE e) =>
        if tk_end s then (s, [], ARet)
        else ({| tk_taken := tk_taken s; tk_tb := tk_tb s; tk_end := true |}, [], ACall (CDn 0 (DE e)) TkDone)
    | IDn 0 DT =>
        if tk_end s then (s, [], ARet)
        else ({| tk_taken := tk_taken s; tk_tb := tk_tb s; tk_end := true |}, [], ACall (CDn 0 DT) TkDone)
    | _ => (s, [], ARet)
    end.
  Definition take_resume (k : take_fr) (s : take_st) : take_st * list obs * act take_fr :=
    match k with
    | TkDone => (s, [], ARet)
    | TkAfterData t' =>
        if Nat.eqb t' max && negb (tk_end s) then                     (* :235-237 *)
          let s' := {| tk_taken := tk_taken s; tk_tb := tk_tb s; tk_end := true |} in
          if tk_tb s then (s', [], ACall (CUp 0 UT) TkAfterStop) else (s', [], APanic)
        else (s, [], ARet)
    | TkAfterStop => (s, [], ACall (CDn 0 DT) TkDone)                 (* :251-255 *)
    end.
  Definition take_op : op :=
    {| St := take_st; Fr := take_fr;
       st0 := {| tk_taken := 0; tk_tb := false; tk_end := false |};
       handle := take_handle; resume := take_resume |}.
End Take.

(** ** from_iter (src/from_iter.rs) *)
Record fi_st : Type := {
  fi_pos : nat;          (* how often Iterator::next has been called *)
  fi_in_loop : bool; fi_got_pull : bool; fi_completed : bool; fi_res_done : bool }.
Inductive fi_fr : Type :=
| FiDone
| FiLoop          (* :147 back at the while condition after a Data delivery *)
| FiAfterBreak.   (* :140-141 after the Terminate delivery: leave the loop *)
Section FromIter.
  Variable it : nat -> option val.     (* the k-th call of next() returns [it k] *)
  (** the [while] condition and one iteration up to its [call!] (:129-148) *)
  Definition fi_loop (s : fi_st) : fi_st * list obs * act fi_fr :=
    if fi_got_pull s && negb (fi_completed s) then
      let r := it (fi_pos s) in
      match r with
      | None =>
          ({| fi_pos := S (fi_pos s); fi_in_loop := fi_in_loop s; fi_got_pull := false;
              fi_completed := fi_completed s; fi_res_done := true |},
           [ONext None], ACall (CDn 0 DT) FiAfterBreak)
      | Some v =>
          ({| fi_pos := S (fi_pos s); fi_in_loop := fi_in_loop s; fi_got_pull := false;
              fi_completed := fi_completed s; fi_res_done := false |},
           [ONext (Some v)], ACall (CDn 0 (DD v)) FiLoop)
      end
    else
      ({| fi_pos := fi_pos s; fi_in_loop := false; fi_got_pull := fi_got_pull s;
          fi_completed := fi_completed s; fi_res_done := fi_res_done s |}, [], ARet).
  Definition fi_handle (i : input) (s : fi_st) : fi_st * list obs * act fi_fr :=
    match i with
    | ISub 0 _ =>
        ({| fi_pos := 0; fi_in_loop := false; fi_got_pull := false; fi_completed := false;
            fi_res_done := false |}, [], ACall (CDn 0 DH) FiDone)
    | IUp 0 u =>
        if fi_completed s then (s, [], ARet)                          (* :162-164 *)
        else match u with
        | UP =>
            let s1 := {| fi_pos := fi_pos s; fi_in_loop := fi_in_loop s; fi_got_pull := true;
                         fi_completed := fi_completed s; fi_res_done := fi_res_done s |} in
            if negb (fi_in_loop s) && negb (fi_res_done s) then       (* :175-179 *)
              fi_loop {| fi_pos := fi_pos s1; fi_in_loop := true; fi_got_pull := true;
                         fi_completed := fi_completed s1; fi_res_done := fi_res_done s1 |}
            else (s1, [], ARet)
        | _ =>                                                        (* :181-183 *)
            ({| fi_pos := fi_pos s; fi_in_loop := fi_in_loop s; fi_got_pull := fi_got_pull s;
                fi_completed := true; fi_res_done := fi_res_done s |}, [], ARet)
        end
    | _ => (s, [], ARet)
    end.
  Definition fi_resume (k : fi_fr) (s : fi_st) : fi_st * list obs * act fi_fr :=
    match k with
    | FiDone => (s, [], ARet)
    | FiLoop => fi_loop s
    | FiAfterBreak =>
        ({| fi_pos := fi_pos s; fi_in_loop := false; fi_got_pull := fi_got_pull s;
            fi_completed := fi_completed s; fi_res_done := fi_res_done s |}, [], ARet)
    end.
  Definition from_iter_op : op :=
    {| St := fi_st; Fr := fi_fr;
       st0 := {| fi_pos := 0; fi_in_loop := false; fi_got_pull := false;
                 fi_completed := false; fi_res_done := false |};
       handle := fi_handle; resume := fi_resume |}.
End FromIter.

(** ** for_each (src/for_each.rs) — a sink; [ISub 0] stands for applying
    [for_each(f)] to the source *)
Definition for_each_handle (i : input) (tb : bool) : bool * list obs * act fdone :=
  match i with
  | ISub 0 _ => (false, [], ACall (CSub 0) FDone)                     (* :114-139 *)
  | IDn 0 DH => (true, [], ACall (CUp 0 UP) FDone)                    (* :126-130 *)
  | IDn 0 (DD v) =>
      if tb then (tb, [OUser v], ACall (CUp 0 UP) FDone)              (* :132-136 *)
      else (tb, [OUser v], APanic)
  | _ => (tb, [], ARet)
  end.
Definition for_each_op : op :=
  {| St := bool; Fr := fdone; st0 := false; handle := for_each_handle;
     resume := fun _ s => (s, [], ARet) |}.

(** ** merge (src/merge.rs) *)
Record mg_st : Type := {
  mg_tbs : nat -> bool;        (* slot j of source_talkbacks is Some *)
  mg_start : nat; mg_end : nat; mg_ended : bool }.
Inductive mg_fr : Type :=
| MgDone
| MgSubLoop (i : nat)                 (* :158 the subscription loop, next index *)
| MgBcast (u : umsg) (j : nat)        (* :121 the sink-talkback broadcast loop *)
| MgErrLoop (i : nat) (e : nat) (j : nat).   (* :198 stop the siblings of failed member i *)
Section Merge.
  Variable n : nat.
  (** first slot index in [j, j+fuel) satisfying [ok] *)
  Fixpoint find_from (ok : nat -> bool) (j fuel : nat) : option nat :=
    match fuel with
    | 0 => None
    | S fuel' => if ok j then Some j else find_from ok (S j) fuel'
    end.
  Definition mg_subloop (i : nat) (s : mg_st) : mg_st * list obs * act mg_fr :=
    if i <? n then
      if mg_ended s then (s, [], ARet)                                (* :159-161 *)
      else (s, [], ACall (CSub i) (MgSubLoop (S i)))
    else (s, [], ARet).
  Definition mg_bcast (u : umsg) (j : nat) (s : mg_st) : mg_st * list obs * act mg_fr :=
    if negb (umsg_is_term u) && mg_ended s then (s, [], ARet) else    (* :131-133 *)
    match find_from (mg_tbs s) j (n - j) with
    | Some j' =>
        (* an ending message takes the talkback out of its cell (swap), a Pull reads it *)
        let s' := if umsg_is_term u
                  then {| mg_tbs := upd (mg_tbs s) j' false; mg_start := mg_start s;
                          mg_end := mg_end s; mg_ended := mg_ended s |}
                  else s in
        (s', [], ACall (CUp j' u) (MgBcast u (S j')))
    | None => (s, [], ARet)
    end.
  Definition mg_errloop (i e j : nat) (s : mg_st) : mg_st * list obs * act mg_fr :=
    match find_from (fun x => negb (Nat.eqb x i) && mg_tbs s x) j (n - j) with
    | Some j' =>
        ({| mg_tbs := upd (mg_tbs s) j' false; mg_start := mg_start s; mg_end := mg_end s;
            mg_ended := mg_ended s |}, [], ACall (CUp j' UT) (MgErrLoop i e (S j')))
    | None => (s, [], ACall (CDn 0 (DE e)) MgDone)                    (* :211 *)
    end.
  Definition mg_handle (i : input) (s : mg_st) : mg_st * list obs * act mg_fr :=
    match i with
    | ISub 0 _ =>
        mg_subloop 0 {| mg_tbs := fun _ => false; mg_start := 0; mg_end := 0;
                        mg_ended := false |}
    | IUp 0 u =>
        let s' := if umsg_is_term u                                   (* :118-120 *)
                  then {| mg_tbs := mg_tbs s; mg_start := mg_start s; mg_end := mg_end s;
                          mg_ended := true |} else s in
        mg_bcast u 0 s'
    | IDn i DH =>
        if i <? n then
          if mg_ended s then (s, [], ACall (CUp i UT) MgDone) else    (* :179-186 late greeter *)
          let sc := S (mg_start s) in                                 (* :187-189 *)
          let s' := {| mg_tbs := upd (mg_tbs s) i true; mg_start := sc; mg_end := mg_end s;
                       mg_ended := mg_ended s |} in
          if Nat.eqb sc 1 then (s', [], ACall (CDn 0 DH) MgDone) else (s', [], ARet)
        else (s, [], ARet)
    | IDn i (DD v) => if i <? n then (s, [], ACall (CDn 0 (DD v)) MgDone) else (s, [], ARet)
    | IDn i (DE e) =>
        if i <? n then
          mg_errloop i e 0 {| mg_tbs := mg_tbs s; mg_start := mg_start s; mg_end := mg_end s;
                              mg_ended := true |}
        else (s, [], ARet)
    | IDn i DT =>
        if i <? n then
          let ec := S (mg_end s) in                                   (* :214-216 *)
          let s' := {| mg_tbs := upd (mg_tbs s) i false; mg_start := mg_start s; mg_end := ec;
                       mg_ended := mg_ended s |} in
          if Nat.eqb ec n then (s', [], ACall (CDn 0 DT) MgDone) else (s', [], ARet)
        else (s, [], ARet)
    | _ => (s, [], ARet)
    end.
  Definition mg_resume (k : mg_fr) (s : mg_st) : mg_st * list obs * act mg_fr :=
    match k with
    | MgDone => (s, [], ARet)
    | MgSubLoop i => mg_subloop i s
    | MgBcast u j => mg_bcast u j s
    | MgErrLoop i e j => mg_errloop i e j s
    end.
  Definition merge_op : op :=
    {| St := mg_st; Fr := mg_fr;
       st0 := {| mg_tbs := fun _ => false; mg_start := 0; mg_end := 0; mg_ended := false |};
       handle := mg_handle; resume := mg_resume |}.
End Merge.

(** ** concat (src/concat.rs) *)
Record cc_st : Type := {
  cc_i : nat;
  cc_tb : option nat;      (* which member's talkback is in source_talkback *)
  cc_got_pull : bool;
  cc_disposed : bool }.    (* only for zero members: the sink disposed (:95-113) *)
Inductive cc_fr : Type :=
| CcDone
| CcZero.                  (* :109-111 zero members: after the greeting, complete the sink *)
Section Concat.
  Variable n : nat.
  (** the [next] closure (:176-247) *)
  Definition cc_next (s : cc_st) : cc_st * list obs * act cc_fr :=
    if Nat.eqb (cc_i s) n then (s, [], ACall (CDn 0 DT) CcDone)
    else (s, [], ACall (CSub (cc_i s)) CcDone).
  Definition cc_handle (i : input) (s : cc_st) : cc_st * list obs * act cc_fr :=
    match i with
    | ISub 0 _ =>
        let s0 := {| cc_i := 0; cc_tb := None; cc_got_pull := false; cc_disposed := false |} in
        if Nat.eqb n 0 then (s0, [], ACall (CDn 0 DH) CcZero)         (* :95-108 *)
        else cc_next s0
    | IUp 0 u =>
        if Nat.eqb n 0 then                                           (* :100-104 the no-op talkback *)
          if umsg_is_term u
          then ({| cc_i := cc_i s; cc_tb := cc_tb s; cc_got_pull := cc_got_pull s;
                   cc_disposed := true |}, [], ARet)
          else (s, [], ARet)
        else
        let s' := match u with
                  | UP => {| cc_i := cc_i s; cc_tb := cc_tb s; cc_got_pull := true;
                             cc_disposed := cc_disposed s |}
                  | _ => s end in
        match cc_tb s with
        | Some k => (s', [], ACall (CUp k u) CcDone)
        | None => (s', [], APanic)
        end
    | IDn k DH =>
        let s' := {| cc_i := cc_i s; cc_tb := Some k; cc_got_pull := cc_got_pull s;
                     cc_disposed := cc_disposed s |} in
        if Nat.eqb (cc_i s) 0 then (s', [], ACall (CDn 0 DH) CcDone)
        else if cc_got_pull s then (s', [], ACall (CUp k UP) CcDone)
        else (s', [], ARet)
    | IDn _ (DD v) => (s, [], ACall (CDn 0 (DD v)) CcDone)
    | IDn _ (DE e) => (s, [], ACall (CDn 0 (DE e)) CcDone)
    | IDn _ DT =>
        cc_next {| cc_i := S (cc_i s); cc_tb := cc_tb s; cc_got_pull := cc_got_pull s;
                   cc_disposed := cc_disposed s |}
    | _ => (s, [], ARet)
    end.
  Definition cc_resume (k : cc_fr) (s : cc_st) : cc_st * list obs * act cc_fr :=
    match k with
    | CcDone => (s, [], ARet)
    | CcZero => if cc_disposed s then (s, [], ARet) else (s, [], ACall (CDn 0 DT) CcDone)
    end.
  Definition concat_op : op :=
    {| St := cc_st; Fr := cc_fr;
       st0 := {| cc_i := 0; cc_tb := None; cc_got_pull := false; cc_disposed := false |};
       handle := cc_handle; resume := cc_resume |}.
End Concat.

(** ** combine (src/combine.rs), one macro body for every arity *)
Record cb_st : Type := {
  cb_nstart : nat; cb_ndata : nat; cb_nend : nat;
  cb_vals : nat -> option val;
  cb_tbs : nat -> bool }.
Inductive cb_fr : Type :=
| CbDone
| CbSub (j : nat)                 (* :210-301 the unrolled subscription sequence *)
| CbBcast (u : umsg) (j : nat).   (* :160-204 the unrolled broadcast sequence *)
Section Combine.
  Variable n : nat.
  Fixpoint cb_tuple (vals : nat -> option val) (k : nat) : option (list val) :=
    match k with
    | 0 => Some []
    | S k' =>
        match cb_tuple vals k', vals k' with
        | Some l, Some v => Some (l ++ [v])
        | _, _ => None
        end
    end.
  Definition cb_sub (j : nat) (s : cb_st) : cb_st * list obs * act cb_fr :=
    if j <? n then (s, [], ACall (CSub j) (CbSub (S j))) else (s, [], ARet).
  Definition cb_bcast (u : umsg) (j : nat) (s : cb_st) : cb_st * list obs * act cb_fr :=
    if j <? n then
      if cb_tbs s j then (s, [], ACall (CUp j u) (CbBcast u (S j)))
      else (s, [], APanic)                                            (* expect, per member *)
    else (s, [], ARet).
  Definition cb_handle (i : input) (s : cb_st) : cb_st * list obs * act cb_fr :=
    match i with
    | ISub 0 _ =>
        cb_sub 0 {| cb_nstart := n; cb_ndata := n; cb_nend := n;
                    cb_vals := fun _ => None; cb_tbs := fun _ => false |}
    | IUp 0 u => cb_bcast u 0 s
    | IDn i DH =>
        if i <? n then
          let ns := pred (cb_nstart s) in                             (* :232-235 *)
          let s' := {| cb_nstart := ns; cb_ndata := cb_ndata s; cb_nend := cb_nend s;
                       cb_vals := cb_vals s; cb_tbs := upd (cb_tbs s) i true |} in
          if Nat.eqb ns 0 then (s', [], ACall (CDn 0 DH) CbDone) else (s', [], ARet)
        else (s, [], ARet)
    | IDn i (DD v) =>
        if i <? n then
          let nd := match cb_vals s i with                            (* :247-260 *)
                    | None => pred (cb_ndata s)
                    | Some _ => cb_ndata s end in
          let vals' := upd (cb_vals s) i (Some v) in                  (* :261-265 *)
          let s' := {| cb_nstart := cb_nstart s; cb_ndata := nd; cb_nend := cb_nend s;
                       cb_vals := vals'; cb_tbs := cb_tbs s |} in
          if Nat.eqb nd 0 then                                        (* :266 *)
            match cb_tuple vals' n with
            | Some l => (s', [], ACall (CDn 0 (DD (VT l))) CbDone)
            | None => (s', [], APanic)                                (* :272 unwrap *)
            end
          else (s', [], ARet)
        else (s, [], ARet)
    | IDn i (DE _) | IDn i DT =>                                      (* :281-291 *)
        if i <? n then
          let ne := pred (cb_nend s) in
          let s' := {| cb_nstart := cb_nstart s; cb_ndata := cb_ndata s; cb_nend := ne;
                       cb_vals := cb_vals s; cb_tbs := cb_tbs s |} in
          if Nat.eqb ne 0 then (s', [], ACall (CDn 0 DT) CbDone) else (s', [], ARet)
        else (s, [], ARet)
    | _ => (s, [], ARet)
    end.
  Definition cb_resume (k : cb_fr) (s : cb_st) : cb_st * list obs * act cb_fr :=
    match k with
    | CbDone => (s, [], ARet)
    | CbSub j => cb_sub j s
    | CbBcast u j => cb_bcast u j s
    end.
  Definition combine_op : op :=
    {| St := cb_st; Fr := cb_fr;
       st0 := {| cb_nstart := n; cb_ndata := n; cb_nend := n;
                 cb_vals := fun _ => None; cb_tbs := fun _ => false |};
       handle := cb_handle; resume := cb_resume |}.
End Combine.

(** ** flatten (src/flatten.rs).  Port 0 is the outer source; the inner source
    the outer emits as [DD (VN k)] is port [S k]. *)
Record fl_st : Type := {
  fl_outer : bool;          (* outer_talkback is Some *)
  fl_inner : option nat }.  (* port of the talkback held by inner_talkback *)
Inductive fl_fr : Type :=
| FlDone
| FlSubInner (k : nat)      (* :178 after disposing the previous inner: subscribe the new one *)
| FlThenErr (e : nat)       (* :225,:272 after disposing the other level: fail the sink *)
| FlThenOuter.              (* :135 after disposing the inner: dispose the outer *)
Definition inner_id (v : val) : nat := match v with VN k => k | VT _ => 0 end.
Definition fl_then_outer (s : fl_st) : fl_st * list obs * act fl_fr :=
  if fl_outer s then (s, [], ACall (CUp 0 UT) FlDone) else (s, [], ARet).
Definition fl_handle (i : input) (s : fl_st) : fl_st * list obs * act fl_fr :=
  match i with
  | ISub 0 _ => ({| fl_outer := false; fl_inner := None |}, [], ACall (CSub 0) FlDone)
  | IUp 0 UP =>                                                       (* :112-126 *)
      match fl_inner s with
      | Some j => (s, [], ACall (CUp j UP) FlDone)
      | None => if fl_outer s then (s, [], ACall (CUp 0 UP) FlDone) else (s, [], ARet)
      end
  | IUp 0 _ =>                                                        (* :127-142 *)
      match fl_inner s with
      | Some j => (s, [], ACall (CUp j UT) FlThenOuter)
      | None => fl_then_outer s
      end
  | IDn 0 DH =>                                                       (* :161-168 *)
      ({| fl_outer := true; fl_inner := fl_inner s |}, [], ACall (CDn 0 DH) FlDone)
  | IDn 0 (DD v) =>                                                   (* :169-260 *)
      let k := inner_id v in
      match fl_inner s with
      | Some j => (s, [], ACall (CUp j UT) (FlSubInner k))
      | None => (s, [], ACall (CSub (S k)) FlDone)
      end
  | IDn 0 (DE e) =>                                                   (* :264-273 *)
      match fl_inner s with
      | Some j => (s, [], ACall (CUp j UT) (FlThenErr e))
      | None => (s, [], ACall (CDn 0 (DE e)) FlDone)
      end
  | IDn 0 DT =>                                                       (* :274-280 *)
      match fl_inner s with
      | None => (s, [], ACall (CDn 0 DT) FlDone)
      | Some _ => ({| fl_outer := false; fl_inner := fl_inner s |}, [], ARet)
      end
  | IDn (S k) DH =>                                                   (* :191-204 *)
      ({| fl_outer := fl_outer s; fl_inner := Some (S k) |}, [], ACall (CUp (S k) UP) FlDone)
  | IDn (S _) (DD v) => (s, [], ACall (CDn 0 (DD v)) FlDone)          (* :205-211 *)
  | IDn (S _) (DE e) =>                                               (* :215-230 *)
      if fl_outer s then (s, [], ACall (CUp 0 UT) (FlThenErr e))
      else (s, [], ACall (CDn 0 (DE e)) FlDone)
  | IDn (S _) DT =>                                                   (* :231-252 *)
      if fl_outer s then
        ({| fl_outer := true; fl_inner := None |}, [], ACall (CUp 0 UP) FlDone)
      else (s, [], ACall (CDn 0 DT) FlDone)
  | _ => (s, [], ARet)
  end.
Definition fl_resume (k : fl_fr) (s : fl_st) : fl_st * list obs * act fl_fr :=
  match k with
  | FlDone => (s, [], ARet)
  | FlSubInner k => (s, [], ACall (CSub (S k)) FlDone)
  | FlThenErr e => (s, [], ACall (CDn 0 (DE e)) FlDone)
  | FlThenOuter => fl_then_outer s
  end.
Definition flatten_op : op :=
  {| St := fl_st; Fr := fl_fr; st0 := {| fl_outer := false; fl_inner := None |};
     handle := fl_handle; resume := fl_resume |}.

(** ** share (src/share.rs) — the only component whose cells outlive a
    subscription; sinks are 0, 1, 2, ... *)
Record sh_st : Type := {
  sh_sinks : list nat;
  sh_tb : bool;             (* source_talkback is Some *)
  sh_first : nat }.         (* the sink captured by the current upstream handler (:263-279) *)
Inductive sh_fr : Type :=
| ShDone
| ShFan (m : dmsg) (rest : list nat).   (* :272-275 fan-out over the snapshot *)
Fixpoint remove_first (s : nat) (l : list nat) : list nat :=
  match l with
  | [] => []
  | x :: l' => if Nat.eqb x s then l' else x :: remove_first s l'
  end.
Definition sh_fan (m : dmsg) (rest : list nat) (s : sh_st) : sh_st * list obs * act sh_fr :=
  match rest with
  | x :: rest' => (s, [], ACall (CDn x m) (ShFan m rest'))
  | [] =>
      if dmsg_is_term m                                               (* :276-278 *)
      then ({| sh_sinks := []; sh_tb := sh_tb s; sh_first := sh_first s |}, [], ARet)
      else (s, [], ARet)
  end.
Definition sh_handle (i : input) (s : sh_st) : sh_st * list obs * act sh_fr :=
  match i with
  | ISub k _ =>
      let sinks' := sh_sinks s ++ [k] in                              (* :192-199 *)
      if Nat.eqb (length sinks') 1 then                               (* :258 *)
        ({| sh_sinks := sinks'; sh_tb := sh_tb s; sh_first := k |}, [], ACall (CSub 0) ShDone)
      else
        ({| sh_sinks := sinks'; sh_tb := sh_tb s; sh_first := sh_first s |}, [],
         ACall (CDn k DH) ShDone)                                     (* :288 *)
  | IUp _ UP =>                                                       (* :219-224 *)
      if sh_tb s then (s, [], ACall (CUp 0 UP) ShDone) else (s, [], APanic)
  | IUp k _ =>                                                        (* :225-250 *)
      let sinks' := remove_first k (sh_sinks s) in
      let s' := {| sh_sinks := sinks'; sh_tb := sh_tb s; sh_first := sh_first s |} in
      match sinks' with
      | [] => if sh_tb s then (s', [], ACall (CUp 0 UT) ShDone) else (s', [], APanic)
      | _ => (s', [], ARet)
      end
  | IDn 0 DH =>                                                       (* :264-270 *)
      ({| sh_sinks := sh_sinks s; sh_tb := true; sh_first := sh_first s |}, [],
       ACall (CDn (sh_first s) DH) ShDone)
  | IDn 0 m => sh_fan m (sh_sinks s) s                                (* :271-278 *)
  | _ => (s, [], ARet)
  end.
Definition sh_resume (k : sh_fr) (s : sh_st) : sh_st * list obs * act sh_fr :=
  match k with
  | ShDone => (s, [], ARet)
  | ShFan m rest => sh_fan m rest s
  end.
Definition share_op : op :=
  {| St := sh_st; Fr := sh_fr; st0 := {| sh_sinks := []; sh_tb := false; sh_first := 0 |};
     handle := sh_handle; resume := sh_resume |}.

(** ** interval (src/interval.rs), one subscription; the virtual clock is the
    environment's [ITick] *)
Record iv_st : Type := { iv_i : nat; iv_cleared : bool }.
Definition iv_handle (i : input) (s : iv_st) : iv_st * list obs * act fdone :=
  match i with
  | ISub 0 0 =>                                                       (* :92-127 *)
      ({| iv_i := 0; iv_cleared := false |}, [OSpawn 0 true], ACall (CDn 0 DH) FDone)
  | ISub 0 aux =>                                                     (* :106-109 *)
      ({| iv_i := 0; iv_cleared := false |}, [OSpawn 0 false],
       ACall (CDn 0 (DE (spawn_err_id aux))) FDone)
  | ITick 0 =>
      if iv_cleared s then (s, [OExit 0], ARet)                       (* :99-101 *)
      else ({| iv_i := S (iv_i s); iv_cleared := iv_cleared s |}, [],
            ACall (CDn 0 (DD (VN (iv_i s)))) FDone)                   (* :102-103 *)
  | IUp 0 UP => (s, [], ARet)
  | IUp 0 _ => ({| iv_i := iv_i s; iv_cleared := true |}, [], ARet)   (* :119-121 *)
  | _ => (s, [], ARet)
  end.
Definition interval_op : op :=
  {| St := iv_st; Fr := fdone; st0 := {| iv_i := 0; iv_cleared := false |};
     handle := iv_handle; resume := fun _ s => (s, [], ARet) |}.
