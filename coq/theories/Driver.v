(** * Driver: the finite description of an experiment (which component, which
      parameters, which sub-relation of the environment) that scripts carry in
      their header, and its interpretation.  Everything here is extracted and
      is what the OCaml driver runs; the families of user closures are the
      ones the Rust harness implements as well. *)

From CB Require Export Ops Spec SpecMon Pipe.

Set Implicit Arguments.

Inductive spec : Type :=
| SpMap (a b : nat)                 (* x |-> a*x + b *)
| SpFilter (m r : nat)              (* x mod m = r *)
| SpScan (k seed : nat)             (* k=0: acc+x, k=1: max acc x, otherwise 2*acc+x *)
| SpTake (n : nat)
| SpSkip (n : nat)
| SpFromIter (xs : list nat) (inf : option nat)  (* the items of xs, then base, base+1, ... if inf = Some base *)
| SpForEach
| SpMerge (n : nat)
| SpConcat (n : nat)
| SpCombine (n : nat)
| SpFlatten
| SpShare
| SpInterval
| SpTree.        (* a closed composition of crate operators over from_iter leaves (real crate only) *)

Definition vnat (v : val) : nat := match v with VN x => x | VT _ => 0 end.

Definition aff (a b : nat) (v : val) : val := VN (a * vnat v + b).
Definition cond_mod (m r : nat) (v : val) : bool := Nat.eqb (Nat.modulo (vnat v) m) r.
Definition red (k : nat) (acc x : val) : val :=
  match k with
  | 0 => VN (vnat acc + vnat x)
  | 1 => VN (Nat.max (vnat acc) (vnat x))
  | _ => VN (2 * vnat acc + vnat x)
  end.

Definition iter_of (xs : list nat) (inf : option nat) (k : nat) : option val :=
  match nth_error xs k with
  | Some x => Some (VN x)
  | None => match inf with
            | Some base => Some (VN (base + (k - length xs)))
            | None => None
            end
  end.

Definition op_of_spec (sp : spec) : op :=
  match sp with
  | SpMap a b => map_op (aff a b)
  | SpFilter m r => filter_op (cond_mod m r)
  | SpScan k seed => scan_op (red k) (VN seed)
  | SpTake n => take_op n
  | SpSkip n => skip_op n
  | SpFromIter xs inf => from_iter_op (iter_of xs inf)
  | SpForEach => for_each_op
  | SpMerge n => merge_op n
  | SpConcat n => concat_op n
  | SpCombine n => combine_op n
  | SpFlatten => flatten_op
  | SpShare => share_op
  | SpInterval => interval_op
  | SpTree => map_op (fun v => v)     (* no model: only the monitor is used *)
  end.

(** the generator's guard: [g_share] is *not* imposed, so that the nested
    fan-out histories of the known finding are exercised as well *)
Definition xguard_of_spec (sp : spec) (m : mstate) (i : input) : bool :=
  match sp with
  | SpInterval => true
  | SpFlatten => g_flatten m i
  | _ => g_std m i
  end.

(** [pull] selects the pullable-upstream / one-Pull-per-message sub-relation
    (C14, C06); [nsk] is the number of sinks of a share experiment. *)
Definition params_of_spec (sp : spec) (pull : bool) (nsk : nat) : mparams :=
  {| nsinks := match sp with SpShare => nsk | _ => 1 end;
     late_ok := match sp with SpMerge _ => true | _ => false end;
     pullable := pull; one_pull := pull;
     resub := match sp with SpShare => true | _ => false end;
     no_nest := match sp with SpFromIter _ _ => true | _ => false end;
     c14 := pull && match sp with
                    | SpFromIter _ _ | SpMap _ _ | SpFilter _ _ | SpScan _ _ | SpTake _
                    | SpSkip _ | SpConcat _ | SpFlatten | SpTree => true
                    | _ => false end |}.

Definition run_spec (sp : spec) (pull : bool) (nsk : nat) (ms : list move)
  : cfg (op_of_spec sp) :=
  run (params_of_spec sp pull nsk) (op_of_spec sp) ms.

Definition step_spec (sp : spec) (pull : bool) (nsk : nat)
  (c : cfg (op_of_spec sp)) (m : move) : cfg (op_of_spec sp) :=
  step (params_of_spec sp pull nsk) c m.

Definition enabled_spec (sp : spec) (pull : bool) (nsk : nat)
  (c : cfg (op_of_spec sp)) (m : move) : bool :=
  enabled (params_of_spec sp pull nsk) (xguard_of_spec sp) c m.

Definition cfg0_spec (sp : spec) : cfg (op_of_spec sp) := cfg0 (op_of_spec sp).
Definition trace_spec (sp : spec) (c : cfg (op_of_spec sp)) : list event := trace c.
Definition viols_spec (sp : spec) (c : cfg (op_of_spec sp)) : list vkind := rev (viols (ms c)).
Definition depth_spec (sp : spec) (c : cfg (op_of_spec sp)) : nat := length (stack c).
Definition dead_spec (sp : spec) (c : cfg (op_of_spec sp)) : bool := dead c.

(** the monitor alone, for traces recorded from the real crate *)
Definition monitor_trace (sp : spec) (pull : bool) (nsk : nat) (tr : list event) : list vkind :=
  rev (viols (mon_trace (params_of_spec sp pull nsk) tr)).

Definition classes_trace (tr : list event) : list kclass := classes tr.

Definition mspec_of_spec (sp : spec) : mspec :=
  match sp with
  | SpMap a b => MsMap (aff a b)
  | SpFilter m r => MsFilter (cond_mod m r)
  | SpScan k seed => MsScan (red k) (VN seed)
  | SpTake n => MsTake n
  | SpSkip n => MsSkip n
  | SpFromIter xs inf => MsFromIter (iter_of xs inf)
  | SpForEach => MsOther
  | SpMerge n => MsMerge n
  | SpConcat n => MsConcat n
  | SpCombine n => MsCombine n
  | SpFlatten => MsFlatten
  | SpShare => MsShare
  | SpInterval => MsInterval
  | SpTree => MsOther
  end.

Definition smonitor_trace (sp : spec) (pull : bool) (nsk : nat) (tr : list event) : list sviol :=
  smon_trace (params_of_spec sp pull nsk) (mspec_of_spec sp) tr.

Definition run_pipe_spec := run_pipe.

(** ** Thread experiments (C18, C19) *)
From CB Require Export ThreadSpec ThreadsFine ThreadsTakeMerge ThreadsTakeCombine ThreadsTakeMergeFine.

Inductive tsys : Type :=
| TsTake (fixed : bool) (max : nat)
| TsMerge (n : nat)
| TsCombine (fixed : bool) (n : nat)
| TsTakeMerge (fixed : bool) (max : nat) (n : nat)   (* take(max) behind merge of n members *)
| TsMergeFine (fixed : bool) (n : nat)    (* merge with the talkback cells as scheduling points (free=1) *)
| TsTakeFine (max : nat)                  (* take, likewise *)
| TsCombineFine (fixed : bool) (n : nat)  (* combine, likewise: the stuttering extension *)
| TsTakeCombine (fixed : bool) (max : nat) (n : nat)    (* take(max) behind combine of n members *)
| TsTakeMergeFine (max : nat) (n : nat).               (* take behind merge, every access a step (free=1) *)

Definition trun (sys : tsys) (nth : nat) (qs : nat -> list val) (fins : nat -> final)
  (sch : list nat) (fuel : nat) : list tevent * list tviol :=
  match sys with
  | TsTake fixed max =>
      let s := run_full (tk_step fixed max) tk_finished nth sch fuel (tk_init qs) in
      let tr := rev (tks_tr s) in (tr, take_check max tr)
  | TsMerge n =>
      let s := run_full (mg_step n) mg_finished nth sch fuel (mg_init n qs fins) in
      let tr := rev (mgs_tr s) in (tr, merge_check n qs fins tr)
  | TsCombine fixed n =>
      let s := run_full (cb_step fixed n) cb_finished nth sch fuel (cb_init n qs fins) in
      let tr := rev (cbs_tr s) in (tr, combine_check n qs fins tr)
  | TsTakeMerge fixed max n =>
      let s := run_full (xm_step fixed max n) xm_finished nth sch fuel (xm_init n qs fins) in
      let tr := rev (xms_tr s) in (tr, takemerge_check max tr)
  | TsMergeFine fixed n =>
      let s := run_full (mf_step fixed n) mf_finished nth sch fuel (mf_init fixed n qs fins) in
      let tr := rev (mfs_tr s) in (tr, merge_check_fine n qs fins tr)
  | TsTakeFine max =>
      let s := run_full (tkf_step max) tk_finished nth sch fuel (tk_init qs) in
      let tr := rev (tks_tr s) in (tr, take_check max tr)
  | TsCombineFine fixed n =>
      let s := run_full (stut_step (cb_step fixed n)) (stut_finished cb_finished) nth sch fuel
                 (stut_init (cb_init n qs fins)) in
      let tr := rev (cbs_tr (st_base s)) in (tr, combine_check n qs fins tr)
  | TsTakeCombine fixed max n =>
      let s := run_full (xc_step fixed max n) xc_finished nth sch fuel (xc_init n qs fins) in
      let tr := rev (xcs_tr s) in (tr, takecombine_check max n qs tr)
  | TsTakeMergeFine max n =>
      let s := run_full (xf_step max n) xf_finished nth sch fuel (xf_init n qs fins) in
      let tr := rev (xfs_tr s) in (tr, takemerge_check max tr)
  end.

(** the checks alone, for traces recorded from the real crate *)
Definition tcheck (sys : tsys) (qs : nat -> list val) (fins : nat -> final) (tr : list tevent)
  : list tviol :=
  match sys with
  | TsTake _ max => take_check max tr
  | TsMerge n => merge_check n qs fins tr
  | TsCombine _ n => combine_check n qs fins tr
  | TsTakeMerge _ max _ => takemerge_check max tr
  | TsMergeFine _ n => merge_check_fine n qs fins tr
  | TsTakeFine max => take_check max tr
  | TsCombineFine _ n => combine_check n qs fins tr
  | TsTakeCombine _ max n => takecombine_check max n qs tr
  | TsTakeMergeFine max _ => takemerge_check max tr
  end.

(** for exhaustive exploration by the driver: one step, which threads can move *)
Inductive tstate : Type :=
| TSt_take (s : tk_state) | TSt_merge (s : mg_state) | TSt_combine (s : cb_state)
| TSt_mfine (s : mf_state) | TSt_xm (s : xm_state) | TSt_cbfine (s : stut cb_state) | TSt_xc (s : xc_state) | TSt_xf (s : xf_state).

Definition tinit (sys : tsys) (qs : nat -> list val) (fins : nat -> final) : tstate :=
  match sys with
  | TsTake _ _ => TSt_take (tk_init qs)
  | TsMerge n => TSt_merge (mg_init n qs fins)
  | TsCombine _ n => TSt_combine (cb_init n qs fins)
  | TsTakeMerge _ _ n => TSt_xm (xm_init n qs fins)
  | TsMergeFine fixed n => TSt_mfine (mf_init fixed n qs fins)
  | TsTakeFine _ => TSt_take (tk_init qs)
  | TsCombineFine _ n => TSt_cbfine (stut_init (cb_init n qs fins))
  | TsTakeCombine _ _ n => TSt_xc (xc_init n qs fins)
  | TsTakeMergeFine _ n => TSt_xf (xf_init n qs fins)
  end.

Definition tstep1 (sys : tsys) (st : tstate) (t : nat) : tstate :=
  match sys, st with
  | TsTake fixed max, TSt_take s => TSt_take (tk_step fixed max s t)
  | TsMerge n, TSt_merge s => TSt_merge (mg_step n s t)
  | TsCombine fixed n, TSt_combine s => TSt_combine (cb_step fixed n s t)
  | TsMergeFine fixed n, TSt_mfine s => TSt_mfine (mf_step fixed n s t)
  | TsTakeFine max, TSt_take s => TSt_take (tkf_step max s t)
  | TsCombineFine fixed n, TSt_cbfine s => TSt_cbfine (stut_step (cb_step fixed n) s t)
  | TsTakeCombine fixed max n, TSt_xc s => TSt_xc (xc_step fixed max n s t)
  | TsTakeMergeFine max n, TSt_xf s => TSt_xf (xf_step max n s t)
  | TsTakeMerge fixed max n, TSt_xm s => TSt_xm (xm_step fixed max n s t)
  | _, _ => st
  end.

Definition tfinished (st : tstate) (t : nat) : bool :=
  match st with
  | TSt_take s => tk_finished s t
  | TSt_merge s => mg_finished s t
  | TSt_combine s => cb_finished s t
  | TSt_mfine s => mf_finished s t
  | TSt_xm s => xm_finished s t
  | TSt_cbfine s => stut_finished cb_finished s t
  | TSt_xc s => xc_finished s t
  | TSt_xf s => xf_finished s t
  end.

Definition ttrace (st : tstate) : list tevent :=
  match st with
  | TSt_take s => rev (tks_tr s)
  | TSt_merge s => rev (mgs_tr s)
  | TSt_combine s => rev (cbs_tr s)
  | TSt_mfine s => rev (mfs_tr s)
  | TSt_xm s => rev (xms_tr s)
  | TSt_cbfine s => rev (cbs_tr (st_base s))
  | TSt_xc s => rev (xcs_tr s)
  | TSt_xf s => rev (xfs_tr s)
  end.
