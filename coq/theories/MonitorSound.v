(** * MonitorSound: what "the monitor found no violation" means, in monitor-free terms.

    [mon_trace p tr] folds the protocol monitor of Machine.v over a trace; the
    per-operator theorems prove [viols (ms c) = []] for every reachable
    configuration.  This file is the generic bridge, proved once for every
    operator and every parameter record [p]: from [viols (mon_trace p tr) = []]
    to statements about the list of events [tr] alone, which can be read
    without knowing how the monitor works.

    The statements only constrain the *component's* calls ([ECall]); the
    environment's moves ([EIn]) are not checked by the monitor and may occur
    anywhere in an arbitrary trace.

    Exported theorems (all closed under the global context):
    - [viols_nil_prefix]                       violations only accumulate
    - [sound_C17], [sound_C01], [sound_C02], [sound_C03]
                                               for any [p], any trace
    - [sound_C04]  ([resub p = false])         [sub_once], [talkback_only_live]
         unconditionally; [stop_once] and [no_pull_outside] for an upstream
         that itself greets at most once and greets first (hypotheses on the
         environment's moves; the two [Example]s [*_needs_*] at the end show
         violation-free arbitrary traces on which the unconditional readings
         fail, because the monitor lets an upstream greet again)
    - [reach_ms_trace], [run_ms_trace]         [ms c = mon_trace p (trace c)]
    - [reach_upstream_conformant]              for reachable violation-free
         configurations those hypotheses hold (this is what [enabled] enforces)
    - [reach_sound]                            everything together for
         [trace c], [c] reachable, [viols (ms c) = []], [resub p = false]. *)

From CB Require Import MachineFacts.

Set Implicit Arguments.

(** ** The readable statements

    All of them are phrased with splits of the trace:
    [tr = pre ++ ev :: post] reads "[ev] occurs in [tr], [pre] is what
    happened before it and [post] what happened after it". *)

(** C01: sink [s] is greeted (sent Handshake) at most once. *)
Definition greet_once (s : nat) (tr : list event) : Prop :=
  forall pre post,
    tr = pre ++ ECall (CDn s DH) :: post ->
    ~ In (ECall (CDn s DH)) post.

(** C01: whatever else sink [s] is sent, it was greeted before.  The one
    sanctioned exception (interval, C16): the subscription of sink [s] was
    refused ([ISub s aux] with [aux <> 0]) and the message is the Error
    [spawn_err_id aux] that says so. *)
Definition greet_first (s : nat) (tr : list event) : Prop :=
  forall pre m post,
    tr = pre ++ ECall (CDn s m) :: post ->
    m <> DH ->
    In (ECall (CDn s DH)) pre
    \/ (exists e aux,
           m = DE e /\ aux <> 0 /\ e = spawn_err_id aux /\ In (EIn (ISub s aux)) pre).

(** C02: after sink [s] was sent Terminate or Error it is sent nothing. *)
Definition term_final (s : nat) (tr : list event) : Prop :=
  forall pre m post,
    tr = pre ++ ECall (CDn s m) :: post ->
    dmsg_is_term m = true ->
    forall m', ~ In (ECall (CDn s m')) post.

(** C03: after sink [s] sent Terminate or Error upward it is sent nothing. *)
Definition dispose_respected (s : nat) (tr : list event) : Prop :=
  forall pre u post,
    tr = pre ++ EIn (IUp s u) :: post ->
    umsg_is_term u = true ->
    forall m', ~ In (ECall (CDn s m')) post.

(** C04: upstream [i] is subscribed at most once. *)
Definition sub_once (i : nat) (tr : list event) : Prop :=
  forall pre post,
    tr = pre ++ ECall (CSub i) :: post ->
    ~ In (ECall (CSub i)) post.

(** C04, the unconditional form: the talkback of upstream [i] is only used
    while [i] is live, that is: [i] has greeted, and since that greeting
    [i] has not ended by itself (sent Terminate/Error), has not been stopped
    (been sent Terminate/Error) and has not been subscribed again. *)
Definition live_since_greeting (i : nat) (pre : list event) : Prop :=
  exists pre1 pre2,
    pre = pre1 ++ EIn (IDn i DH) :: pre2
    /\ (forall m, dmsg_is_term m = true -> ~ In (EIn (IDn i m)) pre2)
    /\ (forall u, umsg_is_term u = true -> ~ In (ECall (CUp i u)) pre2)
    /\ ~ In (ECall (CSub i)) pre2.

Definition talkback_only_live (i : nat) (tr : list event) : Prop :=
  forall pre u post,
    tr = pre ++ ECall (CUp i u) :: post ->
    live_since_greeting i pre.

(** What a well-behaved upstream [i] does (this is C01 read from the other
    side; it is a statement about the *environment's* moves, which the monitor
    does not check, so it is a hypothesis of the next two statements): it
    greets at most once, and sends nothing before it has greeted. *)
Definition upstream_greets_once (i : nat) (tr : list event) : Prop :=
  forall pre post,
    tr = pre ++ EIn (IDn i DH) :: post ->
    ~ In (EIn (IDn i DH)) post.

Definition upstream_greets_first (i : nat) (tr : list event) : Prop :=
  forall pre m post,
    tr = pre ++ EIn (IDn i m) :: post ->
    m <> DH ->
    In (EIn (IDn i DH)) pre.

(** C04: upstream [i] is stopped (sent Terminate/Error) at most once, and is
    not stopped after it ended by itself.  (Both clauses are proved in the
    stronger form "its talkback is not used at all afterwards", see
    [talkback_dead_after_stop] and [talkback_dead_after_end].) *)
Definition stop_once (i : nat) (tr : list event) : Prop :=
  (forall pre u post,
      tr = pre ++ ECall (CUp i u) :: post ->
      umsg_is_term u = true ->
      forall u', umsg_is_term u' = true -> ~ In (ECall (CUp i u')) post)
  /\
  (forall pre m post,
      tr = pre ++ EIn (IDn i m) :: post ->
      dmsg_is_term m = true ->
      forall u', umsg_is_term u' = true -> ~ In (ECall (CUp i u')) post).

(** C04: a Pull is only sent to an upstream that has greeted, has not ended
    by itself and has not been stopped. *)
Definition no_pull_outside (i : nat) (tr : list event) : Prop :=
  forall pre post,
    tr = pre ++ ECall (CUp i UP) :: post ->
    In (EIn (IDn i DH)) pre
    /\ (forall m, dmsg_is_term m = true -> ~ In (EIn (IDn i m)) pre)
    /\ (forall u, umsg_is_term u = true -> ~ In (ECall (CUp i u)) pre).

(** the stronger facts behind [stop_once] *)
Definition talkback_dead_after_stop (i : nat) (tr : list event) : Prop :=
  forall pre u post,
    tr = pre ++ ECall (CUp i u) :: post ->
    umsg_is_term u = true ->
    forall u', ~ In (ECall (CUp i u')) post.

Definition talkback_dead_after_end (i : nat) (tr : list event) : Prop :=
  forall pre m post,
    tr = pre ++ EIn (IDn i m) :: post ->
    dmsg_is_term m = true ->
    forall u', ~ In (ECall (CUp i u')) post.

(** C17: nothing panicked. *)
Definition no_panic (tr : list event) : Prop := ~ In EPanic tr.

(** ** Proofs *)

Section MonitorSound.
  Variable p : mparams.

  Local Notation runm := (fold_left (mon_event p)).

  (** *** violations only accumulate *)

  Lemma mon_call_upd_viols m c : viols (mon_call_upd m c) = viols m.
  Proof.
    destruct c as [i|i u|s d]; cbn; try reflexivity.
    - destruct u; reflexivity.
    - destruct d as [|v|e|]; cbn; try reflexivity.
      + destruct (sk m s); reflexivity.
      + destruct (sk m s), (err_due m s) as [e'|]; cbn; try reflexivity;
          destruct (Nat.eqb e e'); reflexivity.
      + destruct (sk m s); reflexivity.
  Qed.

  Lemma mon_input_viols m i : viols (mon_input p m i) = viols m.
  Proof. destruct i as [s [|aux]|s [|e|]|i [|v|e|]|s]; reflexivity. Qed.

  Lemma mon_call_viols m c :
    viols (mon_event p m (ECall c)) = check_call p m c ++ viols m.
  Proof.
    cbn [mon_event]. rewrite add_viols_eq. cbn [viols set set_cstack].
    cbn. now rewrite mon_call_upd_viols.
  Qed.

  Lemma mon_event_viols m ev : exists vs, viols (mon_event p m ev) = vs ++ viols m.
  Proof.
    destruct ev as [i|c| | |ob|].
    - exists []. cbn [mon_event]. now rewrite mon_input_viols.
    - exists (check_call p m c). apply mon_call_viols.
    - exists []. reflexivity.
    - cbn [mon_event]. destruct (cstack m).
      + exists (check_quiescent p m). rewrite add_viols_eq. reflexivity.
      + exists []. reflexivity.
    - exists []. destruct ob as [r|v|s [|]|s]; reflexivity.
    - exists [VPanic]. reflexivity.
  Qed.

  Lemma run_viols tr : forall m, exists vs, viols (runm tr m) = vs ++ viols m.
  Proof.
    induction tr as [|ev tr IH]; intros m; cbn [fold_left].
    - now exists [].
    - destruct (IH (mon_event p m ev)) as [vs1 E1].
      destruct (mon_event_viols m ev) as [vs2 E2].
      exists (vs1 ++ vs2). now rewrite E1, E2, app_assoc.
  Qed.

  Lemma run_viols_nil tr m : viols (runm tr m) = [] -> viols m = [].
  Proof.
    intros H. destruct (run_viols tr m) as [vs E]. rewrite H in E.
    symmetry in E. now apply app_eq_nil in E.
  Qed.

  Theorem viols_nil_prefix tr1 tr2 :
    viols (mon_trace p (tr1 ++ tr2)) = [] -> viols (mon_trace p tr1) = [].
  Proof.
    unfold mon_trace. rewrite fold_left_app. apply run_viols_nil.
  Qed.

  Lemma mon_trace_snoc tr ev :
    mon_trace p (tr ++ [ev]) = mon_event p (mon_trace p tr) ev.
  Proof. unfold mon_trace. now rewrite fold_left_app. Qed.

  (** no violation overall: the check made at each call of the trace passed *)
  Lemma split_check pre c post :
    viols (mon_trace p (pre ++ ECall c :: post)) = [] ->
    check_call p (mon_trace p pre) c = [].
  Proof.
    intros H.
    replace (pre ++ ECall c :: post) with ((pre ++ [ECall c]) ++ post) in H
      by now rewrite <- app_assoc.
    apply viols_nil_prefix in H. rewrite mon_trace_snoc, mon_call_viols in H.
    now apply app_eq_nil in H.
  Qed.

  (** *** how one event moves the status maps *)

  Definition sk_next (k : sks) (s : nat) (ev : event) : sks :=
    match ev with
    | EIn (IUp s' u) => if Nat.eqb s s' && umsg_is_term u then SDisposed else k
    | ECall (CDn s' d) =>
        if Nat.eqb s s' then
          match d with
          | DH => match k with SNone => SLive | _ => k end
          | DD _ => k
          | _ => match k with SDisposed => SDisposed | _ => SFinished end
          end
        else k
    | _ => k
    end.

  Lemma sk_mon_event m ev s : sk (mon_event p m ev) s = sk_next (sk m s) s ev.
  Proof.
    destruct ev as [i|c| | |ob|].
    - destruct i as [s' [|aux]|s' [|e|]|i' [|v|e|]|s']; cbn; try reflexivity;
        unfold upd; destruct (Nat.eqb s s'); reflexivity.
    - cbn [mon_event]. rewrite add_viols_eq.
      destruct c as [i|i u|s' d].
      + reflexivity.
      + destruct u; reflexivity.
      + cbn [sk_next]. destruct (Nat.eqb_spec s s') as [->|Hne].
        * destruct d as [|v|e|]; cbn.
          -- destruct (sk m s') eqn:E; cbn; rewrite ?upd_same; auto.
          -- reflexivity.
          -- destruct (sk m s') eqn:E, (err_due m s') as [e'|]; cbn;
               try destruct (Nat.eqb e e'); cbn; rewrite ?upd_same; auto.
          -- destruct (sk m s') eqn:E; cbn; rewrite ?upd_same; auto.
        * destruct d as [|v|e|]; cbn.
          -- destruct (sk m s'); cbn; rewrite ?upd_other; auto.
          -- reflexivity.
          -- destruct (sk m s'), (err_due m s') as [e'|]; cbn;
               try destruct (Nat.eqb e e'); cbn; rewrite ?upd_other; auto.
          -- destruct (sk m s'); cbn; rewrite ?upd_other; auto.
    - reflexivity.
    - cbn [mon_event]. destruct (cstack m); rewrite ?add_viols_eq; reflexivity.
    - destruct ob as [r|v|s' [|]|s']; reflexivity.
    - reflexivity.
  Qed.

  Definition us_next (k : uss) (i : nat) (ev : event) : uss :=
    match ev with
    | EIn (IDn i' d) =>
        if Nat.eqb i i' then
          match d with DH => ULive | DD _ => k | _ => UEnded end
        else k
    | ECall (CSub i') => if Nat.eqb i i' then USubd else k
    | ECall (CUp i' u) => if Nat.eqb i i' && umsg_is_term u then UStopped else k
    | _ => k
    end.

  Lemma us_mon_event m ev i : us (mon_event p m ev) i = us_next (us m i) i ev.
  Proof.
    destruct ev as [inp|c| | |ob|].
    - destruct inp as [s' [|aux]|s' [|e|]|i' [|v|e|]|s']; cbn; try reflexivity;
        unfold upd; destruct (Nat.eqb i i'); reflexivity.
    - cbn [mon_event]. rewrite add_viols_eq.
      destruct c as [i'|i' u|s' d].
      + cbn. unfold upd. destruct (Nat.eqb i i'); reflexivity.
      + destruct u; cbn; unfold upd; destruct (Nat.eqb i i'); reflexivity.
      + destruct d as [|v|e|]; cbn.
        * destruct (sk m s'); reflexivity.
        * reflexivity.
        * destruct (sk m s'), (err_due m s') as [e'|]; cbn;
            try destruct (Nat.eqb e e'); reflexivity.
        * destruct (sk m s'); reflexivity.
    - reflexivity.
    - cbn [mon_event]. destruct (cstack m); rewrite ?add_viols_eq; reflexivity.
    - destruct ob as [r|v|s' [|]|s']; reflexivity.
    - reflexivity.
  Qed.

  Definition refused_next (r : option nat) (s : nat) (ev : event) : option nat :=
    match ev with
    | EIn (ISub s' (S a)) => if Nat.eqb s s' then Some (spawn_err_id (S a)) else r
    | _ => r
    end.

  Lemma refused_mon_event m ev s :
    refused (mon_event p m ev) s = refused_next (refused m s) s ev.
  Proof.
    destruct ev as [inp|c| | |ob|].
    - destruct inp as [s' [|aux]|s' [|e|]|i' [|v|e|]|s']; reflexivity.
    - cbn [mon_event]. rewrite add_viols_eq.
      destruct c as [i'|i' u|s' d].
      + reflexivity.
      + destruct u; reflexivity.
      + destruct d as [|v|e|]; cbn.
        * destruct (sk m s'); reflexivity.
        * reflexivity.
        * destruct (sk m s'), (err_due m s') as [e'|]; cbn;
            try destruct (Nat.eqb e e'); reflexivity.
        * destruct (sk m s'); reflexivity.
    - reflexivity.
    - cbn [mon_event]. destruct (cstack m); rewrite ?add_viols_eq; reflexivity.
    - destruct ob as [r|v|s' [|]|s']; reflexivity.
    - reflexivity.
  Qed.


  (** *** what a passed check says about the status *)

  Lemma check_greet m s : check_call p m (CDn s DH) = [] -> sk m s = SNone.
  Proof. cbn. destruct (sk m s); intros H; try discriminate; reflexivity. Qed.

  Lemma check_dn m s d :
    d <> DH -> check_call p m (CDn s d) = [] ->
    sk m s = SLive \/ (sk m s = SNone /\ exists e, d = DE e /\ refused m s = Some e).
  Proof.
    intros Hd H.
    destruct d as [|v|e|]; [congruence| | |]; cbn [check_call] in H;
      apply app_eq_nil in H; destruct H as [H _];
      destruct (sk m s); try discriminate; auto; right; split; auto.
    destruct (refused m s) as [e'|]; [|discriminate].
    destruct (Nat.eqb_spec e e'); [subst|discriminate]. now exists e'.
  Qed.

  Lemma check_dn_over m s d : sk_over (sk m s) = true -> check_call p m (CDn s d) <> [].
  Proof.
    intros Ho. destruct d as [|v|e|]; cbn [check_call];
      destruct (sk m s); try discriminate Ho; discriminate.
  Qed.

  Lemma check_sub m i : resub p = false -> check_call p m (CSub i) = [] -> us m i = UNone.
  Proof.
    intros Hr H. cbn [check_call] in H. apply app_eq_nil in H. destruct H as [H _].
    rewrite Hr in H. destruct (us m i); try discriminate; reflexivity.
  Qed.

  Lemma check_up m i u : check_call p m (CUp i u) = [] -> us m i = ULive.
  Proof.
    intros H. cbn [check_call] in H. apply app_eq_nil in H. destruct H as [H _].
    destruct (us m i); try discriminate; reflexivity.
  Qed.

  (** *** facts about the transition functions *)

  Lemma sk_next_none k s ev :
    sk_next k s ev = SNone -> k = SNone /\ ev <> ECall (CDn s DH).
  Proof.
    destruct ev as [[s' aux|s' u|i' d|s']|[i'|i' u|s' d]| | |ob|]; cbn;
      try (intros ->; split; [reflexivity|discriminate]).
    - destruct (Nat.eqb s s' && umsg_is_term u); [discriminate|].
      intros ->; split; [reflexivity|discriminate].
    - destruct (Nat.eqb_spec s s') as [->|Hne].
      + destruct d as [|v|e|]; destruct k; try discriminate;
          intros _; split; try reflexivity; discriminate.
      + intros ->; split; [reflexivity|congruence].
  Qed.

  Lemma sk_next_live k s ev :
    sk_next k s ev = SLive -> k = SLive \/ ev = ECall (CDn s DH).
  Proof.
    destruct ev as [[s' aux|s' u|i' d|s']|[i'|i' u|s' d]| | |ob|]; cbn; auto.
    - destruct (Nat.eqb s s' && umsg_is_term u); [discriminate|auto].
    - destruct (Nat.eqb_spec s s') as [->|Hne]; [|auto].
      destruct d as [|v|e|]; destruct k; try discriminate; auto.
  Qed.

  Lemma sk_next_over k s ev : sk_over k = true -> sk_over (sk_next k s ev) = true.
  Proof.
    intros Ho.
    destruct ev as [[s' aux|s' u|i' d|s']|[i'|i' u|s' d]| | |ob|]; cbn; auto.
    - destruct (Nat.eqb s s' && umsg_is_term u); auto.
    - destruct (Nat.eqb s s'); [|auto].
      destruct d as [|v|e|]; destruct k; try discriminate Ho; reflexivity.
  Qed.

  Lemma sk_next_term_dn k s d :
    dmsg_is_term d = true -> sk_over (sk_next k s (ECall (CDn s d))) = true.
  Proof.
    intros Ht. cbn. rewrite Nat.eqb_refl.
    destruct d as [|v|e|]; try discriminate Ht; destruct k; reflexivity.
  Qed.

  Lemma sk_next_term_up k s u :
    umsg_is_term u = true -> sk_over (sk_next k s (EIn (IUp s u))) = true.
  Proof. intros Ht. cbn. now rewrite Nat.eqb_refl, Ht. Qed.

  Lemma refused_next_some r s ev e :
    refused_next r s ev = Some e ->
    r = Some e \/ exists a, ev = EIn (ISub s (S a)) /\ e = spawn_err_id (S a).
  Proof.
    destruct ev as [[s' [|a]|s' u|i' d|s']|c| | |ob|]; cbn; auto.
    destruct (Nat.eqb_spec s s') as [->|Hne]; [|auto].
    intros [= <-]. right. now exists a.
  Qed.

  (** *** the status after a prefix, in terms of the prefix (any trace) *)

  Lemma mon_trace_split pre ev post :
    mon_trace p (pre ++ ev :: post) = runm post (mon_event p (mon_trace p pre) ev).
  Proof. unfold mon_trace. now rewrite fold_left_app. Qed.

  Lemma after_greet tr s :
    In (ECall (CDn s DH)) tr -> sk (mon_trace p tr) s <> SNone.
  Proof.
    induction tr as [|ev tr IH] using rev_ind; intros Hin; [destruct Hin|].
    rewrite mon_trace_snoc, sk_mon_event. intros Hn.
    apply sk_next_none in Hn. destruct Hn as [Hk Hev].
    apply in_app_or in Hin. destruct Hin as [Hin|[Heq|[]]].
    - now apply IH.
    - congruence.
  Qed.

  Lemma live_greeted tr s :
    sk (mon_trace p tr) s = SLive -> In (ECall (CDn s DH)) tr.
  Proof.
    induction tr as [|ev tr IH] using rev_ind; [discriminate|].
    rewrite mon_trace_snoc, sk_mon_event. intros Hl.
    apply sk_next_live in Hl. apply in_or_app. destruct Hl as [Hl| ->].
    - left. now apply IH.
    - right. now left.
  Qed.

  Lemma refused_sub tr s e :
    refused (mon_trace p tr) s = Some e ->
    exists aux, aux <> 0 /\ e = spawn_err_id aux /\ In (EIn (ISub s aux)) tr.
  Proof.
    induction tr as [|ev tr IH] using rev_ind; [discriminate|].
    rewrite mon_trace_snoc, refused_mon_event. intros Hr.
    apply refused_next_some in Hr. destruct Hr as [Hr|[a [-> ->]]].
    - destruct (IH Hr) as [aux [Ha [He Hin]]]. exists aux. repeat split; auto.
      apply in_or_app. now left.
    - exists (S a). repeat split; auto. apply in_or_app. right. now left.
  Qed.

  Lemma run_over tr s : forall m,
    sk_over (sk m s) = true -> sk_over (sk (runm tr m) s) = true.
  Proof.
    induction tr as [|ev tr IH]; intros m Ho; cbn [fold_left]; [exact Ho|].
    apply IH. rewrite sk_mon_event. now apply sk_next_over.
  Qed.

  Lemma over_after_dn pre s d mid :
    dmsg_is_term d = true ->
    sk_over (sk (mon_trace p (pre ++ ECall (CDn s d) :: mid)) s) = true.
  Proof.
    intros Ht. rewrite mon_trace_split. apply run_over.
    rewrite sk_mon_event. now apply sk_next_term_dn.
  Qed.

  Lemma over_after_up pre s u mid :
    umsg_is_term u = true ->
    sk_over (sk (mon_trace p (pre ++ EIn (IUp s u) :: mid)) s) = true.
  Proof.
    intros Ht. rewrite mon_trace_split. apply run_over.
    rewrite sk_mon_event. now apply sk_next_term_up.
  Qed.

  (** re-bracketing [pre ++ x :: (a ++ y :: b)] around the second event *)
  Lemma resplit (pre a b : list event) x y :
    pre ++ x :: a ++ y :: b = (pre ++ x :: a) ++ y :: b.
  Proof. now rewrite <- app_assoc. Qed.

  (** *** the theorems for C17, C01, C02, C03 *)

  Theorem sound_C17 tr : viols (mon_trace p tr) = [] -> no_panic tr.
  Proof.
    intros Hv Hin. apply in_split in Hin. destruct Hin as [pre [post ->]].
    replace (pre ++ EPanic :: post) with ((pre ++ [EPanic]) ++ post) in Hv
      by now rewrite <- app_assoc.
    apply viols_nil_prefix in Hv. rewrite mon_trace_snoc in Hv. discriminate Hv.
  Qed.

  Theorem sound_C01 tr :
    viols (mon_trace p tr) = [] -> forall s, greet_once s tr /\ greet_first s tr.
  Proof.
    intros Hv s. split.
    - intros pre post -> Hin. apply in_split in Hin. destruct Hin as [a [b ->]].
      rewrite resplit in Hv. apply split_check, check_greet in Hv.
      revert Hv. apply after_greet. apply in_or_app. right. now left.
    - intros pre m post -> Hm. apply split_check in Hv.
      apply (check_dn _ _ Hm) in Hv. destruct Hv as [Hl|[_ [e [-> Hr]]]].
      + left. now apply live_greeted.
      + right. apply refused_sub in Hr. destruct Hr as [aux [Ha [He Hin]]].
        now exists e, aux.
  Qed.

  Theorem sound_C02 tr : viols (mon_trace p tr) = [] -> forall s, term_final s tr.
  Proof.
    intros Hv s pre m post -> Ht m' Hin.
    apply in_split in Hin. destruct Hin as [a [b ->]].
    rewrite resplit in Hv. apply split_check in Hv.
    revert Hv. apply check_dn_over. now apply over_after_dn.
  Qed.

  Theorem sound_C03 tr : viols (mon_trace p tr) = [] -> forall s, dispose_respected s tr.
  Proof.
    intros Hv s pre u post -> Ht m' Hin.
    apply in_split in Hin. destruct Hin as [a [b ->]].
    rewrite resplit in Hv. apply split_check in Hv.
    revert Hv. apply check_dn_over. now apply over_after_up.
  Qed.

  (** *** C04 *)

  Ltac ne_events :=
    repeat split; try discriminate; try congruence;
    intros; intro Heq; inversion Heq; subst; try discriminate; congruence.

  Lemma us_next_none k i ev :
    us_next k i ev = UNone -> k = UNone /\ ev <> ECall (CSub i).
  Proof.
    destruct ev as [[s' aux|s' u|i' d|s']|[i'|i' u|s' d]| | |ob|]; cbn;
      try (intros ->; split; [reflexivity|discriminate]).
    - destruct (Nat.eqb_spec i i') as [->|Hne].
      + destruct d as [|v|e|]; try discriminate. intros ->. split; [reflexivity|discriminate].
      + intros ->. split; [reflexivity|discriminate].
    - destruct (Nat.eqb_spec i i') as [->|Hne]; [discriminate|].
      intros ->. split; [reflexivity|congruence].
    - destruct (Nat.eqb i i' && umsg_is_term u); [discriminate|].
      intros ->. split; [reflexivity|discriminate].
  Qed.

  Definition not_a_killer (i : nat) (ev : event) : Prop :=
    (forall m, dmsg_is_term m = true -> ev <> EIn (IDn i m))
    /\ (forall u, umsg_is_term u = true -> ev <> ECall (CUp i u))
    /\ ev <> ECall (CSub i).

  Lemma us_next_live k i ev :
    us_next k i ev = ULive ->
    ev = EIn (IDn i DH) \/ (k = ULive /\ not_a_killer i ev).
  Proof.
    unfold not_a_killer.
    destruct ev as [[s' aux|s' u|i' d|s']|[i'|i' u|s' d]| | |ob|]; cbn;
      try (intros ->; right; split; [reflexivity|ne_events]).
    - destruct (Nat.eqb_spec i i') as [->|Hne].
      + destruct d as [|v|e|]; try discriminate; auto.
        intros ->. right. split; [reflexivity|ne_events].
      + intros ->. right. split; [reflexivity|ne_events].
    - destruct (Nat.eqb_spec i i') as [->|Hne]; [discriminate|].
      intros ->. right. split; [reflexivity|ne_events].
    - destruct (Nat.eqb_spec i i') as [->|Hne]; cbn.
      + destruct (umsg_is_term u) eqn:Eu; [discriminate|].
        intros ->. right. split; [reflexivity|ne_events].
      + intros ->. right. split; [reflexivity|ne_events].
  Qed.

  Lemma us_next_dead k i ev :
    k <> ULive -> ev <> EIn (IDn i DH) -> us_next k i ev <> ULive.
  Proof.
    intros Hk Hev Hl. apply us_next_live in Hl. destruct Hl as [Hl|[Hl _]]; contradiction.
  Qed.

  Lemma us_next_stop k i u :
    umsg_is_term u = true -> us_next k i (ECall (CUp i u)) = UStopped.
  Proof. intros Ht. cbn. now rewrite Nat.eqb_refl, Ht. Qed.

  Lemma us_next_end k i d :
    dmsg_is_term d = true -> us_next k i (EIn (IDn i d)) = UEnded.
  Proof.
    intros Ht. cbn. rewrite Nat.eqb_refl. destruct d; try discriminate Ht; reflexivity.
  Qed.

  Lemma after_sub tr i :
    In (ECall (CSub i)) tr -> us (mon_trace p tr) i <> UNone.
  Proof.
    induction tr as [|ev tr IH] using rev_ind; intros Hin; [destruct Hin|].
    rewrite mon_trace_snoc, us_mon_event. intros Hn.
    apply us_next_none in Hn. destruct Hn as [Hk Hev].
    apply in_app_or in Hin. destruct Hin as [Hin|[Heq|[]]].
    - now apply IH.
    - congruence.
  Qed.

  Lemma live_since tr i :
    us (mon_trace p tr) i = ULive -> live_since_greeting i tr.
  Proof.
    induction tr as [|ev tr IH] using rev_ind; [discriminate|].
    rewrite mon_trace_snoc, us_mon_event. intros Hl.
    apply us_next_live in Hl. destruct Hl as [->|[Hl [Hk1 [Hk2 Hk3]]]].
    - exists tr, []. repeat split; auto.
    - destruct (IH Hl) as [pre1 [pre2 [-> [H1 [H2 H3]]]]].
      exists pre1, (pre2 ++ [ev]). split; [now rewrite <- app_assoc|].
      repeat split.
      + intros m Hm Hin. apply in_app_or in Hin. destruct Hin as [Hin|[Heq|[]]].
        * exact (H1 m Hm Hin).
        * exact (Hk1 m Hm Heq).
      + intros u Hu Hin. apply in_app_or in Hin. destruct Hin as [Hin|[Heq|[]]].
        * exact (H2 u Hu Hin).
        * exact (Hk2 u Hu Heq).
      + intros Hin. apply in_app_or in Hin. destruct Hin as [Hin|[Heq|[]]].
        * exact (H3 Hin).
        * exact (Hk3 Heq).
  Qed.

  Lemma live_greeted_up tr i :
    us (mon_trace p tr) i = ULive -> In (EIn (IDn i DH)) tr.
  Proof.
    intros Hl. apply live_since in Hl. destruct Hl as [pre1 [pre2 [-> _]]].
    apply in_or_app. right. now left.
  Qed.

  Lemma run_dead tr i : forall m,
    us m i <> ULive -> ~ In (EIn (IDn i DH)) tr -> us (runm tr m) i <> ULive.
  Proof.
    induction tr as [|ev tr IH]; intros m Hm Hno; cbn [fold_left]; [exact Hm|].
    apply IH.
    - rewrite us_mon_event. apply us_next_dead; [exact Hm|].
      intros ->. apply Hno. now left.
    - intros Hin. apply Hno. now right.
  Qed.

  (** once the status of upstream [i] is not "live" and [i] does not greet
      again, a violation-free continuation does not use its talkback *)
  Lemma dead_no_up pre ev post i :
    viols (mon_trace p (pre ++ ev :: post)) = [] ->
    us (mon_event p (mon_trace p pre) ev) i <> ULive ->
    ~ In (EIn (IDn i DH)) post ->
    forall u, ~ In (ECall (CUp i u)) post.
  Proof.
    intros Hv Hd Hno u Hin. apply in_split in Hin. destruct Hin as [a [b ->]].
    rewrite resplit in Hv. apply split_check, check_up in Hv.
    revert Hv. rewrite mon_trace_split. apply run_dead; [exact Hd|].
    intros Hin. apply Hno. apply in_or_app. now left.
  Qed.

  Theorem sound_C04_sub tr :
    resub p = false -> viols (mon_trace p tr) = [] -> forall i, sub_once i tr.
  Proof.
    intros Hr Hv i pre post -> Hin. apply in_split in Hin. destruct Hin as [a [b ->]].
    rewrite resplit in Hv. apply split_check, (check_sub _ _ Hr) in Hv.
    revert Hv. apply after_sub. apply in_or_app. right. now left.
  Qed.

  Theorem sound_C04_live tr :
    viols (mon_trace p tr) = [] -> forall i, talkback_only_live i tr.
  Proof.
    intros Hv i pre u post ->. apply split_check, check_up in Hv. now apply live_since.
  Qed.

  Theorem sound_C04_dead_after_stop tr :
    viols (mon_trace p tr) = [] ->
    forall i, upstream_greets_once i tr -> talkback_dead_after_stop i tr.
  Proof.
    intros Hv i Hg pre u post -> Ht.
    pose proof (split_check _ _ _ Hv) as Hl. apply check_up, live_greeted_up in Hl.
    apply in_split in Hl. destruct Hl as [p1 [p2 ->]].
    eapply dead_no_up; [exact Hv| |].
    - rewrite us_mon_event, us_next_stop by exact Ht. discriminate.
    - intros Hin.
      apply (Hg p1 (p2 ++ ECall (CUp i u) :: post)); [now rewrite <- app_assoc|].
      apply in_or_app. right. now right.
  Qed.

  Theorem sound_C04_dead_after_end tr :
    viols (mon_trace p tr) = [] ->
    forall i, upstream_greets_once i tr -> upstream_greets_first i tr ->
              talkback_dead_after_end i tr.
  Proof.
    intros Hv i Hg Hf pre m post -> Ht.
    assert (Hm : m <> DH) by (intros ->; discriminate Ht).
    pose proof (Hf _ _ _ eq_refl Hm) as Hl.
    apply in_split in Hl. destruct Hl as [p1 [p2 ->]].
    eapply dead_no_up; [exact Hv| |].
    - rewrite us_mon_event, us_next_end by exact Ht. discriminate.
    - intros Hin.
      apply (Hg p1 (p2 ++ EIn (IDn i m) :: post)); [now rewrite <- app_assoc|].
      apply in_or_app. right. now right.
  Qed.

  Theorem sound_C04_conformant tr :
    viols (mon_trace p tr) = [] ->
    forall i, upstream_greets_once i tr -> upstream_greets_first i tr ->
              stop_once i tr /\ no_pull_outside i tr.
  Proof.
    intros Hv i Hg Hf.
    pose proof (sound_C04_dead_after_stop Hv Hg) as Hs.
    pose proof (sound_C04_dead_after_end Hv Hg Hf) as He.
    split; [split|].
    - intros pre u post E Ht u' _. exact (Hs pre u post E Ht u').
    - intros pre m post E Ht u' _. exact (He pre m post E Ht u').
    - intros pre post E. split; [|split].
      + subst tr. apply split_check, check_up in Hv. now apply live_greeted_up.
      + intros m Hm Hin. apply in_split in Hin. destruct Hin as [a [b ->]].
        apply (He a m (b ++ ECall (CUp i UP) :: post)) with (u' := UP); [now rewrite E, <- app_assoc|exact Hm|].
        apply in_or_app. right. left. reflexivity.
      + intros u Hu Hin. apply in_split in Hin. destruct Hin as [a [b ->]].
        apply (Hs a u (b ++ ECall (CUp i UP) :: post)) with (u' := UP); [now rewrite E, <- app_assoc|exact Hu|].
        apply in_or_app. right. left. reflexivity.
  Qed.

  (** the three parts together *)
  Theorem sound_C04 tr :
    resub p = false -> viols (mon_trace p tr) = [] ->
    forall i,
      sub_once i tr
      /\ talkback_only_live i tr
      /\ (upstream_greets_once i tr -> upstream_greets_first i tr ->
          stop_once i tr /\ no_pull_outside i tr).
  Proof.
    intros Hr Hv i. split; [|split].
    - now apply sound_C04_sub.
    - now apply sound_C04_live.
    - now apply sound_C04_conformant.
  Qed.

  (** *** once upstream [i] has greeted it is never "awaiting its greeting" again
          (without re-subscription), as long as there is no violation *)

  Definition us_greeted (u : uss) : bool :=
    match u with ULive | UEnded | UStopped => true | _ => false end.

  Lemma us_next_greeted k i ev :
    us_greeted k = true -> ev <> ECall (CSub i) -> us_greeted (us_next k i ev) = true.
  Proof.
    intros Hk Hev.
    destruct ev as [[s' aux|s' u|i' d|s']|[i'|i' u|s' d]| | |ob|]; cbn; auto.
    - destruct (Nat.eqb i i'); [|auto]. destruct d; auto.
    - destruct (Nat.eqb_spec i i') as [->|Hne]; [congruence|auto].
    - destruct (Nat.eqb i i' && umsg_is_term u); auto.
  Qed.

  Lemma run_greeted tr i :
    resub p = false ->
    forall m, us_greeted (us m i) = true -> viols (runm tr m) = [] ->
              us_greeted (us (runm tr m) i) = true.
  Proof.
    intros Hr. induction tr as [|ev tr IH]; intros m Hm Hv; cbn [fold_left] in *; [exact Hm|].
    apply IH; [|exact Hv].
    rewrite us_mon_event. apply us_next_greeted; [exact Hm|].
    intros ->. apply run_viols_nil in Hv. rewrite mon_call_viols in Hv.
    apply app_eq_nil in Hv. destruct Hv as [Hv _]. apply (check_sub _ _ Hr) in Hv.
    rewrite Hv in Hm. discriminate Hm.
  Qed.

  Lemma greeted_after tr i :
    resub p = false -> viols (mon_trace p tr) = [] ->
    In (EIn (IDn i DH)) tr -> us_greeted (us (mon_trace p tr) i) = true.
  Proof.
    intros Hr Hv Hin. apply in_split in Hin. destruct Hin as [pre [post ->]].
    rewrite mon_trace_split in *. apply run_greeted; [exact Hr| |exact Hv].
    rewrite us_mon_event. cbn. now rewrite Nat.eqb_refl.
  Qed.

End MonitorSound.

Print Assumptions viols_nil_prefix.
Print Assumptions sound_C17.
Print Assumptions sound_C01.
Print Assumptions sound_C02.
Print Assumptions sound_C03.
Print Assumptions sound_C04_sub.
Print Assumptions sound_C04_live.
Print Assumptions sound_C04_dead_after_stop.
Print Assumptions sound_C04_dead_after_end.
Print Assumptions sound_C04_conformant.
Print Assumptions sound_C04.

(** ** Reachable configurations: the conformant environment of Machine.v
       discharges the hypotheses about the upstreams

    [enabled] lets upstream [i] greet only while it is awaited ([USubd]) and
    send anything else only while it is live, so on the trace of a reachable,
    violation-free configuration (without re-subscription) every upstream
    greets at most once and greets first.  Together with the theorems above
    this turns [viols (ms c) = []] into the complete list of readable
    statements about [trace c]. *)

Section Reach.
  Variable p : mparams.
  Variable o : op.
  Variable g : mstate -> input -> bool.

  (** the monitor state carried by a configuration is the monitor run over
      its trace (for every configuration the machine can build, conformant
      environment or not) *)
  Definition ms_is_trace (c : cfg o) : Prop := ms c = mon_trace p (trace c).

  Lemma push_events_ms_trace evs (c : cfg o) :
    ms_is_trace c -> ms_is_trace (push_events p evs c).
  Proof.
    unfold ms_is_trace, trace, mon_trace. intros H. cbn [push_events ms rtrace].
    rewrite rev_append_rev, rev_app_distr, rev_involutive, fold_left_app.
    now rewrite <- H.
  Qed.

  Lemma settle_ms_trace (c : cfg o) r : ms_is_trace c -> ms_is_trace (settle p c r).
  Proof.
    intros H. destruct r as [[s' os] a].
    destruct a as [| |cl k]; unfold settle.
    - exact (push_events_ms_trace [EDone] (push_events_ms_trace (map EObs os) H)).
    - exact (push_events_ms_trace [EPanic] (push_events_ms_trace (map EObs os) H)).
    - exact (push_events_ms_trace [ECall cl] (push_events_ms_trace (map EObs os) H)).
  Qed.

  Lemma step_ms_trace (c : cfg o) m : ms_is_trace c -> ms_is_trace (step p c m).
  Proof.
    intros H. unfold step. destruct (dead c); [exact H|].
    destruct m as [i|].
    - destruct (deliverable (ms c) i).
      + apply settle_ms_trace. now apply push_events_ms_trace.
      + now apply push_events_ms_trace.
    - destruct (stack c) as [|[k cl] rest]; [exact H|].
      apply settle_ms_trace. exact (push_events_ms_trace [ERet] H).
  Qed.

  Lemma run_ms_trace moves : ms (run p o moves) = mon_trace p (trace (run p o moves)).
  Proof.
    unfold run. change (ms_is_trace (fold_left (step p (o:=o)) moves (cfg0 o))).
    assert (H0 : ms_is_trace (cfg0 o)) by reflexivity.
    revert H0. generalize (cfg0 o). induction moves as [|m moves IH]; intros c Hc; cbn.
    - exact Hc.
    - apply IH. now apply step_ms_trace.
  Qed.

  Lemma reach_ms_trace (c : cfg o) : reach p g c -> ms c = mon_trace p (trace c).
  Proof.
    induction 1 as [|c m Hc IH He]; [reflexivity|]. now apply step_ms_trace.
  Qed.

  (** an enabled step appends one leading event (the input, or the return)
      and then only observations and the component's own action *)
  Lemma enabled_step_trace (c : cfg o) m :
    enabled p g c m = true ->
    exists h rest,
      trace (step p c m) = trace c ++ h :: rest
      /\ (forall x, ~ In (EIn x) rest)
      /\ (forall x, h = EIn x -> m = MIn x).
  Proof.
    intros He. pose proof (enabled_live _ _ _ _ He) as Hd.
    assert (Hrest : forall os (a : act (Fr o)) x,
               ~ In (EIn x) (map EObs os ++ [act_event o a])).
    { intros os a x Hin. apply in_app_or in Hin. destruct Hin as [Hin|[Hin|[]]].
      - apply in_map_iff in Hin. destruct Hin as [ob [Heq _]]. discriminate Heq.
      - destruct a; discriminate Hin. }
    destruct m as [i|].
    - pose proof (enabled_deliverable _ _ _ _ He) as Hdel.
      destruct (handle o i (cst c)) as [[s' os] a] eqn:Hh.
      exists (EIn i), (map EObs os ++ [act_event o a]). split; [|split].
      + exact (step_in_trace p c i Hd Hdel Hh).
      + apply Hrest.
      + intros x [= ->]. reflexivity.
    - destruct (enabled_ret_stack _ _ _ He) as [k [cl [rest Hst]]].
      destruct (resume o k (cst c)) as [[s' os] a] eqn:Hr.
      exists ERet, (map EObs os ++ [act_event o a]). split; [|split].
      + exact (step_ret_trace p c Hd Hst Hr).
      + apply Hrest.
      + intros x Hx. discriminate Hx.
  Qed.

  (** what [enabled] demands of an upstream's move *)
  Lemma enabled_greet (c : cfg o) i :
    enabled p g c (MIn (IDn i DH)) = true -> us (ms c) i = USubd.
  Proof.
    unfold enabled. intros H.
    apply andb_prop in H. destruct H as [_ H].
    apply andb_prop in H. destruct H as [_ H].
    apply andb_prop in H. destruct H as [_ H].
    apply andb_prop in H. destruct H as [H _].
    destruct (us (ms c) i); try discriminate H; reflexivity.
  Qed.

  Lemma enabled_dn_live (c : cfg o) i d :
    d <> DH -> enabled p g c (MIn (IDn i d)) = true -> us (ms c) i = ULive.
  Proof.
    unfold enabled. intros Hd H.
    apply andb_prop in H. destruct H as [_ H].
    apply andb_prop in H. destruct H as [_ H].
    apply andb_prop in H. destruct H as [_ H].
    destruct d as [|v|e|]; [congruence| | |];
      apply andb_prop in H; destruct H as [H _];
      destruct (us (ms c) i); try discriminate H; reflexivity.
  Qed.

  (** where an occurrence of [x] in [l ++ l'] lies *)
  Lemma split_app (l l' : list event) : forall pre x post,
    l ++ l' = pre ++ x :: post ->
    (exists post', l = pre ++ x :: post' /\ post = post' ++ l')
    \/ (exists pre', pre = l ++ pre' /\ l' = pre' ++ x :: post).
  Proof.
    induction l as [|y l IH]; intros pre x post E.
    - right. exists pre. split; [reflexivity|exact E].
    - destruct pre as [|y' pre]; cbn in E; injection E as <- E.
      + left. exists l. split; [reflexivity|now rewrite E].
      + destruct (IH _ _ _ E) as [[post' [-> ->]]|[pre' [-> ->]]].
        * left. now exists post'.
        * right. now exists pre'.
  Qed.

  (** an input event in the appended part [h :: rest] of an enabled step is [h] *)
  Lemma input_in_suffix h (rest pre' post : list event) x :
    (forall y, ~ In (EIn y) rest) ->
    h :: rest = pre' ++ EIn x :: post ->
    pre' = [] /\ h = EIn x /\ post = rest.
  Proof.
    intros Hrest E. destruct pre' as [|y pre']; cbn in E; injection E as -> E.
    - now subst.
    - exfalso. apply (Hrest x). rewrite E. apply in_or_app. right. now left.
  Qed.

  Theorem reach_upstream_conformant (c : cfg o) :
    resub p = false -> reach p g c -> viols (ms c) = [] ->
    forall i, upstream_greets_once i (trace c) /\ upstream_greets_first i (trace c).
  Proof.
    intros Hr Hc. induction Hc as [|c m Hc IH He]; intros Hv i.
    - split.
      + intros pre post E. destruct pre; discriminate E.
      + intros pre d post E. destruct pre; discriminate E.
    - destruct (enabled_step_trace _ _ He) as [h [rest [Et [Hrest Hh]]]].
      pose proof (reach_ms_trace Hc) as Hms.
      assert (Hvc : viols (ms c) = []).
      { assert (Hc' : reach p g (step p c m)) by now apply reachS.
        rewrite (reach_ms_trace Hc'), Et in Hv.
        apply viols_nil_prefix in Hv. now rewrite Hms. }
      destruct (IH Hvc i) as [IH1 IH2]. rewrite Et. split.
      + intros pre post E. apply split_app in E.
        destruct E as [[post' [E ->]]|[pre' [-> E]]].
        * intros Hin. apply in_app_or in Hin. destruct Hin as [Hin|Hin].
          -- exact (IH1 _ _ E Hin).
          -- apply in_split in Hin. destruct Hin as [a [b Hs]].
             apply (input_in_suffix _ _ _ Hrest) in Hs. destruct Hs as [_ [Hs _]].
             apply Hh in Hs. subst m. apply enabled_greet in He.
             assert (Hin : In (EIn (IDn i DH)) (trace c))
               by (rewrite E; apply in_or_app; right; now left).
             rewrite Hms in Hvc.
             assert (Hgr : us_greeted (us (mon_trace p (trace c)) i) = true)
               by now apply greeted_after.
             rewrite <- Hms, He in Hgr. discriminate Hgr.
        * apply (input_in_suffix _ _ _ Hrest) in E. destruct E as [_ [_ ->]].
          apply Hrest.
      + intros pre d post E Hd. apply split_app in E.
        destruct E as [[post' [E ->]]|[pre' [-> E]]].
        * exact (IH2 _ _ _ E Hd).
        * apply (input_in_suffix _ _ _ Hrest) in E. destruct E as [-> [E _]].
          apply Hh in E. subst m. apply (enabled_dn_live _ _ Hd) in He.
          rewrite Hms in He. apply live_greeted_up in He.
          rewrite app_nil_r. exact He.
  Qed.

  (** everything together, for the trace of a reachable configuration in
      which the monitor found no violation *)
  Theorem reach_sound (c : cfg o) :
    resub p = false -> reach p g c -> viols (ms c) = [] ->
    no_panic (trace c)
    /\ (forall s, greet_once s (trace c) /\ greet_first s (trace c)
                  /\ term_final s (trace c) /\ dispose_respected s (trace c))
    /\ (forall i, sub_once i (trace c) /\ talkback_only_live i (trace c)
                  /\ stop_once i (trace c) /\ no_pull_outside i (trace c)).
  Proof.
    intros Hr Hc Hv.
    pose proof (reach_upstream_conformant Hr Hc Hv) as Hup.
    rewrite (reach_ms_trace Hc) in Hv.
    split; [now apply sound_C17 with p|split].
    - intros s. destruct (sound_C01 _ _ Hv s) as [H1 H2].
      repeat split; auto.
      + now apply sound_C02 with p.
      + now apply sound_C03 with p.
    - intros i. destruct (Hup i) as [Hg Hf].
      destruct (sound_C04 _ _ Hr Hv i) as [H1 [H2 H3]].
      destruct (H3 Hg Hf) as [H4 H5]. auto.
  Qed.

End Reach.

Print Assumptions run_ms_trace.
Print Assumptions reach_ms_trace.
Print Assumptions reach_upstream_conformant.
Print Assumptions reach_sound.

(** ** Why [stop_once] and [no_pull_outside] carry hypotheses about the upstream

    The monitor does not check the environment's moves.  In an arbitrary trace
    an upstream may greet a second time, which makes it live again in the
    monitor's eyes, or send Terminate before it has greeted; the two traces
    below are violation-free (for the standard parameters, [resub = false])
    and falsify the unconditional readings.  The unconditional content of the
    monitor's C04 checks is [talkback_only_live]; for the traces of reachable
    configurations the hypotheses hold ([reach_upstream_conformant]). *)

Definition p_std : mparams :=
  {| nsinks := 1; late_ok := false; pullable := false; one_pull := false;
     resub := false; no_nest := false; c14 := false |}.

Example stop_once_needs_greets_once :
  let tr := [ECall (CSub 0); EIn (IDn 0 DH); ECall (CUp 0 UT);
             EIn (IDn 0 DH); ECall (CUp 0 UT)] in
  viols (mon_trace p_std tr) = [] /\ ~ stop_once 0 tr.
Proof.
  split; [reflexivity|]. intros [H _].
  apply (H [ECall (CSub 0); EIn (IDn 0 DH)] UT [EIn (IDn 0 DH); ECall (CUp 0 UT)]
           eq_refl eq_refl UT eq_refl).
  right. now left.
Qed.

Example no_pull_outside_needs_greets_first :
  let tr := [ECall (CSub 0); EIn (IDn 0 DT); EIn (IDn 0 DH); ECall (CUp 0 UP)] in
  viols (mon_trace p_std tr) = [] /\ ~ no_pull_outside 0 tr.
Proof.
  split; [reflexivity|]. intros H.
  destruct (H [ECall (CSub 0); EIn (IDn 0 DT); EIn (IDn 0 DH)] [] eq_refl) as [_ [H1 _]].
  apply (H1 DT eq_refl). right. now left.
Qed.

(** ** The readable statements do reject what they should (sanity checks) *)

Example greet_once_rejects : ~ greet_once 0 [ECall (CDn 0 DH); ECall (CDn 0 DH)].
Proof. intros H. apply (H [] [ECall (CDn 0 DH)] eq_refl). now left. Qed.

Example greet_first_rejects : ~ greet_first 0 [ECall (CDn 0 (DD (VN 1))); ECall (CDn 0 DH)].
Proof.
  intros H. destruct (H [] (DD (VN 1)) [ECall (CDn 0 DH)] eq_refl) as [[]|[e [aux [E _]]]];
    discriminate.
Qed.

Example term_final_rejects : ~ term_final 0 [ECall (CDn 0 DT); ECall (CDn 0 (DD (VN 1)))].
Proof.
  intros H. apply (H [] DT [ECall (CDn 0 (DD (VN 1)))] eq_refl eq_refl (DD (VN 1))). now left.
Qed.

Example dispose_respected_rejects :
  ~ dispose_respected 0 [ECall (CDn 0 DH); EIn (IUp 0 UT); ECall (CDn 0 DT)].
Proof.
  intros H. apply (H [ECall (CDn 0 DH)] UT [ECall (CDn 0 DT)] eq_refl eq_refl DT). now left.
Qed.

Example talkback_only_live_rejects :
  ~ talkback_only_live 0 [ECall (CSub 0); EIn (IDn 0 DH); EIn (IDn 0 DT); ECall (CUp 0 UT)].
Proof.
  intros H.
  destruct (H [ECall (CSub 0); EIn (IDn 0 DH); EIn (IDn 0 DT)] UT [] eq_refl)
    as [pre1 [pre2 [E [H1 _]]]].
  destruct pre1 as [|x1 [|x2 [|x3 [|x4 pre1]]]]; cbn in E; try discriminate E.
  inversion E; subst. apply (H1 DT eq_refl). now left.
Qed.
