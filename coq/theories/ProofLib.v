(** * ProofLib: tactics shared by the invariant proofs (Inv_*.v) *)
From CB Require Export MachineFacts Ops.

Set Implicit Arguments.

(** sink 0 and upstream 0 of a pass-through operator move in lock-step *)
Inductive paired : sks -> uss -> Prop :=
| P_none : paired SNone UNone
| P_subd : paired SNone USubd
| P_live : paired SLive ULive
| P_fin : paired SFinished UEnded
| P_disp : paired SDisposed UStopped.

(** rewrite with whatever is known about the monitor state and the parameters *)
Ltac rw_st :=
  repeat match goal with
         | H : sk ?m ?s = _ |- context [sk ?m ?s] => rewrite H
         | H : us ?m ?s = _ |- context [us ?m ?s] => rewrite H
         | H : forall s, err_due ?m s = _ |- context [err_due ?m _] => rewrite H
         | H : resub _ = _ |- context [resub _] => rewrite H
         | H : c14 _ = _ |- context [c14 _] => rewrite H
         | H : no_nest _ = _ |- context [no_nest _] => rewrite H
         | H : nsinks _ = _ |- context [nsinks _] => rewrite H
         | H : late_ok _ = _ |- context [late_ok _] => rewrite H
         | H : pullable _ = _ |- context [pullable _] => rewrite H
         | H : one_pull _ = _ |- context [one_pull _] => rewrite H
         end.

Ltac crush :=
  repeat match goal with
         | |- forall _, _ => intro
         | H : _ \/ _ |- _ => destruct H
         | H : False |- _ => destruct H
         | H : In _ (_ :: _) |- _ => cbn in H
         | H : ?A -> _, H' : ?A |- _ => specialize (H H')
         | |- context [upd _ ?k _ ?x] =>
             unfold upd; destruct (Nat.eqb_spec x k); subst
         | H : context [upd _ ?k _ ?x] |- _ =>
             unfold upd in H; destruct (Nat.eqb_spec x k); subst
         end;
  auto; try congruence; try lia; try (constructor; fail); try tauto;
  try (match goal with
       | |- context [(?s <=? 0)] => destruct s; cbn; auto; congruence
       end).

(** after [step_in]/[step_ret] produced the equations [Hm : ms (step ..) = ..],
    [Hs : stack (step ..) = ..], [Hd : dead (step ..) = ..]: split the invariant
    record and compute every field *)
Ltac fin Hm Hs Hd :=
  constructor; rewrite ?Hm, ?Hs, ?Hd; cbn; rewrite ?add_viols_eq; cbn;
  unfold due_on_error; repeat (rw_st; cbn; rewrite ?Nat.eqb_refl; cbn); crush.

(** split [enabled .. (MIn i) = true] into liveness, deliverability, the
    component-specific guard [Hg] and the generic guard [He] *)
Ltac start_in He Hlive Hdel Hg :=
  pose proof (enabled_live _ _ _ _ He) as Hlive;
  pose proof (enabled_deliverable _ _ _ _ He) as Hdel;
  unfold enabled in He; rewrite Hlive in He; cbn [negb andb] in He;
  apply andb_prop in He; destruct He as [Hg He].

Ltac cases_pair c Esk Eus :=
  destruct (sk (ms c) 0) eqn:Esk; destruct (us (ms c) 0) eqn:Eus;
  match goal with H : paired _ _ |- _ => inversion H; clear H end.
