(** * PipeCorrect: the lazy pull interpreter of [Pipe] computes the list
      function of the pipeline (finite inputs).

    Method: a representation invariant [Rep stages_rev ss pos rest N] - "from
    this state the chain still has exactly the list [rest] to deliver, the
    input iterator has been advanced at most [length xs + 1] times, and [N]
    units of fuel are enough for every demand from now on".  One demand
    ([pull]) delivers the head of [rest] and re-establishes the invariant for
    the tail ([pull_ok]); [drain] follows by induction on [rest]; the initial
    state represents [sem p xs] ([Rep_init]). *)

From Coq Require Import List Arith Bool Lia PeanoNat.
From CB Require Import Pipe.
Import ListNotations.

(** ** The explicit fuel bound

    [fuel_bound p xs = 1 + sum over the proper prefixes q of p of
    (length (sem q xs) + 1)]: a demand on stage number i recurses at most
    once per remaining item of its upstream (re-requests of filter / skip /
    flat-map) plus once, and the upstream's own need is added (fuel is a
    recursion DEPTH, so the needs add up, they do not multiply). *)
Fixpoint fuel_bound (p : list stage) (l : list nat) : nat :=
  match p with
  | [] => 1
  | s :: p' => S (length l) + fuel_bound p' (sem1 s l)
  end.

Lemma sem_app : forall p q l, sem (p ++ q) l = sem q (sem p l).
Proof. intros. unfold sem. apply fold_left_app. Qed.

Lemma fuel_bound_app : forall p s l,
  fuel_bound (p ++ [s]) l = fuel_bound p l + length (sem p l) + 1.
Proof.
  induction p as [|a p IH]; intros s l.
  - simpl. lia.
  - simpl app. simpl fuel_bound. rewrite IH. unfold sem. simpl fold_left. lia.
Qed.

(** ** List facts *)
Lemma skipn_cons_inv : forall pos (l : list nat) x r,
  skipn pos l = x :: r ->
  nth_error l pos = Some x /\ skipn (S pos) l = r /\ S pos <= length l.
Proof.
  induction pos as [|pos IH]; intros l x r H; destruct l as [|a l]; try discriminate.
  - simpl in H. inversion H; subst. simpl. repeat split. lia.
  - change (skipn pos l = x :: r) in H. apply IH in H. destruct H as (H1 & H2 & H3).
    change (nth_error l pos = Some x /\ skipn (S pos) l = r /\ S (S pos) <= S (length l)).
    repeat split; auto. lia.
Qed.

Lemma skipn_nil_inv : forall pos (l : list nat), skipn pos l = [] -> length l <= pos.
Proof.
  intros pos l H. pose proof (skipn_length pos l) as HL. rewrite H in HL. simpl in HL. lia.
Qed.

Section Correct.
  Variable xs : list nat.
  Local Notation it := (iter_nat xs None).

  (** what a live stage still has to deliver, given what its upstream has *)
  Definition srel (s : stage) (st : sst) (ru rest : list nat) : Prop :=
    match s, st with
    | StMap a b, _ => rest = map (affn a b) ru
    | StFilter m r, _ => rest = filter (condn m r) ru
    | StScan k _, SsAcc acc => rest = scanl k acc ru
    | StTake n, SsCount c => rest = firstn (n - c) ru
    | StSkip n, SsCount c => rest = skipn (n - c) ru
    | StAppend _, SsPhase false ys => rest = ru ++ ys
    | StPrepend _, SsPhase false ys => rest = ys ++ ru
    | StPrepend _, SsPhase true _ => rest = ru
    | StFlatMap m, SsInner cur => rest = cur ++ flat_map (inner m) ru
    | _, _ => False
    end.

  (** the states in which a stage never asks its upstream again (the upstream
      may have been observed at its end: nothing is claimed about it) *)
  Definition sdead (s : stage) (st : sst) (rest : list nat) : Prop :=
    match s, st with
    | StAppend _, SsPhase true ys => rest = ys
    | _, _ => False
    end.

  Fixpoint Rep (stages_rev : list stage) (ss : list sst) (pos : nat) (rest : list nat) (N : nat)
    {struct stages_rev} : Prop :=
    match stages_rev with
    | [] => pos <= length xs /\ rest = skipn pos xs /\ 1 <= N
    | s :: up =>
        match ss with
        | [] => False
        | st :: ss_up =>
            (exists ru Nu, Rep up ss_up pos ru Nu /\ Nu + length ru + 1 <= N /\ srel s st ru rest)
            \/ (sdead s st rest /\ pos <= S (length xs) /\ 1 <= N)
        end
    end.

  Lemma Rep_N_pos : forall stages ss pos rest N, Rep stages ss pos rest N -> 1 <= N.
  Proof.
    intros stages ss pos rest N H. destruct stages as [|s up]; simpl in H.
    - lia.
    - destruct ss as [|st ss_up]; [contradiction|].
      destruct H as [(ru & Nu & _ & H & _) | (_ & _ & H)]; lia.
  Qed.

  Lemma Rep_mono : forall stages ss pos rest N N',
    Rep stages ss pos rest N -> N <= N' -> Rep stages ss pos rest N'.
  Proof.
    intros stages ss pos rest N N' H HN. destruct stages as [|s up]; simpl in *.
    - intuition lia.
    - destruct ss as [|st ss_up]; [contradiction|].
      destruct H as [(ru & Nu & H1 & H2 & H3) | (H1 & H2 & H3)].
      + left. exists ru, Nu. repeat split; auto. lia.
      + right. repeat split; auto. lia.
  Qed.

  Lemma Rep_pos : forall stages ss pos rest N,
    Rep stages ss pos rest N -> pos <= S (length xs).
  Proof.
    induction stages as [|s up IH]; intros ss pos rest N H; simpl in H.
    - lia.
    - destruct ss as [|st ss_up]; [contradiction|].
      destruct H as [(ru & Nu & H1 & _) | (_ & H & _)]; eauto.
  Qed.

  (** the outcome of one demand from a state representing [rest] *)
  Definition Post (stages : list stage) (rest : list nat) (N : nat)
             (res : option nat * list sst * nat) : Prop :=
    match res with
    | (r, ss', pos') =>
        match rest with
        | [] => r = None /\ pos' <= S (length xs)
        | x :: rest' => r = Some x /\ Rep stages ss' pos' rest' N
        end
    end.

  Lemma Post_mono : forall stages rest N N' res,
    Post stages rest N res -> N <= N' -> Post stages rest N' res.
  Proof.
    intros stages rest N N' [[r ss'] pos'] H HN. unfold Post in *.
    destruct rest; auto. destruct H; split; auto. eapply Rep_mono; eauto.
  Qed.

  (** constructors of [Rep] for a non-empty chain *)
  Lemma Rep_live : forall s up st ss_up pos rest N ru Nu,
    Rep up ss_up pos ru Nu -> Nu + length ru + 1 <= N -> srel s st ru rest ->
    Rep (s :: up) (st :: ss_up) pos rest N.
  Proof. intros. simpl. left. exists ru, Nu. auto. Qed.

  Lemma Rep_dead : forall s up st ss_up pos rest N,
    sdead s st rest -> pos <= S (length xs) -> 1 <= N ->
    Rep (s :: up) (st :: ss_up) pos rest N.
  Proof. intros. simpl. right. auto. Qed.

  (** ** One demand *)
  Lemma pull_ok : forall fuel stages ss pos rest N,
    Rep stages ss pos rest N -> N <= fuel ->
    Post stages rest N (pull it fuel stages ss pos).
  Proof.
    induction fuel as [|f IH]; intros stages ss pos rest N HR HN.
    { apply Rep_N_pos in HR. lia. }
    destruct stages as [|s up].
    - (* the input iterator *)
      simpl in HR. destruct HR as (Hp & Hr & H1). simpl. unfold iter_nat.
      destruct rest as [|x rest'].
      + symmetry in Hr. apply skipn_nil_inv in Hr.
        assert (E : nth_error xs pos = None) by (apply nth_error_None; lia).
        rewrite E. split; auto. lia.
      + symmetry in Hr. apply skipn_cons_inv in Hr. destruct Hr as (E & Hs & Hl).
        rewrite E. split; [reflexivity|]. simpl. repeat split; auto; lia.
    - destruct ss as [|st ss_up]; [simpl in HR; contradiction|].
      simpl in HR.
      destruct HR as [(ru & Nu & HU & HNu & Hrel) | (Hd & Hp & H1)].
      + (* live stage *)
        assert (HIH := IH up ss_up pos ru Nu HU ltac:(lia)).
        assert (HposU := Rep_pos _ _ _ _ _ HU).
        destruct s as [a b|m r0|k seed|n|n|zs|zs|m].
        * (* map *)
          simpl in Hrel; subst rest. simpl pull.
          destruct (pull it f up ss_up pos) as [[r ss'] pos'].
          destruct ru as [|x ru']; simpl in HIH, HNu; destruct HIH as [-> HIH].
          -- simpl. auto.
          -- split; [reflexivity|]. eapply Rep_live; eauto; [lia|reflexivity].
        * (* filter *)
          simpl in Hrel; subst rest. simpl pull.
          destruct (pull it f up ss_up pos) as [[r ss'] pos'].
          destruct ru as [|x ru']; simpl in HIH, HNu; destruct HIH as [-> HIH].
          -- simpl. auto.
          -- simpl filter. destruct (condn m r0 x).
             ++ split; [reflexivity|]. eapply Rep_live; eauto; [lia|reflexivity].
             ++ eapply Post_mono; [apply IH with (N := N - 1)|lia]; [|lia].
                eapply Rep_live; eauto; [lia|reflexivity].
        * (* scan *)
          destruct st as [|acc|c|[|] ys|cur]; simpl in Hrel; try contradiction; subst rest.
          simpl pull.
          destruct (pull it f up ss_up pos) as [[r ss'] pos'].
          destruct ru as [|x ru']; simpl in HIH, HNu; destruct HIH as [-> HIH].
          -- simpl. auto.
          -- simpl scanl. split; [reflexivity|]. eapply Rep_live; eauto; [lia|reflexivity].
        * (* take *)
          destruct st as [|acc|c|[|] ys|cur]; simpl in Hrel; try contradiction; subst rest.
          simpl pull. destruct (n <=? c) eqn:E.
          -- apply Nat.leb_le in E. replace (n - c) with 0 by lia. simpl. auto.
          -- apply Nat.leb_gt in E.
             destruct (pull it f up ss_up pos) as [[r ss'] pos'].
             destruct ru as [|x ru']; simpl in HIH, HNu; destruct HIH as [-> HIH].
             ++ rewrite firstn_nil. simpl. auto.
             ++ replace (n - c) with (S (n - S c)) by lia. simpl firstn.
                split; [reflexivity|]. eapply Rep_live; eauto; [lia|reflexivity].
        * (* skip *)
          destruct st as [|acc|c|[|] ys|cur]; simpl in Hrel; try contradiction; subst rest.
          simpl pull.
          destruct (pull it f up ss_up pos) as [[r ss'] pos'].
          destruct ru as [|x ru']; simpl in HIH, HNu; destruct HIH as [-> HIH].
          -- rewrite skipn_nil. simpl. auto.
          -- destruct (c <? n) eqn:E.
             ++ apply Nat.ltb_lt in E. replace (n - c) with (S (n - S c)) by lia.
                change (skipn (S (n - S c)) (x :: ru')) with (skipn (n - S c) ru').
                eapply Post_mono; [apply IH with (N := N - 1)|lia]; [|lia].
                eapply Rep_live; eauto; [lia|reflexivity].
             ++ apply Nat.ltb_ge in E. replace (n - c) with 0 by lia. simpl skipn.
                split; [reflexivity|]. eapply Rep_live; eauto; [lia|].
                simpl. replace (n - c) with 0 by lia. reflexivity.
        * (* append, first member *)
          destruct st as [|acc|c|[|] ys|cur]; simpl in Hrel; try contradiction; subst rest.
          simpl pull.
          destruct (pull it f up ss_up pos) as [[r ss'] pos'].
          destruct ru as [|x ru']; simpl in HIH, HNu; destruct HIH as [-> HIH]; simpl app.
          -- destruct ys as [|y ys'].
             ++ simpl. auto.
             ++ split; [reflexivity|]. apply Rep_dead; [reflexivity|assumption|lia].
          -- split; [reflexivity|]. eapply Rep_live; eauto; [lia|reflexivity].
        * (* prepend *)
          destruct st as [|acc|c|[|] ys|cur]; simpl in Hrel; try contradiction; subst rest.
          -- (* second member *)
             simpl pull.
             destruct (pull it f up ss_up pos) as [[r ss'] pos'].
             destruct ru as [|x ru']; simpl in HIH, HNu; destruct HIH as [-> HIH].
             ++ simpl. auto.
             ++ split; [reflexivity|]. eapply Rep_live; eauto; [lia|reflexivity].
          -- (* first member *)
             simpl pull. destruct ys as [|y ys']; simpl app.
             ++ destruct (pull it f up ss_up pos) as [[r ss'] pos'].
                destruct ru as [|x ru']; simpl in HIH, HNu; destruct HIH as [-> HIH].
                ** simpl. auto.
                ** split; [reflexivity|]. eapply Rep_live; eauto; [lia|reflexivity].
             ++ split; [reflexivity|]. eapply Rep_live; [exact HU|lia|reflexivity].
        * (* flat-map *)
          destruct st as [|acc|c|[|] ys|cur]; simpl in Hrel; try contradiction; subst rest.
          simpl pull. destruct cur as [|y cur']; simpl app.
          -- destruct (pull it f up ss_up pos) as [[r ss'] pos'].
             destruct ru as [|x ru']; simpl in HIH, HNu; destruct HIH as [-> HIH].
             ++ simpl. auto.
             ++ simpl flat_map.
                eapply Post_mono; [apply IH with (N := N - 1)|lia]; [|lia].
                eapply Rep_live; eauto; [lia|reflexivity].
          -- split; [reflexivity|]. eapply Rep_live; [exact HU|lia|reflexivity].
      + (* append, second member: the upstream is never asked again *)
        destruct s as [a b|m r0|k seed|n|n|zs|zs|m];
          destruct st as [|acc|c|[|] ys|cur]; simpl in Hd; try contradiction; subst rest.
        simpl pull. destruct ys as [|y ys'].
        * simpl. auto.
        * split; [reflexivity|]. apply Rep_dead; [reflexivity|assumption|lia].
  Qed.

  (** ** for_each: all the demands *)
  Lemma drain_ok : forall rest demands fuel stages ss pos N,
    Rep stages ss pos rest N -> N <= fuel -> length rest < demands ->
    exists pos', drain it demands fuel stages ss pos = (rest, pos', true)
                 /\ pos' <= S (length xs).
  Proof.
    induction rest as [|x rest IH]; intros demands fuel stages ss pos N HR HN HD;
      (destruct demands as [|d]; [simpl in HD; lia|]);
      pose proof (pull_ok fuel stages ss pos _ N HR HN) as HP;
      simpl drain; destruct (pull it fuel stages ss pos) as [[r ss'] pos'];
      simpl in HP; destruct HP as [-> HP].
    - eauto.
    - simpl in HD.
      destruct (IH d fuel stages ss' pos' N HP HN ltac:(lia)) as (p' & -> & Hp').
      eauto.
  Qed.

  (** ** The initial state represents the list function of the pipeline *)
  Lemma Rep_init : forall p,
    Rep (rev p) (rev (map init_sst p)) 0 (sem p xs) (fuel_bound p xs).
  Proof.
    induction p as [|s p IH] using rev_ind.
    - simpl. repeat split; lia.
    - rewrite map_app, !rev_app_distr, sem_app, fuel_bound_app. simpl rev. simpl app.
      eapply Rep_live; [exact IH|lia|].
      destruct s; simpl; try reflexivity.
      + rewrite Nat.sub_0_r. reflexivity.
      + rewrite Nat.sub_0_r. reflexivity.
  Qed.

End Correct.

(** ** The theorem: explicit bounds [D = S (length (sem p xs))] demands and
       [F = fuel_bound p xs] fuel *)
Theorem run_pipe_correct_explicit : forall p xs demands fuel,
  S (length (sem p xs)) <= demands -> fuel_bound p xs <= fuel ->
  exists pos, run_pipe p xs None demands fuel = (sem p xs, pos, true) /\ pos <= S (length xs).
Proof.
  intros p xs demands fuel HD HF. unfold run_pipe.
  eapply drain_ok; [apply Rep_init|exact HF|lia].
Qed.
Print Assumptions run_pipe_correct_explicit.

Theorem run_pipe_correct : forall p xs, exists D F, forall demands fuel, D <= demands -> F <= fuel ->
  exists pos, run_pipe p xs None demands fuel = (sem p xs, pos, true) /\ pos <= S (length xs).
Proof.
  intros p xs. exists (S (length (sem p xs))), (fuel_bound p xs).
  intros. apply run_pipe_correct_explicit; assumption.
Qed.
Print Assumptions run_pipe_correct.

(** * Unbounded inputs

    [pull] reads the input iterator only at the positions it advances over,
    so two iterators that agree below the final position give the same run.
    With [run_pipe_correct_explicit] on a finite prefix of the input this
    gives the behaviour over an unbounded input whenever the run never
    observes the end of that prefix - in particular for pipelines cut by a
    [take] that sits on the source behind stages that ask their upstream at
    most once per demand. *)

Ltac destruct_matches :=
  repeat match goal with
         | |- context [match ?x with _ => _ end] =>
             lazymatch x with
             | pull _ _ _ _ _ => fail
             | _ => destruct x
             end
         end.

Ltac dstage s st :=
  destruct s as [?a ?b|?m ?r0|?k ?seed|?n|?n|?zs|?zs|?m];
  destruct st as [|?acc|?c|[|] ?ys|?cur].

Lemma pull_mono : forall it fuel stages ss pos, pos <= snd (pull it fuel stages ss pos).
Proof.
  intros it. induction fuel as [|f IH]; intros stages ss pos; [simpl; lia|].
  destruct stages as [|s up]; [simpl; lia|].
  destruct ss as [|st ss]; [simpl; lia|].
  pose proof (IH up ss pos) as H1.
  dstage s st; simpl pull; try (simpl; lia).
  all: destruct (pull it f up ss pos) as [[r ss'] pos']; simpl in H1.
  all: destruct_matches; simpl snd; try lia.
  all: match goal with
       | |- _ <= snd (pull ?i ?f0 ?stg ?s0 ?p) => pose proof (IH stg s0 p); lia
       end.
Qed.

Lemma drain_mono : forall it n fuel stages ss pos,
  pos <= snd (fst (drain it n fuel stages ss pos)).
Proof.
  intros it. induction n as [|n IH]; intros fuel stages ss pos; [simpl; lia|].
  simpl drain. pose proof (pull_mono it fuel stages ss pos) as H1.
  destruct (pull it fuel stages ss pos) as [[r ss'] pos']; simpl in H1.
  destruct r as [x|]; [|simpl; lia].
  pose proof (IH fuel stages ss' pos') as H2.
  destruct (drain it n fuel stages ss' pos') as [[l p] d]. simpl in *. lia.
Qed.

Lemma pull_agree : forall it1 it2 B, (forall k, k < B -> it1 k = it2 k) ->
  forall fuel stages ss pos, snd (pull it1 fuel stages ss pos) <= B ->
  pull it2 fuel stages ss pos = pull it1 fuel stages ss pos.
Proof.
  intros it1 it2 B HA. induction fuel as [|f IH]; intros stages ss pos Hle; [reflexivity|].
  destruct stages as [|s up].
  { simpl in *. rewrite HA by lia. reflexivity. }
  destruct ss as [|st ss]; [reflexivity|].
  pose proof (IH up ss pos) as H1.
  dstage s st; simpl pull in *; try reflexivity.
  all: destruct_matches; try reflexivity.
  all: destruct (pull it1 f up ss pos) as [[r ss'] pos']; simpl in H1.
  all: assert (Hp : pos' <= B)
    by (clear H1;
        repeat match type of Hle with
               | context [match ?x with _ => _ end] => destruct x
               end;
        simpl in Hle; try lia;
        match type of Hle with
        | snd (pull ?i ?f0 ?stg ?s0 ?p) <= _ => pose proof (pull_mono i f0 stg s0 p); lia
        end).
  all: rewrite (H1 Hp); cbv beta iota.
  all: destruct_matches; try reflexivity.
  all: apply IH; exact Hle.
Qed.

Lemma drain_agree : forall it1 it2 B, (forall k, k < B -> it1 k = it2 k) ->
  forall n fuel stages ss pos, snd (fst (drain it1 n fuel stages ss pos)) <= B ->
  drain it2 n fuel stages ss pos = drain it1 n fuel stages ss pos.
Proof.
  intros it1 it2 B HA. induction n as [|n IH]; intros fuel stages ss pos Hle; [reflexivity|].
  simpl drain in *.
  pose proof (pull_agree it1 it2 B HA fuel stages ss pos) as H1.
  destruct (pull it1 fuel stages ss pos) as [[r ss'] pos']; simpl in H1.
  assert (Hp : pos' <= B).
  { destruct r as [x|]; [|simpl in Hle; lia].
    pose proof (drain_mono it1 n fuel stages ss' pos') as Hm.
    destruct (drain it1 n fuel stages ss' pos') as [[l p] d]. simpl in *. lia. }
  rewrite (H1 Hp). destruct r as [x|]; [|reflexivity].
  rewrite IH; [reflexivity|].
  destruct (drain it1 n fuel stages ss' pos') as [[l p] d]. simpl in *. exact Hle.
Qed.

(** the unbounded iterator [xs, base, base+1, ..] and its finite prefix
    [xs ++ seq base k] agree on the first [length xs + k] positions *)
Lemma iter_nat_prefix : forall xs base k j, j < length xs + k ->
  iter_nat (xs ++ seq base k) None j = iter_nat xs (Some base) j.
Proof.
  intros xs base k j Hj. unfold iter_nat.
  destruct (Nat.lt_ge_cases j (length xs)) as [Hlt|Hge].
  - rewrite nth_error_app1 by assumption.
    destruct (nth_error xs j) eqn:E; [reflexivity|].
    apply nth_error_None in E. lia.
  - rewrite nth_error_app2 by assumption.
    assert (E : nth_error xs j = None) by (apply nth_error_None; assumption).
    rewrite E.
    rewrite (nth_error_nth' (seq base k) 0) by (rewrite seq_length; lia).
    rewrite seq_nth by lia. reflexivity.
Qed.

(** prefix determinacy: a run over a finite prefix that never observes the
    end of the prefix is also the run over the unbounded input *)
Theorem run_pipe_prefix_agree : forall p xs base k demands fuel,
  snd (fst (run_pipe p (xs ++ seq base k) None demands fuel)) <= length xs + k ->
  run_pipe p xs (Some base) demands fuel = run_pipe p (xs ++ seq base k) None demands fuel.
Proof.
  intros p xs base k demands fuel H. unfold run_pipe in *.
  apply drain_agree with (B := length xs + k); [|exact H].
  intros j Hj. apply iter_nat_prefix. exact Hj.
Qed.
Print Assumptions run_pipe_prefix_agree.

(** ** Stages that ask their upstream at most once per demand *)
Definition oneshot (s : stage) : bool :=
  match s with
  | StMap _ _ | StScan _ _ | StTake _ | StAppend _ | StPrepend _ => true
  | StFilter _ _ | StSkip _ | StFlatMap _ => false
  end.

Lemma pull_le1 : forall it fuel stages ss pos, forallb oneshot stages = true ->
  snd (pull it fuel stages ss pos) <= S pos.
Proof.
  intros it. induction fuel as [|f IH]; intros stages ss pos Ho; [simpl; lia|].
  destruct stages as [|s up]; [simpl; lia|].
  destruct ss as [|st ss]; [simpl; lia|].
  simpl in Ho. apply andb_true_iff in Ho. destruct Ho as [Hs Ho].
  pose proof (IH up ss pos Ho) as H1.
  dstage s st; try discriminate Hs; simpl pull; try (simpl; lia).
  all: destruct (pull it f up ss pos) as [[r ss'] pos']; simpl in H1.
  all: destruct_matches; simpl snd; lia.
Qed.

(** ** Framing: what the outer stages do to an inner part of the chain is a
       sequence of demands on it *)
Definition frame_post (k : nat) (I : list sst -> nat -> Prop)
           (res : option nat * list sst * nat) : Prop :=
  match res with
  | (_, ss', pos') => exists so' si', ss' = so' ++ si' /\ length so' = k /\ I si' pos'
  end.

Lemma pull_frame : forall it inner (I : list sst -> nat -> Prop),
  (forall fuel ss pos, I ss pos ->
     I (snd (fst (pull it fuel inner ss pos))) (snd (pull it fuel inner ss pos))) ->
  forall fuel outer so si pos, length so = length outer -> I si pos ->
    frame_post (length outer) I (pull it fuel (outer ++ inner) (so ++ si) pos).
Proof.
  intros it inner I HI. induction fuel as [|f IH]; intros outer so si pos Hl Hi.
  { simpl. exists so, si. auto. }
  destruct outer as [|s outer].
  { destruct so; [|discriminate Hl]. simpl app.
    specialize (HI (S f) si pos Hi).
    destruct (pull it (S f) inner si pos) as [[r ss'] pos']. simpl in *.
    exists [], ss'. auto. }
  destruct so as [|st so]; [discriminate Hl|]. simpl in Hl. injection Hl as Hl.
  pose proof (IH outer so si pos Hl Hi) as H1.
  simpl app.
  assert (Hsame : frame_post (length (s :: outer)) I (None, st :: so ++ si, pos)).
  { exists (st :: so), si. simpl. auto. }
  dstage s st; simpl pull; try exact Hsame.
  all: destruct (pull it f (outer ++ inner) (so ++ si) pos) as [[r ss'] pos'];
       simpl in H1; destruct H1 as (so1 & si1 & -> & Hl1 & Hi1).
  all: destruct_matches.
  all: try solve [ exact Hsame
                 | eexists (_ :: _), _; split; [reflexivity|]; simpl; split; [congruence|eassumption]
                 | apply (IH (_ :: outer) (_ :: so1) si1 pos'); [simpl; congruence|assumption] ].
Qed.

Lemma drain_frame : forall it inner (I : list sst -> nat -> Prop),
  (forall fuel ss pos, I ss pos ->
     I (snd (fst (pull it fuel inner ss pos))) (snd (pull it fuel inner ss pos))) ->
  forall n fuel outer so si pos, length so = length outer -> I si pos ->
    exists si', I si' (snd (fst (drain it n fuel (outer ++ inner) (so ++ si) pos))).
Proof.
  intros it inner I HI. induction n as [|n IH]; intros fuel outer so si pos Hl Hi.
  { simpl. eauto. }
  simpl drain.
  pose proof (pull_frame it inner I HI fuel outer so si pos Hl Hi) as H1.
  destruct (pull it fuel (outer ++ inner) (so ++ si) pos) as [[r ss'] pos'].
  simpl in H1. destruct H1 as (so1 & si1 & -> & Hl1 & Hi1).
  destruct r as [x|]; [|simpl; eauto].
  destruct (IH fuel outer so1 si1 pos' ltac:(congruence) Hi1) as (si2 & H2).
  destruct (drain it n fuel (outer ++ inner) (so1 ++ si1) pos') as [[l p] d].
  simpl in *. eauto.
Qed.

(** ** A [take n] behind one-shot stages: the input is advanced at most [n]
       times, whatever the iterator, the later stages, the demands, the fuel *)
Definition take_inv (n : nat) (ss : list sst) (pos : nat) : Prop :=
  pos <= n /\ exists c ssu, ss = SsCount c :: ssu /\ (c < n -> pos <= c).

Lemma take_inv_pull : forall it n up, forallb oneshot up = true ->
  forall fuel ss pos, take_inv n ss pos ->
    take_inv n (snd (fst (pull it fuel (StTake n :: up) ss pos)))
               (snd (pull it fuel (StTake n :: up) ss pos)).
Proof.
  intros it n up Ho fuel ss pos (Hn & c & ssu & -> & Hc).
  destruct fuel as [|f]; simpl pull.
  { simpl. split; eauto. }
  destruct (n <=? c) eqn:E.
  { simpl. split; eauto. }
  apply Nat.leb_gt in E.
  pose proof (pull_le1 it f up ssu pos Ho) as H1.
  destruct (pull it f up ssu pos) as [[r ss'] pos']. simpl in H1.
  destruct r as [x|]; simpl.
  - split; [lia|]. exists (S c), ss'. split; [reflexivity|]. lia.
  - split; [lia|]. exists n, ss'. split; [reflexivity|]. lia.
Qed.

Theorem run_pipe_take_bound : forall p1 n p2 xs inf demands fuel,
  forallb oneshot p1 = true ->
  snd (fst (run_pipe (p1 ++ StTake n :: p2) xs inf demands fuel)) <= n.
Proof.
  intros p1 n p2 xs inf demands fuel Ho. unfold run_pipe.
  rewrite map_app. simpl map. rewrite !rev_app_distr. simpl rev. rewrite <- !app_assoc.
  simpl app.
  destruct (drain_frame (iter_nat xs inf) (StTake n :: rev p1) (take_inv n)) with
    (n := demands) (fuel := fuel) (outer := rev p2) (so := rev (map init_sst p2))
    (si := SsCount 0 :: rev (map init_sst p1)) (pos := 0) as (si' & Hn & _).
  - apply take_inv_pull. rewrite forallb_forall in *. intros s Hs. apply Ho.
    apply in_rev. exact Hs.
  - rewrite !rev_length, map_length. reflexivity.
  - split; [lia|]. eexists _, _. split; [reflexivity|]. lia.
  - exact Hn.
Qed.
Print Assumptions run_pipe_take_bound.

(** ** The unbounded-input corollary for pipelines cut by such a [take] *)
Theorem run_pipe_take_unbounded : forall p1 n p2 xs base k demands fuel,
  forallb oneshot p1 = true -> n <= length xs + k ->
  let p := p1 ++ StTake n :: p2 in
  let xs' := xs ++ seq base k in
  S (length (sem p xs')) <= demands -> fuel_bound p xs' <= fuel ->
  exists pos, run_pipe p xs (Some base) demands fuel = (sem p xs', pos, true) /\ pos <= n.
Proof.
  intros p1 n p2 xs base k demands fuel Ho Hk p xs' HD HF.
  pose proof (run_pipe_take_bound p1 n p2 xs' None demands fuel Ho) as Hb.
  fold p in Hb.
  rewrite run_pipe_prefix_agree with (k := k); fold xs'; [|lia].
  destruct (run_pipe_correct_explicit p xs' demands fuel HD HF) as (pos & E & _).
  rewrite E in *. simpl in Hb. eauto.
Qed.
Print Assumptions run_pipe_take_unbounded.
