(** * Inv_skip: the master invariant of skip, over every reachable configuration *)
From CB Require Import ProofLib Spec.

Set Implicit Arguments.

(** like [fin] of ProofLib, but also rewrites the new component state [Hc] and
    the new trace [Ht] *)
Ltac fint Hc Hm Hs Hd Ht :=
  constructor; rewrite ?Hc, ?Hm, ?Hs, ?Hd, ?Ht, ?data_in_app; clear Hc; cbn;
  rewrite ?add_viols_eq; cbn; rewrite ?app_nil_r;
  unfold due_on_error; repeat (rw_st; cbn; rewrite ?Nat.eqb_refl; cbn); crush.

Lemma skipn_snoc A n (l : list A) x :
  skipn n (l ++ [x]) = skipn n l ++ (if length l <? n then [] else [x]).
Proof.
  revert n. induction l as [|y l IH]; intros [|n]; cbn; try reflexivity.
  - now destruct n.
  - rewrite IH. reflexivity.
Qed.

Section SkipInv.
  Variable max : nat.
  Variable p : mparams.
  Hypothesis Hns : nsinks p = 1.
  Hypothesis Hresub : resub p = false.
  Hypothesis Hnonest : no_nest p = false.
  Hypothesis Hc14 : c14 p = false.
  Let o := skip_op max.
  Notation gs := g_std.

  Record Inv (c : cfg o) : Prop := {
    i_viols : viols (ms c) = [];
    i_dead : dead c = false;
    i_pair : paired (sk (ms c) 0) (us (ms c) 0);
    i_subd : subd (ms c) 0 = false -> us (ms c) 0 = UNone;
    i_due : forall s, err_due (ms c) s = None;
    i_ports : forall i, In i (ports (ms c)) -> i = 0;
    i_sk_other : forall s, s <> 0 -> sk (ms c) s = SNone;
    i_us_other : forall i, i <> 0 -> us (ms c) i = UNone;
    i_task : forall s, task (ms c) s = false;
    (* the talkback cell is set as soon as the upstream has greeted *)
    i_tb : us (ms c) 0 = ULive -> sk_tb (cst c) = true;
    (* no data arrives before the (only) subscription, which resets the counter *)
    i_nodata : subd (ms c) 0 = false -> data_in 0 (trace c) = [];
    (* the counter cell counts the data received so far, up to [max] *)
    i_cnt : sk_skipped (cst c) = Nat.min max (length (data_in 0 (trace c)));
  }.

  Lemma inv0 : Inv (cfg0 o).
  Proof.
    constructor; cbn; auto; try constructor; intros; try tauto; try discriminate.
    now rewrite Nat.min_0_r.
  Qed.

  Lemma inv_sub c s aux : Inv c -> enabled p gs c (MIn (ISub s aux)) = true ->
                          Inv (step p c (MIn (ISub s aux))).
  Proof.
    intros [] He. start_in He Hlive Hdel Hg.
    cbn in He, Hg. rewrite Hns in He. destruct aux; [|discriminate].
    destruct (at_top c) eqn:Htop; cbn in He; try discriminate.
    destruct s; cbn in He; try discriminate.
    apply negb_true_iff in He. specialize (i_subd0 He). specialize (i_nodata0 He).
    cases_pair c Esk Eus; try congruence.
    destruct (step_in p c (ISub 0 0) Hlive Hdel eq_refl) as (Hc & Hs & Hm & Hd).
    pose proof (step_in_trace p c (ISub 0 0) Hlive Hdel eq_refl) as Ht.
    fint Hc Hm Hs Hd Ht.
    rewrite i_nodata0. cbn. now rewrite Nat.min_0_r.
  Qed.

  Lemma inv_up c s u : Inv c -> enabled p gs c (MIn (IUp s u)) = true ->
                       Inv (step p c (MIn (IUp s u))).
  Proof.
    intros [] He. start_in He Hlive Hdel Hg.
    cbn in He. apply andb_prop in He. destruct He as [He Hu].
    apply andb_prop in He. destruct He as [Htop Hsk].
    destruct s as [|s]; [|rewrite i_sk_other0 in Hsk by lia; discriminate].
    cases_pair c Esk Eus; try discriminate.
    pose proof (i_tb0 eq_refl) as Htb.
    assert (Hh : handle o (IUp 0 u) (cst c) = (cst c, [], ACall (CUp 0 u) FDone)).
    { cbn. rewrite Htb. reflexivity. }
    destruct (step_in p c (IUp 0 u) Hlive Hdel Hh) as (Hc & Hs & Hm & Hd).
    pose proof (step_in_trace p c (IUp 0 u) Hlive Hdel Hh) as Ht.
    destruct u as [|e|]; fint Hc Hm Hs Hd Ht.
  Qed.

  Lemma inv_dn c i d : Inv c -> enabled p gs c (MIn (IDn i d)) = true ->
                       Inv (step p c (MIn (IDn i d))).
  Proof.
    intros [] He. start_in He Hlive Hdel Hg.
    cbn in He. apply andb_prop in He. destruct He as [Htop He].
    destruct i as [|i].
    2: { rewrite i_us_other0 in He by lia. destruct d; cbn in He; discriminate. }
    cases_pair c Esk Eus; destruct d as [|v|e|]; cbn in He; try discriminate.
    2: { (* Data: dropped and re-requested, or forwarded *)
      pose proof (i_tb0 eq_refl) as Htb.
      destruct (sk_skipped (cst c) <? max) eqn:Elt.
      - assert (Hh : handle o (IDn 0 (DD v)) (cst c) =
                     ({| sk_skipped := S (sk_skipped (cst c)); sk_tb := sk_tb (cst c) |}, [],
                      ACall (CUp 0 UP) FDone)).
        { cbn -[Nat.ltb]. rewrite Elt, Htb. reflexivity. }
        destruct (step_in p c (IDn 0 (DD v)) Hlive Hdel Hh) as (Hc & Hs & Hm & Hd).
        pose proof (step_in_trace p c (IDn 0 (DD v)) Hlive Hdel Hh) as Ht.
        fint Hc Hm Hs Hd Ht.
        rewrite app_length. cbn. apply Nat.ltb_lt in Elt. lia.
      - assert (Hh : handle o (IDn 0 (DD v)) (cst c) = (cst c, [], ACall (CDn 0 (DD v)) FDone)).
        { cbn -[Nat.ltb]. rewrite Elt. reflexivity. }
        destruct (step_in p c (IDn 0 (DD v)) Hlive Hdel Hh) as (Hc & Hs & Hm & Hd).
        pose proof (step_in_trace p c (IDn 0 (DD v)) Hlive Hdel Hh) as Ht.
        fint Hc Hm Hs Hd Ht.
        rewrite app_length. cbn. apply Nat.ltb_ge in Elt. lia. }
    all: destruct (step_in p c (IDn 0 _) Hlive Hdel eq_refl) as (Hc & Hs & Hm & Hd).
    all: pose proof (step_in_trace p c (IDn 0 _) Hlive Hdel eq_refl) as Ht.
    all: fint Hc Hm Hs Hd Ht.
  Qed.

  Lemma inv_ret c : Inv c -> enabled p gs c MRet = true -> Inv (step p c MRet).
  Proof.
    intros [] He.
    pose proof (enabled_live _ _ _ _ He) as Hlive.
    destruct (enabled_ret_stack _ _ _ He) as (k & cl & rest & Hst).
    destruct (step_ret p c Hlive Hst eq_refl) as (Hc & Hs & Hm & Hd).
    pose proof (step_ret_trace p c Hlive Hst eq_refl) as Ht.
    assert (Hq : forall m', sk m' = sk (ms c) -> us m' = us (ms c) -> ports m' = ports (ms c) ->
                            err_due m' = err_due (ms c) -> check_quiescent p m' = []).
    { intros m' E1 E2 E3 E4. apply quiescent_nil.
      - intros _ Hov i Hi. rewrite E3 in Hi. rewrite (i_ports0 i Hi), E2.
        rewrite E1 in Hov. inversion i_pair0 as [A B|A B|A B|A B|A B];
          rewrite <- A in Hov; try discriminate; reflexivity.
      - intros s. now rewrite E4.
      - rewrite Hc14. discriminate. }
    constructor; rewrite ?Hc, ?Hm, ?Hs, ?Hd, ?Ht, ?data_in_app; cbn; rewrite ?app_nil_r;
      destruct (tl (cstack (ms c))); rewrite ?add_viols_eq; cbn; rewrite ?Hq; auto.
  Qed.

  Lemma inv_step c m : Inv c -> enabled p gs c m = true -> Inv (step p c m).
  Proof.
    intros HI He. destruct m as [[s aux|s u|i d|s]|].
    - now apply inv_sub.
    - now apply inv_up.
    - now apply inv_dn.
    - exfalso. destruct HI. unfold enabled in He.
      repeat (apply andb_prop in He; destruct He as [? He]).
      cbn in He. now rewrite i_task0 in He.
    - now apply inv_ret.
  Qed.

  Theorem inv_reach c : reach p gs c -> Inv c.
  Proof. induction 1; [apply inv0 | now apply inv_step]. Qed.

  (** C07 for skip: at every control point the data delivered so far is the
      data received so far without its first [max] items *)
  Theorem skip_functional_sec (c : cfg o) :
    reach p gs c -> data_out 0 (trace c) = skipn max (data_in 0 (trace c)).
  Proof.
    induction 1 as [|c m Hr IH He]; [now rewrite skipn_nil|].
    pose proof (inv_reach Hr) as HI.
    pose proof (enabled_live _ _ _ _ He) as Hlive.
    destruct m as [inp|].
    - pose proof (enabled_deliverable _ _ _ _ He) as Hdel.
      destruct (handle o inp (cst c)) as [[s' os] a] eqn:Hh.
      rewrite (step_in_trace p c inp Hlive Hdel Hh), data_out_app, data_in_app.
      assert (Hlt : (sk_skipped (cst c) <? max) = (length (data_in 0 (trace c)) <? max)).
      { rewrite (i_cnt HI).
        destruct (Nat.ltb_spec (length (data_in 0 (trace c))) max) as [L|L].
        - apply Nat.ltb_lt. lia.
        - apply Nat.ltb_ge. lia. }
      destruct inp as [[|s] aux|[|s] u|[|i] [|v|e|]|s]; cbn -[Nat.ltb] in Hh;
        try destruct (sk_skipped (cst c) <? max) eqn:Elt; try destruct (sk_tb (cst c));
        inversion Hh; subst; cbn; rewrite ?app_nil_r; try exact IH.
      all: rewrite skipn_snoc, <- Hlt, IH; cbn; now rewrite ?app_nil_r.
    - destruct (enabled_ret_stack _ _ _ He) as (k & cl & rest & Hst).
      destruct (resume o k (cst c)) as [[s' os] a] eqn:Hres.
      rewrite (step_ret_trace p c Hlive Hst Hres), data_out_app, data_in_app.
      cbn in Hres. inversion Hres; subst. cbn. now rewrite !app_nil_r.
  Qed.
End SkipInv.

(** no protocol violation and no panic in any reachable configuration *)
Theorem skip_safe (max : nat) p :
  nsinks p = 1 -> resub p = false -> no_nest p = false -> c14 p = false ->
  forall c : cfg (skip_op max), reach p g_std c -> viols (ms c) = [] /\ dead c = false.
Proof.
  intros H1 H2 H3 H4 c Hr. destruct (inv_reach H1 H2 H3 H4 Hr). split; assumption.
Qed.
Print Assumptions skip_safe.

(** sink 0 and upstream 0 move in lock-step *)
Theorem skip_paired (max : nat) p :
  nsinks p = 1 -> resub p = false -> no_nest p = false -> c14 p = false ->
  forall c : cfg (skip_op max), reach p g_std c -> paired (sk (ms c) 0) (us (ms c) 0).
Proof.
  intros H1 H2 H3 H4 c Hr. destruct (inv_reach H1 H2 H3 H4 Hr). assumption.
Qed.
Print Assumptions skip_paired.

(** C07 *)
Theorem skip_functional (max : nat) p :
  nsinks p = 1 -> resub p = false -> no_nest p = false -> c14 p = false ->
  forall c : cfg (skip_op max),
    reach p g_std c -> data_out 0 (trace c) = skipn max (data_in 0 (trace c)).
Proof.
  intros H1 H2 H3 H4 c Hr. exact (skip_functional_sec H1 H2 H3 H4 Hr).
Qed.
Print Assumptions skip_functional.
