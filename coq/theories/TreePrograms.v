(** * TreePrograms: wirings given by a finite list of edges, and running a tree net.

    [wiring_of es] is the wiring whose edges are the triples (child, parent, port of the parent) of
    [es]; [edges_okb] is a boolean check of what Tree.v's theorem needs ([wiring_ok]): every child has
    a smaller index than its parent, no node has two parents, no port has two children. *)

From CB Require Import ProofLib Spec Chain Tree.

Set Implicit Arguments.

Definition edge : Type := (nat * nat * nat)%type.   (* child, parent, port *)

Definition e_child (e : edge) : nat := fst (fst e).
Definition e_parent (e : edge) : nat := snd (fst e).
Definition e_port (e : edge) : nat := snd e.

Definition wiring_of (es : list edge) : wiring :=
  {| par := fun c => option_map (fun e => (e_parent e, e_port e))
                                (find (fun e => e_child e =? c) es);
     kid := fun P k => option_map e_child
                                  (find (fun e => (e_parent e =? P) && (e_port e =? k)) es) |}.

Fixpoint nodupb (A : Type) (eqb : A -> A -> bool) (l : list A) : bool :=
  match l with
  | [] => true
  | x :: l' => negb (existsb (eqb x) l') && nodupb eqb l'
  end.

Definition pp_eqb (a b : nat * nat) : bool := (fst a =? fst b) && (snd a =? snd b).

Definition edges_okb (es : list edge) (len : nat) : bool :=
  forallb (fun e => (e_child e <? e_parent e) && (e_parent e <? len)) es &&
  nodupb Nat.eqb (map e_child es) &&
  nodupb pp_eqb (map (fun e => (e_parent e, e_port e)) es).

Lemma nodupb_find A B (eqb : B -> B -> bool) (key : A -> B) (l : list A) x :
  (forall a b, eqb a b = true <-> a = b) ->
  nodupb eqb (map key l) = true -> In x l ->
  find (fun e => eqb (key e) (key x)) l = Some x.
Proof.
  intros Heq. induction l as [|y l IH]; intros Hnd Hin; [contradiction|].
  cbn in Hnd. apply andb_prop in Hnd. destruct Hnd as [Hy Hnd]. cbn [find].
  destruct Hin as [->|Hin].
  - assert (E : eqb (key x) (key x) = true) by now apply Heq. now rewrite E.
  - destruct (eqb (key y) (key x)) eqn:E.
    + exfalso. apply Heq in E. apply negb_true_iff in Hy.
      assert (Hex : existsb (eqb (key y)) (map key l) = true).
      { apply existsb_exists. exists (key x). split; [now apply in_map|]. apply Heq. exact E. }
      congruence.
    + now apply IH.
Qed.

Lemma find_in A (f : A -> bool) l x : find f l = Some x -> In x l /\ f x = true.
Proof. intros H. apply find_some in H. exact H. Qed.

Lemma pp_eqb_eq a b : pp_eqb a b = true <-> a = b.
Proof.
  destruct a as [a1 a2], b as [b1 b2]. unfold pp_eqb. cbn. rewrite andb_true_iff, !Nat.eqb_eq.
  split; [intros [-> ->]; reflexivity | intros E; inversion E; auto].
Qed.

Lemma edges_ok_sound es len : edges_okb es len = true -> wiring_ok (wiring_of es) len.
Proof.
  unfold edges_okb. intros H. apply andb_prop in H. destruct H as [H H3].
  apply andb_prop in H. destruct H as [H1 H2].
  assert (Hpar : forall c P k, par (wiring_of es) c = Some (P, k) <-> In (c, P, k) es).
  { intros c P k. cbn. split.
    - destruct (find (fun e => e_child e =? c) es) as [[[c' P'] k']|] eqn:E; cbn; [|discriminate].
      intros Hs. inversion Hs; subst. destruct (find_in _ _ E) as [Hin Hc].
      cbn in Hc. apply Nat.eqb_eq in Hc. now subst.
    - intros Hin.
      pose proof (@nodupb_find edge nat Nat.eqb e_child es (c, P, k) Nat.eqb_eq H2 Hin) as Hf.
      cbn in Hf. rewrite Hf. reflexivity. }
  assert (Hkid : forall c P k, kid (wiring_of es) P k = Some c <-> In (c, P, k) es).
  { intros c P k. cbn. split.
    - destruct (find (fun e => (e_parent e =? P) && (e_port e =? k)) es) as [[[c' P'] k']|] eqn:E;
        cbn; [|discriminate].
      intros Hs. inversion Hs; subst. destruct (find_in _ _ E) as [Hin Hc].
      cbn in Hc. apply andb_prop in Hc. destruct Hc as [Ha Hb].
      apply Nat.eqb_eq in Ha, Hb. now subst.
    - intros Hin.
      pose proof (@nodupb_find edge (nat * nat) pp_eqb (fun e => (e_parent e, e_port e)) es (c, P, k)
                    pp_eqb_eq H3 Hin) as Hf.
      cbn in Hf. unfold pp_eqb in Hf. cbn in Hf. rewrite Hf. reflexivity. }
  split.
  - intros c P k. rewrite Hpar, Hkid. reflexivity.
  - intros c P k Hp. apply Hpar in Hp. rewrite forallb_forall in H1. specialize (H1 _ Hp).
    cbn in H1. apply andb_prop in H1. destruct H1 as [Ha Hb].
    apply Nat.ltb_lt in Ha, Hb. split; assumption.
Qed.

(** ** Running a tree net *)

Fixpoint tsettle (w : wiring) (fuel : nat) (N : tnet) : tnet :=
  match fuel with
  | 0 => N
  | S f => match tpend N with PIdle => N | _ => tsettle w f (tnet_step w N NTau) end
  end.

Definition tnet_run (w : wiring) (N : tnet) (mvs : list nmove) : tnet := fold_left (tnet_step w) mvs N.

Fixpoint tnet_all_enabled (w : wiring) (N : tnet) (mvs : list nmove) : bool :=
  match mvs with
  | [] => true
  | mv :: mvs' => tnet_enabled w N mv && tnet_all_enabled w (tnet_step w N mv) mvs'
  end.

Lemma tnet_run_reach w N0 N mvs :
  tnet_reach w N0 N -> tnet_all_enabled w N mvs = true -> tnet_reach w N0 (tnet_run w N mvs).
Proof.
  revert N. induction mvs as [|mv mvs IH]; intros N Hr He; cbn in *; [exact Hr|].
  apply andb_prop in He. destruct He as [H1 H2]. apply IH; [now apply treachS | exact H2].
Qed.

(** ** Programs: trees of the crate's sources and operators *)

From CB Require Import MonitorSound Results Programs Sync_unary Sync_nary.
From CB Require Import Inv_map Inv_filter Inv_scan Inv_skip Inv_take Inv_from_iter Inv_for_each
  Inv_interval Inv_merge Inv_concat.

Inductive tnode : Type :=
| TSrc (it : nat -> option val)     (* from_iter *)
| TTick                             (* interval *)
| TStage (s : ustage)               (* map, filter, scan, take, skip *)
| TMerge (n : nat)                  (* merge! of n members *)
| TConcat (n : nat)                 (* concat! of n members *)
| TSink.                            (* for_each: only at a root *)

(** every node runs in the standard regime with upstreams that greet inside the subscribing call *)
Definition p_tree (nonest : bool) : mparams :=
  {| nsinks := 1; late_ok := false; pullable := false; one_pull := false; resub := false;
     no_nest := nonest; c14 := false |}.

Definition tsig (t : tnode) : sig3 :=
  match t with
  | TSrc it => (from_iter_op it, p_tree true, g_std)
  | TTick => (interval_op, p_tree false, g_std)
  | TStage s => (ustage_op s, p_tree false, g_std)
  | TMerge n => (merge_op n, p_tree false, g_std)
  | TConcat n => (concat_op n, p_tree false, g_std)
  | TSink => (for_each_op, p_tree false, g_std)
  end.

Definition tnode_ok (t : tnode) : Prop :=
  match t with
  | TStage s => ustage_ok s
  | TMerge n => 1 <= n
  | _ => True
  end.

(** a more permissive guard allows more runs *)
Lemma reach_mono_guard p o (g1 g2 : mstate -> input -> bool) (c : cfg o) :
  (forall m i, g1 m i = true -> g2 m i = true) -> reach p g1 c -> reach p g2 c.
Proof.
  intros Hg. induction 1 as [|c m Hr IH He]; [constructor|].
  apply reachS; [exact IH|]. unfold enabled in *.
  destruct (dead c); [discriminate|]. cbn [negb andb] in *.
  destruct m as [inp|]; [|exact He].
  apply andb_prop in He. destruct He as [H1 H2]. rewrite (Hg _ _ H1). exact H2.
Qed.

Lemma tsig_safe t : tnode_ok t -> safe_sig (tsig t).
Proof.
  intros Hok. destruct t as [it| |s|n|n|]; cbn [tsig]; intros c Hr.
  - now apply (@from_iter_safe it (p_tree true)).
  - apply (@interval_safe (p_tree false)); try reflexivity.
    apply (reach_mono_guard (g1 := g_std)); [auto | exact Hr].
  - destruct s as [f|cd|r seed|k|k]; cbn in *.
    + now apply (@map_safe f (p_tree false)).
    + now apply (@filter_safe cd (p_tree false)).
    + now apply (@scan_safe r seed (p_tree false)).
    + now apply (@take_safe (p_tree false) eq_refl eq_refl eq_refl eq_refl k Hok).
    + now apply (@skip_safe k (p_tree false)).
  - now apply (@merge_safe_sync (p_tree false) eq_refl eq_refl eq_refl eq_refl eq_refl n Hok).
  - now apply (@concat_safe n (p_tree false)).
  - now apply (@for_each_safe (p_tree false)).
Qed.

Lemma tsig_regime t : tregime_ok (tsig t).
Proof. destruct t; cbn; repeat split; auto. Qed.

Lemma tsig_sync t : tnode_ok t -> t <> TSink -> greets_sync_sig (tsig t).
Proof.
  intros Hok Hns. destruct t as [it| |s|n|n|]; cbn [tsig].
  - now apply from_iter_greets_sync_sig.
  - intros c Hr. apply (@interval_greets_sync (p_tree false)); try reflexivity.
    apply (reach_mono_guard (g1 := g_std)); [auto | exact Hr].
  - destruct s as [f|cd|r seed|k|k]; cbn in *.
    + now apply map_greets_sync_sig.
    + now apply filter_greets_sync_sig.
    + now apply scan_greets_sync_sig.
    + now apply (@take_greets_sync_sig (p_tree false) eq_refl eq_refl eq_refl eq_refl eq_refl k Hok).
    + now apply skip_greets_sync_sig.
  - now apply merge_greets_sync_sig.
  - now apply concat_greets_sync_sig.
  - contradiction.
Qed.

Definition prog_net (ts : list tnode) : tnet := tnet0 (map mk0 (map tsig ts)).

(** C01-C04, C17 for every program: every tree of from_iter / interval leaves, map / filter / scan /
    take / skip / merge! / concat! nodes (and for_each at roots), wired child to parent port, in
    every reachable state, whatever the external peers do: every component is in a configuration
    reachable in its own conformant environment, has violated nothing, has not panicked, and its
    trace obeys the protocol. *)
Theorem program_tree_sound (ts : list tnode) (es : list edge) (N : tnet) :
  Forall tnode_ok ts ->
  edges_okb es (length ts) = true ->
  (forall e, In e es -> nth_error ts (e_child e) <> Some TSink) ->
  tnet_reach (wiring_of es) (prog_net ts) N ->
  forall i n, nth_error (tnodes N) i = Some n ->
    nth_error (map tsig ts) i = Some (nsig n) /\
    nreach n /\ viols (nms n) = [] /\ dead (ncfg n) = false /\ protocol_ok (ntrace n).
Proof.
  intros Hok Hes Hsink Hr i n Hn.
  set (sigs := map tsig ts).
  assert (Hlen : length sigs = length ts) by (unfold sigs; now rewrite map_length).
  assert (Hw : wiring_ok (wiring_of es) (length sigs)) by (rewrite Hlen; now apply edges_ok_sound).
  assert (Hsafe : forall s, In s sigs -> safe_sig s).
  { intros s Hs. apply in_map_iff in Hs. destruct Hs as (t & <- & Ht).
    apply tsig_safe. rewrite Forall_forall in Hok. now apply Hok. }
  assert (Hreg : forall s, In s sigs -> tregime_ok s).
  { intros s Hs. apply in_map_iff in Hs. destruct Hs as (t & <- & _). apply tsig_regime. }
  assert (Hsync : forall c P k sc sp, par (wiring_of es) c = Some (P, k) ->
            nth_error sigs c = Some sc -> nth_error sigs P = Some sp ->
            late_ok (snd (fst sp)) = true \/ greets_sync_sig sc).
  { intros c P k sc sp Hp Hc _. right.
    unfold sigs in Hc. rewrite nth_error_map in Hc.
    destruct (nth_error ts c) as [t|] eqn:Et; [|discriminate]. cbn in Hc. inversion Hc; subst sc.
    apply tsig_sync.
    - rewrite Forall_forall in Hok. apply Hok. exact (nth_error_In _ _ Et).
    - intros ->. cbn in Hp.
      destruct (find (fun e => e_child e =? c) es) as [e|] eqn:Ef; [|discriminate].
      destruct (find_in _ _ Ef) as [Hin Hc']. apply Nat.eqb_eq in Hc'.
      apply (Hsink e Hin). now rewrite Hc'. }
  assert (Hs : map nsig (map mk0 sigs) = sigs).
  { rewrite map_map. rewrite <- (map_id sigs) at 2. apply map_ext. apply nsig_mk0. }
  assert (Hi : forall m, In m (map mk0 sigs) -> ninit m).
  { intros m Hm. apply in_map_iff in Hm. destruct Hm as (s & <- & _). apply ninit_mk0. }
  destruct (@tree_sound (wiring_of es) sigs Hw Hsafe Hreg Hsync (map mk0 sigs) N Hs Hi Hr i n Hn)
    as (Hsig & Hre & Hv & Hd).
  split; [exact Hsig|]. split; [exact Hre|]. split; [exact Hv|]. split; [exact Hd|].
  assert (Hrs : resub (npar n) = false).
  { pose proof (Hreg _ (nth_error_In _ _ Hsig)) as H. unfold tregime_ok, nsig in H. tauto. }
  unfold ntrace. eapply protocol_of_safe; [exact Hrs | exact Hre | exact Hv].
Qed.
Print Assumptions program_tree_sound.

(** ** Non-vacuity: concat!(take(1)(from_iter [1;2]), merge!(from_iter [3], map (x10) (from_iter [4])))
    under a scripted external sink *)

Definition itl (l : list nat) (k : nat) : option val := option_map VN (nth_error l k).

Definition ex_ts : list tnode :=
  [TSrc (itl [1; 2]); TStage (UTake 1); TSrc (itl [3]); TSrc (itl [4]);
   TStage (UMap (fun v => match v with VN x => VN (10 * x) | _ => v end)); TMerge 2; TConcat 2].
Definition ex_es : list edge := [(0, 1, 0); (3, 4, 0); (2, 5, 0); (4, 5, 1); (1, 6, 0); (5, 6, 1)].

(** the internal transfers an environment move causes, spelled out *)
Fixpoint taus_until_idle (w : wiring) (fuel : nat) (N : tnet) : list nmove :=
  match fuel with
  | 0 => []
  | S f => match tpend N with
           | PIdle => []
           | _ => NTau :: taus_until_idle w f (tnet_step w N NTau)
           end
  end.

Fixpoint expand_moves (w : wiring) (root fuel : nat) (N : tnet) (ms : list move) : list nmove :=
  match ms with
  | [] => []
  | m :: ms' =>
      if tnet_enabled w N (NEnv root m) then
        let N1 := tnet_step w N (NEnv root m) in
        let ts := taus_until_idle w fuel N1 in
        NEnv root m :: ts ++ expand_moves w root fuel (tnet_run w N1 ts) ms'
      else expand_moves w root fuel N ms'     (* a move the conformant sink may not make is dropped *)
  end.

Definition ex_sink_moves : list move :=
  [MIn (ISub 0 0); MIn (IUp 0 UP); MRet; MRet; MRet; MIn (IUp 0 UP); MRet; MRet; MRet; MRet; MRet;
   MIn (IUp 0 UP); MRet; MRet; MIn (IUp 0 UP); MRet; MRet; MRet].
Definition ex_nmoves : list nmove := expand_moves (wiring_of ex_es) 6 300 (prog_net ex_ts) ex_sink_moves.

Example ex_tree_runs :
  edges_okb ex_es (length ex_ts) = true /\
  tnet_all_enabled (wiring_of ex_es) (prog_net ex_ts) ex_nmoves = true /\
  let N := tnet_run (wiring_of ex_es) (prog_net ex_ts) ex_nmoves in
  tpend N = PIdle /\ tgst N = [] /\
  option_map (fun n => (data_out 0 (ntrace n), sk (nms n) 0)) (nth_error (tnodes N) 6)
  = Some ([VN 1; VN 3; VN 40], SFinished).
Proof. vm_compute. repeat split. Qed.

(** the protocol half alone, as the property files quote it *)
Theorem program_protocol (ts : list tnode) (es : list edge) (N : tnet) :
  Forall tnode_ok ts ->
  edges_okb es (length ts) = true ->
  (forall e, In e es -> nth_error ts (e_child e) <> Some TSink) ->
  tnet_reach (wiring_of es) (prog_net ts) N ->
  forall i n, nth_error (tnodes N) i = Some n -> protocol_ok (ntrace n) /\ dead (ncfg n) = false.
Proof.
  intros Hok Hes Hs Hr i n Hn.
  destruct (@program_tree_sound ts es N Hok Hes Hs Hr i n Hn) as (_ & _ & _ & Hd & Hp). split; assumption.
Qed.
Print Assumptions program_protocol.
