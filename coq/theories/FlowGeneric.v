(** * FlowGeneric: facts about the message counts of a trace that hold of EVERY component.

    For an arbitrary operator model [o], parameters [p] and guard [g]:

    - (G1) [greet_once], [end_once], [dn_out_len], [greeted_hout]: a safe component greets its sink
      at most once, ends it at most once, and the monitor's [sk _ 0] tells which of the two happened
      ([sk_counts]);
    - (G2) [sub_once], [stop_once], [up_out_len]: the same towards upstream 0 ([us_counts]);
    - (G3) [ret_le_call]: returns + pending calls = calls;
    - (G4) [stack_sat], [calls_port0], [no_up], [no_dn]: static facts about the calls of [handle]/[resume]
      carry over to the stack and the trace;
    - (G5) [credit_exact]: under [one_pull] the monitor's credit is exactly greetings + data - Pulls;
    - (G6) [moves_step]: an enabled move appends exactly one move event and at most one call.

    G1/G2 need the safety of the component (no violation, no panic in any reachable configuration);
    G3-G6 hold of every model and need no hypothesis beyond the one named. *)

From CB Require Import ProofLib Spec Flow Chain.

Set Implicit Arguments.

(** [upd] at concrete ports computes under [cbn]; this closes what is left either way *)
Ltac updt := cbn; rewrite ?upd_same; rewrite ?upd_other by discriminate; auto; try lia.

(** ** Lists of messages: every message is of exactly one kind *)

Lemma dmsg_len (l : list dmsg) : length l = cnt is_hs l + cnt is_data l + cnt is_end l.
Proof.
  induction l as [|d l IH]; [reflexivity|].
  rewrite !cnt_cons. destruct d; cbn [length is_hs is_data is_end]; lia.
Qed.

Lemma umsg_len (l : list (option umsg)) :
  length l = cnt is_sub l + cnt is_pull l + cnt is_stop l.
Proof.
  induction l as [|x l IH]; [reflexivity|].
  rewrite !cnt_cons. destruct x as [[| |]|]; cbn [length is_sub is_pull is_stop]; lia.
Qed.

(** ** What one step appends to the four sequences *)

Lemma cnt_obs (f : event -> bool) os : (forall ob, f (EObs ob) = false) -> cnt f (map EObs os) = 0.
Proof.
  intros Hf. induction os as [|ob os IH]; [reflexivity|].
  cbn [map]. rewrite cnt_cons, Hf, IH. reflexivity.
Qed.

Lemma cnt_step (f : event -> bool) tr e os fin :
  (forall ob, f (EObs ob) = false) ->
  cnt f (tr ++ e :: map EObs os ++ [fin]) = cnt f tr + cnt f [e] + cnt f [fin].
Proof.
  intros Hf. change (e :: map EObs os ++ [fin]) with ([e] ++ map EObs os ++ [fin]).
  rewrite !cnt_app, (cnt_obs f os Hf). lia.
Qed.

Lemma n_in_step tr e os fin :
  n_in (tr ++ e :: map EObs os ++ [fin]) = n_in tr + n_in [e] + n_in [fin].
Proof. apply cnt_step. reflexivity. Qed.
Lemma n_ret_step tr e os fin :
  n_ret (tr ++ e :: map EObs os ++ [fin]) = n_ret tr + n_ret [e] + n_ret [fin].
Proof. apply cnt_step. reflexivity. Qed.
Lemma n_call_step tr e os fin :
  n_call (tr ++ e :: map EObs os ++ [fin]) = n_call tr + n_call [e] + n_call [fin].
Proof. apply cnt_step. reflexivity. Qed.

Lemma dn_out_step tr m os fin :
  dn_out (tr ++ move_event m :: map EObs os ++ [fin]) = dn_out tr ++ dn_out [fin].
Proof.
  change (move_event m :: map EObs os ++ [fin]) with ([move_event m] ++ map EObs os ++ [fin]).
  rewrite !dn_out_app, dn_out_obs. destruct m; reflexivity.
Qed.

Lemma up_out_step tr m os fin :
  up_out (tr ++ move_event m :: map EObs os ++ [fin]) = up_out tr ++ up_out [fin].
Proof.
  change (move_event m :: map EObs os ++ [fin]) with ([move_event m] ++ map EObs os ++ [fin]).
  rewrite !up_out_app, up_out_obs. destruct m; reflexivity.
Qed.

(** ** The monitor fields the counts are related to *)

Definition same_flow (a b : mstate) : Prop :=
  sk a = sk b /\ us a = us b /\ credit a = credit b /\ refused a = refused b.

Lemma same_flow_refl a : same_flow a a.
Proof. repeat split. Qed.

Lemma same_flow_trans a b c : same_flow a b -> same_flow b c -> same_flow a c.
Proof. unfold same_flow. intuition congruence. Qed.

Lemma obs_flow p os m0 : same_flow (fold_left (mon_event p) (map EObs os) m0) m0.
Proof.
  revert m0. induction os as [|ob os IH]; intros m0; cbn; [apply same_flow_refl|].
  eapply same_flow_trans; [apply IH|].
  destruct ob as [r|v|s [|]|s]; cbn; apply same_flow_refl || (repeat split).
Qed.

Lemma callupd_viols m cl : viols (mon_call_upd m cl) = viols m.
Proof.
  destruct cl as [i|i [| |]|s [|v|e|]]; cbn; try reflexivity.
  - destruct (sk m s); reflexivity.
  - destruct (sk m s), (err_due m s) as [e'|]; try destruct (Nat.eqb e e'); reflexivity.
  - destruct (sk m s); reflexivity.
Qed.

(** what an activation does to those fields: observations and the end of the activation leave
    them alone, a call updates them by [mon_call_upd] and is checked by [check_call] *)
Lemma settle_flow p o (m0 : mstate) os (a : act (Fr o)) :
  exists m1, same_flow m1 m0 /\
    match a with
    | ACall cl _ =>
        same_flow (ms_settle p o m0 os a) (mon_call_upd m1 cl) /\
        (viols (ms_settle p o m0 os a) = [] -> check_call p m1 cl = [])
    | _ => same_flow (ms_settle p o m0 os a) m1
    end.
Proof.
  unfold ms_settle.
  set (m1 := fold_left (mon_event p) (map EObs os) m0).
  exists m1. split; [apply obs_flow|].
  destruct a as [| |cl k]; cbn [mon_event].
  - destruct (cstack m1); [|apply same_flow_refl].
    rewrite add_viols_eq. repeat split.
  - repeat split.
  - split.
    + rewrite add_viols_eq. repeat split.
    + intros Hv. now apply viols_add_nil in Hv.
Qed.

(** ** Calls: what [check_call = []] says about port 0, and what [mon_call_upd] does there *)

Definition sk_call_ok (k k' : sks) (cl : call) : Prop :=
  match cl with
  | CDn 0 DH => k = SNone /\ k' = SLive
  | CDn 0 (DD _) => k = SLive /\ k' = SLive
  | CDn 0 _ => k = SLive /\ k' = SFinished
  | _ => k' = k
  end.

Lemma call_sk p m cl :
  check_call p m cl = [] -> refused m 0 = None ->
  sk_call_ok (sk m 0) (sk (mon_call_upd m cl) 0) cl.
Proof.
  intros Hc Hr.
  destruct cl as [i|i [| |]|[|s] [|v|e|]]; cbn in *; try reflexivity.
  - destruct (sk m 0); try discriminate. cbn. updt.
  - destruct (sk m 0); try discriminate. now split.
  - rewrite Hr in Hc. destruct (sk m 0) eqn:E; try discriminate. split; [reflexivity|].
    destruct (err_due m 0) as [e'|]; [destruct (Nat.eqb e e')|]; cbn; updt.
  - destruct (sk m 0) eqn:E; try discriminate. split; [reflexivity|]. cbn. updt.
  - destruct (sk m (S s)); cbn; try reflexivity; updt.
  - destruct (sk m (S s)), (err_due m (S s)) as [e'|]; try destruct (Nat.eqb e e'); cbn;
      try reflexivity; updt.
  - destruct (sk m (S s)); cbn; try reflexivity; updt.
Qed.

Definition us_call_ok (u u' : uss) (cl : call) : Prop :=
  match cl with
  | CSub 0 => u = UNone /\ u' = USubd
  | CUp 0 UP => u = ULive /\ u' = ULive
  | CUp 0 _ => u = ULive /\ u' = UStopped
  | _ => u' = u
  end.

Lemma call_us p m cl :
  resub p = false -> check_call p m cl = [] ->
  us_call_ok (us m 0) (us (mon_call_upd m cl) 0) cl.
Proof.
  intros Hres Hc.
  destruct cl as [[|i]|[|i] [|e|]|s [|v|e|]]; cbn in *; rewrite ?Hres in Hc; cbn in Hc;
    try reflexivity.
  1-4: destruct (us m 0); try discriminate; now split.
  - destruct (sk m s); reflexivity.
  - destruct (sk m s), (err_due m s) as [e'|]; try destruct (Nat.eqb e e'); reflexivity.
  - destruct (sk m s); reflexivity.
Qed.

Lemma call_credit m cl :
  credit (mon_call_upd m cl) 0 = credit m 0 + hout [ECall cl] + dout [ECall cl].
Proof.
  destruct cl as [i|i [| |]|[|s] [|v|e|]]; cbn; try lia.
  all: repeat match goal with
              | |- context [match sk ?m0 ?s with _ => _ end] => destruct (sk m0 s)
              | |- context [match err_due ?m0 ?s with _ => _ end] => destruct (err_due m0 s)
              | |- context [if Nat.eqb ?a ?b then _ else _] => destruct (Nat.eqb a b)
              end; updt.
Qed.

Section Generic.
  Variable p : mparams.
  Variable o : op.
  Variable g : mstate -> input -> bool.

  (** the stack a step leaves below the frame it may push *)
  Definition base (c : cfg o) (m : move) : list (Fr o * call) :=
    match m with MIn _ => stack c | MRet => tl (stack c) end.

  (** everything an enabled step does, without looking into the operator *)
  Lemma step_decomp (c : cfg o) m :
    enabled p g c m = true ->
    exists os a,
      trace (step p c m) = trace c ++ move_event m :: map EObs os ++ [act_event o a] /\
      hd_error (rtrace (step p c m)) = Some (act_event o a) /\
      ms (step p c m) = ms_settle p o (mon_move p (ms c) m) os a /\
      stack (step p c m) = match a with ACall cl k => (k, cl) :: base c m | _ => base c m end /\
      dead (step p c m) = match a with APanic => true | _ => false end /\
      (forall P, calls_sat P o -> match a with ACall cl _ => P cl | _ => True end) /\
      length (base c m) + match m with MRet => 1 | MIn _ => 0 end = length (stack c) /\
      (forall x, In x (base c m) -> In x (stack c)).
  Proof.
    intros He. pose proof (enabled_live _ _ _ _ He) as Hlive.
    destruct m as [i|].
    - pose proof (enabled_deliverable _ _ _ _ He) as Hdel.
      destruct (handle o i (cst c)) as [[s' os] a] eqn:Hh.
      destruct (step_in p c i Hlive Hdel Hh) as (_ & Hs & Hm & Hd).
      exists os, a.
      split; [exact (step_in_trace p c i Hlive Hdel Hh)|].
      split; [rewrite (step_in_rtrace p c i Hlive Hdel Hh); reflexivity|].
      split; [exact Hm|]. split; [exact Hs|]. split; [exact Hd|].
      split; [|split; [cbn; lia | cbn; auto]].
      intros P [H1 _]. destruct a as [| |cl k]; auto. eapply H1. exact Hh.
    - destruct (enabled_ret_stack _ _ _ He) as (k & cl & rest & Hst).
      destruct (resume o k (cst c)) as [[s' os] a] eqn:Hh.
      destruct (step_ret p c Hlive Hst Hh) as (_ & Hs & Hm & Hd).
      exists os, a.
      split; [exact (step_ret_trace p c Hlive Hst Hh)|].
      split; [rewrite (step_ret_rtrace p c Hlive Hst Hh); reflexivity|].
      split; [exact Hm|].
      split; [unfold base; rewrite Hst; exact Hs|]. split; [exact Hd|].
      split; [|split; [unfold base; rewrite Hst; cbn; lia | unfold base; rewrite Hst; cbn; auto]].
      intros P [_ H2]. destruct a as [| |cl' k']; auto. eapply H2. exact Hh.
  Qed.

  (** the same, with the monitor reduced to the flow fields *)
  Lemma flow_step (c : cfg o) m :
    enabled p g c m = true ->
    exists os a m1,
      trace (step p c m) = trace c ++ move_event m :: map EObs os ++ [act_event o a] /\
      same_flow m1 (mon_move p (ms c) m) /\
      dead (step p c m) = match a with APanic => true | _ => false end /\
      match a with
      | ACall cl _ =>
          same_flow (ms (step p c m)) (mon_call_upd m1 cl) /\
          (viols (ms (step p c m)) = [] -> check_call p m1 cl = [])
      | _ => same_flow (ms (step p c m)) m1
      end.
  Proof.
    intros He.
    destruct (step_decomp _ _ He) as (os & a & Htr & _ & Hm & _ & Hd & _).
    destruct (settle_flow p o (mon_move p (ms c) m) os a) as (m1 & H1 & H2).
    exists os, a, m1. rewrite Hm. auto.
  Qed.

  (** *** Moves: what the environment's part of a step does to the flow fields *)

  Lemma move_sk (c : cfg o) m :
    enabled p g c m = true ->
    sk (mon_move p (ms c) m) 0 = sk (ms c) 0 \/
    (sk (ms c) 0 = SLive /\ sk (mon_move p (ms c) m) 0 = SDisposed).
  Proof.
    intros He. destruct m as [i|]; [|left; reflexivity].
    destruct i as [s [|aux]|s [|e|]|j [|v|e|]|t]; cbn; try (left; reflexivity).
    all: destruct s as [|s]; [right | left; updt].
    all: unfold enabled in He; cbn in He.
    all: destruct (sk (ms c) 0); rewrite ?andb_false_r in He; try discriminate.
    all: split; [reflexivity | updt].
  Qed.

  Lemma move_us (c : cfg o) m :
    enabled p g c m = true ->
    us (mon_move p (ms c) m) 0 = us (ms c) 0 \/
    (us (ms c) 0 = USubd /\ us (mon_move p (ms c) m) 0 = ULive) \/
    (us (ms c) 0 = ULive /\ us (mon_move p (ms c) m) 0 = UEnded).
  Proof.
    intros He. destruct m as [i|]; [|left; reflexivity].
    destruct i as [s [|aux]|s [|e|]|j [|v|e|]|t]; cbn; try (left; reflexivity).
    all: destruct j as [|j]; [right | left; updt].
    all: unfold enabled in He; cbn in He.
    all: destruct (us (ms c) 0); cbn in He; rewrite ?andb_false_r in He; try discriminate.
    - left. split; [reflexivity | updt].
    - right. split; [reflexivity | updt].
    - right. split; [reflexivity | updt].
  Qed.

  Lemma move_refused (c : cfg o) m :
    (forall m inp, g m inp = g_std m inp) ->
    enabled p g c m = true -> refused (mon_move p (ms c) m) = refused (ms c).
  Proof.
    intros Hg He. destruct m as [inp|]; [|reflexivity].
    apply (@input_refused p (ms c) inp g); [apply Hg|].
    unfold enabled in He. apply andb_prop in He. destruct He as [_ He].
    apply andb_prop in He. tauto.
  Qed.

  Lemma move_credit (c : cfg o) m :
    one_pull p = true -> enabled p g c m = true ->
    credit (mon_move p (ms c) m) 0 + pin [move_event m] = credit (ms c) 0.
  Proof.
    intros Hone He. destruct m as [i|]; [|cbn; lia].
    destruct i as [[|s] [|aux]|[|s] [|e|]|j [|v|e|]|t]; cbn; try lia.
    - unfold enabled in He. rewrite Hone in He. cbn in He.
      apply andb_prop in He. destruct He as [_ He]. apply andb_prop in He. destruct He as [_ He].
      apply andb_prop in He. destruct He as [_ He].
      rewrite ?upd_same. destruct (credit (ms c) 0); [discriminate | cbn; lia].
  Qed.

  (** ** (G3) returns and pending calls *)

  Lemma ret_le_call_sec (c : cfg o) :
    reach p g c -> n_ret (trace c) + length (stack c) = n_call (trace c).
  Proof.
    induction 1 as [|c m Hr IH He]; [reflexivity|].
    destruct (step_decomp _ _ He) as (os & a & Htr & _ & _ & Hs & _ & _ & Hl & _).
    rewrite Htr, Hs, n_ret_step, n_call_step.
    assert (E1 : n_ret [act_event o a] = 0) by (destruct a; reflexivity).
    assert (E2 : n_call [move_event m] = 0) by (destruct m; reflexivity).
    assert (E3 : n_ret [move_event m] = match m with MRet => 1 | MIn _ => 0 end)
      by (destruct m; reflexivity).
    rewrite E1, E2, E3.
    destruct a as [| |cl k]; cbn [act_event length];
      [change (n_call [EDone]) with 0 | change (n_call [EPanic]) with 0
      | change (n_call [ECall cl]) with 1]; lia.
  Qed.

  (** ** (G4) static facts about calls *)

  Lemma stack_sat_sec (P : call -> Prop) (c : cfg o) :
    calls_sat P o -> reach p g c -> Forall (fun fc => P (snd fc)) (stack c).
  Proof.
    intros HP. induction 1 as [|c m Hr IH He]; [constructor|].
    destruct (step_decomp _ _ He) as (os & a & _ & _ & _ & Hs & _ & Hc & _ & Hin).
    specialize (Hc P HP). rewrite Hs.
    assert (Hb : Forall (fun fc => P (snd fc)) (base c m)).
    { apply Forall_forall. intros x Hx. rewrite Forall_forall in IH. apply IH, Hin, Hx. }
    destruct a as [| |cl k]; auto.
  Qed.

  Lemma calls_port0_sec (c : cfg o) :
    calls_sat port0 o -> reach p g c ->
    n_call (trace c) = length (up_out (trace c)) + length (dn_out (trace c)).
  Proof.
    intros HP. induction 1 as [|c m Hr IH He]; [reflexivity|].
    destruct (step_decomp _ _ He) as (os & a & Htr & _ & _ & _ & _ & Hc & _).
    specialize (Hc _ HP).
    rewrite Htr, n_call_step, up_out_step, dn_out_step, !app_length, IH.
    assert (E2 : n_call [move_event m] = 0) by (destruct m; reflexivity).
    rewrite E2.
    destruct a as [| |cl k]; cbn [act_event]; try (cbn; lia).
    destruct Hc as [->|[[u ->]|[d ->]]]; cbn; lia.
  Qed.

  Lemma no_up_sec (c : cfg o) :
    calls_sat only_dn o -> reach p g c -> up_out (trace c) = [].
  Proof.
    intros HP. induction 1 as [|c m Hr IH He]; [reflexivity|].
    destruct (step_decomp _ _ He) as (os & a & Htr & _ & _ & _ & _ & Hc & _).
    specialize (Hc _ HP). rewrite Htr, up_out_step, IH.
    destruct a as [| |cl k]; cbn [act_event]; try reflexivity.
    destruct Hc as [d ->]. reflexivity.
  Qed.

  Lemma no_dn_sec (c : cfg o) :
    calls_sat only_up o -> reach p g c -> dn_out (trace c) = [].
  Proof.
    intros HP. induction 1 as [|c m Hr IH He]; [reflexivity|].
    destruct (step_decomp _ _ He) as (os & a & Htr & _ & _ & _ & _ & Hc & _).
    specialize (Hc _ HP). rewrite Htr, dn_out_step, IH.
    destruct a as [| |cl k]; cbn [act_event]; try reflexivity.
    destruct Hc as [->|[u ->]]; reflexivity.
  Qed.

  (** ** (G5) credit accounting *)

  Lemma credit_exact_sec (c : cfg o) :
    one_pull p = true -> reach p g c ->
    credit (ms c) 0 + pin (trace c) = hout (trace c) + dout (trace c).
  Proof.
    intros Hone. induction 1 as [|c m Hr IH He]; [reflexivity|].
    destruct (flow_step _ _ He) as (os & a & m1 & Htr & H1 & _ & H2).
    pose proof (move_credit _ _ Hone He) as Hmv.
    destruct H1 as (_ & _ & C1 & _).
    rewrite Htr, pin_step, hout_step, dout_step.
    assert (E1 : pin [act_event o a] = 0) by (destruct a as [| |[i|i u|s d]]; reflexivity).
    assert (E2 : hout [move_event m] = 0) by (destruct m; reflexivity).
    assert (E3 : dout [move_event m] = 0) by (destruct m; reflexivity).
    rewrite E1, E2, E3.
    destruct a as [| |cl k]; cbn [act_event].
    - destruct H2 as (_ & _ & C2 & _). rewrite C2, C1.
      change (hout [EDone]) with 0. change (dout [EDone]) with 0. lia.
    - destruct H2 as (_ & _ & C2 & _). rewrite C2, C1.
      change (hout [EPanic]) with 0. change (dout [EPanic]) with 0. lia.
    - destruct H2 as [(_ & _ & C2 & _) _]. rewrite C2, call_credit, C1. lia.
  Qed.

  (** ** (G6) one move event per step *)

  Lemma moves_step_sec (c : cfg o) m :
    enabled p g c m = true ->
    n_in (trace (step p c m)) + n_ret (trace (step p c m)) = S (n_in (trace c) + n_ret (trace c)) /\
    n_call (trace (step p c m)) =
      n_call (trace c) +
      match hd_error (rtrace (step p c m)) with Some (ECall _) => 1 | _ => 0 end /\
    n_in (trace (step p c m)) = n_in (trace c) + match m with MIn _ => 1 | MRet => 0 end.
  Proof.
    intros He.
    destruct (step_decomp _ _ He) as (os & a & Htr & Hhd & _).
    rewrite Htr, Hhd, n_in_step, n_ret_step, n_call_step.
    assert (E1 : n_ret [act_event o a] = 0) by (destruct a; reflexivity).
    assert (E2 : n_in [act_event o a] = 0) by (destruct a; reflexivity).
    assert (E3 : n_call [move_event m] = 0) by (destruct m; reflexivity).
    assert (E4 : n_call [act_event o a] = match act_event o a with ECall _ => 1 | _ => 0 end)
      by (destruct a; reflexivity).
    assert (E5 : n_in [move_event m] = match m with MIn _ => 1 | MRet => 0 end)
      by (destruct m; reflexivity).
    assert (E6 : n_ret [move_event m] = match m with MIn _ => 0 | MRet => 1 end)
      by (destruct m; reflexivity).
    rewrite E1, E2, E3, E4, E5, E6.
    destruct m; repeat split; lia.
  Qed.

  (** ** (G1), (G2): the monitor state of port 0 against the counts, for a safe component *)

  Hypothesis Hsafe : forall c : cfg o, reach p g c -> viols (ms c) = [] /\ dead c = false.

  (** a step of a safe component: no panic, and the call (if any) passes [check_call] *)
  Lemma safe_step (c : cfg o) m :
    reach p g c -> enabled p g c m = true ->
    exists os a m1,
      trace (step p c m) = trace c ++ move_event m :: map EObs os ++ [act_event o a] /\
      same_flow m1 (mon_move p (ms c) m) /\
      match a with
      | ACall cl _ => same_flow (ms (step p c m)) (mon_call_upd m1 cl) /\ check_call p m1 cl = []
      | ARet => same_flow (ms (step p c m)) m1
      | APanic => False
      end.
  Proof.
    intros Hr He.
    destruct (Hsafe (reachS m Hr He)) as [Hv Hd].
    destruct (flow_step _ _ He) as (os & a & m1 & Htr & H1 & Hdd & H2).
    exists os, a, m1. split; [exact Htr|]. split; [exact H1|].
    destruct a as [| |cl k].
    - exact H2.
    - rewrite Hdd in Hd. discriminate.
    - destruct H2 as [H2 H3]. split; [exact H2 | exact (H3 Hv)].
  Qed.

  Definition sk_inv (k : sks) (l : list dmsg) : Prop :=
    match k with
    | SNone => cnt is_hs l = 0 /\ cnt is_end l = 0
    | SLive | SDisposed => cnt is_hs l = 1 /\ cnt is_end l = 0
    | SFinished => cnt is_hs l = 1 /\ cnt is_end l = 1
    end.

  Lemma sk_counts_sec (c : cfg o) :
    (forall m inp, g m inp = g_std m inp) ->
    reach p g c ->
    (forall s, refused (ms c) s = None) /\ sk_inv (sk (ms c) 0) (dn_out (trace c)).
  Proof.
    intros Hg. induction 1 as [|c m Hr [IHr IH] He]; [split; [reflexivity | split; reflexivity]|].
    destruct (@safe_step c m Hr He) as (os & a & m1 & Htr & H1 & H2).
    pose proof (move_refused _ _ Hg He) as Hrf.
    pose proof (move_sk _ _ He) as Hmv.
    destruct H1 as (S1 & _ & _ & R1).
    assert (Hr1 : forall s, refused m1 s = None).
    { intros s. rewrite R1, Hrf. apply IHr. }
    assert (Hk1 : sk_inv (sk m1 0) (dn_out (trace c))).
    { rewrite S1. destruct Hmv as [->|[E ->]]; [exact IH|]. rewrite E in IH. exact IH. }
    rewrite Htr, dn_out_step.
    destruct a as [| |cl k]; [| destruct H2 |].
    - destruct H2 as (S2 & _ & _ & R2). rewrite S2, R2. cbn [act_event dn_out].
      rewrite app_nil_r. split; [exact Hr1 | exact Hk1].
    - destruct H2 as [(S2 & _ & _ & R2) Hc]. rewrite S2, R2, callupd_refused.
      split; [exact Hr1|].
      pose proof (call_sk p m1 cl Hc (Hr1 0)) as Hok.
      cbn [act_event].
      destruct cl as [i|i u|[|s] [|v|e|]]; cbn [sk_call_ok dn_out] in *;
        try (rewrite Hok, app_nil_r; exact Hk1).
      all: destruct Hok as [Ea Eb]; rewrite Ea in Hk1; rewrite Eb; cbn [sk_inv] in *;
        rewrite !cnt_app; cbn; lia.
  Qed.

  Definition us_inv (u : uss) (l : list (option umsg)) : Prop :=
    match u with
    | UNone => cnt is_sub l = 0 /\ cnt is_stop l = 0
    | USubd | ULive | UEnded => cnt is_sub l = 1 /\ cnt is_stop l = 0
    | UStopped => cnt is_sub l = 1 /\ cnt is_stop l = 1
    end.

  Lemma us_counts_sec (c : cfg o) :
    resub p = false -> reach p g c -> us_inv (us (ms c) 0) (up_out (trace c)).
  Proof.
    intros Hres. induction 1 as [|c m Hr IH He]; [split; reflexivity|].
    destruct (@safe_step c m Hr He) as (os & a & m1 & Htr & H1 & H2).
    pose proof (move_us _ _ He) as Hmv.
    destruct H1 as (_ & U1 & _ & _).
    assert (Hk1 : us_inv (us m1 0) (up_out (trace c))).
    { rewrite U1. destruct Hmv as [->|[[E ->]|[E ->]]]; [exact IH| |]; rewrite E in IH; exact IH. }
    rewrite Htr, up_out_step.
    destruct a as [| |cl k]; [| destruct H2 |].
    - destruct H2 as (_ & U2 & _ & _). rewrite U2. cbn [act_event up_out].
      rewrite app_nil_r. exact Hk1.
    - destruct H2 as [(_ & U2 & _ & _) Hc]. rewrite U2.
      pose proof (call_us p m1 cl Hres Hc) as Hok.
      cbn [act_event].
      destruct cl as [[|i]|[|i] [|e|]|s d]; cbn [us_call_ok up_out] in *;
        try (rewrite Hok, app_nil_r; exact Hk1).
      all: destruct Hok as [Ea Eb]; rewrite Ea in Hk1; rewrite Eb; cbn [us_inv] in *;
        rewrite !cnt_app; cbn; lia.
  Qed.

End Generic.

(** ** The exported statements *)

Section Exported.
  Variable p : mparams.
  Variable o : op.
  Variable g : mstate -> input -> bool.
  Variable c : cfg o.

  Local Notation safe :=
    (forall c' : cfg o, reach p g c' -> viols (ms c') = [] /\ dead c' = false).
  Local Notation std := (forall m inp, g m inp = g_std m inp).

  (** *** (G1) *)

  (** the invariant behind G1: which of greeting and end the sink has seen, by monitor state *)
  Theorem sk_counts :
    safe -> std -> resub p = false -> reach p g c ->
    match sk (ms c) 0 with
    | SNone => hout (trace c) = 0 /\ cnt is_end (dn_out (trace c)) = 0
    | SLive | SDisposed => hout (trace c) = 1 /\ cnt is_end (dn_out (trace c)) = 0
    | SFinished => hout (trace c) = 1 /\ cnt is_end (dn_out (trace c)) = 1
    end.
  Proof.
    intros Hsafe Hg _ Hr. destruct (sk_counts_sec Hsafe Hg Hr) as [_ H]. exact H.
  Qed.

  Theorem refused_none :
    safe -> std -> resub p = false -> reach p g c -> forall s, refused (ms c) s = None.
  Proof.
    intros Hsafe Hg _ Hr. destruct (sk_counts_sec Hsafe Hg Hr) as [H _]. exact H.
  Qed.

  Theorem greet_once :
    safe -> std -> resub p = false -> reach p g c -> hout (trace c) <= 1.
  Proof.
    intros Hsafe Hg Hres Hr. pose proof (sk_counts Hsafe Hg Hres Hr) as H.
    destruct (sk (ms c) 0); lia.
  Qed.

  Theorem end_once :
    safe -> std -> resub p = false -> reach p g c -> cnt is_end (dn_out (trace c)) <= 1.
  Proof.
    intros Hsafe Hg Hres Hr. pose proof (sk_counts Hsafe Hg Hres Hr) as H.
    destruct (sk (ms c) 0); lia.
  Qed.

  Theorem dn_out_len :
    safe -> std -> resub p = false -> reach p g c ->
    length (dn_out (trace c)) <= dout (trace c) + 2.
  Proof.
    intros Hsafe Hg Hres Hr.
    pose proof (greet_once Hsafe Hg Hres Hr) as H1. pose proof (end_once Hsafe Hg Hres Hr) as H2.
    rewrite (dmsg_len (dn_out (trace c))). unfold hout, dout in *. lia.
  Qed.

  Theorem greeted_hout :
    safe -> std -> resub p = false -> reach p g c -> sk (ms c) 0 <> SNone -> hout (trace c) = 1.
  Proof.
    intros Hsafe Hg Hres Hr Hn. pose proof (sk_counts Hsafe Hg Hres Hr) as H.
    destruct (sk (ms c) 0); try tauto; congruence.
  Qed.

  (** *** (G2) *)

  Theorem us_counts :
    safe -> std -> resub p = false -> reach p g c ->
    match us (ms c) 0 with
    | UNone => cnt is_sub (up_out (trace c)) = 0 /\ cnt is_stop (up_out (trace c)) = 0
    | USubd | ULive | UEnded =>
        cnt is_sub (up_out (trace c)) = 1 /\ cnt is_stop (up_out (trace c)) = 0
    | UStopped => cnt is_sub (up_out (trace c)) = 1 /\ cnt is_stop (up_out (trace c)) = 1
    end.
  Proof. intros Hsafe _ Hres Hr. exact (us_counts_sec Hsafe Hres Hr). Qed.

  Theorem sub_once :
    safe -> std -> resub p = false -> reach p g c -> cnt is_sub (up_out (trace c)) <= 1.
  Proof.
    intros Hsafe Hg Hres Hr. pose proof (us_counts Hsafe Hg Hres Hr) as H.
    destruct (us (ms c) 0); lia.
  Qed.

  Theorem stop_once :
    safe -> std -> resub p = false -> reach p g c -> cnt is_stop (up_out (trace c)) <= 1.
  Proof.
    intros Hsafe Hg Hres Hr. pose proof (us_counts Hsafe Hg Hres Hr) as H.
    destruct (us (ms c) 0); lia.
  Qed.

  Theorem up_out_len :
    safe -> std -> resub p = false -> reach p g c ->
    length (up_out (trace c)) <= pout (trace c) + 2.
  Proof.
    intros Hsafe Hg Hres Hr.
    pose proof (sub_once Hsafe Hg Hres Hr) as H1. pose proof (stop_once Hsafe Hg Hres Hr) as H2.
    rewrite (umsg_len (up_out (trace c))). unfold pout. lia.
  Qed.

  (** *** (G3) *)

  Theorem ret_le_call : reach p g c -> n_ret (trace c) + length (stack c) = n_call (trace c).
  Proof. apply ret_le_call_sec. Qed.

  (** *** (G4) *)

  Theorem stack_sat (P : call -> Prop) :
    calls_sat P o -> reach p g c -> Forall (fun fc => P (snd fc)) (stack c).
  Proof. apply stack_sat_sec. Qed.

  Theorem calls_port0 :
    calls_sat port0 o -> reach p g c ->
    n_call (trace c) = length (up_out (trace c)) + length (dn_out (trace c)).
  Proof. apply calls_port0_sec. Qed.

  Theorem no_up : calls_sat only_dn o -> reach p g c -> up_out (trace c) = [].
  Proof. apply no_up_sec. Qed.

  Theorem no_dn : calls_sat only_up o -> reach p g c -> dn_out (trace c) = [].
  Proof. apply no_dn_sec. Qed.

  (** *** (G5) *)

  Theorem credit_exact :
    one_pull p = true -> reach p g c ->
    credit (ms c) 0 + pin (trace c) = hout (trace c) + dout (trace c).
  Proof. apply credit_exact_sec. Qed.

  (** *** (G6) *)

  Theorem moves_step (m : move) :
    enabled p g c m = true ->
    n_in (trace (step p c m)) + n_ret (trace (step p c m)) = S (n_in (trace c) + n_ret (trace c)) /\
    n_call (trace (step p c m)) =
      n_call (trace c) +
      match hd_error (rtrace (step p c m)) with Some (ECall _) => 1 | _ => 0 end /\
    n_in (trace (step p c m)) = n_in (trace c) + match m with MIn _ => 1 | MRet => 0 end.
  Proof. apply moves_step_sec. Qed.

End Exported.

Print Assumptions sk_counts.
Print Assumptions refused_none.
Print Assumptions greet_once.
Print Assumptions end_once.
Print Assumptions dn_out_len.
Print Assumptions greeted_hout.
Print Assumptions us_counts.
Print Assumptions sub_once.
Print Assumptions stop_once.
Print Assumptions up_out_len.
Print Assumptions ret_le_call.
Print Assumptions stack_sat.
Print Assumptions calls_port0.
Print Assumptions no_up.
Print Assumptions no_dn.
Print Assumptions credit_exact.
Print Assumptions moves_step.
