(** * Passive: what a handler does from its entry to its return when the peers it calls
      simply return (no re-entrant reaction).

    The invariant theorems (Inv_*.v) quantify over every re-entrant environment and say what can
    NEVER happen.  The "completeness" clauses of the properties (a Pull reaches EVERY live member,
    EVERY attached sink receives the datum) are about what one activation DOES; they are stated for
    the passive continuation of a reachable configuration: after the input, every pending call of
    the component is answered by a plain return until control is back at top level.  With a
    re-entrant peer the set of addressees changes while the broadcast is running, and what may
    happen then is what the invariant theorems bound. *)

From CB Require Import ProofLib Spec.

Set Implicit Arguments.

Section Passive.
  Variable p : mparams.
  Variable o : op.

  (** answer every pending call with a return, innermost first, at most [fuel] times *)
  Fixpoint drain (fuel : nat) (c : cfg o) : cfg o :=
    match fuel with
    | 0 => c
    | S f => match stack c with
             | [] => c
             | _ :: _ => drain f (step p c MRet)
             end
    end.

  (** the calls in a list of events, in order *)
  Fixpoint calls_of (tr : list event) : list call :=
    match tr with
    | [] => []
    | ECall c :: tr' => c :: calls_of tr'
    | _ :: tr' => calls_of tr'
    end.

  Lemma calls_of_app a b : calls_of (a ++ b) = calls_of a ++ calls_of b.
  Proof.
    induction a as [|e a IH]; cbn; [reflexivity|]. destruct e; cbn; rewrite ?IH; reflexivity.
  Qed.

  Lemma drain_nil fuel c : stack c = [] -> drain fuel c = c.
  Proof. intros H. destruct fuel; cbn; [reflexivity|]. now rewrite H. Qed.

  Lemma drain_S fuel c f cl rest :
    stack c = (f, cl) :: rest -> drain (S fuel) c = drain fuel (step p c MRet).
  Proof. intros H. cbn. now rewrite H. Qed.

  Lemma drain_add a b c : drain (a + b) c = drain b (drain a c).
  Proof.
    revert c. induction a as [|a IH]; intros c; cbn; [reflexivity|].
    destruct (stack c) eqn:E; [now rewrite drain_nil|]. apply IH.
  Qed.

  (** a passive continuation stays inside the conformant environment as long as every return it
      performs is enabled (a return from a subscribing call needs the upstream's greeting unless
      [late_ok]) *)
  Variable g : mstate -> input -> bool.

  Fixpoint drain_enabled (fuel : nat) (c : cfg o) : bool :=
    match fuel with
    | 0 => true
    | S f => match stack c with
             | [] => true
             | _ :: _ => enabled p g c MRet && drain_enabled f (step p c MRet)
             end
    end.

  Lemma drain_reach fuel : forall c,
    reach p g c -> drain_enabled fuel c = true -> reach p g (drain fuel c).
  Proof.
    induction fuel as [|f IH]; intros c Hr He; cbn in *; [exact Hr|].
    destruct (stack c) eqn:E; [exact Hr|].
    apply andb_prop in He. destruct He as [H1 H2].
    apply IH; [|exact H2]. now apply reachS.
  Qed.
End Passive.
