(** * Twice: two subscriptions to the same source value (C13).

    In the model a subscription *is* a configuration: the cells of the Rust
    closure tree that the component creates inside its [Message::Handshake]
    branch are the state [St] of one [cfg].  Two facts make this faithful:

    - [sub_fresh]: the state after [ISub 0 aux] does not depend on the state
      before it, for every component except share - nothing survives from one
      subscription to the next ("all mutable state is created inside the
      Handshake branch");
    - the two-subscription runs of the correspondence check (header subs=2)
      compare the real crate, where both subscriptions go through the *same*
      source value, with two independent model configurations; on top of that
      the check projects the crate's two-subscription trace onto each
      subscription and compares it with the crate's own solo run.

    The product machine below is what the driver executes for subs=2; the
    projection theorems say that each component of the product is the solo
    run of the moves addressed to it. *)

From CB Require Import Machine Ops.

Set Implicit Arguments.

Section Twice.
  Variable p : mparams.
  Variable o : op.

  Definition tcfg : Type := (cfg o * cfg o)%type.

  (** a move tagged with the subscription (false = 0, true = 1) it belongs to *)
  Definition tstep (c : tcfg) (km : bool * move) : tcfg :=
    let (k, m) := km in
    if k then (fst c, step p (snd c) m) else (step p (fst c) m, snd c).

  Definition trun (ms : list (bool * move)) : tcfg := fold_left tstep ms (cfg0 o, cfg0 o).

  Definition moves_of (k : bool) (ms : list (bool * move)) : list move :=
    map snd (filter (fun km => Bool.eqb (fst km) k) ms).

  Lemma trun_from c1 c2 ms :
    fold_left tstep ms (c1, c2) =
    (fold_left (@step p o) (moves_of false ms) c1, fold_left (@step p o) (moves_of true ms) c2).
  Proof.
    revert c1 c2. induction ms as [|[k m] ms IH]; intros c1 c2; [reflexivity|].
    cbn [fold_left tstep]. destruct k; cbn [fst snd]; rewrite IH; reflexivity.
  Qed.

  (** each subscription of a two-subscription run behaves exactly as if it
      were the only one, whatever the interleaving *)
  Theorem twice_independent ms :
    trun ms = (run p o (moves_of false ms), run p o (moves_of true ms)).
  Proof. unfold trun, run. apply trun_from. Qed.
End Twice.

(** ** Nothing survives a re-subscription (every component but share) *)

Definition sub_fresh (o : op) : Prop :=
  forall aux s s', handle o (ISub 0 aux) s = handle o (ISub 0 aux) s'.

Lemma map_sub_fresh f : sub_fresh (map_op f).          Proof. intros aux [] []. reflexivity. Qed.
Lemma filter_sub_fresh c : sub_fresh (filter_op c).    Proof. intros aux s s'. reflexivity. Qed.
Lemma scan_sub_fresh r sd : sub_fresh (scan_op r sd).  Proof. intros aux s s'. reflexivity. Qed.
Lemma skip_sub_fresh n : sub_fresh (skip_op n).        Proof. intros aux s s'. reflexivity. Qed.
Lemma take_sub_fresh n : sub_fresh (take_op n).        Proof. intros aux s s'. reflexivity. Qed.
Lemma from_iter_sub_fresh it : sub_fresh (from_iter_op it). Proof. intros aux s s'. reflexivity. Qed.
Lemma for_each_sub_fresh : sub_fresh for_each_op.      Proof. intros aux s s'. reflexivity. Qed.
Lemma merge_sub_fresh n : sub_fresh (merge_op n).      Proof. intros aux s s'. reflexivity. Qed.
Lemma concat_sub_fresh n : sub_fresh (concat_op n).    Proof. intros aux s s'. reflexivity. Qed.
Lemma combine_sub_fresh n : sub_fresh (combine_op n).  Proof. intros aux s s'. reflexivity. Qed.
Lemma flatten_sub_fresh : sub_fresh flatten_op.        Proof. intros aux s s'. reflexivity. Qed.
Lemma interval_sub_fresh : sub_fresh interval_op.
Proof. intros aux s s'. destruct aux; reflexivity. Qed.

(** share is the deliberate exception: its sink list outlives a subscription *)
Lemma share_not_sub_fresh : ~ sub_fresh share_op.
Proof.
  intros H.
  specialize (H 0 {| sh_sinks := []; sh_tb := false; sh_first := 0 |}
                  {| sh_sinks := [1]; sh_tb := false; sh_first := 0 |}).
  discriminate H.
Qed.
