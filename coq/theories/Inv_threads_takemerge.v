(** * Inv_threads_takemerge: C19 "through merge!" for the interleaving model of take(max) behind
      merge! of n member threads (ThreadsTakeMerge.v), over ALL schedules.

    For every max, n, all queues, ALL endings (any number of failing members) and every state
    reachable by any interleaving of [xm_step true max n]:

    - [takemerge_safe]             never more than max data, the sink is ended at most once, every
                                   member is told to stop at most once, no panic;
    - [takemerge_complete]         (1 <= max) once max data were delivered and every member is
                                   finished, the sink has been ended exactly once;
    - [takemerge_order]            a member's data arrive in its own order, nothing forged;
    - [takemerge_members_stopped]  (1 <= max) take ends its upstream: in such a final state every
                                   member was told to stop exactly once, or had ended by itself;
    - [takemerge_final]            [takemerge_check] is empty on every final state;
    - [takemerge_run_full_reach], [takemerge_driver_final]   what the driver runs is reachable;
    - [takemerge_unfixed_refuted], [takemerge_fixed_h11_ok]  the code before the repair ends the
                                   sink twice on the witness schedule, the repaired code passes it.

    Method (as in Inv_threads_merge.v): [xm_step true max n] is restated as a relation on explicit
    records ([mstep], [mstep_of]; [origin] = the seven ways [xm_next] is entered, [sweep_rel] /
    [sweep_spec] = what [xm_sweep] does).  Inductive invariants, each with its own step lemma:
    - [I0]  the program counters of the unrepaired code (XmAtEndLoad, XmAtEndStore) are never
            reached; threads t >= n never start;
    - [I1]  taken = number of data begun <= max; no panic; for every member j the number of
            Terminate calls to its talkback is [b2n (stopped j)], and stopped j => cell j empty
            (a talkback is called only by the step that takes it out of its cell);
    - [I2]  the terminal message: a thread at XmAtMgEnded has set take's [end] flag and no terminal
            has begun; at most one thread is there; otherwise #terminals = [b2n tend];
    - [I3]  the ticket argument: while taken = max and [tend] is unset, the thread that obtained
            the last ticket is at XmInData max or XmAtEndSwap;
    - [I5]  delivered_by j ++ l = qs j for some l, and l = datum in hand ++ queue while take is
            not full;
    for the stretch theorem:
    - [xTI] per thread, by program counter: cell = negb stopped while greeting or delivering; a
            completing member has emptied its own cell and is never told to stop; what a finished,
            never-stopped member looks like, by its ending;
    - [xGI] end_count = number of members that counted themselves (ghost-free, as in [GI]);
    - [xEI] ended => the cell of every member ending with FinNone is empty;
    - [xTE] tend => ended, or end_count >= n, or a thread is at XmAtMgEnded. *)

From CB Require Import Threads ThreadSpec ThreadsFine ThreadsTakeMerge Inv_threads_merge.

Set Implicit Arguments.

#[local] Arguments count : simpl never.

(** ** Reachability over all schedules *)

Inductive xm_reach (max n : nat) (qs : nat -> list val) (fins : nat -> final) : xm_state -> Prop :=
| xmr0 : xm_reach max n qs fins (xm_init n qs fins)
| xmrS s t : xm_reach max n qs fins s -> xm_reach max n qs fins (xm_step true max n s t).

(** ** The step function (repaired code) as a relation on explicit records *)

Notation XS := mk_xm_state.
Notation XT := mk_xm_thread.

Definition b2n (b : bool) : nat := if b then 1 else 0.

Definition skipped (skip : option nat) (j : nat) : bool :=
  match skip with Some i => Nat.eqb j i | None => false end.
Definition swept (k : nat) (skip : option nat) (j : nat) : bool := (j <? k) && negb (skipped skip j).

(** how [xm_next] is entered *)
Inductive origin (max t : nat) (st : nat) (en cellt : bool) (tk : nat) (te : bool) (tr : list tevent)
  : xm_pc -> nat -> list tevent -> Prop :=
| or_load : en = true -> cellt = false -> origin max t st en cellt tk te tr XmAtEndedLoad st tr
| or_start : st <> 0 -> origin max t st en cellt tk te tr XmAtStartInc (S st) tr
| or_greet : origin max t st en cellt tk te tr XmInGreet st ((t, TEnd) :: tr)
| or_full v : max <= tk -> origin max t st en cellt tk te tr (XmAtTaken v) st tr
| or_data t' : t' <> max -> origin max t st en cellt tk te tr (XmInData t') st ((t, TEnd) :: tr)
| or_swap : te = true -> origin max t st en cellt tk te tr XmAtEndSwap st tr
| or_term : origin max t st en cellt tk te tr XmInTerm st ((t, TEnd) :: tr).

(** what a sweep over the cells does *)
Definition sweep_rel (k : nat) (skip : option nat) (t : nat)
  (cell stp : nat -> bool) (tr : list tevent) (cell' stp' : nat -> bool) (tr1 : list tevent) : Prop :=
  (forall j, cell' j = cell j && negb (swept k skip j)) /\
  (forall j, stp' j = stp j || (swept k skip j && cell j)) /\
  qext t tr tr1 /\
  (forall j, count (is_up_term_of j) tr1 = count (is_up_term_of j) tr + b2n (swept k skip j && cell j)).

Inductive mstep (max n : nat) : xm_state -> nat -> xm_state -> Prop :=
| ms_fin st ec en cell stp tk te th tr t :
    xm_pcv (th t) = XmFinished ->
    mstep max n (XS st ec en cell stp tk te th tr) t (XS st ec en cell stp tk te th tr)
| ms_dead s t s' :
    (* program counters of the code before the repair; never reached *)
    xm_pcv (xms_th s t) = XmAtEndLoad \/ xm_pcv (xms_th s t) = XmAtEndStore ->
    mstep max n s t s'
| ms_load_self st ec cell stp tk te th tr t q f :
    (* the output ended during the greeting and the talkback is still in its cell *)
    th t = XT XmAtEndedLoad q f -> cell t = true ->
    mstep max n (XS st ec true cell stp tk te th tr) t
      (XS st ec true (upd cell t false) (upd stp t true) tk te (upd th t (XT XmFinished q f))
          ((t, TUp t UT) :: tr))
| ms_load_ok st ec cell stp tk te th tr t q f :
    th t = XT XmAtEndedLoad q f ->
    mstep max n (XS st ec false cell stp tk te th tr) t
      (XS st ec false cell stp tk te (upd th t (XT XmAtStartInc q f)) tr)
| ms_start_first ec en cell stp tk te th tr t q f :
    th t = XT XmAtStartInc q f ->
    mstep max n (XS 0 ec en cell stp tk te th tr) t
      (XS 1 ec en cell stp tk te (upd th t (XT XmInGreet q f)) ((t, TBegin DH) :: tr))
| ms_next_stopped st ec en cell stp tk te th tr t pc q f st' tr0 :
    th t = XT pc q f -> origin max t st en (cell t) tk te tr pc st' tr0 -> stp t = true ->
    mstep max n (XS st ec en cell stp tk te th tr) t
      (XS st' ec en cell stp tk te (upd th t (XT XmFinished q f)) tr0)
| ms_next_data st ec en cell stp tk te th tr t pc v q' f st' tr0 :
    th t = XT pc (v :: q') f -> origin max t st en (cell t) tk te tr pc st' tr0 -> stp t = false ->
    mstep max n (XS st ec en cell stp tk te th tr) t
      (XS st' ec en cell stp tk te (upd th t (XT (XmAtTaken v) q' f)) tr0)
| ms_next_term st ec en cell stp tk te th tr t pc st' tr0 :
    th t = XT pc [] FinTerm -> origin max t st en (cell t) tk te tr pc st' tr0 -> stp t = false ->
    mstep max n (XS st ec en cell stp tk te th tr) t
      (XS st' ec en (upd cell t false) stp tk te (upd th t (XT XmAtEndInc [] FinTerm)) tr0)
| ms_next_err st ec en cell stp tk te th tr t pc e st' tr0 :
    th t = XT pc [] (FinErr e) -> origin max t st en (cell t) tk te tr pc st' tr0 -> stp t = false ->
    mstep max n (XS st ec en cell stp tk te th tr) t
      (XS st' ec en cell stp tk te (upd th t (XT (XmAtEndedStore e) [] (FinErr e))) tr0)
| ms_next_none st ec en cell stp tk te th tr t pc st' tr0 :
    th t = XT pc [] FinNone -> origin max t st en (cell t) tk te tr pc st' tr0 -> stp t = false ->
    mstep max n (XS st ec en cell stp tk te th tr) t
      (XS st' ec en cell stp tk te (upd th t (XT XmFinished [] FinNone)) tr0)
| ms_taken_ok st ec en cell stp tk te th tr t v q f :
    (* a ticket is taken and the delivery begins *)
    th t = XT (XmAtTaken v) q f -> tk < max ->
    mstep max n (XS st ec en cell stp tk te th tr) t
      (XS st ec en cell stp (S tk) te (upd th t (XT (XmInData (S tk)) q f)) ((t, TBegin (DD v)) :: tr))
| ms_data_max st ec en cell stp tk te th tr t q f :
    th t = XT (XmInData max) q f ->
    mstep max n (XS st ec en cell stp tk te th tr) t
      (XS st ec en cell stp tk te (upd th t (XT XmAtEndSwap q f)) ((t, TEnd) :: tr))
| ms_swap_set st ec en cell stp tk th tr t q f :
    th t = XT XmAtEndSwap q f ->
    mstep max n (XS st ec en cell stp tk false th tr) t
      (XS st ec en cell stp tk true (upd th t (XT XmAtMgEnded q f)) tr)
| ms_mgended st ec en cell stp tk te th tr t q f cell' stp' tr1 :
    th t = XT XmAtMgEnded q f -> sweep_rel n None t cell stp tr cell' stp' tr1 ->
    mstep max n (XS st ec en cell stp tk te th tr) t
      (XS st ec true cell' stp' tk te (upd th t (XT XmInTerm q f)) ((t, TBegin DT) :: tr1))
| ms_endinc_last st ec en cell stp tk te th tr t q f :
    th t = XT XmAtEndInc q f -> S ec = n ->
    mstep max n (XS st ec en cell stp tk te th tr) t
      (XS st (S ec) en cell stp tk te (upd th t (XT XmAtEndSwapT q f)) tr)
| ms_endinc_notlast st ec en cell stp tk te th tr t q f :
    th t = XT XmAtEndInc q f -> S ec <> n ->
    mstep max n (XS st ec en cell stp tk te th tr) t
      (XS st (S ec) en cell stp tk te (upd th t (XT XmFinished q f)) tr)
| ms_swapT_skip st ec en cell stp tk th tr t q f :
    th t = XT XmAtEndSwapT q f ->
    mstep max n (XS st ec en cell stp tk true th tr) t
      (XS st ec en cell stp tk true (upd th t (XT XmFinished q f)) tr)
| ms_swapT_set st ec en cell stp tk th tr t q f :
    th t = XT XmAtEndSwapT q f ->
    mstep max n (XS st ec en cell stp tk false th tr) t
      (XS st ec en cell stp tk true (upd th t (XT XmInTermAll q f)) ((t, TBegin DT) :: tr))
| ms_ret st ec en cell stp tk te th tr t pc q f :
    th t = XT pc q f -> pc = XmInTermAll \/ pc = XmInErr ->
    mstep max n (XS st ec en cell stp tk te th tr) t
      (XS st ec en cell stp tk te (upd th t (XT XmFinished q f)) ((t, TEnd) :: tr))
| ms_endedstore st ec en cell stp tk te th tr t e q f cell' stp' tr1 :
    th t = XT (XmAtEndedStore e) q f -> sweep_rel n (Some t) t cell stp tr cell' stp' tr1 ->
    mstep max n (XS st ec en cell stp tk te th tr) t
      (XS st ec true cell' stp' tk te (upd th t (XT (XmAtEndSwapE e) q f)) tr1)
| ms_swapE_skip st ec en cell stp tk th tr t e q f :
    th t = XT (XmAtEndSwapE e) q f ->
    mstep max n (XS st ec en cell stp tk true th tr) t
      (XS st ec en cell stp tk true (upd th t (XT XmFinished q f)) tr)
| ms_swapE_set st ec en cell stp tk th tr t e q f :
    th t = XT (XmAtEndSwapE e) q f ->
    mstep max n (XS st ec en cell stp tk false th tr) t
      (XS st ec en cell stp tk true (upd th t (XT XmInErr q f)) ((t, TBegin (DE e)) :: tr)).

(** what [xm_sweep] does *)
Lemma sweep_spec k skip t s :
  let s' := xm_sweep k skip t s in
  xms_start s' = xms_start s /\ xms_endc s' = xms_endc s /\ xms_ended s' = xms_ended s /\
  xms_taken s' = xms_taken s /\ xms_tend s' = xms_tend s /\ xms_th s' = xms_th s /\
  sweep_rel k skip t (xms_cell s) (xms_stopped s) (xms_tr s) (xms_cell s') (xms_stopped s') (xms_tr s').
Proof.
  induction k as [|k IH]; cbn [xm_sweep].
  - unfold sweep_rel, swept. repeat split; try constructor; intros j; cbn.
    + now rewrite andb_true_r.
    + now rewrite orb_false_r.
    + lia.
  - cbv zeta in IH. destruct IH as (H1 & H2 & H3 & H4 & H5 & H6 & H7 & H8 & H9 & H10).
    assert (Hk : forall j, (j <? S k) = (j <? k) || (j =? k)).
    { intros j. destruct (Nat.ltb_spec j (S k)), (Nat.ltb_spec j k), (Nat.eqb_spec j k); cbn; auto; lia. }
    assert (Hkk : (k <? k) = false) by (apply Nat.ltb_irrefl).
    fold (skipped skip k).
    unfold sweep_rel, swept in *.
    destruct (negb (skipped skip k) && xms_cell s k) eqn:E; cbn -[Nat.ltb].
    + repeat split; auto.
      * intros j. rewrite Hk. unfold upd. destruct (Nat.eqb_spec j k) as [->|Hj].
        -- rewrite Hkk. destruct (negb (skipped skip k)), (xms_cell s k); cbn in *; congruence.
        -- rewrite H7. now rewrite orb_false_r.
      * intros j. rewrite Hk. unfold upd. destruct (Nat.eqb_spec j k) as [->|Hj].
        -- rewrite Hkk. destruct (negb (skipped skip k)), (xms_cell s k), (xms_stopped s k); cbn in *; congruence.
        -- rewrite H8. now rewrite orb_false_r.
      * constructor. exact H9.
      * intros j. rewrite count_cons_t, H10, Hk. cbn [is_up_term_of snd].
        destruct (Nat.eqb_spec k j) as [<-|Hj].
        -- rewrite Hkk, Nat.eqb_refl. cbn. rewrite E. cbn. lia.
        -- destruct (Nat.eqb_spec j k) as [->|_]; [congruence|]. now rewrite orb_false_r.
    + repeat split; auto.
      * intros j. rewrite Hk, H7. destruct (Nat.eqb_spec j k) as [->|Hj].
        -- rewrite Hkk. destruct (negb (skipped skip k)), (xms_cell s k); cbn in *; congruence.
        -- now rewrite orb_false_r.
      * intros j. rewrite Hk, H8. destruct (Nat.eqb_spec j k) as [->|Hj].
        -- rewrite Hkk. destruct (negb (skipped skip k)), (xms_cell s k), (xms_stopped s k); cbn in *; congruence.
        -- now rewrite orb_false_r.
      * intros j. rewrite Hk, H10. destruct (Nat.eqb_spec j k) as [->|Hj].
        -- rewrite Hkk. cbn. rewrite E. reflexivity.
        -- now rewrite orb_false_r.
Qed.

(* [xm_next], entered from the origin [Ho] *)
Ltac do_next Ho :=
    unfold xm_next; cbn -[Nat.eqb Nat.ltb];
    match goal with |- context [if ?stp ?t then _ else _] => destruct (stp t) eqn:Hs end;
    cbn -[Nat.eqb Nat.ltb];
    [ eapply ms_next_stopped; eauto
    | match goal with |- context [match ?q with [] => _ | _ :: _ => _ end] => destruct q as [|? ?] end;
      cbn -[Nat.eqb Nat.ltb];
      [ match goal with |- context [match ?f with FinTerm => _ | FinErr _ => _ | FinNone => _ end] => destruct f end;
        cbn -[Nat.eqb Nat.ltb];
        [ eapply ms_next_term; eauto | eapply ms_next_err; eauto | eapply ms_next_none; eauto ]
      | eapply ms_next_data; eauto ] ].

Lemma mstep_of max n s t : mstep max n s t (xm_step true max n s t).
Proof.
  destruct s as [st ec en cell stp tk te th tr].
  unfold xm_step. cbn -[Nat.eqb Nat.ltb].
  destruct (th t) as [pc q f] eqn:Hth. cbn -[Nat.eqb Nat.ltb].
  destruct pc; cbn -[Nat.eqb Nat.ltb].
  - (* XmAtEndedLoad *)
    destruct en; cbn -[Nat.eqb Nat.ltb].
    + destruct (cell t) eqn:Ec; cbn -[Nat.eqb Nat.ltb].
      * unfold xm_next. cbn -[Nat.eqb Nat.ltb]. rewrite upd_same. cbn. now apply ms_load_self.
      * assert (Ho : origin max t st true (cell t) tk te tr XmAtEndedLoad st tr) by (now constructor).
        do_next Ho.
    + now apply ms_load_ok.
  - (* XmAtStartInc *)
    destruct st as [|st]; cbn -[Nat.ltb].
    + now apply ms_start_first.
    + assert (Ho : origin max t (S st) en (cell t) tk te tr XmAtStartInc (S (S st)) tr) by (constructor; lia).
      do_next Ho.
  - (* XmInGreet *)
    assert (Ho : origin max t st en (cell t) tk te tr XmInGreet st ((t, TEnd) :: tr)) by constructor.
    do_next Ho.
  - (* XmAtTaken *)
    destruct (Nat.ltb_spec tk max) as [Hlt|Hge]; cbn -[Nat.eqb Nat.ltb].
    + now apply ms_taken_ok.
    + assert (Ho : origin max t st en (cell t) tk te tr (XmAtTaken v) st tr) by (now constructor).
      do_next Ho.
  - (* XmInData *)
    destruct (Nat.eqb_spec t' max) as [->|Hne]; cbn -[Nat.eqb Nat.ltb].
    + now apply ms_data_max.
    + assert (Ho : origin max t st en (cell t) tk te tr (XmInData t') st ((t, TEnd) :: tr)) by (now constructor).
      do_next Ho.
  - (* XmAtEndSwap *)
    destruct te; cbn -[Nat.eqb Nat.ltb].
    + assert (Ho : origin max t st en (cell t) tk true tr XmAtEndSwap st tr) by (now constructor).
      do_next Ho.
    + now apply ms_swap_set.
  - apply ms_dead. cbn. rewrite Hth. auto.
  - apply ms_dead. cbn. rewrite Hth. auto.
  - (* XmAtMgEnded *)
    change (XS st ec en cell stp tk te th tr <| xms_ended := true |>) with (XS st ec true cell stp tk te th tr).
    pose proof (sweep_spec n None t (XS st ec true cell stp tk te th tr)) as H.
    cbv zeta in H.
    destruct (xm_sweep n None t (XS st ec true cell stp tk te th tr)) as [st1 ec1 en1 cell1 stp1 tk1 te1 th1 tr1].
    cbn -[Nat.ltb Nat.eqb] in *. destruct H as (-> & -> & -> & -> & -> & -> & H7).
    eapply ms_mgended; eauto.
  - (* XmInTerm *)
    assert (Ho : origin max t st en (cell t) tk te tr XmInTerm st ((t, TEnd) :: tr)) by constructor.
    do_next Ho.
  - (* XmAtEndInc *)
    destruct (Nat.eqb_spec (S ec) n); cbn.
    + now apply ms_endinc_last.
    + now apply ms_endinc_notlast.
  - eapply ms_ret; eauto.
  - destruct te; cbn.
    + now apply ms_swapT_skip.
    + now apply ms_swapT_set.
  - (* XmAtEndedStore *)
    change (XS st ec en cell stp tk te th tr <| xms_ended := true |>) with (XS st ec true cell stp tk te th tr).
    pose proof (sweep_spec n (Some t) t (XS st ec true cell stp tk te th tr)) as H.
    cbv zeta in H.
    destruct (xm_sweep n (Some t) t (XS st ec true cell stp tk te th tr)) as [st1 ec1 en1 cell1 stp1 tk1 te1 th1 tr1].
    cbn -[Nat.ltb Nat.eqb] in *. destruct H as (-> & -> & -> & -> & -> & -> & H7).
    eapply ms_endedstore; eauto.
  - destruct te; cbn.
    + eapply ms_swapE_skip; eauto.
    + eapply ms_swapE_set; eauto.
  - eapply ms_ret; eauto.
  - apply ms_fin. now rewrite Hth.
Qed.

(** ** Generic facts *)

Lemma qext_count (f : tevent -> bool) t tr tr1 :
  (forall t0 j m, f (t0, TUp j m) = false) -> qext t tr tr1 -> count f tr1 = count f tr.
Proof.
  intros Hf Hq. induction Hq as [|tr1 j m Hq IH]; [reflexivity|].
  rewrite count_cons_t, Hf, IH. reflexivity.
Qed.

Lemma qext_panic t tr tr1 : qext t tr tr1 -> existsb is_panic tr1 = existsb is_panic tr.
Proof. intros Hq. induction Hq as [|tr1 j m Hq IH]; [reflexivity|]. cbn. exact IH. Qed.

Lemma qext_delivered t tr tr1 j :
  qext t tr tr1 -> delivered_by j (rev tr1) = delivered_by j (rev tr).
Proof.
  intros Hq. induction Hq as [|tr1 i m Hq IH]; [reflexivity|].
  cbn [rev]. rewrite delivered_snoc, IH. cbn. apply app_nil_r.
Qed.

Section Proofs.
  Variable max n : nat.
  Variable qs : nat -> list val.
  Variable fins : nat -> final.

  Definition pcof (s : xm_state) (t : nat) : xm_pc := xm_pcv (xms_th s t).

  (** *** I0: the program counters of the code before the repair are never reached; the threads
      that are not members never start *)
  Definition I0 (s : xm_state) : Prop :=
    (forall t, pcof s t <> XmAtEndLoad /\ pcof s t <> XmAtEndStore) /\
    (forall j, n <= j -> pcof s j = XmFinished).

  Lemma I0_init : I0 (xm_init n qs fins).
  Proof.
    split; intros j; unfold pcof; cbn -[Nat.ltb].
    - destruct (j <? n); split; discriminate.
    - intros Hj. destruct (Nat.ltb_spec j n); [lia|reflexivity].
  Qed.

  Lemma I0_step s t s' : I0 s -> mstep max n s t s' -> I0 s'.
  Proof.
    intros [Hd Ho] Hs. destruct Hs.
    1: { split; assumption. }
    1: { exfalso. destruct (Hd t) as [H1 H2]. destruct H; contradiction. }
    all: unfold I0, pcof in *; cbn [xms_th] in *.
    all: pose proof (Ho t) as Hot; rewrite H in Hot; cbn in Hot.
    all: try match goal with H : origin _ _ _ _ _ _ _ _ _ _ _ |- _ => destruct H end.
    all: try match goal with H : _ = XmInTermAll \/ _ |- _ => destruct H; subst end.
    all: split; intros j; pw j t; cbn; auto; try (split; discriminate).
    all: intros Hn; specialize (Hot Hn); discriminate.
  Qed.

  (** *** I1: the counters and the trace *)
  Record I1 (s : xm_state) : Prop := {
    a_taken : xms_taken s = count is_begin_data (xms_tr s);
    a_le : xms_taken s <= max;
    a_panic : existsb is_panic (xms_tr s) = false;
    a_up : forall j, count (is_up_term_of j) (xms_tr s) = b2n (xms_stopped s j);
    a_cell : forall j, xms_stopped s j = true -> xms_cell s j = false }.

  Lemma I1_init : I1 (xm_init n qs fins).
  Proof. constructor; cbn; auto; try lia; discriminate. Qed.

  Lemma sweep_I1 k skip t cell stp tr cell' stp' tr1 :
    sweep_rel k skip t cell stp tr cell' stp' tr1 ->
    (forall j, count (is_up_term_of j) tr = b2n (stp j)) ->
    (forall j, stp j = true -> cell j = false) ->
    (forall j, count (is_up_term_of j) tr1 = b2n (stp' j)) /\
    (forall j, stp' j = true -> cell' j = false).
  Proof.
    intros (Hc & Hs & Hq & Hu) Hd He. split; intros j.
    - rewrite Hu, Hs, Hd. specialize (He j).
      destruct (stp j), (swept k skip j), (cell j); cbn; auto. discriminate He; reflexivity.
    - rewrite Hs, Hc. specialize (He j).
      destruct (stp j), (swept k skip j), (cell j); cbn; auto.
  Qed.

  Lemma I1_step s t s' : I0 s -> I1 s -> mstep max n s t s' -> I1 s'.
  Proof.
    intros [Hdead _] [Ha Hb Hc Hd He] Hs. destruct Hs.
    1: { constructor; assumption. }
    1: { exfalso. destruct (Hdead t) as [H1 H2]. destruct H; contradiction. }
    all: cbn [xms_taken xms_tr xms_stopped xms_cell] in *.
    all: try match goal with H : origin _ _ _ _ _ _ _ _ _ _ _ |- _ => destruct H end.
    all: try match goal with
           | H : sweep_rel _ _ _ _ _ _ _ _ _ |- _ =>
               let Hu := fresh "Hu" in let Hce := fresh "Hce" in
               destruct (sweep_I1 H Hd He) as [Hu Hce];
               destruct H as (_ & _ & Hq & _);
               pose proof (qext_count is_begin_data (fun _ _ _ => eq_refl) Hq) as Hqd;
               pose proof (qext_panic Hq) as Hqp
           end.
    all: constructor; cbn [xms_taken xms_tr xms_stopped xms_cell];
      rewrite ?count_cons_t; cbn [is_begin_data is_up_term_of is_panic snd existsb orb];
      try assumption; try lia; try congruence.
    all: try (intros j; rewrite ?count_cons_t; cbn [is_up_term_of snd]; auto; fail).
    1: { intros j. rewrite count_cons_t, Hd. cbn [is_up_term_of snd]. pw j t.
         - rewrite Nat.eqb_refl. destruct (stp t) eqn:Es; [|reflexivity].
           rewrite (He t Es) in H0. discriminate.
         - rewrite (proj2 (Nat.eqb_neq t j)) by auto. reflexivity. }
    all: intros j; pw j t; auto.
  Qed.

  (** *** I2: the sink's terminal message.  Whoever finds take's [end] flag unset ends the sink: at
      once (the swaps of the Terminate and Error arms), or after merge's sink talkback has run
      (the thread at XmAtMgEnded, at most one) *)
  Record I2 (s : xm_state) : Prop := {
    b_mge : forall t, pcof s t = XmAtMgEnded ->
                      xms_tend s = true /\ count is_begin_term (xms_tr s) = 0;
    b_mgu : forall t1 t2, pcof s t1 = XmAtMgEnded -> pcof s t2 = XmAtMgEnded -> t1 = t2;
    b_bt : count is_begin_term (xms_tr s) = b2n (xms_tend s) \/ exists t, pcof s t = XmAtMgEnded }.

  Lemma I2_init : I2 (xm_init n qs fins).
  Proof.
    assert (H : forall t, pcof (xm_init n qs fins) t <> XmAtMgEnded).
    { intros t. unfold pcof. cbn -[Nat.ltb]. destruct (t <? n); discriminate. }
    constructor.
    - intros t Ht. now apply H in Ht.
    - intros t1 t2 Ht. now apply H in Ht.
    - left. reflexivity.
  Qed.

  Lemma I2_nobody s :
    I2 s -> xms_tend s = false ->
    (forall t, pcof s t <> XmAtMgEnded) /\ count is_begin_term (xms_tr s) = 0.
  Proof.
    intros [Ha Hb Hc] Ht.
    assert (Hn : forall t, pcof s t <> XmAtMgEnded).
    { intros t H. destruct (Ha t H) as [H1 _]. congruence. }
    split; [exact Hn|]. destruct Hc as [Hc|[t Hc]]; [now rewrite Ht in Hc | now apply Hn in Hc].
  Qed.

  Lemma I2_frame s s' t :
    I2 s -> xms_tend s' = xms_tend s ->
    count is_begin_term (xms_tr s') = count is_begin_term (xms_tr s) ->
    (forall t0, t0 <> t -> pcof s' t0 = pcof s t0) ->
    pcof s t <> XmAtMgEnded -> pcof s' t <> XmAtMgEnded -> I2 s'.
  Proof.
    intros [Ha Hb Hc] Ht Hn Ho H1 H2.
    assert (Hp : forall t0, pcof s' t0 = XmAtMgEnded -> pcof s t0 = XmAtMgEnded).
    { intros t0 H. destruct (Nat.eq_dec t0 t) as [->|ne]; [contradiction|]. now rewrite <- Ho. }
    constructor.
    - intros t0 H. rewrite Ht, Hn. apply (Ha t0), Hp, H.
    - intros t1 t2 H3 H4. apply Hb; apply Hp; assumption.
    - rewrite Ht, Hn. destruct Hc as [Hc|[t0 Hc]]; [left; exact Hc|]. right. exists t0.
      destruct (Nat.eq_dec t0 t) as [->|ne]; [contradiction|]. now rewrite Ho.
  Qed.

  (** a swap that finds the flag unset and ends the sink in the same step *)
  Lemma I2_set s s' t :
    I2 s -> xms_tend s = false -> xms_tend s' = true ->
    count is_begin_term (xms_tr s') = 1 ->
    (forall t0, t0 <> t -> pcof s' t0 = pcof s t0) -> pcof s' t <> XmAtMgEnded -> I2 s'.
  Proof.
    intros HI Hf Ht Hn Ho H2. destruct (I2_nobody HI Hf) as [Hno _].
    assert (Hp : forall t0, pcof s' t0 <> XmAtMgEnded).
    { intros t0. destruct (Nat.eq_dec t0 t) as [->|ne]; [assumption|]. rewrite Ho by assumption. apply Hno. }
    constructor.
    - intros t0 H. now apply Hp in H.
    - intros t1 t2 H. now apply Hp in H.
    - left. now rewrite Ht, Hn.
  Qed.

  Ltac kill_dead Hdead t H :=
    exfalso; let H1 := fresh in let H2 := fresh in destruct (Hdead t) as [H1 H2]; destruct H; contradiction.

  Lemma I2_step s t s' : I0 s -> I2 s -> mstep max n s t s' -> I2 s'.
  Proof.
    intros [Hdead _] HI Hs. destruct Hs.
    1: { assumption. }
    1: { kill_dead Hdead t H. }
    all: try match goal with H : origin _ _ _ _ _ _ _ _ _ _ _ |- _ => destruct H end.
    all: try match goal with H : _ = XmInTermAll \/ _ |- _ => destruct H; subst end.
    all: try match goal with
           | H : sweep_rel _ _ _ _ _ _ _ _ _ |- _ =>
               destruct H as (_ & _ & Hq & _);
               pose proof (qext_count is_begin_term (fun _ _ _ => eq_refl) Hq) as Hqd
           end.
    all: try solve [ apply (@I2_frame _ _ t HI);
           [ reflexivity
           | cbn [xms_tr]; rewrite ?count_cons_t; cbn [is_begin_term snd]; auto
           | intros t0 ne; unfold pcof; cbn [xms_th]; now rewrite upd_other
           | unfold pcof; cbn [xms_th]; rewrite H; discriminate
           | unfold pcof; cbn [xms_th]; rewrite upd_same; discriminate ] ].
    all: try solve [ apply (@I2_set _ _ t HI);
           [ reflexivity | reflexivity
           | let Hz := fresh in
             pose proof (proj2 (I2_nobody HI eq_refl)) as Hz; cbn [xms_tr] in *;
             rewrite ?count_cons_t; cbn [is_begin_term snd]; rewrite Hz; reflexivity
           | intros t0 ne; unfold pcof; cbn [xms_th]; now rewrite upd_other
           | unfold pcof; cbn [xms_th]; rewrite upd_same; discriminate ] ].
    - (* the holder of the last ticket finds the flag unset *)
      destruct (I2_nobody HI eq_refl) as [Hno Hz]. unfold pcof in *. cbn [xms_th xms_tr xms_tend] in *.
      constructor; unfold pcof; cbn [xms_th xms_tr xms_tend].
      + intros t0 _. auto.
      + intros t1 t2. pw t1 t; pw t2 t; auto; intros H1 H2; exfalso; eapply Hno; eauto.
      + right. exists t. now rewrite upd_same.
    - (* merge's sink talkback has run: the sink's Terminate begins *)
      destruct HI as [Ha Hb Hc]. unfold pcof in *. cbn [xms_th xms_tr xms_tend] in *.
      assert (Hpt : xm_pcv (th t) = XmAtMgEnded) by now rewrite H.
      destruct (Ha t Hpt) as [-> Hz].
      assert (Hp : forall t0, xm_pcv (upd th t (XT XmInTerm q f) t0) <> XmAtMgEnded).
      { intros t0. pw t0 t; [discriminate|]. intros H1. apply n0. now apply Hb. }
      constructor; unfold pcof; cbn [xms_th xms_tr xms_tend].
      + intros t0 H1. now apply Hp in H1.
      + intros t1 t2 H1. now apply Hp in H1.
      + left. rewrite count_cons_t, Hqd, Hz. reflexivity.
  Qed.

  (** *** I3: while [max] items were taken and take's [end] flag is unset, the thread that
      obtained the last ticket is on its way to the swap *)
  Definition is_hpc (p : xm_pc) : bool :=
    match p with XmInData t' => Nat.eqb t' max | XmAtEndSwap => true | _ => false end.

  Definition I3 (s : xm_state) : Prop :=
    1 <= max -> xms_taken s = max -> xms_tend s = true \/ exists t, is_hpc (pcof s t) = true.

  Lemma I3_init : I3 (xm_init n qs fins).
  Proof. intros H1 H2. cbn in H2. lia. Qed.

  Lemma I3_frame s s' t :
    I3 s -> xms_taken s' = xms_taken s -> (xms_tend s = true -> xms_tend s' = true) ->
    (forall t0, t0 <> t -> pcof s' t0 = pcof s t0) ->
    (is_hpc (pcof s t) = true -> is_hpc (pcof s' t) = true \/ xms_tend s' = true) -> I3 s'.
  Proof.
    intros HI Hk He Ho Hh Hpos Hm. rewrite Hk in Hm.
    destruct (HI Hpos Hm) as [H|[t0 H]]; [left; auto|].
    destruct (Nat.eq_dec t0 t) as [->|ne].
    - destruct (Hh H); [right; exists t; assumption | left; assumption].
    - right. exists t0. now rewrite Ho.
  Qed.

  Lemma I3_step s t s' : I0 s -> I3 s -> mstep max n s t s' -> I3 s'.
  Proof.
    intros [Hdead _] HI Hs. destruct Hs.
    1: { assumption. }
    1: { kill_dead Hdead t H. }
    all: try match goal with H : origin _ _ _ _ _ _ _ _ _ _ _ |- _ => destruct H end.
    all: try match goal with H : _ = XmInTermAll \/ _ |- _ => destruct H; subst end.
    all: try solve [ apply (@I3_frame _ _ t HI);
           [ reflexivity
           | cbn [xms_tend]; auto
           | intros t0 ne; unfold pcof; cbn [xms_th]; now rewrite upd_other
           | unfold pcof; cbn [xms_th xms_tend]; rewrite H, upd_same; cbn [xm_pcv is_hpc];
             let Hh := fresh in intros Hh; auto; try discriminate;
             apply Nat.eqb_eq in Hh; contradiction ] ].
    (* a ticket is taken *)
    intros Hpos Hm. cbn [xms_taken] in Hm. right. exists t. unfold pcof. cbn [xms_th].
    rewrite upd_same. cbn [xm_pcv is_hpc]. now apply Nat.eqb_eq.
  Qed.

  (** *** I5: every member's deliveries are a prefix of its queue; as long as take is not full,
      what remains is the datum in its hand and the rest of its queue *)
  Definition pend (p : xm_pc) : list val := match p with XmAtTaken v => [v] | _ => [] end.

  Definition Dc (tk : nat) (tr : list tevent) (j : nat) (thr : xm_thread) : Prop :=
    exists l, delivered_by j (rev tr) ++ l = qs j /\
              (tk < max -> l = pend (xm_pcv thr) ++ xm_q thr).

  Definition I5 (s : xm_state) : Prop := forall j, Dc (xms_taken s) (xms_tr s) j (xms_th s j).

  Lemma I5_init : I5 (xm_init n qs fins).
  Proof.
    intros j. exists (qs j). split; [reflexivity|]. intros _. cbn -[Nat.ltb].
    destruct (j <? n); reflexivity.
  Qed.

  Lemma Dc_keep tk tr j thr tk' tr' thr' :
    Dc tk tr j thr -> delivered_by j (rev tr') = delivered_by j (rev tr) ->
    (tk' < max -> tk < max /\ pend (xm_pcv thr') ++ xm_q thr' = pend (xm_pcv thr) ++ xm_q thr) ->
    Dc tk' tr' j thr'.
  Proof.
    intros (l & Hl & Hq) Ht Hp. exists l. split; [now rewrite Ht|].
    intros Hlt. destruct (Hp Hlt) as [H1 H2]. rewrite H2. auto.
  Qed.

  Lemma deliv_cons j t e tr :
    (forall v, e = TBegin (DD v) -> j <> t) ->
    delivered_by j (rev ((t, e) :: tr)) = delivered_by j (rev tr).
  Proof.
    intros H. cbn [rev]. rewrite delivered_snoc.
    destruct e as [[| v | |]| | |]; cbn; try apply app_nil_r.
    destruct (Nat.eqb_spec j t) as [E|_]; [|apply app_nil_r]. exfalso. exact (H v eq_refl E).
  Qed.

  Lemma I5_step s t s' : I0 s -> I5 s -> mstep max n s t s' -> I5 s'.
  Proof.
    intros [Hdead _] HI Hs. destruct Hs.
    1: { assumption. }
    1: { kill_dead Hdead t H. }
    all: try match goal with H : origin _ _ _ _ _ _ _ _ _ _ _ |- _ => destruct H end.
    all: try match goal with H : _ = XmInTermAll \/ _ |- _ => destruct H; subst end.
    all: try match goal with
           | H : sweep_rel _ _ _ _ _ _ _ _ _ |- _ => destruct H as (_ & _ & Hq & _) end.
    all: intros j; pose proof (HI j) as Hj; unfold I5 in HI; cbn [xms_taken xms_tr xms_th] in *.
    all: try solve [ eapply Dc_keep; [exact Hj | |];
           [ rewrite ?deliv_cons by discriminate; try reflexivity; eapply qext_delivered; eassumption
           | pw j t; [rewrite H; cbn [xm_pcv xm_q pend app]; intros; first [exfalso; lia | split; [lia|reflexivity]]
                     | intros; split; [assumption|reflexivity] ] ] ].
    (* a ticket is taken and the delivery begins *)
    pw j t.
    - destruct Hj as (l & Hl & Hq). rewrite H in Hq. cbn [xm_pcv xm_q pend] in Hq.
      specialize (Hq H0). subst l. exists q. split.
      + cbn [rev]. rewrite delivered_snoc. cbn [ev_data]. rewrite Nat.eqb_refl, <- app_assoc. exact Hl.
      + intros _. reflexivity.
    - eapply Dc_keep; [exact Hj | |].
      + apply deliv_cons. intros v0 _. assumption.
      + intros Hlt. split; [lia|reflexivity].
  Qed.

  (** *** the invariants together *)
  Definition Inv (s : xm_state) : Prop := I0 s /\ I1 s /\ I2 s /\ I3 s /\ I5 s.

  Lemma reach_inv s : xm_reach max n qs fins s -> Inv s.
  Proof.
    induction 1 as [|s t _ (H0 & H1 & H2 & H3 & H5)].
    - split; [|split; [|split; [|split]]];
        [apply I0_init | apply I1_init | apply I2_init | apply I3_init | apply I5_init].
    - pose proof (mstep_of max n s t) as Hs. split; [|split; [|split; [|split]]].
      + eapply I0_step; eauto.
      + eapply I1_step; eauto.
      + eapply I2_step; eauto.
      + eapply I3_step; eauto.
      + eapply I5_step; eauto.
  Qed.

  (** *** C19 through merge!, safety: never more than [max] data, the sink is ended at most once,
      every member is told to stop at most once, no panic - for any number of failing members *)
  Theorem takemerge_safe s : xm_reach max n qs fins s ->
    count is_begin_data (xms_tr s) <= max
    /\ count is_begin_term (xms_tr s) <= 1
    /\ (forall j, count (is_up_term_of j) (xms_tr s) <= 1)
    /\ existsb is_panic (xms_tr s) = false.
  Proof.
    intros Hr. destruct (reach_inv Hr) as (_ & [Ha Hb Hc Hd He] & [Hm Hu Hbt] & _ & _).
    split; [|split; [|split]].
    - now rewrite <- Ha.
    - destruct Hbt as [Hbt|[t Ht]].
      + rewrite Hbt. destruct (xms_tend s); cbn; lia.
      + destruct (Hm t Ht) as [_ ->]. lia.
    - intros j. rewrite Hd. destruct (xms_stopped s j); cbn; lia.
    - exact Hc.
  Qed.

  Lemma finished_pc s : I0 s -> (forall t, t < n -> xm_finished s t = true) ->
    forall t, pcof s t = XmFinished.
  Proof.
    intros [_ Ho] Hfin t. destruct (Nat.lt_ge_cases t n) as [Hlt|Hge]; [|now apply Ho].
    specialize (Hfin t Hlt). unfold xm_finished in Hfin. unfold pcof.
    destruct (xm_pcv (xms_th s t)); try discriminate. reflexivity.
  Qed.

  (** once [max] data were delivered and everything is quiet, take's [end] flag is set *)
  Lemma quiet_tend s : 1 <= max -> Inv s -> (forall t, t < n -> xm_finished s t = true) ->
    max <= count is_begin_data (xms_tr s) -> xms_tend s = true.
  Proof.
    intros Hpos (H0 & [Ha Hb Hc Hd He] & _ & H3 & _) Hfin Hmax.
    pose proof (finished_pc H0 Hfin) as Hpc.
    assert (Hm : xms_taken s = max) by lia.
    destruct (H3 Hpos Hm) as [Ht|[t Ht]]; [exact Ht|]. rewrite Hpc in Ht. discriminate.
  Qed.

  (** *** completion: once [max] data were delivered and everything is quiet, the sink has been
      ended exactly once *)
  Theorem takemerge_complete s : 1 <= max -> xm_reach max n qs fins s ->
    (forall t, t < n -> xm_finished s t = true) ->
    max <= count is_begin_data (xms_tr s) -> count is_begin_term (xms_tr s) = 1.
  Proof.
    intros Hpos Hr Hfin Hmax. pose proof (reach_inv Hr) as HI.
    pose proof (quiet_tend Hpos HI Hfin Hmax) as Hte.
    destruct HI as (H0 & _ & [Hm Hu Hbt] & _ & _).
    pose proof (finished_pc H0 Hfin) as Hpc.
    destruct Hbt as [Hbt|[t Ht]]; [now rewrite Hbt, Hte|]. rewrite Hpc in Ht. discriminate.
  Qed.

  (** *** a member's data arrive in its own order, nothing forged *)
  Theorem takemerge_order s t : xm_reach max n qs fins s ->
    is_prefix (delivered_by t (rev (xms_tr s))) (qs t) = true.
  Proof.
    intros Hr. destruct (reach_inv Hr) as (_ & _ & _ & _ & H5).
    destruct (H5 t) as (l & Hl & _). rewrite <- Hl. apply is_prefix_app.
  Qed.

  Lemma count_ext A (f g : A -> bool) l : (forall x, f x = g x) -> count f l = count g l.
  Proof.
    intros H. unfold count. induction l as [|x l IH]; [reflexivity|]. cbn. rewrite H.
    destruct (g x); cbn; now rewrite IH.
  Qed.

  (** *** the monitor of ThreadSpec reports nothing on a final state *)
  Theorem takemerge_final s : 1 <= max -> xm_reach max n qs fins s ->
    (forall t, t < n -> xm_finished s t = true) -> takemerge_check max (rev (xms_tr s)) = [].
  Proof.
    intros Hpos Hr Hfin. destruct (takemerge_safe Hr) as (H1 & H2 & H3 & H4).
    unfold takemerge_check. cbv zeta.
    match goal with |- context [forallb ?f ?l] => assert (Hup : forallb f l = true) end.
    { apply forallb_forall. intros i _. apply Nat.leb_le. rewrite count_rev.
      rewrite (@count_ext _ _ (is_up_term_of i)); [apply H3|].
      intros [t0 [m| |j [| |]|]]; cbn; try reflexivity; apply Nat.eqb_sym. }
    rewrite Hup, !count_rev, existsb_rev, H4.
    rewrite (proj2 (Nat.leb_le _ _) H1), (proj2 (Nat.leb_le _ _) H2).
    destruct (Nat.leb_spec max (count is_begin_data (xms_tr s))) as [Hle|Hlt]; [|reflexivity].
    rewrite (takemerge_complete Hpos Hr Hfin Hle). reflexivity.
  Qed.

  (** ** take ends its upstream: the cells and the members *)

  Definition is_none (f : final) : bool := match f with FinNone => true | _ => false end.
  Definition is_term (f : final) : bool := match f with FinTerm => true | _ => false end.
  Definition is_err (f : final) : bool := match f with FinErr _ => true | _ => false end.

  (** *** XTI: per thread, by program counter: a member that greets or delivers has its talkback
      in its cell exactly as long as nobody told it to stop; a member that completes empties its
      cell itself and is never told to stop *)
  Definition xTIc (ec : nat) (en : bool) (j : nat) (cl sp : bool) (thr : xm_thread) : Prop :=
    xm_fin thr = fins j /\
    match xm_pcv thr with
    | XmAtEndInc | XmInTermAll =>
        cl = false /\ sp = false /\ xm_q thr = [] /\ is_term (xm_fin thr) = true
    | XmAtEndSwapT =>
        cl = false /\ sp = false /\ xm_q thr = [] /\ is_term (xm_fin thr) = true /\ n <= ec
    | XmAtEndedStore _ => xm_q thr = [] /\ is_err (xm_fin thr) = true
    | XmAtEndSwapE _ | XmInErr => xm_q thr = [] /\ is_err (xm_fin thr) = true /\ en = true
    | XmFinished =>
        j < n -> sp = false ->
        (is_none (xm_fin thr) = true -> cl = true) /\
        (is_term (xm_fin thr) = true -> cl = false /\ xm_q thr = []) /\
        (is_err (xm_fin thr) = true -> xm_q thr = [] /\ en = true)
    | XmAtEndLoad | XmAtEndStore => True
    | _ => cl = negb sp
    end.

  Definition xTI (s : xm_state) : Prop :=
    forall j, xTIc (xms_endc s) (xms_ended s) j (xms_cell s j) (xms_stopped s j) (xms_th s j).

  Lemma xTI_init : xTI (xm_init n qs fins).
  Proof.
    intros j. unfold xTIc. cbn -[Nat.ltb].
    destruct (Nat.ltb_spec j n); cbn; split; auto. intros; lia.
  Qed.

  Lemma xTI_step s t s' : I0 s -> xTI s -> mstep max n s t s' -> xTI s'.
  Proof.
    intros [Hdead _] HTI Hs. destruct Hs.
    1: { assumption. }
    1: { kill_dead Hdead t H. }
    all: intros j; pose proof (HTI t) as Ht; pose proof (HTI j) as Hj;
      unfold xTIc in *; cbn [xms_endc xms_ended xms_cell xms_stopped xms_th] in *.
    all: rewrite H in Ht; cbn [xm_pcv xm_q xm_fin] in Ht.
    all: try match goal with H : origin _ _ _ _ _ _ _ _ _ _ _ |- _ => destruct H end.
    all: try match goal with H : _ = XmInTermAll \/ _ |- _ => destruct H; subst end.
    all: try match goal with
           | H : sweep_rel _ _ _ _ _ _ _ _ _ |- _ =>
               let Hc := fresh "Hc" in let Hs := fresh "Hs" in
               destruct H as (Hc & Hs & _ & _); rewrite (Hc j), (Hs j); clear Hc Hs
           end.
    all: destruct (Nat.eq_dec j t) as [->|Hne];
      [ rewrite ?upd_same; clear Hj; cbn [xm_pcv xm_q xm_fin]
      | rewrite ?upd_other by assumption; clear Ht; try exact Hj ].
    (* the stepping thread *)
    all: try solve [ try (destruct f); destruct (cell t) eqn:Ecl; destruct (stp t) eqn:Esp;
                     try match goal with |- context [swept ?k ?sk ?j] => destruct (swept k sk j) end;
                     cbn [andb orb negb is_none is_term is_err] in *;
                     intuition (try lia; try congruence) ].
    (* the others *)
    all: try solve [ revert Hj; destruct (xm_pcv (th j)); intros Hj;
                     try match goal with |- context [swept ?k ?sk ?j] =>
                       destruct (swept k sk j); destruct (cell j); destruct (stp j) end;
                     cbn [andb orb negb] in *; intuition (try lia; try congruence) ].
  Qed.

  (** *** XGI: [end_count] is the number of members that counted themselves: those past the
      counter, ending with Terminate, never told to stop *)
  Definition xdone (pc : xm_pc) : bool :=
    match pc with XmAtEndSwapT | XmInTermAll | XmFinished => true | _ => false end.
  Definition xcounted (th : nat -> xm_thread) (stp : nat -> bool) (j : nat) : bool :=
    xdone (xm_pcv (th j)) && is_term (xm_fin (th j)) && negb (stp j).
  Definition xGI (s : xm_state) : Prop := xms_endc s = cnt (xcounted (xms_th s) (xms_stopped s)) n.

  Lemma xGI_init : xGI (xm_init n qs fins).
  Proof.
    unfold xGI. cbn -[Nat.ltb].
    transitivity (cnt (fun _ => false) n).
    - clear. induction n; cbn; auto.
    - apply cnt_ext. intros j Hj. unfold xcounted. cbn -[Nat.ltb].
      destruct (Nat.ltb_spec j n); [reflexivity|lia].
  Qed.

  Lemma xGI_step s t s' : I0 s -> xTI s -> xGI s -> mstep max n s t s' -> xGI s'.
  Proof.
    intros [Hdead Hout] HTI HGI Hs. destruct Hs.
    1: { assumption. }
    1: { kill_dead Hdead t H. }
    all: unfold xGI in *; cbn [xms_endc xms_th xms_stopped] in *.
    all: pose proof (HTI t) as Ht; unfold xTIc in Ht; cbn [xms_endc xms_ended xms_cell xms_stopped xms_th] in Ht;
      rewrite H in Ht; cbn [xm_pcv xm_q xm_fin] in Ht.
    all: assert (Htn : t < n) by
      (destruct (Nat.lt_ge_cases t n) as [|Hge]; [assumption|]; exfalso;
       specialize (Hout t Hge); unfold pcof in Hout; cbn [xms_th] in Hout; rewrite H in Hout;
       cbn [xm_pcv] in Hout;
       try match goal with H : origin _ _ _ _ _ _ _ _ _ _ _ |- _ => destruct H end;
       try match goal with H : _ = XmInTermAll \/ _ |- _ => destruct H; subst end; discriminate).
    all: rewrite HGI; clear HGI.
    all: first [ apply cnt_ext; intros j Hj
               | symmetry; apply cnt_flip with (t := t); [assumption|intros j Hj Hne| |] ].
    all: unfold xcounted.
    all: try match goal with H : origin _ _ _ _ _ _ _ _ _ _ _ |- _ => destruct H end.
    all: try match goal with H : _ = XmInTermAll \/ _ |- _ => destruct H; subst end.
    all: try (destruct (Nat.eq_dec j t) as [->|Hne]);
      rewrite ?upd_same; rewrite ?upd_other by assumption; rewrite ?H; cbn [xm_pcv xm_fin xdone is_term andb negb].
    all: try reflexivity.
    all: try solve [destruct f; cbn [is_none is_term is_err andb] in *; try reflexivity; intuition congruence].
    all: try solve [destruct (stp t); cbn; rewrite ?andb_false_r; intuition congruence].
    all: try solve [destruct Ht as (_ & _ & -> & _ & ->); reflexivity].
    (* the sweeps: a member that counted itself has emptied its cell and is not told to stop *)
    all: pose proof (HTI j) as Hjj; unfold xTIc in Hjj;
      cbn [xms_endc xms_ended xms_cell xms_stopped xms_th] in Hjj;
      destruct H0 as (_ & Hs' & _ & _); rewrite (Hs' j);
      (destruct (cell j) eqn:Ec; [|now rewrite andb_false_r, orb_false_r]);
      revert Hjj; destruct (xm_pcv (th j)); cbn [xdone andb]; try reflexivity; intros Hjj;
      destruct (is_term (xm_fin (th j))) eqn:Ef; destruct (stp j) eqn:Es; cbn; try reflexivity;
      exfalso; intuition congruence.
  Qed.

  (** *** XEI: once merge's [ended] flag is set, the cell of every member that neither completes
      nor fails has been emptied *)
  Definition xEI (s : xm_state) : Prop :=
    xms_ended s = true -> forall j, j < n -> is_none (xm_fin (xms_th s j)) = true -> xms_cell s j = false.

  Lemma xEI_init : xEI (xm_init n qs fins).
  Proof. intros H. discriminate. Qed.

  Lemma xEI_step s t s' : I0 s -> xTI s -> xEI s -> mstep max n s t s' -> xEI s'.
  Proof.
    intros [Hdead _] HTI HEI Hs. destruct Hs.
    1: { assumption. }
    1: { kill_dead Hdead t H. }
    all: unfold xEI in *; cbn [xms_ended xms_th xms_cell] in *.
    all: pose proof (HTI t) as Ht; unfold xTIc in Ht; cbn [xms_endc xms_ended xms_cell xms_stopped xms_th] in Ht;
      rewrite H in Ht; cbn [xm_pcv xm_q xm_fin] in Ht.
    all: intros Hen j Hj; pose proof (fun E => HEI E j Hj) as Hold; clear HEI.
    all: try match goal with
           | H : sweep_rel _ _ _ _ _ _ _ _ _ |- _ =>
               let Hc := fresh "Hc" in destruct H as (Hc & _ & _ & _); rewrite (Hc j); clear Hc;
               unfold swept, skipped; rewrite (proj2 (Nat.ltb_lt j n) Hj)
           end.
    all: destruct (Nat.eq_dec j t) as [->|Hne];
      rewrite ?upd_same; rewrite ?upd_other by assumption; rewrite ?H in Hold;
      cbn [xm_fin] in *; auto.
    all: try solve [intros Hf; rewrite (Hold Hen Hf); reflexivity].
    all: try solve [intros Hf; cbn; apply andb_false_r].
    all: try solve [intros Hf; rewrite (proj2 (Nat.eqb_neq j t) Hne); cbn; apply andb_false_r].
    (* the failing member skips its own cell *)
    intros Hf. exfalso. destruct Ht as (_ & _ & He). destruct f; discriminate.
  Qed.

  (** *** XTE: why take's [end] flag is set: merge's sink talkback has run or is about to,
      a member failed, or every member completed *)
  Definition xTE (s : xm_state) : Prop :=
    xms_tend s = true ->
    xms_ended s = true \/ n <= xms_endc s \/ exists t, pcof s t = XmAtMgEnded.

  Lemma xTE_init : xTE (xm_init n qs fins).
  Proof. intros H. discriminate. Qed.

  Lemma xTE_frame s s' t :
    xTE s -> (xms_tend s' = true -> xms_tend s = true) ->
    (xms_ended s = true -> xms_ended s' = true) -> xms_endc s <= xms_endc s' ->
    (forall t0, t0 <> t -> pcof s' t0 = pcof s t0) ->
    (pcof s t = XmAtMgEnded -> xms_ended s' = true) -> xTE s'.
  Proof.
    intros HI Ht He Hc Ho Hm Hte. destruct (HI (Ht Hte)) as [H|[H|[t0 H]]]; [left; auto | right; left; lia |].
    destruct (Nat.eq_dec t0 t) as [->|ne]; [left; auto|]. right. right. exists t0. now rewrite Ho.
  Qed.

  Lemma xTE_step s t s' : I0 s -> xTI s -> xTE s -> mstep max n s t s' -> xTE s'.
  Proof.
    intros [Hdead _] HTI HI Hs. destruct Hs.
    1: { assumption. }
    1: { kill_dead Hdead t H. }
    all: pose proof (HTI t) as Ht; unfold xTIc in Ht; cbn [xms_endc xms_ended xms_cell xms_stopped xms_th] in Ht;
      rewrite H in Ht; cbn [xm_pcv xm_q xm_fin] in Ht.
    all: try match goal with H : origin _ _ _ _ _ _ _ _ _ _ _ |- _ => destruct H end.
    all: try match goal with H : _ = XmInTermAll \/ _ |- _ => destruct H; subst end.
    all: try solve [ apply (@xTE_frame _ _ t HI);
           [ cbn [xms_tend]; auto
           | cbn [xms_ended]; auto
           | cbn [xms_endc]; lia
           | intros t0 ne; unfold pcof; cbn [xms_th]; now rewrite upd_other
           | unfold pcof; cbn [xms_th xms_ended]; rewrite H; cbn [xm_pcv]; auto; discriminate ] ].
    - (* the holder of the last ticket sets the flag: merge's sink talkback is next *)
      intros _. right. right. exists t. unfold pcof. cbn [xms_th]. now rewrite upd_same.
    - (* the last member's completion *)
      intros _. right. left. cbn [xms_endc]. tauto.
    - (* a failing member *)
      intros _. left. cbn [xms_ended]. tauto.
  Qed.

  Definition Inv2 (s : xm_state) : Prop := xTI s /\ xGI s /\ xEI s /\ xTE s.

  Lemma reach_inv2 s : xm_reach max n qs fins s -> Inv s /\ Inv2 s.
  Proof.
    induction 1 as [|s t Hr (HI & H1 & H2 & H3 & H4)].
    - split; [apply reach_inv; constructor|].
      split; [|split; [|split]]; [apply xTI_init | apply xGI_init | apply xEI_init | apply xTE_init].
    - split; [apply reach_inv; now constructor|].
      pose proof (mstep_of max n s t) as Hs. destruct HI as (H0 & _).
      split; [|split; [|split]].
      + eapply xTI_step; eauto.
      + eapply xGI_step; eauto.
      + eapply xEI_step; eauto.
      + eapply xTE_step; eauto.
  Qed.

  (** *** take ends its upstream: once [max] data were delivered and everything is quiet, every
      member has been told to stop exactly once, or had ended by itself (completed or failed,
      its queue delivered or dropped by take) and was never told to stop *)
  Theorem takemerge_members_stopped s : 1 <= max -> xm_reach max n qs fins s ->
    (forall t, t < n -> xm_finished s t = true) -> max <= count is_begin_data (xms_tr s) ->
    forall j, j < n -> count (is_up_term_of j) (xms_tr s) = 1
                       \/ (xm_q (xms_th s j) = [] /\ fins j <> FinNone /\ xms_stopped s j = false).
  Proof.
    intros Hpos Hr Hfin Hmax j Hj. destruct (reach_inv2 Hr) as (HI & HTI & HGI & HEI & HTE).
    pose proof (quiet_tend Hpos HI Hfin Hmax) as Hte.
    destruct HI as (H0 & [Ha Hb Hc Hd He] & _).
    pose proof (finished_pc H0 Hfin) as Hpc. unfold pcof in Hpc.
    rewrite Hd. destruct (xms_stopped s j) eqn:Es; [left; reflexivity|]. right.
    pose proof (HTI j) as Hjj. unfold xTIc in Hjj. rewrite (Hpc j), Es in Hjj.
    destruct Hjj as (Hf & Hfin'). specialize (Hfin' Hj eq_refl). destruct Hfin' as (Hn & Ht & He').
    rewrite <- Hf. destruct (xm_fin (xms_th s j)) eqn:Ef; cbn [is_none is_term is_err] in *.
    - destruct (Ht eq_refl) as [_ Hq]. repeat split; [exact Hq | discriminate].
    - destruct (He' eq_refl) as [Hq _]. repeat split; [exact Hq | discriminate].
    - exfalso. specialize (Hn eq_refl).
      destruct (HTE Hte) as [Hen|[Hec|[t0 Ht0]]].
      + assert (Hcl : xms_cell s j = false) by (apply (HEI Hen j Hj); now rewrite Ef). congruence.
      + unfold xGI in HGI. pose proof (cnt_le (xcounted (xms_th s) (xms_stopped s)) n) as Hle.
        assert (Hfull : cnt (xcounted (xms_th s) (xms_stopped s)) n = n) by lia.
        pose proof (cnt_full _ Hfull Hj) as Hcj. unfold xcounted in Hcj. rewrite Ef in Hcj.
        cbn in Hcj. rewrite andb_false_r in Hcj. discriminate.
      + unfold pcof in Ht0. rewrite Hpc in Ht0. discriminate.
  Qed.
End Proofs.

(** ** What the driver runs is reachable *)

Lemma xm_run_sched_reach max n qs fins sch : forall s,
  xm_reach max n qs fins s -> xm_reach max n qs fins (run_sched (xm_step true max n) xm_finished sch s).
Proof.
  induction sch as [|t sch IH]; intros s Hr; cbn; auto.
  apply IH. destruct (xm_finished s t); auto. now constructor.
Qed.

Lemma xm_drain_threads_reach max n qs fins nth fuel : forall s,
  xm_reach max n qs fins s ->
  xm_reach max n qs fins (drain_threads (xm_step true max n) xm_finished nth fuel s).
Proof.
  induction fuel as [|fuel IH]; intros s Hr; cbn; auto.
  destruct (first_unfinished xm_finished nth s); auto. apply IH. now constructor.
Qed.

Lemma takemerge_run_full_reach max n qs fins nth sch fuel :
  xm_reach max n qs fins (run_full (xm_step true max n) xm_finished nth sch fuel (xm_init n qs fins)).
Proof. unfold run_full. apply xm_drain_threads_reach, xm_run_sched_reach. constructor. Qed.

Corollary takemerge_driver_final max n qs fins nth sch fuel : 1 <= max ->
  let s := run_full (xm_step true max n) xm_finished nth sch fuel (xm_init n qs fins) in
  (forall t, t < n -> xm_finished s t = true) -> takemerge_check max (rev (xms_tr s)) = [].
Proof. intros Hpos s Hf. apply takemerge_final with (n := n) (qs := qs) (fins := fins); auto. apply takemerge_run_full_reach. Qed.

(** ** Replays *)

(** the code before the repair: the sink is ended twice on the witness schedule of ThreadsTakeMerge.v *)
Theorem takemerge_unfixed_refuted :
  let s := run_full (xm_step false 1 2) xm_finished 2 h11_sched 400 (xm_init 2 h11_qs h11_fins) in
  (forall t, t < 2 -> xm_finished s t = true) /\ count is_begin_term (xms_tr s) = 2
  /\ In TvSinkTermTwice (takemerge_check 1 (rev (xms_tr s))).
Proof.
  cbv zeta. split; [|split].
  - intros t Ht. destruct t as [|[|t]]; [vm_compute; reflexivity | vm_compute; reflexivity | lia].
  - vm_compute. reflexivity.
  - vm_compute. auto.
Qed.

Example takemerge_fixed_h11_ok :
  let s := run_full (xm_step true 1 2) xm_finished 2 h11_sched 400 (xm_init 2 h11_qs h11_fins) in
  (forall t, t < 2 -> xm_finished s t = true) /\ takemerge_check 1 (rev (xms_tr s)) = []
  /\ count is_begin_term (xms_tr s) = 1.
Proof.
  cbv zeta. split; [|split].
  - intros t Ht. destruct t as [|[|t]]; [vm_compute; reflexivity | vm_compute; reflexivity | lia].
  - vm_compute. reflexivity.
  - vm_compute. reflexivity.
Qed.

Print Assumptions takemerge_safe.
Print Assumptions takemerge_complete.
Print Assumptions takemerge_order.
Print Assumptions takemerge_members_stopped.
Print Assumptions takemerge_final.
Print Assumptions takemerge_run_full_reach.
Print Assumptions takemerge_driver_final.
Print Assumptions takemerge_unfixed_refuted.
Print Assumptions takemerge_fixed_h11_ok.
