(** * ThreadsTakeMerge: take(max) behind merge! of n member threads (C19 "through merge!")

    The composition of the two racing operators: member thread [t] delivers into merge's member
    handler, which calls take's source handler, which calls the recording sink.  When take has
    let [max] items through it ends its upstream - merge's sink talkback, which sets [ended] and
    takes every member's talkback out of its cell - and then the sink; when every member has
    completed, or one fails, merge ends take, which ends the sink.  Whoever sets take's [end]
    flag first ends the sink ([end.swap(true)], /repo fix H11); before that fix the source-side
    Terminate/Error arms of take did not look at [end], so a member failing on one thread while
    the delivery that reaches [max] was in progress on another ended the sink twice.

    Granularity as in [Threads.v]: one scheduling point per access to a counter or flag
    ([ended], [start_count], [end_count] of merge; [taken], [end] of take) and one inside every
    delivery to the sink; the talkback cells are local to a step.

      greeting       ended.load()                 XmAtEndedLoad
                     start_count.fetch_add(1)     XmAtStartInc      (first: greets take, which greets the sink)
      Data v         taken.fetch_update(..)       XmAtTaken v
                     (sink Data)                  XmInData t'
                     end.swap(true)               XmAtEndSwap       (t' = max; fixed)
                       [end.load / end.store      XmAtEndLoad / XmAtEndStore   (not fixed)]
                     ended.store(true)            XmAtMgEnded       (merge's sink talkback, then the sweep)
                     (sink Terminate)             XmInTerm
      Terminate      end_count.fetch_add(1)       XmAtEndInc
                     end.swap(true)               XmAtEndSwapT      (last member: take's Terminate arm; fixed)
      Error e        ended.store(true)            XmAtEndedStore e  (then the sweep over the siblings)
                     end.swap(true)               XmAtEndSwapE e    (take's Error arm; fixed)
                     (sink Error)                 XmInErr *)

From CB Require Export ThreadSpec ThreadsFine.

Set Implicit Arguments.

Inductive xm_pc : Type :=
| XmAtEndedLoad
| XmAtStartInc
| XmInGreet
| XmAtTaken (v : val)
| XmInData (t' : nat)
| XmAtEndSwap
| XmAtEndLoad
| XmAtEndStore
| XmAtMgEnded
| XmInTerm
| XmAtEndInc
| XmInTermAll
| XmAtEndSwapT
| XmAtEndedStore (e : nat)
| XmAtEndSwapE (e : nat)
| XmInErr
| XmFinished.

Record xm_thread : Type := mk_xm_thread { xm_pcv : xm_pc; xm_q : list val; xm_fin : final }.

Record xm_state : Type := mk_xm_state {
  xms_start : nat; xms_endc : nat; xms_ended : bool;   (* merge *)
  xms_cell : nat -> bool;
  xms_stopped : nat -> bool;
  xms_taken : nat; xms_tend : bool;                    (* take *)
  xms_th : nat -> xm_thread;
  xms_tr : list tevent;
}.

#[export] Instance eta_xm_thread : Settable _ := settable! mk_xm_thread <xm_pcv; xm_q; xm_fin>.
#[export] Instance eta_xm_state : Settable _ :=
  settable! mk_xm_state <xms_start; xms_endc; xms_ended; xms_cell; xms_stopped; xms_taken; xms_tend;
                         xms_th; xms_tr>.

Section TakeMerge.
  Variable fixed : bool.
  Variable max : nat.
  Variable n : nat.

  Definition xm_init (qs : nat -> list val) (fins : nat -> final) : xm_state :=
    {| xms_start := 0; xms_endc := 0; xms_ended := false;
       (* a greeting member publishes its talkback before its first scheduling point *)
       xms_cell := fun t => t <? n; xms_stopped := fun _ => false;
       xms_taken := 0; xms_tend := false;
       xms_th := fun t => {| xm_pcv := if t <? n then XmAtEndedLoad else XmFinished;
                             xm_q := qs t; xm_fin := fins t |};
       xms_tr := [] |}.

  Definition xm_set (s : xm_state) (t : nat) (th : xm_thread) : xm_state :=
    s <| xms_th := upd (xms_th s) t th |>.
  Definition xm_emit (s : xm_state) (t : nat) (e : tev) : xm_state :=
    s <| xms_tr := (t, e) :: xms_tr s |>.

  (** between two calls of the member's handler *)
  Definition xm_next (s : xm_state) (t : nat) (th : xm_thread) : xm_state :=
    if xms_stopped s t then xm_set s t (th <| xm_pcv := XmFinished |>)
    else
      match xm_q th with
      | v :: q' => xm_set s t (th <| xm_pcv := XmAtTaken v |> <| xm_q := q' |>)
      | [] =>
          match xm_fin th with
          | FinTerm =>                      (* Terminate arm: own cell emptied, then the counter *)
              xm_set (s <| xms_cell := upd (xms_cell s) t false |>) t (th <| xm_pcv := XmAtEndInc |>)
          | FinErr e => xm_set s t (th <| xm_pcv := XmAtEndedStore e |>)
          | FinNone => xm_set s t (th <| xm_pcv := XmFinished |>)
          end
      end.

  (** the ending party [t] takes the talkback of every member j < k (but [skip]) out of its cell and
      tells it to stop, in index order *)
  Fixpoint xm_sweep (k : nat) (skip : option nat) (t : nat) (s : xm_state) : xm_state :=
    match k with
    | 0 => s
    | S k' =>
        let s' := xm_sweep k' skip t s in
        let skipped := match skip with Some i => Nat.eqb k' i | None => false end in
        if negb skipped && xms_cell s k'
        then xm_emit (s' <| xms_stopped := upd (xms_stopped s') k' true |>
                         <| xms_cell := upd (xms_cell s') k' false |>) t (TUp k' UT)
        else s'
    end.

  (** take's source-side Terminate / Error arm *)
  Definition xm_take_end (s : xm_state) (t : nat) (th : xm_thread) (m : dmsg) (pc_swap pc_in : xm_pc)
    : xm_state :=
    if fixed then xm_set s t (th <| xm_pcv := pc_swap |>)
    else xm_set (xm_emit s t (TBegin m)) t (th <| xm_pcv := pc_in |>).   (* forwarded unconditionally *)

  Definition xm_step (s : xm_state) (t : nat) : xm_state :=
    let th := xms_th s t in
    match xm_pcv th with
    | XmAtEndedLoad =>
        if xms_ended s then
          let s1 := if xms_cell s t
                    then xm_emit (s <| xms_stopped := upd (xms_stopped s) t true |>
                                    <| xms_cell := upd (xms_cell s) t false |>) t (TUp t UT)
                    else s in
          xm_next s1 t th
        else xm_set s t (th <| xm_pcv := XmAtStartInc |>)
    | XmAtStartInc =>
        let sc := S (xms_start s) in
        let s1 := s <| xms_start := sc |> in
        if Nat.eqb sc 1 then xm_set (xm_emit s1 t (TBegin DH)) t (th <| xm_pcv := XmInGreet |>)
        else xm_next s1 t th
    | XmInGreet => xm_next (xm_emit s t TEnd) t th
    | XmAtTaken v =>
        if xms_taken s <? max then
          let t' := S (xms_taken s) in
          xm_set (xm_emit (s <| xms_taken := t' |>) t (TBegin (DD v))) t (th <| xm_pcv := XmInData t' |>)
        else xm_next s t th
    | XmInData t' =>
        let s1 := xm_emit s t TEnd in
        if Nat.eqb t' max then xm_set s1 t (th <| xm_pcv := if fixed then XmAtEndSwap else XmAtEndLoad |>)
        else xm_next s1 t th
    | XmAtEndSwap =>
        if xms_tend s then xm_next s t th
        else xm_set (s <| xms_tend := true |>) t (th <| xm_pcv := XmAtMgEnded |>)
    | XmAtEndLoad =>
        if xms_tend s then xm_next s t th else xm_set s t (th <| xm_pcv := XmAtEndStore |>)
    | XmAtEndStore =>
        xm_set (s <| xms_tend := true |>) t (th <| xm_pcv := XmAtMgEnded |>)
    | XmAtMgEnded =>
        (* merge's sink talkback: the flag, every cell; back in take: the sink's Terminate *)
        let s1 := xm_sweep n None t (s <| xms_ended := true |>) in
        xm_set (xm_emit s1 t (TBegin DT)) t (th <| xm_pcv := XmInTerm |>)
    | XmInTerm => xm_next (xm_emit s t TEnd) t th       (* the Data call returns; the member looks at "told to stop" *)
    | XmInTermAll | XmInErr => xm_set (xm_emit s t TEnd) t (th <| xm_pcv := XmFinished |>)   (* its last call *)
    | XmAtEndInc =>
        let ec := S (xms_endc s) in
        let s1 := s <| xms_endc := ec |> in
        if Nat.eqb ec n then xm_take_end s1 t th DT XmAtEndSwapT XmInTermAll
        else xm_set s1 t (th <| xm_pcv := XmFinished |>)
    | XmAtEndSwapT =>
        if xms_tend s then xm_set s t (th <| xm_pcv := XmFinished |>)
        else xm_set (xm_emit (s <| xms_tend := true |>) t (TBegin DT)) t (th <| xm_pcv := XmInTermAll |>)
    | XmAtEndedStore e =>
        let s1 := xm_sweep n (Some t) t (s <| xms_ended := true |>) in
        xm_take_end s1 t th (DE e) (XmAtEndSwapE e) XmInErr
    | XmAtEndSwapE e =>
        if xms_tend s then xm_set s t (th <| xm_pcv := XmFinished |>)
        else xm_set (xm_emit (s <| xms_tend := true |>) t (TBegin (DE e))) t (th <| xm_pcv := XmInErr |>)
    | XmFinished => s
    end.

  Definition xm_finished (s : xm_state) (t : nat) : bool :=
    match xm_pcv (xms_th s t) with XmFinished => true | _ => false end.
End TakeMerge.

(** H11 witness: take(1) behind merge of two members; member 0's only datum is being delivered when
    member 1 fails: before the fix the sink got the Error and then take's Terminate *)
Definition h11_qs (t : nat) : list val := match t with 0 => [VN 1] | _ => [] end.
Definition h11_fins (t : nat) : final := match t with 1 => FinErr 101 | _ => FinTerm end.
Definition h11_sched : list nat := [0;0;0;0;1;1;1;1;1;1;0;0;0;0;0].
