(** * PullPrograms: demand conservation (C14) for whole pipelines under an external sink.

    Liveness.v is about the CLOSED net  from_iter -> stages -> for_each.  Here the net is OPEN:
    [pipe_net it stages false], the environment is the sink of the last stage (of from_iter itself
    when there are no stages), and the iterator [it] is arbitrary (possibly unbounded).  The sink of
    the program sends at most one Pull per message it received ([disciplined]).  Then

    - [program_no_overdata]: the program never delivers more Data than it received Pulls;
    - [program_answers]: whenever the net is at rest (nothing pending anywhere) and the sink of the
      program is still live, every Pull has been answered by exactly one datum - no Pull is lost in
      the pipeline, none is waiting for "further prompting";

    both also in the monitor's own counters [npull]/[ndata] of the last node.

    The argument is the counting argument of Liveness.v:
    - the last node is reachable in the environment with [one_pull] ([top_one_pull]: external Pulls
      are disciplined by hypothesis, and an internal transfer INTO the last node is never a Pull,
      [pend_dir]); hence its credit is exact, and Pulls are never invented on the way up
      ([pulls_bounded]); hence from_iter is reachable in the environment with [one_pull] too
      ([inv_step]), and at rest has served every Pull ([rf_served]);
    - at rest a live sink means every link is live ([live_down]), every stage has passed on exactly
      the demand it received ([sf_demand_eq]) and nothing is in flight on the wires. *)

From CB Require Import ProofLib Spec Chain Programs Flow FlowLists Wire2 FlowGeneric.
From CB Require Import Flow_relay Flow_drop Flow_take Flow_ends.
From CB Require Inv_from_iter.
From CB Require Import LivenessG.

Set Implicit Arguments.

(** ** The regime "the sink sends at most one Pull per message received", for any parameters *)

Definition one1 (p : mparams) : mparams :=
  {| nsinks := nsinks p; late_ok := late_ok p; pullable := pullable p; one_pull := true;
     resub := resub p; no_nest := no_nest p; c14 := c14 p |}.

Lemma step_one1 p o (c : cfg o) m : step (one1 p) c m = step p c m.
Proof. reflexivity. Qed.

Lemma enabled_one1 p o g (c : cfg o) m :
  enabled p g c m = true ->
  (forall s, m = MIn (IUp s UP) -> 0 < credit (ms c) s) ->
  enabled (one1 p) g c m = true.
Proof.
  intros He Hcr. unfold enabled in *. destruct (dead c); [discriminate|]. cbn [negb andb] in *.
  destruct m as [[s a|s u|j d|s]|]; try exact He.
  destruct u as [|e|]; try exact He.
  apply andb_prop in He. destruct He as [H1 He]. apply andb_prop in He. destruct He as [H2 _].
  rewrite H1, H2. cbn. specialize (Hcr s eq_refl). destruct (credit (ms c) s); [lia|reflexivity].
Qed.

Definition nreach1 (n : node) : Prop := reach (one1 (npar n)) (ngrd n) (ncfg n).

Lemma nreach1_step n m :
  nreach1 n -> nenabled n m = true ->
  (forall s, m = MIn (IUp s UP) -> 0 < credit (nms n) s) ->
  nreach1 (nstep n m).
Proof.
  intros Hr He Hcr. unfold nreach1, nstep. cbn [npar ngrd ncfg].
  rewrite <- step_one1. apply reachS; [exact Hr|]. now apply enabled_one1.
Qed.

(** ** The direction of the pending transfer: talkback calls travel up, deliveries travel down *)

Definition pend_dir (N : net) : Prop :=
  match pend N with
  | PTo t inp =>
      match inp with
      | ISub s _ | IUp s _ => s = 0 /\ S t < length (nodes N)
      | IDn _ _ => 0 < t
      | ITick _ => False
      end
  | _ => True
  end.

Lemma after_step_dir N x n n' :
  nth_error (nodes N) x = Some n -> pend_dir (after_step N x n').
Proof.
  intros Hn. apply nth_error_lt in Hn.
  unfold pend_dir, after_step. destruct (nlast n') as [[i|c| | |ob|]|]; cbn [pend]; auto.
  - destruct (route (length (nodes N)) x c) eqn:Er; cbn [pend nodes]; auto.
    + destruct (route_up _ _ _ Er) as [[->|[u ->]] Hx]; cbn [xlate];
        rewrite set_nth_length; split; auto; lia.
    + destruct (route_dn _ _ _ Er) as (d & -> & _). cbn [xlate]. lia.
  - destruct (gst N) as [|[j [| |]] G]; cbn [pend]; auto.
Qed.

Lemma net_step_dir N mv : pend_dir N -> pend_dir (net_step N mv).
Proof.
  intros Hd. unfold net_step.
  destruct mv as [i m|]; destruct (pend N) as [|t inp|j] eqn:Ep; try exact Hd.
  - destruct (nth_error (nodes N) i) as [n|] eqn:Hn; [|exact Hd].
    destruct m; eapply after_step_dir; cbn [nodes]; exact Hn.
  - destruct (nth_error (nodes N) t) as [n|] eqn:Hn; [|exact Hd].
    eapply after_step_dir; exact Hn.
  - destruct (nth_error (nodes N) j) as [n|] eqn:Hn; [|exact Hd].
    eapply after_step_dir; cbn [nodes]; exact Hn.
Qed.

Lemma reach_dir N0 N : pend N0 = PIdle -> net_reach N0 N -> pend_dir N.
Proof.
  intros H0 Hr. induction Hr as [|N mv Hr IH He].
  - unfold pend_dir. now rewrite H0.
  - now apply net_step_dir.
Qed.

(** ** The open pipeline *)

Section PullPipe.
  Variable it : nat -> option val.
  Variable stages : list ustage.
  Hypothesis Hok : Forall ustage_ok stages.

  Definition qsigs : list sigT3 := pipe_sigs it stages false.
  Definition NQ : net := pipe_net it stages false.
  Definition top : nat := length stages.

  (** the sink of the program sends at most one Pull per message it received *)
  Definition disciplined (N : net) (mv : nmove) : Prop :=
    match mv with
    | NEnv i (MIn (IUp s UP)) => forall n, nth_error (nodes N) i = Some n -> 0 < credit (nms n) s
    | _ => True
    end.

  Inductive preach : net -> Prop :=
  | preach0 : preach NQ
  | preachS N mv : preach N -> net_enabled N mv = true -> disciplined N mv -> preach (net_step N mv).

  Lemma preach_reach N : preach N -> net_reach NQ N.
  Proof. induction 1 as [|N mv _ IH He _]; [apply nreach0 | now apply nreachS]. Qed.

  Lemma qHsig : map nsig (map mk0 qsigs) = qsigs.
  Proof.
    rewrite map_map. rewrite <- (map_id qsigs) at 2. apply map_ext. apply nsig_mk0.
  Qed.

  Lemma qHini : forall m, In m (map mk0 qsigs) -> ninit m.
  Proof. intros m Hm. apply in_map_iff in Hm. destruct Hm as (s & <- & _). apply ninit_mk0. Qed.

  Definition qHsafe := @pipe_safe it stages false Hok.
  Definition qHreg := @pipe_regime it stages false.

  Lemma qsigs_length : length qsigs = S (length stages).
  Proof. unfold qsigs, pipe_sigs. cbn. rewrite app_length, map_length. cbn. lia. Qed.

  (** *** What the composition theorems say about a reachable net *)

  Lemma q_inv N : net_reach NQ N -> Inv qsigs N.
  Proof. intros Hr. exact (chain_inv qHsafe qHreg qHsig qHini Hr). Qed.

  Lemma q_wire N : net_reach NQ N -> wire2_ok (nodes N) (pend N).
  Proof. intros Hr. exact (chain_wire2 qHsafe qHreg qHsig qHini Hr). Qed.

  Lemma q_nodes_sig N : net_reach NQ N -> map nsig (nodes N) = qsigs.
  Proof. intros Hr. destruct (q_inv Hr) as ([H _] & _). exact H. Qed.

  Lemma q_len N : net_reach NQ N -> length (nodes N) = S (length stages).
  Proof. intros Hr. rewrite <- qsigs_length, <- (q_nodes_sig Hr). now rewrite map_length. Qed.

  Lemma q_nth_sig N i n :
    net_reach NQ N -> nth_error (nodes N) i = Some n -> nth_error qsigs i = Some (nsig n).
  Proof. intros Hr Hn. rewrite <- (q_nodes_sig Hr). now apply map_nth_error. Qed.

  Lemma q_reach N i n : net_reach NQ N -> nth_error (nodes N) i = Some n -> nreach n.
  Proof. intros Hr Hn. destruct (q_inv Hr) as ([_ H] & _). now destruct (H i n Hn). Qed.

  Lemma q_dir N : net_reach NQ N -> pend_dir N.
  Proof. apply reach_dir. reflexivity. Qed.

  (** which component sits where: there is no sink node *)
  Inductive qkind_at (i : nat) (n : node) : Prop :=
  | QK_src : i = 0 -> nsig n = sig_src it -> qkind_at i n
  | QK_stage s : nth_error stages (pred i) = Some s -> 1 <= i <= length stages ->
                 nsig n = sig_stage s -> qkind_at i n.

  Lemma q_kind N i n : net_reach NQ N -> nth_error (nodes N) i = Some n -> qkind_at i n.
  Proof.
    intros Hr Hn. pose proof (q_nth_sig i Hr Hn) as Hs.
    unfold qsigs, pipe_sigs in Hs. destruct i as [|i].
    - cbn in Hs. inversion Hs. apply QK_src; [reflexivity | congruence].
    - cbn [nth_error] in Hs. rewrite app_nil_r in Hs.
      destruct (nth_error stages i) as [s|] eqn:Es.
      + rewrite (map_nth_error sig_stage _ _ Es) in Hs. inversion Hs.
        apply QK_stage with s; [exact Es | | congruence].
        apply nth_error_lt in Es. lia.
      + apply nth_error_None in Es. apply nth_error_lt in Hs. rewrite map_length in Hs. lia.
  Qed.

  Lemma qnode_src n : nsig n = sig_src it ->
    exists c : cfg (from_iter_op it), n = mk_node p_src g_std c.
  Proof.
    destruct n as [o p g c]. unfold nsig, sig_src. cbn [nop npar ngrd].
    intros E. inversion E; subst o p g. now exists c.
  Qed.

  Lemma qstage_ok i s : nth_error stages i = Some s -> ustage_ok s.
  Proof. exact (@stage_ok_at _ Hok i s). Qed.

  Lemma q_upstream N i n :
    nth_error (nodes N) (S i) = Some n -> exists U, nth_error (nodes N) i = Some U.
  Proof.
    intros Hn. apply nth_error_lt in Hn.
    destruct (nth_error (nodes N) i) as [U|] eqn:E; [now exists U|].
    apply nth_error_None in E. lia.
  Qed.

  Lemma q_downstream N i :
    net_reach NQ N -> i < top -> exists D, nth_error (nodes N) (S i) = Some D.
  Proof.
    intros Hr Hi. destruct (nth_error (nodes N) (S i)) as [D|] eqn:E; [now exists D|].
    apply nth_error_None in E. rewrite (q_len Hr) in E. unfold top in Hi. lia.
  Qed.

  Definition q_counts N i U D (Hr : net_reach NQ N) :=
    @chain_wire2_counts qsigs qHsafe qHreg _ N i U D qHsig qHini Hr.
  Definition q_idle N i U D (Hr : net_reach NQ N) :=
    @chain_wire2_idle qsigs qHsafe qHreg _ N i U D qHsig qHini Hr.

  Lemma q_cstack N i n : net_reach NQ N -> nth_error (nodes N) i = Some n ->
    cstack (nms n) = map snd (stack (ncfg n)).
  Proof. intros Hr Hn. exact (reach_cstack (q_reach i Hr Hn)). Qed.

  (** from_iter never delivers more data than it received Pulls (in any regime) *)
  Lemma src_no_overdata n : nsig n = sig_src it -> nreach n -> dout (ntrace n) <= pin (ntrace n).
  Proof.
    intros E Hre. destruct (qnode_src E) as [c ->].
    unfold nreach, ntrace in *. cbn [nop npar ngrd ncfg] in *.
    pose proof (Inv_from_iter.inv_reach (p := p_src) eq_refl eq_refl Hre) as HI.
    pose proof (Inv_from_iter.i_lazy HI) as H1. pose proof (Inv_from_iter.i_data HI) as H2.
    rewrite <- (reach_npull_pin Hre), dout_data_out.
    rewrite <- (map_length Some), H2.
    pose proof (cnt_le_length Inv_from_iter.is_some (Inv_from_iter.nexts (trace c))) as H3.
    unfold cnt in H3. lia.
  Qed.

  (** *** C14, first half: no node ever delivers more data than it received Pulls *)
  Lemma no_overdata_all N : net_reach NQ N ->
    forall i n, nth_error (nodes N) i = Some n -> dout (ntrace n) <= pin (ntrace n).
  Proof.
    intros Hr. induction i as [|i IH]; intros n Hn; pose proof (q_reach _ Hr Hn) as Hre.
    - destruct (q_kind 0 Hr Hn) as [_ E|s _ Hi _]; [|lia]. exact (src_no_overdata E Hre).
    - destruct (@q_upstream N i n Hn) as [U HU]. specialize (IH U HU).
      destruct (q_counts i Hr HU Hn) as (_ & Hd & Hp).
      destruct (q_kind (S i) Hr Hn) as [Hi _|s Hs _ E]; [lia|].
      destruct (ns_flow E (qstage_ok _ Hs) Hre) as (H4 & _). lia.
  Qed.

  (** *** Every enabled net move is an enabled move of exactly one node *)
  Lemma step_shape N mv : net_reach NQ N -> net_enabled N mv = true ->
    exists x n m N1, nth_error (nodes N) x = Some n /\ nenabled n m = true /\
      nodes N1 = nodes N /\ net_step N mv = after_step N1 x (nstep n m) /\
      match mv with
      | NEnv i m' => pend N = PIdle /\ x = i /\ m = m' /\
                     (forall inp, m' = MIn inp -> ext_input_ok (length (nodes N)) i inp = true)
      | NTau => match pend N with
                | PTo t inp => x = t /\ m = MIn inp
                | PRet j => x = j /\ m = MRet
                | PIdle => False
                end
      end.
  Proof.
    intros Hr He. destruct (q_inv Hr) as (Hnodes & Hst & Hwf & Hpend & Hlk).
    destruct N as [ns G pd]. cbn [nodes gst pend] in *.
    unfold net_step, net_enabled in *. cbn [nodes gst pend] in *.
    destruct mv as [i m|]; destruct pd as [|t inp|j]; try discriminate.
    - destruct (nth_error ns i) as [n|] eqn:Hn; [|discriminate].
      apply andb_prop in He. destruct He as [Hen He].
      exists i, n, m.
      exists (match m with MRet => mk_net ns (tl G) PIdle | MIn _ => mk_net ns G PIdle end).
      split; [exact Hn|]. split; [exact Hen|]. split; [destruct m; reflexivity|].
      split; [destruct m; reflexivity|]. split; [reflexivity|]. split; [reflexivity|].
      split; [reflexivity|].
      intros inp ->. apply andb_prop in He. tauto.
    - destruct Hpend as [_ (n & Hn & Hen)]. rewrite Hn.
      exists t, n, (MIn inp), (mk_net ns G (PTo t inp)). repeat split; auto.
    - destruct Hpend as (k & Hhd & Hk).
      destruct G as [|e G']; [discriminate|]. cbn in Hhd. inversion Hhd; subst e.
      assert (Hj : j < length ns).
      { destruct Hwf as (Hko & _). destruct k; cbn in Hko; lia. }
      destruct (nth_error ns j) as [n|] eqn:Hn.
      2: { apply nth_error_None in Hn. lia. }
      pose proof (ret_enabled qHsafe qHreg Hnodes Hst Hk Hn) as Hen.
      exists j, n, MRet, (mk_net ns G' PIdle). repeat split; auto.
  Qed.

  (** *** Demand is never invented on the way up, if the last node's sink is disciplined *)

  Lemma ncredit_exact n : nreach1 n ->
    credit (nms n) 0 + pin (ntrace n) = hout (ntrace n) + dout (ntrace n).
  Proof. intros H. exact (credit_exact (p := one1 (npar n)) eq_refl H). Qed.

  Lemma pulls_bounded_q N : net_reach NQ N ->
    (forall n, nth_error (nodes N) top = Some n -> nreach1 n) ->
    forall d i n, i + d = top -> 1 <= i -> nth_error (nodes N) i = Some n ->
      pout (ntrace n) <= hin (ntrace n) + din (ntrace n).
  Proof.
    intros Hr Htop. induction d as [|d IH]; intros i n Hid Hi Hn; pose proof (q_reach _ Hr Hn) as Hre;
      (destruct (q_kind i Hr Hn) as [H0 _|s Hs _ E]; [lia|]);
      destruct (ns_flow E (qstage_ok _ Hs) Hre) as (H4 & H5 & _).
    - assert (i = top) by lia. subst i.
      pose proof (ncredit_exact (Htop n Hn)) as Hc. lia.
    - destruct (@q_downstream N i Hr ltac:(lia)) as [D HD].
      specialize (IH (S i) D ltac:(lia) ltac:(lia) HD).
      destruct (q_counts i Hr Hn HD) as (H1 & H2 & H3). lia.
  Qed.

  (** *** The discipline is kept at both ends: the last node and from_iter are reachable in the
      environment with [one_pull] *)

  Definition pinv (N : net) : Prop :=
    (forall n, nth_error (nodes N) top = Some n -> nreach1 n) /\
    (forall n, nth_error (nodes N) 0 = Some n -> nreach1 n).

  Lemma pinv0 : pinv NQ.
  Proof.
    assert (H : forall i n, nth_error (nodes NQ) i = Some n -> nreach1 n).
    { intros i n Hn. apply nth_error_In in Hn. apply qHini in Hn.
      unfold nreach1. rewrite Hn. constructor. }
    split; intros n; apply H.
  Qed.

  Lemma disc_at N mv x n m N1 :
    net_reach NQ N -> pinv N -> net_enabled N mv = true -> disciplined N mv ->
    nth_error (nodes N) x = Some n -> nenabled n m = true ->
    match mv with
    | NEnv i m' => pend N = PIdle /\ x = i /\ m = m' /\
                   (forall inp, m' = MIn inp -> ext_input_ok (length (nodes N)) i inp = true)
    | NTau => match pend N with
              | PTo t inp => x = t /\ m = MIn inp
              | PRet j => x = j /\ m = MRet
              | PIdle => False
              end
    end ->
    nodes N1 = nodes N ->
    x = top \/ x = 0 ->
    forall s, m = MIn (IUp s UP) -> 0 < credit (nms n) s.
  Proof.
    intros Hr [IHt IH0] He Hdisc Hn Hen Hsh _ Hx s ->.
    pose proof (q_dir Hr) as Hdir. pose proof (q_len Hr) as Hlen.
    destruct mv as [i m'|].
    - (* an external Pull: disciplined by hypothesis *)
      destruct Hsh as (_ & -> & <- & _). cbn in Hdisc. exact (Hdisc n Hn).
    - destruct (pend N) as [|t inp|j] eqn:Epd; [contradiction| |destruct Hsh; discriminate].
      destruct Hsh as [-> Hinp]. inversion Hinp; subst inp. clear Hinp.
      unfold pend_dir in Hdir. rewrite Epd in Hdir. destruct Hdir as [-> Hlt].
      rewrite Hlen in Hlt. fold top in Hlt.
      destruct Hx as [->| ->]; [lia|].
      (* a Pull from node 1 into from_iter: node 1 has not sent more Pulls than it received
         greetings and data, and from_iter's credit is exact *)
      destruct (@q_downstream N 0 Hr ltac:(lia)) as [D HD].
      destruct (q_wire Hr 0 Hn HD) as [Wd Wu]. rewrite Epd in Wd, Wu.
      cbn [infl_dn infl_up Nat.eqb] in Wd, Wu. rewrite app_nil_r in Wd.
      assert (Hpo : pout (ntrace D) = pin (ntrace n) + 1).
      { unfold pout, pin. rewrite Wu, cnt_app. reflexivity. }
      assert (Hh : hin (ntrace D) = hout (ntrace n) /\ din (ntrace D) = dout (ntrace n)).
      { unfold hin, hout, din, dout. rewrite Wd. split; reflexivity. }
      pose proof (@pulls_bounded_q N Hr IHt (top - 1) 1 D ltac:(lia) ltac:(lia) HD) as Hb.
      pose proof (ncredit_exact (IH0 n Hn)) as Hcr.
      destruct Hh as [Hh1 Hh2]. lia.
  Qed.

  Lemma pinv_reach N : preach N -> pinv N.
  Proof.
    induction 1 as [|N mv Hp IH He Hdisc]; [exact pinv0|].
    pose proof (preach_reach Hp) as Hr.
    destruct (step_shape mv Hr He) as (x & n & m & N1 & Hn & Hen & Hnodes & Hstep & Hsh).
    pose proof (@disc_at N mv x n m N1 Hr IH He Hdisc Hn Hen Hsh Hnodes) as Hd.
    destruct IH as [IHt IH0].
    split; intros n'; rewrite Hstep, after_step_nodes, Hnodes, set_nth_nth.
    - destruct (Nat.eqb_spec top x) as [E|E]; [|apply IHt].
      rewrite E, Hn. intros H'. inversion H'; subst n'.
      apply nreach1_step; [apply IHt; now rewrite E | exact Hen | apply Hd; now left].
    - destruct (Nat.eqb_spec 0 x) as [E|E]; [|apply IH0].
      rewrite E, Hn. intros H'. inversion H'; subst n'.
      apply nreach1_step; [apply IH0; now rewrite E | exact Hen | apply Hd; now right].
  Qed.

  (** from_iter in the regime where its sink sends one Pull per message *)
  Definition qsource_flow1 : source_flow (from_iter_op it) (one1 p_src) :=
    from_iter_source_flow it (one1 p_src) eq_refl eq_refl eq_refl eq_refl eq_refl.

  Lemma src_served n : nsig n = sig_src it -> nreach1 n ->
    stack (ncfg n) = [] -> sk (nms n) 0 = SLive -> pin (ntrace n) = dout (ntrace n).
  Proof.
    intros E Hre. destruct (qnode_src E) as [c ->].
    unfold nreach1, ntrace, nms in *. cbn [nop npar ngrd ncfg] in *.
    exact (rf_served qsource_flow1 Hre).
  Qed.

  (** *** The net at rest *)

  Section Rest.
    Variable N : net.
    Hypothesis Hr : net_reach NQ N.
    Hypothesis Hp : pend N = PIdle.
    Hypothesis Hg : gst N = [].

    Lemma qrest_stack i n : nth_error (nodes N) i = Some n -> stack (ncfg n) = [].
    Proof.
      intros Hn. destruct (q_inv Hr) as (_ & Hst & _).
      specialize (Hst i n Hn). rewrite Hg in Hst. cbn in Hst.
      pose proof (q_cstack i Hr Hn) as Hcs.
      destruct (cstack (nms n)); [|discriminate].
      destruct (stack (ncfg n)); [reflexivity|discriminate].
    Qed.

    Lemma qrest_link i U D :
      nth_error (nodes N) i = Some U -> nth_error (nodes N) (S i) = Some D -> link (nms U) (nms D).
    Proof.
      intros HU HD. destruct (q_inv Hr) as (_ & _ & _ & _ & Hlk).
      specialize (Hlk i U D HU HD). rewrite Hp in Hlk. exact Hlk.
    Qed.

    Lemma qrest_counts i U D :
      nth_error (nodes N) i = Some U -> nth_error (nodes N) (S i) = Some D ->
      hin (ntrace D) = hout (ntrace U) /\ din (ntrace D) = dout (ntrace U) /\
      pin (ntrace U) = pout (ntrace D).
    Proof.
      intros HU HD. destruct (q_idle i Hr HU HD Hp) as [A B].
      unfold hin, hout, din, dout, pin, pout. rewrite A, B. repeat split.
    Qed.

    (** a live sink of the program means that every link is live, all the way down *)
    Lemma live_down nt : nth_error (nodes N) top = Some nt -> sk (nms nt) 0 = SLive ->
      forall d i n, i + d = top -> nth_error (nodes N) i = Some n -> sk (nms n) 0 = SLive.
    Proof.
      intros Hnt Hlive. induction d as [|d IH]; intros i n Hid Hn.
      - assert (i = top) by lia. subst i. rewrite Hnt in Hn. inversion Hn; subst n. exact Hlive.
      - destruct (@q_downstream N i Hr ltac:(lia)) as [D HD].
        specialize (IH (S i) D ltac:(lia) HD).
        pose proof (q_reach _ Hr HD) as Hre.
        destruct (q_kind (S i) Hr HD) as [H0 _|s Hs _ E]; [lia|].
        destruct (ns_flow E (qstage_ok _ Hs) Hre) as (_ & _ & Hrest & _).
        destruct (Hrest (qrest_stack _ HD) IH) as [_ Hus].
        pose proof (qrest_link _ Hn HD) as Hl. unfold link in Hl. rewrite Hus in Hl. tauto.
    Qed.

    (** ... and then no demand is lost anywhere: at every node Pulls in = data out *)
    Lemma answered_up nt : pinv N -> nth_error (nodes N) top = Some nt -> sk (nms nt) 0 = SLive ->
      forall i n, i <= top -> nth_error (nodes N) i = Some n -> pin (ntrace n) = dout (ntrace n).
    Proof.
      intros [_ H0] Hnt Hlive. induction i as [|i IH]; intros n Hi Hn;
        pose proof (q_reach _ Hr Hn) as Hre.
      - pose proof (@live_down nt Hnt Hlive top 0 n ltac:(lia) Hn) as Hsk.
        destruct (q_kind 0 Hr Hn) as [_ E|s _ H1 _]; [|lia].
        exact (src_served E (H0 n Hn) (qrest_stack _ Hn) Hsk).
      - pose proof (@live_down nt Hnt Hlive (top - S i) (S i) n ltac:(lia) Hn) as Hsk.
        destruct (@q_upstream N i n Hn) as [U HU]. specialize (IH U ltac:(lia) HU).
        destruct (qrest_counts _ HU Hn) as (_ & W2 & W3).
        destruct (q_kind (S i) Hr Hn) as [H1 _|s Hs _ E]; [lia|].
        destruct (ns_flow E (qstage_ok _ Hs) Hre) as (_ & _ & Hrest & _).
        destruct (Hrest (qrest_stack _ Hn) Hsk) as [Heq _]. lia.
    Qed.
  End Rest.

  (** ** The theorems *)

  (** the sink of the program never receives more Data than it sent Pulls *)
  Theorem program_no_overdata N : preach N ->
    forall n, nth_error (nodes N) top = Some n -> dout (ntrace n) <= pin (ntrace n).
  Proof. intros Hp n Hn. exact (no_overdata_all (preach_reach Hp) top Hn). Qed.

  (** at rest, towards a live sink, every Pull has been answered by a datum *)
  Theorem program_answers N : preach N -> pend N = PIdle -> gst N = [] ->
    forall n, nth_error (nodes N) top = Some n -> sk (nms n) 0 = SLive ->
      pin (ntrace n) = dout (ntrace n).
  Proof.
    intros Hp Hpd Hg n Hn Hl.
    exact (answered_up (preach_reach Hp) Hpd Hg (pinv_reach Hp) Hn Hl (le_n _) Hn).
  Qed.

  (** the same in the monitor's own counters (the ones the C14 checks of the monitor read) *)
  Theorem program_no_overdata_mon N : preach N ->
    forall n, nth_error (nodes N) top = Some n -> ndata (nms n) 0 <= npull (nms n) 0.
  Proof.
    intros Hp n Hn. pose proof (q_reach _ (preach_reach Hp) Hn) as Hre.
    unfold nms. rewrite (reach_npull_pin Hre), (reach_ndata_dout Hre).
    exact (program_no_overdata Hp Hn).
  Qed.

  Theorem program_answers_mon N : preach N -> pend N = PIdle -> gst N = [] ->
    forall n, nth_error (nodes N) top = Some n -> sk (nms n) 0 = SLive ->
      npull (nms n) 0 = ndata (nms n) 0.
  Proof.
    intros Hp Hpd Hg n Hn Hl. pose proof (q_reach _ (preach_reach Hp) Hn) as Hre.
    unfold nms. rewrite (reach_npull_pin Hre), (reach_ndata_dout Hre).
    exact (program_answers Hp Hpd Hg Hn Hl).
  Qed.

End PullPipe.

Print Assumptions program_no_overdata.
Print Assumptions program_answers.
Print Assumptions program_no_overdata_mon.
Print Assumptions program_answers_mon.

(** ** Runs: a script all of whose moves are enabled and disciplined stays inside [preach] *)

Definition disc_b (N : net) (mv : nmove) : bool :=
  match mv with
  | NEnv i (MIn (IUp s UP)) =>
      match nth_error (nodes N) i with Some n => 0 <? credit (nms n) s | None => true end
  | _ => true
  end.

Lemma disc_b_ok N mv : disc_b N mv = true -> disciplined N mv.
Proof.
  unfold disc_b, disciplined. destruct mv as [i [[s a|s [|e|]|j d|s]|]|]; auto.
  intros H n Hn. rewrite Hn in H. now apply Nat.ltb_lt.
Qed.

Fixpoint net_all_disc (N : net) (mvs : list nmove) : bool :=
  match mvs with
  | [] => true
  | mv :: mvs' => net_enabled N mv && disc_b N mv && net_all_disc (net_step N mv) mvs'
  end.

Lemma preach_run it stages N mvs :
  preach it stages N -> net_all_disc N mvs = true -> preach it stages (net_run N mvs).
Proof.
  revert N. induction mvs as [|mv mvs IH]; intros N Hp He; cbn in *; [exact Hp|].
  apply andb_prop in He. destruct He as [He H2]. apply andb_prop in He. destruct He as [H0 H1].
  apply IH; [|exact H2]. apply preachS; [exact Hp | exact H0 | now apply disc_b_ok].
Qed.

(** ** Non-vacuity: pipe!(from_iter([1;2;3;4]), filter(even), map(+1)) under a disciplined sink
    that sends its first Pull from inside the greeting and its second Pull from INSIDE the
    delivery of the first datum (re-entrant), and then only returns.  filter swallows 1 and 3 and
    re-Pulls for them; the sink receives 3 and 5; the net comes to rest with the sink live and
    2 Pulls = 2 Data at the last node (4 = 4 at from_iter). *)
Module PullProgramsSanity.
  Definition pp_it (k : nat) : option val := nth_error [VN 1; VN 2; VN 3; VN 4] k.
  Definition pp_stages : list ustage :=
    [UFilter (fun v => match v with VN x => Nat.even x | _ => false end);
     UMap (fun v => match v with VN x => VN (S x) | _ => v end)].

  (** up to the point where the sink is inside the delivery of the first datum *)
  Definition pp_script1 : list nmove :=
    NEnv 2 (MIn (ISub 0 0)) :: repeat NTau 4 ++        (* subscribe; greeted from inside *)
    NEnv 2 (MIn (IUp 0 UP)) :: repeat NTau 8.          (* Pull inside the greeting: 1 dropped, 2 -> 3 *)
  (** the re-entrant Pull, and the returns *)
  Definition pp_script2 : list nmove :=
    NEnv 2 (MIn (IUp 0 UP)) :: repeat NTau 4 ++        (* Pull inside the delivery of 3: flagged *)
    NEnv 2 MRet :: repeat NTau 8 ++                    (* return: 3 dropped, 4 -> 5 delivered *)
    NEnv 2 MRet :: repeat NTau 4 ++                    (* return without a Pull: the loop ends *)
    NEnv 2 MRet :: repeat NTau 4.                      (* return from the greeting *)
  Definition pp_script : list nmove := pp_script1 ++ pp_script2.

  Definition pp_N1 : net := net_run (NQ pp_it pp_stages) pp_script1.
  Definition pp_N : net := net_run (NQ pp_it pp_stages) pp_script.

  Definition top_view (N : net) :=
    option_map (fun n => (sk (nms n) 0, pin (ntrace n), dout (ntrace n),
                          npull (nms n) 0, ndata (nms n) 0, data_out 0 (ntrace n)))
               (nth_error (nodes N) 2).

  (** every move of the script is enabled and disciplined *)
  Example pp_enabled : net_all_disc (NQ pp_it pp_stages) pp_script = true.
  Proof. vm_compute. reflexivity. Qed.

  (** the second Pull is sent while the delivery of the datum 3 to the sink is pending *)
  Example pp_reentrant :
    pend pp_N1 = PIdle /\ hd_error (gst pp_N1) = Some (2, KExt) /\
    option_map (fun n => hd_error (cstack (nms n))) (nth_error (nodes pp_N1) 2)
      = Some (Some (CDn 0 (DD (VN 3)))) /\
    hd_error pp_script2 = Some (NEnv 2 (MIn (IUp 0 UP))).
  Proof. vm_compute. repeat split. Qed.

  (** at the end the net is at rest, the sink is live, and Pulls = Data *)
  Example pp_at_rest :
    pend pp_N = PIdle /\ gst pp_N = [] /\
    top_view pp_N = Some (SLive, 2, 2, 2, 2, [VN 3; VN 5]) /\
    option_map (fun n => (pin (ntrace n), dout (ntrace n))) (nth_error (nodes pp_N) 0) = Some (4, 4).
  Proof. vm_compute. repeat split. Qed.

  (** so the theorems apply to this run: their hypotheses are satisfiable ([preach], at rest, the
      top sink live - see [pp_at_rest]), and the conclusion pin = dout = 2 is what [pp_at_rest] computes *)
  Example pp_preach : preach pp_it pp_stages pp_N.
  Proof.
    exact (@preach_run pp_it pp_stages (NQ pp_it pp_stages) pp_script (preach0 pp_it pp_stages) pp_enabled).
  Qed.

  (** [disciplined] is needed for [program_answers]: a sink that sends TWO Pulls from inside one
      delivery (the second without credit) has them coalesced by from_iter's flag; every move is
      enabled in the net ([one_pull = false] in the components' regimes), the net comes to rest
      with the sink live, 3 Pulls and 2 Data *)
  Definition pp_bad : list nmove :=
    pp_script1 ++
    NEnv 2 (MIn (IUp 0 UP)) :: repeat NTau 4 ++
    NEnv 2 (MIn (IUp 0 UP)) :: repeat NTau 4 ++
    NEnv 2 MRet :: repeat NTau 8 ++ NEnv 2 MRet :: repeat NTau 4 ++ NEnv 2 MRet :: repeat NTau 4.
  Example pp_undisciplined :
    let N := net_run (NQ pp_it pp_stages) pp_bad in
    net_all_enabled (NQ pp_it pp_stages) pp_bad = true /\
    net_all_disc (NQ pp_it pp_stages) pp_bad = false /\
    pend N = PIdle /\ gst N = [] /\
    top_view N = Some (SLive, 3, 2, 3, 2, [VN 3; VN 5]).
  Proof. vm_compute. repeat split. Qed.
End PullProgramsSanity.
