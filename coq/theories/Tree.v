(** * Tree: operator trees - every program built from the crate's sources and operators - as nets of
      component configurations, and the composition theorem for them.

    Generalises Chain.v from linear pipelines to trees: node [c]'s sink 0 may be wired to port [k] of
    a parent node [P] ([par c = Some (P, k)], [kid P k = Some c]); children have smaller indices than
    their parents; every port that is not wired is external.  A net step is again a [step] of
    exactly one node.  Nodes may now also run in regimes with [late_ok = false] (concat!, combine!,
    flatten need their upstreams to greet inside the subscribing call): the child of such a parent
    must greet synchronously ([greets_sync], a per-component theorem).

    [tree_sound]: if every node is safe in its regime then in every reachable net every node's
    configuration is reachable in its own conformant environment. *)

From CB Require Import ProofLib Spec Chain.

Set Implicit Arguments.

(** ** Wiring *)

Record wiring : Type := mk_wiring {
  par : nat -> option (nat * nat);      (* node -> (parent, port of the parent) *)
  kid : nat -> nat -> option nat;       (* parent -> port -> child *)
}.

Definition wiring_ok (w : wiring) (len : nat) : Prop :=
  (forall c P k, par w c = Some (P, k) <-> kid w P k = Some c) /\
  (forall c P k, par w c = Some (P, k) -> c < P /\ P < len).

Inductive tkind : Type := TExt | TUp (k : nat) | TDn.

(** how a call of node [i] is routed *)
Definition troute (w : wiring) (i : nat) (c : call) : tkind :=
  match c with
  | CSub k | CUp k _ => match kid w i k with Some _ => TUp k | None => TExt end
  | CDn 0 _ => match par w i with Some _ => TDn | None => TExt end
  | CDn (S _) _ => TExt
  end.

(** the callee's input *)
Definition txlate (w : wiring) (i : nat) (c : call) : input :=
  match c with
  | CSub _ => ISub 0 0
  | CUp _ u => IUp 0 u
  | CDn _ d => match par w i with Some (_, k) => IDn k d | None => IDn 0 d end
  end.

(** the node whose handler runs while the call [e] is pending *)
Definition towner (w : wiring) (e : nat * tkind) : nat :=
  match e with
  | (j, TExt) => j
  | (j, TUp k) => match kid w j k with Some c => c | None => j end
  | (j, TDn) => match par w j with Some (P, _) => P | None => j end
  end.

(** ** The neighbour of [y] in the direction of [v] *)

Section Toward.
  Variable w : wiring.
  Variable len : nat.
  Hypothesis Hw : wiring_ok w len.

  (** climb from [v] towards the root; stop at the child of [y] on the way *)
  Fixpoint climb (y : nat) (fuel : nat) (v : nat) : option nat :=
    match fuel with
    | 0 => None
    | S f => match par w v with
             | Some (P, _) => if P =? y then Some v else climb y f P
             | None => None
             end
    end.

  Definition toward (y v : nat) : nat :=
    match climb y len v with
    | Some u => u
    | None => match par w y with Some (P, _) => P | None => y end
    end.

  Lemma par_lt c P k : par w c = Some (P, k) -> c < P /\ P < len.
  Proof. destruct Hw as [_ H]. apply H. Qed.
  Arguments par_lt [c P k] _.

  (** enough fuel is enough *)
  Lemma climb_fuel y : forall f1 f2 v, len - v <= f1 -> len - v <= f2 -> climb y f1 v = climb y f2 v.
  Proof.
    induction f1 as [|f1 IH]; intros f2 v H1 H2.
    - destruct f2 as [|f2]; [reflexivity|]. cbn.
      destruct (par w v) as [[P k]|] eqn:E; [|reflexivity].
      destruct (par_lt E). lia.
    - destruct f2 as [|f2].
      + cbn. destruct (par w v) as [[P k]|] eqn:E; [|reflexivity]. destruct (par_lt E). lia.
      + cbn. destruct (par w v) as [[P k]|] eqn:E; [|reflexivity].
        destruct (P =? y); [reflexivity|]. destruct (par_lt E). apply IH; lia.
  Qed.

  (** climbing only visits nodes at or above the start, and returns one of them *)
  Lemma climb_ge y : forall f v u, climb y f v = Some u -> v <= u /\ exists k, par w u = Some (y, k).
  Proof.
    induction f as [|f IH]; intros v u H; [discriminate|]. cbn in H.
    destruct (par w v) as [[P k]|] eqn:E; [|discriminate].
    destruct (Nat.eqb_spec P y) as [->|Hne].
    - inversion H; subst. split; [lia|]. now exists k.
    - destruct (IH _ _ H) as [Hle Hk]. destruct (par_lt E). split; [lia|exact Hk].
  Qed.

  Lemma climb_S y f v :
    climb y (S f) v =
    match par w v with
    | Some (P, _) => if P =? y then Some v else climb y f P
    | None => None
    end.
  Proof. reflexivity. Qed.

  (** T2a: towards a child is that child *)
  Lemma toward_child y c k : par w c = Some (y, k) -> toward y c = c.
  Proof.
    intros E. unfold toward. destruct (par_lt E) as [H1 H2].
    assert (El : exists l, len = S l) by (exists (pred len); lia). destruct El as [l El].
    rewrite El, climb_S, E, Nat.eqb_refl. reflexivity.
  Qed.

  (** T2b: towards the parent is the parent *)
  Lemma toward_parent y P k : par w y = Some (P, k) -> toward y P = P.
  Proof.
    intros E. unfold toward. rewrite E.
    destruct (climb y len P) as [u|] eqn:C; [|reflexivity].
    destruct (climb_ge _ _ _ C) as [Hle [k' Hk]].
    destruct (par_lt E), (par_lt Hk). lia.
  Qed.

  (** T1: moving along an edge that does not touch [y] does not change the direction *)
  Lemma toward_edge y v P k : par w v = Some (P, k) -> v <> y -> P <> y -> toward y v = toward y P.
  Proof.
    intros E Hv HP. unfold toward. destruct (par_lt E) as [H1 H2].
    assert (C : climb y len v = climb y len P).
    { assert (El : exists l, len = S l) by (exists (pred len); lia). destruct El as [l El].
      rewrite El at 1. rewrite climb_S, E.
      destruct (Nat.eqb_spec P y); [contradiction|]. apply climb_fuel; lia. }
    now rewrite C.
  Qed.

  (** two nodes joined by an edge (or equal), neither of them [y], lie in the same direction *)
  Definition adjacent_or_eq (a b : nat) : Prop :=
    a = b \/ (exists k, par w a = Some (b, k)) \/ (exists k, par w b = Some (a, k)).

  Lemma toward_adj y a b : adjacent_or_eq a b -> a <> y -> b <> y -> toward y a = toward y b.
  Proof.
    intros [->|[[k E]|[k E]]] Ha Hb; [reflexivity| |].
    - now apply (toward_edge E).
    - symmetry. now apply (toward_edge E).
  Qed.
End Toward.

(** ** Tree nets *)

Record tnet : Type := mk_tnet {
  tnodes : list node;
  tgst : list (nat * tkind);         (* pending calls of all nodes, innermost first *)
  tpend : pending;
}.

Section TreeNet.
  Variable w : wiring.

  Definition tafter_step (N : tnet) (i : nat) (n' : node) : tnet :=
    let nodes' := set_nth i n' (tnodes N) in
    match nlast n' with
    | Some (ECall c) =>
        match troute w i c with
        | TExt => mk_tnet nodes' ((i, TExt) :: tgst N) PIdle
        | TUp k => mk_tnet nodes' ((i, TUp k) :: tgst N) (PTo (towner w (i, TUp k)) (txlate w i c))
        | TDn => mk_tnet nodes' ((i, TDn) :: tgst N) (PTo (towner w (i, TDn)) (txlate w i c))
        end
    | Some EDone =>
        match tgst N with
        | (j, TUp _) :: _ | (j, TDn) :: _ => mk_tnet nodes' (tgst N) (PRet j)
        | _ => mk_tnet nodes' (tgst N) PIdle
        end
    | _ => mk_tnet nodes' (tgst N) PIdle
    end.

  Definition tnet_step (N : tnet) (mv : nmove) : tnet :=
    match mv, tpend N with
    | NEnv i m, PIdle =>
        match nth_error (tnodes N) i with
        | Some n =>
            let N1 := match m with
                      | MRet => mk_tnet (tnodes N) (tl (tgst N)) PIdle
                      | MIn _ => N
                      end in
            tafter_step N1 i (nstep n m)
        | None => N
        end
    | NTau, PTo i inp =>
        match nth_error (tnodes N) i with
        | Some n => tafter_step N i (nstep n (MIn inp))
        | None => N
        end
    | NTau, PRet j =>
        match nth_error (tnodes N) j with
        | Some n => tafter_step (mk_tnet (tnodes N) (tl (tgst N)) PIdle) j (nstep n MRet)
        | None => N
        end
    | _, _ => N
    end.

  (** which external inputs exist at node [i]: the sink side if the node has no parent, port [k]
      if no child is wired to it *)
  Definition text_input_ok (i : nat) (inp : input) : bool :=
    match inp with
    | ISub _ _ | IUp _ _ => match par w i with None => true | Some _ => false end
    | IDn k _ => match kid w i k with None => true | Some _ => false end
    | ITick _ => true
    end.

  Definition tnet_enabled (N : tnet) (mv : nmove) : bool :=
    match mv, tpend N with
    | NTau, PIdle => false
    | NTau, _ => true
    | NEnv i m, PIdle =>
        match nth_error (tnodes N) i with
        | None => false
        | Some n =>
            nenabled n m &&
            match m with
            | MRet => match tgst N with (j, TExt) :: _ => j =? i | _ => false end
            | MIn inp =>
                text_input_ok i inp &&
                match tgst N with
                | [] => true
                | (j, TExt) :: _ => j =? i
                | _ => false
                end
            end
        end
    | NEnv _ _, _ => false
    end.

  Inductive tnet_reach (N0 : tnet) : tnet -> Prop :=
  | treach0 : tnet_reach N0 N0
  | treachS N mv : tnet_reach N0 N -> tnet_enabled N mv = true -> tnet_reach N0 (tnet_step N mv).

  (** ** The global stack *)

  Definition tkinds_of (i : nat) (G : list (nat * tkind)) : list tkind :=
    map snd (filter (fun e => fst e =? i) G).

  Lemma tkinds_of_cons_same i k G : tkinds_of i ((i, k) :: G) = k :: tkinds_of i G.
  Proof. unfold tkinds_of. cbn. now rewrite Nat.eqb_refl. Qed.

  Lemma tkinds_of_cons_other i j k G : j <> i -> tkinds_of i ((j, k) :: G) = tkinds_of i G.
  Proof. intros H. unfold tkinds_of. cbn. destruct (Nat.eqb_spec j i); [contradiction|reflexivity]. Qed.

  Definition tkind_ok (len : nat) (e : nat * tkind) : Prop :=
    fst e < len /\
    match e with
    | (j, TExt) => True
    | (j, TUp k) => exists c, kid w j k = Some c
    | (j, TDn) => exists P k, par w j = Some (P, k)
    end.

  Fixpoint twfG (len : nat) (G : list (nat * tkind)) : Prop :=
    match G with
    | [] => True
    | e :: G' => tkind_ok len e /\ twfG len G' /\
                 match G' with [] => True | e' :: _ => fst e = towner w e' end
    end.

  Definition trunner_ok (x : nat) (G : list (nat * tkind)) : Prop :=
    match G with [] => True | e :: _ => towner w e = x end.

  Lemma twfG_tl len e G : twfG len (e :: G) -> twfG len G /\ trunner_ok (fst e) G.
  Proof. cbn. intros (_ & H & H'). split; [exact H|]. destruct G; cbn; auto. Qed.

  Variable len : nat.
  Hypothesis Hw : wiring_ok w len.

  Lemma kid_par P k c : kid w P k = Some c -> par w c = Some (P, k).
  Proof. destruct Hw as [H _]. apply H. Qed.
  Lemma par_kid P k c : par w c = Some (P, k) -> kid w P k = Some c.
  Proof. destruct Hw as [H _]. apply H. Qed.

  (** a well-formed entry and the node above it are joined by an edge, or equal *)
  Lemma towner_adj e : tkind_ok len e -> adjacent_or_eq w (fst e) (towner w e).
  Proof.
    destruct e as [j [|k|]]; cbn; intros [_ H].
    - now left.
    - destruct H as [c Hc]. rewrite Hc. right. right. exists k. now apply kid_par.
    - destruct H as (P & k & Hp). rewrite Hp. right. left. now exists k.
  Qed.

  (** the innermost pending call of any node [y] other than the running one points in the
      direction of the running one *)
  Lemma first_entry_toward G : forall x, twfG len G -> trunner_ok x G ->
    forall y, y <> x ->
      match filter (fun e => fst e =? y) G with
      | [] => True
      | e :: _ => towner w e = toward w len y x
      end.
  Proof.
    induction G as [|[j K] G IH]; intros x Hwf Hrun y Hy; [exact I|].
    destruct (twfG_tl Hwf) as [Hwf' Hrun']. cbn [fst] in Hrun'.
    destruct Hwf as (Hk & _ & _). unfold trunner_ok in Hrun.
    cbn [filter fst]. destruct (Nat.eqb_spec j y) as [->|Hjy].
    - (* the head is y's own entry: it calls x, an adjacent node *)
      rewrite Hrun. symmetry.
      destruct K as [|k|]; cbn in Hrun, Hk.
      + congruence.
      + destruct Hk as [_ [c Hc]]. rewrite Hc in Hrun. subst c.
        apply (@toward_child w len Hw y x k). now apply kid_par.
      + destruct Hk as [_ (P & k & Hp)]. rewrite Hp in Hrun. subst P.
        now apply (@toward_parent w len Hw y x k).
    - specialize (IH j Hwf' Hrun' y (fun E => Hjy (eq_sym E))).
      destruct (filter (fun e => fst e =? y) G) as [|e' rest]; [exact I|].
      rewrite IH. apply (toward_adj Hw); [|congruence|congruence].
      pose proof (towner_adj Hk) as Ha. cbn [fst] in Ha. rewrite Hrun in Ha. exact Ha.
  Qed.
End TreeNet.

(** ** Links along an edge (child, parent, port k) and the two transfers *)

Definition linkk (k : nat) (u d : mstate) : Prop :=
  match us d k with
  | UNone => subd u 0 = false
  | USubd => subd u 0 = true /\ sk u 0 = SNone
  | ULive => subd u 0 = true /\ sk u 0 = SLive
  | UEnded => subd u 0 = true /\ sk u 0 = SFinished
  | UStopped => subd u 0 = true /\ sk u 0 = SDisposed
  end.

Lemma linkk_ext k u d u' d' :
  subd u' 0 = subd u 0 -> sk u' 0 = sk u 0 -> us d' k = us d k -> linkk k u d -> linkk k u' d'.
Proof. unfold linkk. intros -> -> ->. auto. Qed.

Definition upk (k : nat) (cl : call) : Prop := cl = CSub k \/ exists u, cl = CUp k u.
Definition is_dnk (k : nat) (inp : input) : Prop := exists d, inp = IDn k d.

Lemma classic_upk k cl : upk k cl \/ ~ upk k cl.
Proof.
  destruct cl as [i|i u|s d].
  - destruct (Nat.eq_dec i k) as [->|H]; [left; now left|right].
    intros [E|[u E]]; [inversion E; congruence|discriminate].
  - destruct (Nat.eq_dec i k) as [->|H]; [left; right; now exists u|right].
    intros [E|[u' E]]; [discriminate|inversion E; congruence].
  - right. intros [E|[u E]]; discriminate.
Qed.

Lemma callupd_usk k m cl : ~ upk k cl -> us (mon_call_upd m cl) k = us m k.
Proof.
  intros H. destruct cl as [i|i u|s d]; cbn.
  - destruct (Nat.eq_dec k i) as [->|Hne]; [exfalso; apply H; now left|]. now rewrite upd_other.
  - destruct (Nat.eq_dec k i) as [->|Hne]; [exfalso; apply H; right; now exists u|].
    destruct u; cbn; try reflexivity; now rewrite upd_other.
  - destruct d as [|v|e|]; cbn; try reflexivity.
    + destruct (sk m s); reflexivity.
    + destruct (sk m s), (err_due m s) as [e'|]; try destruct (Nat.eqb e e'); reflexivity.
    + destruct (sk m s); reflexivity.
Qed.

Lemma input_usk p k m inp : ~ is_dnk k inp -> us (mon_input p m inp) k = us m k.
Proof.
  intros H. destruct inp as [s [|aux]|s [|e|]|i d|s]; cbn; try reflexivity.
  destruct (Nat.eq_dec k i) as [->|Hne]; [exfalso; apply H; now exists d|].
  destruct d; cbn; try reflexivity; now rewrite upd_other.
Qed.

Section TransferK.
  Variable p : mparams.                   (* the callee's regime *)
  Variable o : op.
  Variable g : mstate -> input -> bool.
  Variable c : cfg o.                     (* the callee *)
  Hypothesis Hg : forall m inp, g m inp = g_std m inp.
  Hypothesis Hlive : dead c = false.

  (** the parent (regime [pd], state [m1] just before the call, port [k]) subscribes to, or uses the
      talkback of, the callee (its child) *)
  Lemma xfer_up_k (pd : mparams) (m1 : mstate) (k : nat) (cl : call) :
    resub pd = false -> nsinks p = 1 -> one_pull p = false ->
    upk k cl ->
    check_call pd m1 cl = [] ->
    linkk k (ms c) m1 ->
    (subd (ms c) 0 = false -> c = cfg0 o) ->
    top_peer_is c (PSink 0) = true ->
    enabled p g c (MIn (match cl with CSub _ => ISub 0 0 | CUp _ u => IUp 0 u | CDn _ d => IDn 0 d end)) = true /\
    linkk k (mon_input p (ms c) (match cl with CSub _ => ISub 0 0 | CUp _ u => IUp 0 u | CDn _ d => IDn 0 d end))
            (mon_call_upd m1 cl).
  Proof.
    intros Hrs Hns Hop Hcl Hchk Hlink Hinit Htop.
    destruct Hcl as [->|[u ->]].
    - cbn in Hchk. rewrite Hrs in Hchk. cbn in Hchk.
      assert (Hus : us m1 k = UNone).
      { destruct (us m1 k); cbn in Hchk; try discriminate; reflexivity. }
      unfold linkk in Hlink. rewrite Hus in Hlink. rewrite (Hinit Hlink).
      split.
      + unfold enabled. cbn. rewrite Hg, Hns. reflexivity.
      + unfold linkk. cbn. rewrite ?upd_same; cbn; rewrite ?upd_same; auto.
    - cbn in Hchk. apply app_eq_nil in Hchk. destruct Hchk as [Hchk _].
      assert (Hus : us m1 k = ULive).
      { destruct (us m1 k); cbn in Hchk; try discriminate; reflexivity. }
      unfold linkk in Hlink. rewrite Hus in Hlink. destruct Hlink as [Hsd Hsk].
      split.
      + unfold enabled. rewrite Hlive, Hg, Htop, Hsk, Hop. cbn. destruct u; reflexivity.
      + unfold linkk. destruct u as [|e|]; cbn.
        * rewrite Hus. auto.
        * rewrite ?upd_same; cbn; auto.
        * rewrite ?upd_same; cbn; auto.
  Qed.

  (** the child (regime [pu], state [m1] just before the call) delivers to the callee (its parent)
      on port [k] *)
  Lemma xfer_dn_k (pu : mparams) (m1 : mstate) (k : nat) (d : dmsg) :
    pullable p = false ->
    (d = DH -> late_ok p = true \/ exists f rest, stack c = (f, CSub k) :: rest) ->
    check_call pu m1 (CDn 0 d) = [] ->
    linkk k m1 (ms c) ->
    subd m1 0 = true -> refused m1 0 = None ->
    top_peer_is c (PUp k) = true ->
    enabled p g c (MIn (IDn k d)) = true /\
    linkk k (mon_call_upd m1 (CDn 0 d)) (mon_input p (ms c) (IDn k d)).
  Proof.
    intros Hpl Hlate Hchk Hlink Hsd Hrf Htop.
    destruct d as [|v|e|].
    - assert (Hdh : (late_ok p ||
                     match stack c with (_, CSub j) :: _ => Nat.eqb k j | _ => false end) = true).
      { destruct (Hlate eq_refl) as [->|(f & rest & ->)]; [reflexivity|].
        rewrite Nat.eqb_refl. apply orb_true_r. }
      cbn in Hchk.
      assert (Hsk : sk m1 0 = SNone).
      { destruct (sk m1 0); cbn in Hchk; try discriminate; reflexivity. }
      assert (Hus : us (ms c) k = USubd).
      { unfold linkk in Hlink. revert Hlink. destruct (us (ms c) k); intros Hlink; try reflexivity;
          try (match type of Hlink with _ /\ _ => destruct Hlink as [? ?] end); congruence. }
      split.
      + unfold enabled. rewrite Hlive, Hg, Htop, Hus, Hdh. reflexivity.
      + unfold linkk. cbn. rewrite Hsk. cbn. rewrite ?upd_same; cbn; auto.
    - cbn in Hchk. apply app_eq_nil in Hchk. destruct Hchk as [Hchk _].
      assert (Hsk : sk m1 0 = SLive).
      { destruct (sk m1 0); cbn in Hchk; try discriminate; reflexivity. }
      assert (Hus : us (ms c) k = ULive).
      { unfold linkk in Hlink. revert Hlink. destruct (us (ms c) k); intros Hlink; try reflexivity;
          try (match type of Hlink with _ /\ _ => destruct Hlink as [? ?] end); congruence. }
      split.
      + unfold enabled. rewrite Hlive, Hg, Htop, Hus, Hpl. reflexivity.
      + unfold linkk. cbn. rewrite Hus. auto.
    - cbn in Hchk. apply app_eq_nil in Hchk. destruct Hchk as [Hchk _].
      assert (Hsk : sk m1 0 = SLive).
      { rewrite Hrf in Hchk. destruct (sk m1 0); cbn in Hchk; try discriminate; reflexivity. }
      assert (Hus : us (ms c) k = ULive).
      { unfold linkk in Hlink. revert Hlink. destruct (us (ms c) k); intros Hlink; try reflexivity;
          try (match type of Hlink with _ /\ _ => destruct Hlink as [? ?] end); congruence. }
      split.
      + unfold enabled. rewrite Hlive, Hg, Htop, Hus, Hpl. reflexivity.
      + unfold linkk. cbn. rewrite Hsk. cbn. rewrite ?upd_same.
        destruct (err_due m1 0) as [e'|]; [destruct (Nat.eqb e e')|]; cbn; rewrite ?upd_same; auto.
    - cbn in Hchk. apply app_eq_nil in Hchk. destruct Hchk as [Hchk _].
      assert (Hsk : sk m1 0 = SLive).
      { destruct (sk m1 0); cbn in Hchk; try discriminate; reflexivity. }
      assert (Hus : us (ms c) k = ULive).
      { unfold linkk in Hlink. revert Hlink. destruct (us (ms c) k); intros Hlink; try reflexivity;
          try (match type of Hlink with _ /\ _ => destruct Hlink as [? ?] end); congruence. }
      split.
      + unfold enabled. rewrite Hlive, Hg, Htop, Hus, Hpl. reflexivity.
      + unfold linkk. cbn. rewrite Hsk. cbn. rewrite ?upd_same; cbn; auto.
  Qed.
End TransferK.

(** ** Two facts about the pending calls of a safe component: a talkback in use belongs to an
       upstream that has greeted; a delivery in progress goes to a sink that has been greeted *)

Section NodePending.
  Variable p : mparams.
  Variable o : op.
  Variable g : mstate -> input -> bool.
  Hypothesis Hsafe : forall c : cfg o, reach p g c -> viols (ms c) = [] /\ dead c = false.
  Hypothesis Hrs : resub p = false.
  Hypothesis Hg : forall m inp, g m inp = g_std m inp.

  Definition greeted_us (u : uss) : Prop := u <> UNone /\ u <> USubd.

  Definition pend_facts (m : mstate) : Prop :=
    (forall k u, In (CUp k u) (cstack m) -> greeted_us (us m k)) /\
    (forall d, In (CDn 0 d) (cstack m) -> sk m 0 <> SNone) /\
    (forall s, refused m s = None) /\
    (late_ok p = false -> forall k, us m k = USubd -> In (CSub k) (cstack m)).

  Lemma input_keeps_greeted m inp k : greeted_us (us m k) -> greeted_us (us (mon_input p m inp) k).
  Proof.
    intros H. destruct inp as [s [|a]|s [|e|]|i [|v|e|]|s]; cbn; try exact H;
      unfold upd; destruct (Nat.eqb k i); try exact H; split; discriminate.
  Qed.

  Lemma input_keeps_sk m inp : sk m 0 <> SNone -> sk (mon_input p m inp) 0 <> SNone.
  Proof.
    intros H. destruct inp as [s [|a]|s [|e|]|i [|v|e|]|s]; cbn; try exact H;
      unfold upd; destruct (Nat.eqb 0 s); try exact H; discriminate.
  Qed.

  Lemma callupd_keeps_sk m cl : sk m 0 <> SNone -> sk (mon_call_upd m cl) 0 <> SNone.
  Proof.
    intros H. destruct cl as [i|i [| |]|s [|v|e|]]; cbn; try exact H.
    - destruct (sk m s) eqn:E; cbn; try exact H. unfold upd. destruct (Nat.eqb 0 s); [discriminate|exact H].
    - destruct (sk m s) eqn:E, (err_due m s) as [e'|]; try destruct (Nat.eqb e e'); cbn; try exact H;
        unfold upd; destruct (Nat.eqb 0 s); try exact H; discriminate.
    - destruct (sk m s) eqn:E; cbn; try exact H; unfold upd; destruct (Nat.eqb 0 s); try exact H; discriminate.
  Qed.

  Lemma reach_pend_facts (c : cfg o) : reach p g c -> pend_facts (ms c).
  Proof.
    induction 1 as [|c m Hr IH He].
    - split; [|split; [|split]]; cbn; intros; try contradiction; try reflexivity; discriminate.
    - destruct (Hsafe (reachS m Hr He)) as [Hv Hd].
      destruct IH as (I1 & I2 & I3 & I4).
      (* the state the step starts from *)
      set (m_in := mon_move p (ms c) m).
      assert (Hcs : forall cl, In cl (cstack m_in) -> In cl (cstack (ms c))).
      { unfold m_in. destruct m as [inp|]; cbn [mon_move].
        - rewrite mon_input_cstack. auto.
        - cbn. intros cl Hin. destruct (cstack (ms c)); [contradiction|now right]. }
      assert (J1 : forall k u, In (CUp k u) (cstack m_in) -> greeted_us (us m_in k)).
      { intros k u Hin. specialize (I1 k u (Hcs _ Hin)). unfold m_in.
        destruct m as [inp|]; cbn [mon_move]; [now apply input_keeps_greeted | exact I1]. }
      assert (J2 : forall d, In (CDn 0 d) (cstack m_in) -> sk m_in 0 <> SNone).
      { intros d Hin. specialize (I2 d (Hcs _ Hin)). unfold m_in.
        destruct m as [inp|]; cbn [mon_move]; [now apply input_keeps_sk | exact I2]. }
      assert (J3 : forall s, refused m_in s = None).
      { intros s. unfold m_in. destruct m as [inp|]; cbn [mon_move]; [|apply I3].
        rewrite (@input_refused p (ms c) inp g); [apply I3 | apply Hg|].
        unfold enabled in He. apply andb_prop in He. destruct He as [_ He].
        apply andb_prop in He. tauto. }
      assert (J4 : late_ok p = false -> forall k, us m_in k = USubd -> In (CSub k) (cstack m_in)).
      { intros Hl k Hk. unfold m_in in *. destruct m as [inp|]; cbn [mon_move] in *.
        - rewrite mon_input_cstack. apply (I4 Hl).
          destruct inp as [s [|a]|s [|e|]|i [|v|e|]|s]; cbn in Hk; try exact Hk;
            unfold upd in Hk; destruct (Nat.eqb k i); try exact Hk; discriminate.
        - cbn in Hk |- *. specialize (I4 Hl k Hk).
          pose proof (reach_cstack Hr) as Hc.
          unfold enabled in He. apply andb_prop in He. destruct He as [_ He].
          destruct (stack c) as [|[f c0] rest] eqn:Es; [discriminate|].
          rewrite Hc in I4 |- *. cbn in I4 |- *. destruct I4 as [E|Hin]; [|exact Hin].
          subst c0. rewrite Hl, Hk in He. discriminate. }
      destruct (step_summary _ _ _ _ He Hv Hd) as [m1 cl H1 _ Hchk H3|_ H3].
      + destruct H1 as (_ & B1 & C1 & R1 & S1). destruct H3 as (_ & B3 & C3 & R3 & S3).
        fold m_in in B1, C1, R1, S1. cbn in B3, C3, R3, S3.
        split; [|split; [|split]].
        * intros k u Hin. rewrite S3 in Hin. rewrite C3.
          destruct Hin as [->|Hin].
          -- (* the new frame *)
             cbn in Hchk. apply app_eq_nil in Hchk. destruct Hchk as [Hchk _].
             assert (Hus : us m1 k = ULive)
               by (destruct (us m1 k); cbn in Hchk; try discriminate; reflexivity).
             destruct u; cbn; rewrite ?upd_same, ?Hus; split; discriminate.
          -- rewrite S1 in Hin. specialize (J1 k u Hin). rewrite <- C1 in J1.
             destruct (classic_upk k cl) as [Hup|Hnup].
             ++ destruct Hup as [->|[u' ->]].
                ** exfalso. cbn in Hchk. rewrite Hrs in Hchk. cbn in Hchk.
                   destruct J1 as [Ja Jb]. destruct (us m1 k); cbn in Hchk; try discriminate; congruence.
                ** destruct u'; cbn; rewrite ?upd_same; try exact J1; split; discriminate.
             ++ now rewrite (callupd_usk m1 Hnup).
        * intros d Hin. rewrite S3 in Hin. rewrite B3.
          destruct Hin as [->|Hin].
          -- cbn in Hchk.
             assert (Hrf : refused m1 0 = None) by (rewrite R1; apply J3).
             destruct d as [|v|e|]; cbn.
             ++ destruct (sk m1 0) eqn:E; cbn; rewrite ?upd_same, ?E; discriminate.
             ++ apply app_eq_nil in Hchk. destruct Hchk as [Hchk _].
                destruct (sk m1 0) eqn:E; cbn in Hchk; try discriminate Hchk. discriminate.
             ++ apply app_eq_nil in Hchk. destruct Hchk as [Hchk _]. rewrite Hrf in Hchk.
                destruct (sk m1 0) eqn:E; cbn in Hchk; try discriminate Hchk.
                destruct (err_due m1 0) as [e'|]; [destruct (Nat.eqb e e')|]; cbn;
                  rewrite ?upd_same; discriminate.
             ++ apply app_eq_nil in Hchk. destruct Hchk as [Hchk _].
                destruct (sk m1 0) eqn:E; cbn in Hchk; try discriminate Hchk. cbn. rewrite ?upd_same. discriminate.
          -- rewrite S1 in Hin. specialize (J2 d Hin). rewrite <- B1 in J2.
             now apply callupd_keeps_sk.
        * intros s. rewrite R3. cbn. rewrite callupd_refused, R1. apply J3.
        * intros Hl k Hk. rewrite S3. rewrite C3 in Hk.
          destruct (classic_upk k cl) as [[->|[u' ->]]|Hnup].
          -- now left.
          -- exfalso. destruct u'; cbn in Hk; rewrite ?upd_same in Hk; try discriminate.
             cbn in Hchk. apply app_eq_nil in Hchk. destruct Hchk as [Hchk _].
             rewrite Hk in Hchk. discriminate.
          -- rewrite (callupd_usk m1 Hnup), C1 in Hk. right. rewrite S1. now apply J4.
      + destruct H3 as (_ & B3 & C3 & R3 & S3). fold m_in in B3, C3, R3, S3.
        split; [|split; [|split]].
        * intros k u Hin. rewrite S3 in Hin. rewrite C3. now apply J1 with u.
        * intros d Hin. rewrite S3 in Hin. rewrite B3. now apply J2 with d.
        * intros s. rewrite R3. apply J3.
        * intros Hl k Hk. rewrite S3. rewrite C3 in Hk. now apply J4.
  Qed.
End NodePending.

(** ** The invariant of a reachable tree net *)

Definition sig3 : Type := (op * mparams * (mstate -> input -> bool))%type.

Definition greets_sync_sig (s : sig3) : Prop :=
  let '(o, p, g) := s in
  forall c : cfg o, reach p g c -> subd (ms c) 0 = true -> sk (ms c) 0 = SNone -> stack c <> [].

Section TreeSound.
  Variable w : wiring.
  Variable sigs : list sig3.
  Hypothesis Hw : wiring_ok w (length sigs).
  Hypothesis Hsafe : forall s, In s sigs -> safe_sig s.

  Definition tregime_ok (s : sig3) : Prop :=
    let '(o, p, g) := s in
    nsinks p = 1 /\ resub p = false /\ pullable p = false /\ one_pull p = false /\
    (forall m inp, g m inp = g_std m inp).
  Hypothesis Hreg : forall s, In s sigs -> tregime_ok s.

  (** along every edge: the parent tolerates a late greeting, or the child greets synchronously *)
  Hypothesis Hsync : forall c P k sc sp,
    par w c = Some (P, k) -> nth_error sigs c = Some sc -> nth_error sigs P = Some sp ->
    late_ok (snd (fst sp)) = true \/ greets_sync_sig sc.

  Definition teff (pd : pending) (i : nat) (n : node) : mstate :=
    match pd with
    | PTo t inp => if t =? i then mon_input (npar n) (nms n) inp else nms n
    | _ => nms n
    end.

  Definition tnodes_ok (ns : list node) : Prop :=
    map nsig ns = sigs /\
    forall i n, nth_error ns i = Some n -> nreach n /\ (subd (nms n) 0 = false -> ninit n).

  Definition tstacks_ok (ns : list node) (G : list (nat * tkind)) : Prop :=
    forall i n, nth_error ns i = Some n -> map (troute w i) (cstack (nms n)) = tkinds_of i G.

  Definition tlinks_ok (ns : list node) (pd : pending) : Prop :=
    forall c P k U D, par w c = Some (P, k) ->
      nth_error ns c = Some U -> nth_error ns P = Some D ->
      linkk k (teff pd c U) (teff pd P D).

  Definition tpend_ok (ns : list node) (G : list (nat * tkind)) (pd : pending) : Prop :=
    match pd with
    | PIdle => match G with [] => True | (_, TExt) :: _ => True | _ => False end
    | PTo i inp =>
        (exists j k, hd_error G = Some (j, k) /\ k <> TExt /\ towner w (j, k) = i) /\
        exists n, nth_error ns i = Some n /\ nenabled n (MIn inp) = true
    | PRet j => exists k, hd_error G = Some (j, k) /\ k <> TExt
    end.

  Definition TInv (N : tnet) : Prop :=
    tnodes_ok (tnodes N) /\ tstacks_ok (tnodes N) (tgst N) /\
    twfG w (length sigs) (tgst N) /\
    tpend_ok (tnodes N) (tgst N) (tpend N) /\ tlinks_ok (tnodes N) (tpend N).

  Lemma tnode_facts ns i n :
    map nsig ns = sigs -> nth_error ns i = Some n ->
    nth_error sigs i = Some (nsig n) /\
    (forall c : cfg (nop n), reach (npar n) (ngrd n) c -> viols (ms c) = [] /\ dead c = false) /\
    nsinks (npar n) = 1 /\ resub (npar n) = false /\ pullable (npar n) = false /\
    one_pull (npar n) = false /\ (forall m inp, ngrd n m inp = g_std m inp).
  Proof.
    intros Hs Hn.
    assert (H : nth_error sigs i = Some (nsig n)).
    { rewrite <- Hs. now apply map_nth_error. }
    split; [exact H|]. split.
    - exact (Hsafe (nsig n) (nth_error_In _ _ H)).
    - exact (Hreg (nsig n) (nth_error_In _ _ H)).
  Qed.

  Lemma tlen ns : map nsig ns = sigs -> length ns = length sigs.
  Proof. intros <-. now rewrite map_length. Qed.

  Lemma tsubd_after_move n m :
    nsinks (npar n) = 1 ->
    (subd (nms n) 0 = false -> ninit n) ->
    nenabled n m = true ->
    subd (mon_move (npar n) (nms n) m) 0 = true.
  Proof.
    intros Hns Hi He. destruct (subd (nms n) 0) eqn:E.
    - destruct m as [inp|]; [now apply input_subd_mono | exact E].
    - specialize (Hi eq_refl). unfold nenabled in He. unfold ninit in Hi.
      unfold nms. rewrite Hi in *.
      destruct (enabled_cfg0 _ _ _ _ Hns He) as [aux ->]. cbn.
      destruct aux; cbn; rewrite ?upd_same; reflexivity.
  Qed.

  Definition teffx (x : nat) (m : move) (i : nat) (n : node) : mstate :=
    if i =? x then mon_move (npar n) (nms n) m else nms n.

  (** the pending facts of a node of a well-formed list *)
  Lemma tnode_pend ns i n :
    tnodes_ok ns -> nth_error ns i = Some n -> pend_facts (npar n) (nms n).
  Proof.
    intros [Hs Hnd] Hn. destruct (@tnode_facts ns i n Hs Hn) as (_ & Hsf & _ & Hrs & _ & _ & Hg).
    destruct (Hnd i n Hn) as [Hr _].
    exact (@reach_pend_facts (npar n) (nop n) (ngrd n) Hsf Hrs Hg (ncfg n) Hr).
  Qed.

  (** what the innermost pending call of node [y] is, when [x] (adjacent to [y]) is running *)
  Lemma top_call_toward G x y ny :
    map (troute w y) (cstack (nms ny)) = tkinds_of y G ->
    twfG w (length sigs) G -> trunner_ok w x G -> y <> x ->
    match cstack (nms ny) with
    | [] => True
    | cl :: _ => towner w (y, troute w y cl) = toward w (length sigs) y x
    end.
  Proof.
    intros Hst Hwf Hrun Hyx.
    pose proof (@first_entry_toward w (length sigs) Hw G x Hwf Hrun y Hyx) as Hf.
    destruct (cstack (nms ny)) as [|cl rest]; [exact I|].
    cbn in Hst. unfold tkinds_of in Hst.
    destruct (filter (fun e => fst e =? y) G) as [|[j K] G'] eqn:Ef; [discriminate|].
    cbn in Hst. injection Hst as HK _.
    assert (Hj : j = y).
    { assert (Hin : In (j, K) (filter (fun e => fst e =? y) G)) by (rewrite Ef; now left).
      apply filter_In in Hin. destruct Hin as [_ Hin]. cbn in Hin. now apply Nat.eqb_eq in Hin. }
    subst j. rewrite HK. exact Hf.
  Qed.

  Lemma troute_up i cl k : troute w i cl = TUp k -> upk k cl /\ exists c, kid w i k = Some c.
  Proof.
    destruct cl as [j|j u|[|s] d]; cbn; intros H.
    - destruct (kid w i j) as [c|] eqn:E; [|discriminate]. inversion H; subst.
      split; [now left | now exists c].
    - destruct (kid w i j) as [c|] eqn:E; [|discriminate]. inversion H; subst.
      split; [right; now exists u | now exists c].
    - destruct (par w i); discriminate.
    - discriminate.
  Qed.

  Lemma troute_dn i cl : troute w i cl = TDn -> (exists d, cl = CDn 0 d) /\ exists P k, par w i = Some (P, k).
  Proof.
    destruct cl as [j|j u|[|s] d]; cbn; intros H.
    - destruct (kid w i j); discriminate.
    - destruct (kid w i j); discriminate.
    - destruct (par w i) as [[P k]|] eqn:E; [|discriminate]. split; [now exists d | now exists P, k].
    - discriminate.
  Qed.

  Lemma par_fun c P k P' k' : par w c = Some (P, k) -> par w c = Some (P', k') -> P = P' /\ k = k'.
  Proof. intros A B. rewrite A in B. now inversion B. Qed.

  Lemma kid_fun P k c c' : kid w P k = Some c -> kid w P k = Some c' -> c = c'.
  Proof. intros A B. rewrite A in B. now inversion B. Qed.

  Lemma par_lt' c P k : par w c = Some (P, k) -> c < P /\ P < length sigs.
  Proof. destruct Hw as [_ H]. apply H. Qed.

  Lemma tafter_step_inv (ns : list node) (G1 : list (nat * tkind)) (pd0 : pending) x n m :
    tnodes_ok ns ->
    nth_error ns x = Some n ->
    nenabled n m = true ->
    twfG w (length sigs) G1 -> trunner_ok w x G1 ->
    (forall i ni, nth_error ns i = Some ni -> i <> x ->
        map (troute w i) (cstack (nms ni)) = tkinds_of i G1) ->
    map (troute w x) (cstack (mon_move (npar n) (nms n) m)) = tkinds_of x G1 ->
    (forall c P k U D, par w c = Some (P, k) -> nth_error ns c = Some U -> nth_error ns P = Some D ->
        linkk k (teffx x m c U) (teffx x m P D)) ->
    TInv (tafter_step w (mk_tnet ns G1 pd0) x (nstep n m)).
  Proof.
    intros Hnok Hn He Hwf Hrun Hst Hstx Hlk.
    pose proof Hnok as [Hsig Hnodes].
    destruct (@tnode_facts ns x n Hsig Hn) as (_ & Hsafe_n & Hns & Hrs & Hpl & Hop & Hg).
    destruct (Hnodes x n Hn) as [Hr Hinit].
    pose proof (@tlen ns Hsig) as Hlen0.
    set (n' := nstep n m).
    assert (Hr' : nreach n') by (unfold nreach, n', nstep; cbn; now apply reachS).
    destruct (Hsafe_n _ Hr') as [Hv Hd].
    pose proof (step_summary _ _ _ _ He Hv Hd) as Hsum.
    pose proof (@tsubd_after_move n m Hns Hinit He) as Hsubd.
    destruct (@tnode_pend ns x n Hnok Hn) as (_ & _ & Hrf & _).
    destruct (sum_core Hsum) as [Hsd' Hrf'].
    change (ms (step (npar n) (ncfg n) m)) with (nms n') in Hsd', Hrf'.
    change (ms (ncfg n)) with (nms n) in Hsd', Hrf'.
    set (ns' := set_nth x n' ns).
    assert (Hlen : length ns' = length ns) by apply set_nth_length.
    assert (Hx' : nth_error ns' x = Some n') by (eapply nth_set_same; eauto).
    assert (Ho' : forall j, j <> x -> nth_error ns' j = nth_error ns j)
      by (intros j Hj; apply nth_set_other; congruence).
    assert (Hxlt : x < length sigs) by (rewrite <- Hlen0; eapply nth_error_lt; eauto).
    assert (Hnodes' : tnodes_ok ns').
    { split.
      - unfold ns'. rewrite (@map_set_nth _ _ nsig x n' n ns Hn); [exact Hsig|reflexivity].
      - intros i ni Hi. destruct (Nat.eq_dec i x) as [->|Hix].
        + rewrite Hx' in Hi. inversion Hi; subst ni. split; [exact Hr'|].
          intros H0. rewrite Hsd', Hsubd in H0. discriminate.
        + rewrite Ho' in Hi by exact Hix. exact (Hnodes i ni Hi). }
    assert (Hpair : forall c P k U' D', par w c = Some (P, k) ->
              nth_error ns' c = Some U' -> nth_error ns' P = Some D' ->
              (c = x /\ U' = n' /\ P <> x /\ nth_error ns P = Some D') \/
              (P = x /\ D' = n' /\ c <> x /\ nth_error ns c = Some U') \/
              (c <> x /\ P <> x /\ nth_error ns c = Some U' /\ nth_error ns P = Some D')).
    { intros c P k U' D' Hp HU HD. destruct (@par_lt' _ _ _ Hp) as [Hcp _].
      destruct (Nat.eq_dec c x) as [->|Hcx].
      - left. rewrite Hx' in HU. inversion HU. rewrite Ho' in HD by lia. repeat split; auto; lia.
      - destruct (Nat.eq_dec P x) as [->|Hpx].
        + right. left. rewrite Hx' in HD. inversion HD. rewrite Ho' in HU by exact Hcx. auto.
        + right. right. rewrite Ho' in HU, HD by assumption. auto. }
    assert (Ex : forall nn, teffx x m x nn = mon_move (npar nn) (nms nn) m)
      by (intros nn; unfold teffx; now rewrite Nat.eqb_refl).
    assert (Eo : forall j nn, j <> x -> teffx x m j nn = nms nn)
      by (intros j nn Hj; unfold teffx; destruct (Nat.eqb_spec j x); [contradiction|reflexivity]).
    unfold tafter_step. cbn [tnodes tgst]. fold n'. fold ns'.
    destruct Hsum as [m1 cl H1 Hl Hchk H3|Hl H3];
      change (hd_error (rtrace (step (npar n) (ncfg n) m))) with (nlast n') in Hl;
      change (ms (step (npar n) (ncfg n) m)) with (nms n') in H3;
      change (ms (ncfg n)) with (nms n) in *; rewrite Hl.
    - (* the step ended in a call *)
      destruct H1 as (A1 & B1 & C1 & R1 & S1). destruct H3 as (A3 & B3 & C3 & R3 & S3).
      cbn in A3, B3, C3, R3, S3.
      assert (Hcs : cstack (nms n') = cl :: cstack (mon_move (npar n) (nms n) m)) by congruence.
      assert (Hstk : forall K, troute w x cl = K -> tstacks_ok ns' ((x, K) :: G1)).
      { intros K EK i ni Hi. destruct (Nat.eq_dec i x) as [->|Hix].
        - rewrite Hx' in Hi. inversion Hi; subst ni. rewrite Hcs. cbn [map].
          rewrite EK, Hstx, tkinds_of_cons_same. reflexivity.
        - rewrite Ho' in Hi by exact Hix. rewrite tkinds_of_cons_other by congruence.
          now apply Hst. }
      assert (Hwfp : forall K, tkind_ok w (length sigs) (x, K) -> twfG w (length sigs) ((x, K) :: G1)).
      { intros K HK. cbn. split; [exact HK|]. split; [exact Hwf|].
        destruct G1 as [|e' G1']; [exact I|]. unfold trunner_ok in Hrun. cbn. congruence. }
      assert (Hsk_keep : ~ dn0 cl -> sk (nms n') 0 = sk (mon_move (npar n) (nms n) m) 0).
      { intros H. rewrite B3, (callupd_sk0 m1 H). congruence. }
      assert (Hus_keep : forall k, ~ upk k cl ->
                us (nms n') k = us (mon_move (npar n) (nms n) m) k).
      { intros k H. rewrite C3, (callupd_usk m1 H). congruence. }
      assert (Hsd_keep : subd (nms n') 0 = subd (mon_move (npar n) (nms n) m) 0) by congruence.
      destruct (troute w x cl) as [|k0|] eqn:Er; unfold TInv; cbn [tnodes tgst tpend].
      + (* external call *)
        split; [exact Hnodes'|]. split; [now apply Hstk|].
        split; [apply Hwfp; split; [exact Hxlt|exact I]|].
        split; [exact I|].
        intros c P k U' D' Hp HU HD. cbn [teff].
        destruct (Hpair c P k U' D' Hp HU HD)
          as [(-> & -> & Hpx & HD0)|[(-> & -> & Hcx & HU0)|(Hcx & Hpx & HU0 & HD0)]].
        * specialize (Hlk x P k n D' Hp Hn HD0). rewrite Ex, Eo in Hlk by exact Hpx.
          assert (Hnd : ~ dn0 cl).
          { intros [d ->]. unfold troute in Er. rewrite Hp in Er. discriminate. }
          eapply linkk_ext; [| | reflexivity | exact Hlk]; [exact Hsd_keep | now apply Hsk_keep].
        * specialize (Hlk c x k U' n Hp HU0 Hn). rewrite Ex, Eo in Hlk by exact Hcx.
          assert (Hnu : ~ upk k cl).
          { intros H. pose proof (@par_kid w _ Hw _ _ _ Hp) as Hk. unfold troute in Er.
            destruct H as [->|[u ->]]; rewrite Hk in Er; discriminate. }
          eapply linkk_ext; [reflexivity | reflexivity | | exact Hlk]. now apply Hus_keep.
        * specialize (Hlk c P k U' D' Hp HU0 HD0). now rewrite !Eo in Hlk by assumption.
      + (* call up into the child wired to port k0 *)
        destruct (@troute_up _ _ _ Er) as [Hup [c0 Hkid]].
        pose proof (@kid_par w _ Hw _ _ _ Hkid) as Hpar0.
        destruct (@par_lt' _ _ _ Hpar0) as [Hc0x _].
        assert (Hnd : ~ dn0 cl) by (intros [d ->]; destruct Hup as [H|[u H]]; discriminate).
        destruct (nth_error ns c0) as [nu|] eqn:Hnu.
        2: { apply nth_error_None in Hnu. lia. }
        destruct (@tnode_facts ns c0 nu Hsig Hnu) as (_ & Hsafe_u & Hns_u & _ & _ & Hop_u & Hg_u).
        destruct (Hnodes _ _ Hnu) as [Hr_u Hinit_u].
        destruct (Hsafe_u _ Hr_u) as [_ Hd_u].
        assert (Hlk0 : linkk k0 (nms nu) m1).
        { specialize (Hlk c0 x k0 nu n Hpar0 Hnu Hn). rewrite Ex, Eo in Hlk by lia.
          eapply linkk_ext; [reflexivity | reflexivity | | exact Hlk]. congruence. }
        assert (Htop : top_peer_is (ncfg nu) (PSink 0) = true).
        { apply top_peer_of_cstack; [exact (reach_cstack Hr_u)|].
          pose proof (@top_call_toward G1 x c0 nu (Hst c0 nu Hnu ltac:(lia)) Hwf Hrun ltac:(lia)) as Ht.
          change (ms (ncfg nu)) with (nms nu).
          destruct (cstack (nms nu)) as [|cl0 rest0]; [exact I|].
          rewrite (@toward_parent w _ Hw _ _ _ Hpar0) in Ht.
          destruct (troute w c0 cl0) as [|k'|] eqn:Er0; cbn in Ht.
          - lia.
          - destruct (kid w c0 k') as [c'|] eqn:Ek; [|lia]. subst c'.
            pose proof (@kid_par w _ Hw _ _ _ Ek) as Hp'. destruct (@par_lt' _ _ _ Hp'). lia.
          - destruct (@troute_dn _ _ Er0) as [[d ->] _]. reflexivity. }
        assert (Hxl : txlate w x cl =
                      match cl with CSub _ => ISub 0 0 | CUp _ u => IUp 0 u | CDn _ d => IDn 0 d end).
        { destruct Hup as [->|[u ->]]; reflexivity. }
        destruct (@xfer_up_k (npar nu) (nop nu) (ngrd nu) (ncfg nu) Hg_u Hd_u (npar n) m1 k0 cl
                    Hrs Hns_u Hop_u Hup Hchk Hlk0 Hinit_u Htop) as [Hen Hlk1].
        rewrite <- Hxl in Hen, Hlk1.
        assert (Hown : towner w (x, TUp k0) = c0) by (cbn; now rewrite Hkid).
        rewrite Hown.
        split; [exact Hnodes'|]. split; [now apply Hstk|].
        split; [apply Hwfp; split; [exact Hxlt|now exists c0]|].
        split.
        { split.
          - exists x, (TUp k0). repeat split; [discriminate | exact Hown].
          - exists nu. split; [rewrite Ho' by lia; exact Hnu | exact Hen]. }
        intros c P k U' D' Hp HU HD. unfold teff.
        destruct (Hpair c P k U' D' Hp HU HD)
          as [(-> & -> & Hpx & HD0)|[(-> & -> & Hcx & HU0)|(Hcx & Hpx & HU0 & HD0)]].
        * destruct (@par_lt' _ _ _ Hp) as [HxP _].
          replace (c0 =? x) with false by (symmetry; apply Nat.eqb_neq; lia).
          replace (c0 =? P) with false by (symmetry; apply Nat.eqb_neq; lia).
          specialize (Hlk x P k n D' Hp Hn HD0). rewrite Ex, Eo in Hlk by exact Hpx.
          eapply linkk_ext; [| | reflexivity | exact Hlk]; [exact Hsd_keep | now apply Hsk_keep].
        * replace (c0 =? x) with false by (symmetry; apply Nat.eqb_neq; lia).
          destruct (Nat.eqb_spec c0 c) as [Ecc|Ecc].
          -- subst c. destruct (@par_fun _ _ _ _ _ Hp Hpar0) as [_ ->].
             assert (U' = nu) by congruence. subst U'.
             eapply linkk_ext; [reflexivity | reflexivity | | exact Hlk1]. congruence.
          -- assert (Hk : k <> k0).
             { intros ->. apply Ecc. symmetry. exact (@kid_fun _ _ _ _ (@par_kid w _ Hw _ _ _ Hp) Hkid). }
             specialize (Hlk c x k U' n Hp HU0 Hn). rewrite Ex, Eo in Hlk by exact Hcx.
             eapply linkk_ext; [reflexivity | reflexivity | | exact Hlk].
             apply Hus_keep. intros [->|[u ->]]; destruct Hup as [E|[u' E]]; inversion E; congruence.
        * specialize (Hlk c P k U' D' Hp HU0 HD0). rewrite !Eo in Hlk by assumption.
          destruct (Nat.eqb_spec c0 c) as [Ecc|Ecc].
          { subst c. destruct (@par_fun _ _ _ _ _ Hp Hpar0) as [-> _]. contradiction. }
          destruct (Nat.eqb_spec c0 P) as [Ecp|Ecp]; [|exact Hlk].
          eapply linkk_ext; [reflexivity | reflexivity | | exact Hlk].
          apply input_usk. intros [d Hd0]. rewrite Hxl in Hd0.
          destruct Hup as [->|[u ->]]; discriminate.
      + (* call down into the parent *)
        destruct (@troute_dn _ _ Er) as [[d ->] (P0 & k0 & Hpar0)].
        destruct (@par_lt' _ _ _ Hpar0) as [HxP0 HP0].
        assert (Hnu0 : forall k, ~ upk k (CDn 0 d)) by (intros k [H|[u H]]; discriminate).
        destruct (nth_error ns P0) as [nd|] eqn:Hnd.
        2: { apply nth_error_None in Hnd. lia. }
        destruct (@tnode_facts ns P0 nd Hsig Hnd) as (Hsig_d & Hsafe_d & _ & _ & Hpl_d & _ & Hg_d).
        destruct (Hnodes _ _ Hnd) as [Hr_d _].
        destruct (Hsafe_d _ Hr_d) as [_ Hd_d].
        assert (Hlk0 : linkk k0 m1 (nms nd)).
        { specialize (Hlk x P0 k0 n nd Hpar0 Hn Hnd). rewrite Ex, Eo in Hlk by lia.
          eapply linkk_ext; [| | reflexivity | exact Hlk]; congruence. }
        (* the parent's innermost pending call, if any, is a call on port k0 *)
        assert (Htopc : match cstack (nms nd) with
                        | [] => True
                        | cl0 :: _ => upk k0 cl0
                        end).
        { pose proof (@top_call_toward G1 x P0 nd (Hst P0 nd Hnd ltac:(lia)) Hwf Hrun ltac:(lia)) as Ht.
          destruct (cstack (nms nd)) as [|cl0 rest0]; [exact I|].
          rewrite (@toward_child w _ Hw _ _ _ Hpar0) in Ht.
          destruct (troute w P0 cl0) as [|k'|] eqn:Er0; cbn in Ht.
          - lia.
          - destruct (@troute_up _ _ _ Er0) as [Hup' [c' Hk']]. rewrite Hk' in Ht. subst c'.
            destruct (@par_fun _ _ _ _ _ (@kid_par w _ Hw _ _ _ Hk') Hpar0) as [_ ->]. exact Hup'.
          - destruct (@troute_dn _ _ Er0) as [_ (P1 & k1 & Hp1)]. rewrite Hp1 in Ht. subst P1.
            destruct (@par_lt' _ _ _ Hp1). lia. }
        assert (Htop : top_peer_is (ncfg nd) (PUp k0) = true).
        { apply top_peer_of_cstack; [exact (reach_cstack Hr_d)|].
          change (ms (ncfg nd)) with (nms nd).
          destruct (cstack (nms nd)) as [|cl0 rest0]; [exact I|].
          destruct Htopc as [->|[u ->]]; reflexivity. }
        assert (Hsd1 : subd m1 0 = true) by congruence.
        assert (Hrf1 : refused m1 0 = None).
        { rewrite R1. destruct m as [inp|]; cbn [mon_move mon_event]; [|apply Hrf].
          rewrite (@input_refused (npar n) (nms n) inp (ngrd n)); [apply Hrf|apply Hg|].
          unfold nenabled, enabled in He. apply andb_prop in He. destruct He as [_ He].
          apply andb_prop in He. tauto. }
        assert (Hlate : d = DH -> late_ok (npar nd) = true \/
                                  exists f rest, stack (ncfg nd) = (f, CSub k0) :: rest).
        { intros ->. destruct (late_ok (npar nd)) eqn:El; [now left|right].
          cbn in Hchk.
          assert (Hsk : sk m1 0 = SNone)
            by (destruct (sk m1 0); cbn in Hchk; try discriminate; reflexivity).
          assert (Hus : us (nms nd) k0 = USubd).
          { unfold linkk in Hlk0. revert Hlk0. destruct (us (nms nd) k0); intros Hlk0; try reflexivity;
              try (match type of Hlk0 with _ /\ _ => destruct Hlk0 as [? ?] end); congruence. }
          destruct (@tnode_pend ns P0 nd Hnok Hnd) as (Pf1 & _ & _ & Pf4).
          specialize (Pf4 El k0 Hus).
          pose proof (reach_cstack Hr_d) as Hc. change (ms (ncfg nd)) with (nms nd) in Hc.
          destruct (cstack (nms nd)) as [|cl0 rest0] eqn:Ecs; [contradiction|].
          destruct (stack (ncfg nd)) as [|[f c1] st'] eqn:Est; [discriminate|].
          cbn in Hc. inversion Hc; subst c1.
          exists f, st'. f_equal. f_equal.
          destruct Htopc as [->|[u ->]]; [reflexivity|].
          exfalso. destruct (Pf1 k0 u (or_introl eq_refl)) as [_ Hns']. congruence. }
        destruct (@xfer_dn_k (npar nd) (nop nd) (ngrd nd) (ncfg nd) Hg_d Hd_d (npar n) m1 k0 d
                    Hpl_d Hlate Hchk Hlk0 Hsd1 Hrf1 Htop) as [Hen Hlk1].
        assert (Hown : towner w (x, TDn) = P0) by (cbn; now rewrite Hpar0).
        assert (Hxl : txlate w x (CDn 0 d) = IDn k0 d) by (cbn; now rewrite Hpar0).
        rewrite Hown, Hxl.
        split; [exact Hnodes'|]. split; [now apply Hstk|].
        split; [apply Hwfp; split; [exact Hxlt|now exists P0, k0]|].
        split.
        { split.
          - exists x, TDn. repeat split; [discriminate | exact Hown].
          - exists nd. split; [rewrite Ho' by lia; exact Hnd | exact Hen]. }
        intros c P k U' D' Hp HU HD. unfold teff.
        destruct (Hpair c P k U' D' Hp HU HD)
          as [(-> & -> & Hpx & HD0)|[(-> & -> & Hcx & HU0)|(Hcx & Hpx & HU0 & HD0)]].
        * destruct (@par_fun _ _ _ _ _ Hp Hpar0) as [-> ->].
          replace (P0 =? x) with false by (symmetry; apply Nat.eqb_neq; lia).
          rewrite Nat.eqb_refl. assert (D' = nd) by congruence. subst D'.
          eapply linkk_ext; [| | reflexivity | exact Hlk1]; congruence.
        * destruct (@par_lt' _ _ _ Hp) as [Hcx' _].
          replace (P0 =? c) with false by (symmetry; apply Nat.eqb_neq; lia).
          replace (P0 =? x) with false by (symmetry; apply Nat.eqb_neq; lia).
          specialize (Hlk c x k U' n Hp HU0 Hn). rewrite Ex, Eo in Hlk by exact Hcx.
          eapply linkk_ext; [reflexivity | reflexivity | | exact Hlk]. now apply Hus_keep.
        * specialize (Hlk c P k U' D' Hp HU0 HD0). rewrite !Eo in Hlk by assumption.
          destruct (Nat.eqb_spec P0 c) as [Ec|Ec]; destruct (Nat.eqb_spec P0 P) as [Epp|Epp].
          -- subst. destruct (@par_lt' _ _ _ Hp). lia.
          -- destruct (@input_sk0 (npar U') (nms U') (IDn k0 d)) as [Ha Hb]; [intros H; exact H|].
             eapply linkk_ext; [exact Hb | exact Ha | reflexivity | exact Hlk].
          -- subst P. assert (Hk : k <> k0).
             { intros ->. apply Hcx. exact (@kid_fun _ _ _ _ (@par_kid w _ Hw _ _ _ Hp) (@par_kid w _ Hw _ _ _ Hpar0)). }
             eapply linkk_ext; [reflexivity | reflexivity | | exact Hlk].
             apply input_usk. intros [d' Hd']. inversion Hd'. congruence.
          -- exact Hlk.
    - (* the step ended with a return *)
      destruct H3 as (A3 & B3 & C3 & R3 & S3).
      assert (Hstk : tstacks_ok ns' G1).
      { intros i ni Hi. destruct (Nat.eq_dec i x) as [->|Hix].
        - rewrite Hx' in Hi. inversion Hi; subst ni. rewrite S3. exact Hstx.
        - rewrite Ho' in Hi by exact Hix. now apply Hst. }
      assert (Hlinks : forall pd, (forall j nn, teff pd j nn = nms nn) -> tlinks_ok ns' pd).
      { intros pd Hpd c P k U' D' Hp HU HD. rewrite !Hpd.
        destruct (Hpair c P k U' D' Hp HU HD)
          as [(-> & -> & Hpx & HD0)|[(-> & -> & Hcx & HU0)|(Hcx & Hpx & HU0 & HD0)]].
        - specialize (Hlk x P k n D' Hp Hn HD0). rewrite Ex, Eo in Hlk by exact Hpx.
          eapply linkk_ext; [| | reflexivity | exact Hlk]; congruence.
        - specialize (Hlk c x k U' n Hp HU0 Hn). rewrite Ex, Eo in Hlk by exact Hcx.
          eapply linkk_ext; [reflexivity | reflexivity | | exact Hlk]. congruence.
        - specialize (Hlk c P k U' D' Hp HU0 HD0). now rewrite !Eo in Hlk by assumption. }
      destruct G1 as [|[j [|k1|]] G1']; unfold TInv; cbn [tnodes tgst tpend].
      + split; [exact Hnodes'|]. split; [exact Hstk|]. split; [exact Hwf|].
        split; [exact I|]. now apply Hlinks.
      + split; [exact Hnodes'|]. split; [exact Hstk|]. split; [exact Hwf|].
        split; [exact I|]. now apply Hlinks.
      + split; [exact Hnodes'|]. split; [exact Hstk|]. split; [exact Hwf|].
        split; [exists (TUp k1); split; [reflexivity|discriminate]|]. now apply Hlinks.
      + split; [exact Hnodes'|]. split; [exact Hstk|]. split; [exact Hwf|].
        split; [exists TDn; split; [reflexivity|discriminate]|]. now apply Hlinks.
  Qed.

  (** ** Every net step preserves the invariant *)

  Lemma tret_prep ns G' x K n :
    tstacks_ok ns ((x, K) :: G') -> nth_error ns x = Some n ->
    (forall i ni, nth_error ns i = Some ni -> i <> x ->
        map (troute w i) (cstack (nms ni)) = tkinds_of i G') /\
    map (troute w x) (cstack (mon_move (npar n) (nms n) MRet)) = tkinds_of x G' /\
    exists cl rest, cstack (nms n) = cl :: rest /\ troute w x cl = K.
  Proof.
    intros Hst Hn. split; [|split].
    - intros i ni Hi Hix. rewrite (Hst i ni Hi). apply tkinds_of_cons_other. congruence.
    - specialize (Hst x n Hn). rewrite tkinds_of_cons_same in Hst. cbn.
      destruct (cstack (nms n)) as [|cl rest]; [discriminate|]. cbn in *. congruence.
    - specialize (Hst x n Hn). rewrite tkinds_of_cons_same in Hst.
      destruct (cstack (nms n)) as [|cl rest]; [discriminate|]. cbn in Hst.
      exists cl, rest. split; [reflexivity|congruence].
  Qed.

  Lemma tlinks_core_move ns pd x m :
    tlinks_ok ns pd -> (forall j nn, teff pd j nn = nms nn) ->
    (forall n, nth_error ns x = Some n ->
       ((exists P k, par w x = Some (P, k)) ->
          subd (mon_move (npar n) (nms n) m) 0 = subd (nms n) 0 /\
          sk (mon_move (npar n) (nms n) m) 0 = sk (nms n) 0) /\
       (forall k c, kid w x k = Some c -> us (mon_move (npar n) (nms n) m) k = us (nms n) k)) ->
    forall c P k U D, par w c = Some (P, k) -> nth_error ns c = Some U -> nth_error ns P = Some D ->
      linkk k (teffx x m c U) (teffx x m P D).
  Proof.
    intros Hlk Hpd Hcore c P k U D Hp HU HD. specialize (Hlk c P k U D Hp HU HD).
    rewrite !Hpd in Hlk. destruct (@par_lt' _ _ _ Hp) as [Hcp _].
    unfold teffx. destruct (Nat.eqb_spec c x) as [->|Hcx].
    - replace (P =? x) with false by (symmetry; apply Nat.eqb_neq; lia).
      destruct (Hcore U HU) as [H1 _]. destruct (H1 (ex_intro _ P (ex_intro _ k Hp))) as [Ha Hb].
      eapply linkk_ext; [exact Ha | exact Hb | reflexivity | exact Hlk].
    - destruct (Nat.eqb_spec P x) as [->|Hpx]; [|exact Hlk].
      destruct (Hcore D HD) as [_ H2].
      eapply linkk_ext; [reflexivity | reflexivity | | exact Hlk].
      apply (H2 k c). now apply (@par_kid w _ Hw).
  Qed.

  (** a pending internal call can be returned from: in particular a subscribing call of a parent
      that does not tolerate a late greeting has been answered by the child's greeting *)
  Lemma tret_enabled ns G' j K n pd :
    tnodes_ok ns -> tstacks_ok ns ((j, K) :: G') -> twfG w (length sigs) ((j, K) :: G') ->
    tlinks_ok ns pd -> (forall i nn, teff pd i nn = nms nn) ->
    K <> TExt -> nth_error ns j = Some n ->
    nenabled n MRet = true.
  Proof.
    intros Hnok Hst Hwf Hlk Hpd HK Hn.
    pose proof Hnok as [Hsig Hnd].
    destruct (tret_prep Hst Hn) as (Hst' & _ & cl & rest & Hcs & Hrt).
    destruct (Hnd j n Hn) as [Hr _].
    destruct (@tnode_facts ns j n Hsig Hn) as (Hsj & Hsafe_n & _).
    destruct (Hsafe_n _ Hr) as [_ Hd].
    unfold nenabled, enabled. rewrite Hd. cbn [negb andb].
    pose proof (reach_cstack Hr) as Hc. change (ms (ncfg n)) with (nms n) in Hc.
    rewrite Hcs in Hc. destruct (stack (ncfg n)) as [|[f c0] st'] eqn:Est; [discriminate|].
    cbn in Hc. injection Hc as Hc1 Hc2. subst c0.
    destruct cl as [i0|i0 u0|s0 d0]; try reflexivity.
    (* the pending call is a subscription [CSub i0] of the child wired to port i0 *)
    destruct (late_ok (npar n)) eqn:El; [reflexivity|]. cbn [orb].
    change (ms (ncfg n)) with (nms n).
    destruct (us (nms n) i0) eqn:Eus; try reflexivity. exfalso.
    assert (Hk : K = TUp i0).
    { cbn in Hrt. destruct (kid w j i0) eqn:Ek; [congruence|]. exfalso. apply HK. congruence. }
    rewrite Hk in Hrt. destruct (@troute_up _ _ _ Hrt) as [_ [c Hkid]].
    pose proof (@kid_par w _ Hw _ _ _ Hkid) as Hpar.
    destruct (@par_lt' _ _ _ Hpar) as [Hcj Hjl].
    destruct (nth_error ns c) as [nc|] eqn:Hnc.
    2: { apply nth_error_None in Hnc. rewrite (@tlen ns Hsig) in Hnc. lia. }
    (* the child has been subscribed and has not greeted *)
    specialize (Hlk c j i0 nc n Hpar Hnc Hn). rewrite !Hpd in Hlk.
    unfold linkk in Hlk. rewrite Eus in Hlk. destruct Hlk as [Hsd Hsk].
    (* so (it greets synchronously) it is still inside an activation *)
    destruct (@tnode_facts ns c nc Hsig Hnc) as (Hsc & _).
    destruct (@Hsync c j i0 (nsig nc) (nsig n) Hpar Hsc Hsj) as [Hl|Hgs].
    { cbn in Hl. congruence. }
    destruct (Hnd c nc Hnc) as [Hrc _].
    assert (Hne : stack (ncfg nc) <> []) by (apply Hgs; assumption).
    (* its innermost pending call points towards the parent: a delivery - but then it has greeted *)
    destruct (twfG_tl Hwf) as [Hwf' Hrun']. cbn [fst] in Hrun'.
    pose proof (@top_call_toward G' j c nc (Hst' c nc Hnc ltac:(lia)) Hwf' Hrun' ltac:(lia)) as Ht.
    pose proof (reach_cstack Hrc) as Hcc. change (ms (ncfg nc)) with (nms nc) in Hcc.
    destruct (cstack (nms nc)) as [|cl0 rest0] eqn:Ecs.
    { destruct (stack (ncfg nc)); [contradiction|discriminate]. }
    rewrite (@toward_parent w _ Hw _ _ _ Hpar) in Ht.
    destruct (troute w c cl0) as [|k'|] eqn:Er0; cbn in Ht.
    - lia.
    - destruct (kid w c k') as [c'|] eqn:Ek; [|lia]. subst c'.
      destruct (@par_lt' _ _ _ (@kid_par w _ Hw _ _ _ Ek)). lia.
    - destruct (@troute_dn _ _ Er0) as [[d ->] _].
      destruct (@tnode_pend ns c nc Hnok Hnc) as (_ & Pf2 & _).
      apply (Pf2 d); [rewrite Ecs; now left | exact Hsk].
  Qed.

  Lemma tnet_step_inv N mv : TInv N -> tnet_enabled w N mv = true -> TInv (tnet_step w N mv).
  Proof.
    destruct N as [ns G pd]. intros (Hnodes & Hst & Hwf & Hpend & Hlk) He.
    cbn [tnodes tgst tpend] in *. unfold tnet_enabled, tnet_step in *. cbn [tnodes tgst tpend] in *.
    destruct mv as [x m|]; destruct pd as [|t inp|j]; try discriminate.
    - destruct (nth_error ns x) as [n|] eqn:Hn; [|discriminate].
      apply andb_prop in He. destruct He as [Hen He].
      destruct m as [inp|].
      + apply andb_prop in He. destruct He as [Hext HG].
        apply tafter_step_inv; [exact Hnodes | exact Hn | exact Hen | exact Hwf | | | |].
        * destruct G as [|[j [|k|]] G']; try discriminate; [exact I|].
          apply Nat.eqb_eq in HG. cbn. exact HG.
        * intros i ni Hi _. now apply Hst.
        * cbn [mon_move]. rewrite mon_input_cstack. now apply Hst.
        * apply (@tlinks_core_move ns PIdle x (MIn inp)); [exact Hlk | reflexivity|].
          intros n0 Hn0. assert (n0 = n) by congruence. subst n0. cbn [mon_move]. split.
          -- intros (P & k & Hp).
             destruct (@input_sk0 (npar n) (nms n) inp) as [Ha Hb]; [|split; assumption].
             intros Hs. destruct inp as [s0 aux|s0 u|i0 d|s0]; cbn in Hs; try contradiction;
               unfold text_input_ok in Hext; rewrite Hp in Hext; discriminate.
          -- intros k c Hk. apply input_usk. intros [d ->]. unfold text_input_ok in Hext.
             rewrite Hk in Hext. discriminate.
      + destruct G as [|[j [|k|]] G']; try discriminate.
        apply Nat.eqb_eq in He. subst j.
        destruct (twfG_tl Hwf) as [Hwf' Hrun']. cbn [fst] in Hrun'.
        destruct (tret_prep Hst Hn) as (Hs1 & Hs2 & _).
        apply tafter_step_inv;
          [exact Hnodes | exact Hn | exact Hen | exact Hwf' | exact Hrun' | exact Hs1 | exact Hs2 |].
        apply (@tlinks_core_move ns PIdle x MRet); [exact Hlk | reflexivity|].
        intros n0 Hn0. assert (n0 = n) by congruence. subst n0. cbn. auto.
    - destruct Hpend as [(j & k & Hhd & Hk & Hown) (n & Hn & Hen)].
      rewrite Hn.
      apply tafter_step_inv; [exact Hnodes | exact Hn | exact Hen | exact Hwf | | | |].
      + destruct G as [|e G']; [discriminate|]. cbn in Hhd. inversion Hhd; subst e. exact Hown.
      + intros i ni Hi _. now apply Hst.
      + cbn [mon_move]. rewrite mon_input_cstack. now apply Hst.
      + intros c P k0 U D Hp HU HD. specialize (Hlk c P k0 U D Hp HU HD).
        unfold teff in Hlk. unfold teffx. cbn [mon_move].
        rewrite (Nat.eqb_sym c t), (Nat.eqb_sym P t). exact Hlk.
    - destruct Hpend as (k & Hhd & Hk).
      destruct G as [|e G']; [discriminate|]. cbn in Hhd. inversion Hhd; subst e.
      destruct (twfG_tl Hwf) as [Hwf' Hrun']. cbn [fst] in Hrun'.
      assert (Hj : j < length sigs) by (destruct Hwf as ((Hko & _) & _); exact Hko).
      destruct Hnodes as [Hsig Hnd].
      destruct (nth_error ns j) as [n|] eqn:Hn.
      2: { apply nth_error_None in Hn. rewrite (@tlen ns Hsig) in Hn. lia. }
      destruct (tret_prep Hst Hn) as (Hs1 & Hs2 & _).
      pose proof (@tret_enabled ns G' j k n (PRet j) (conj Hsig Hnd) Hst Hwf Hlk
                    (fun _ _ => eq_refl) Hk Hn) as Hen.
      apply tafter_step_inv;
        [exact (conj Hsig Hnd) | exact Hn | exact Hen | exact Hwf' | exact Hrun' | exact Hs1 | exact Hs2 |].
      apply (@tlinks_core_move ns (PRet j) j MRet); [exact Hlk | reflexivity|].
      intros n0 Hn0. assert (n0 = n) by congruence. subst n0. cbn. auto.
  Qed.

  (** ** The composition theorem for trees *)

  Definition tnet0 (ns : list node) : tnet := mk_tnet ns [] PIdle.

  Lemma tinv0 ns :
    map nsig ns = sigs -> (forall n, In n ns -> ninit n) -> TInv (tnet0 ns).
  Proof.
    intros Hsig Hinit. unfold TInv, tnet0. cbn [tnodes tgst tpend].
    assert (Hms : forall i n, nth_error ns i = Some n -> nms n = ms0).
    { intros i n Hn. unfold nms. rewrite (Hinit n (nth_error_In _ _ Hn)). reflexivity. }
    split; [split; [exact Hsig|]|].
    - intros i n Hn. split.
      + unfold nreach. rewrite (Hinit n (nth_error_In _ _ Hn)). constructor.
      + intros _. exact (Hinit n (nth_error_In _ _ Hn)).
    - split; [|split; [exact I|split; [exact I|]]].
      + intros i n Hn. rewrite (Hms i n Hn). reflexivity.
      + intros c P k U D _ HU HD. cbn [teff]. unfold linkk. rewrite (Hms _ _ HU), (Hms _ _ HD). reflexivity.
  Qed.

  Theorem tree_inv ns N :
    map nsig ns = sigs -> (forall n, In n ns -> ninit n) ->
    tnet_reach w (tnet0 ns) N -> TInv N.
  Proof.
    intros Hsig Hinit Hr. induction Hr as [|N mv Hr IH He]; [now apply tinv0|].
    now apply tnet_step_inv.
  Qed.

  (** every node of every reachable tree of components is reachable in its own conformant
      environment; so every theorem about the component holds of it *)
  Theorem tree_sound ns N :
    map nsig ns = sigs -> (forall n, In n ns -> ninit n) ->
    tnet_reach w (tnet0 ns) N ->
    forall i n, nth_error (tnodes N) i = Some n ->
      nth_error sigs i = Some (nsig n) /\ nreach n /\ viols (nms n) = [] /\ dead (ncfg n) = false.
  Proof.
    intros Hsig Hinit Hr i n Hn.
    destruct (tree_inv Hsig Hinit Hr) as ([Hs Hnd] & _).
    destruct (Hnd i n Hn) as [Hre _].
    destruct (@tnode_facts (tnodes N) i n Hs Hn) as (Hsi & Hsafe_n & _).
    split; [exact Hsi|]. split; [exact Hre | exact (Hsafe_n _ Hre)].
  Qed.
End TreeSound.

Print Assumptions tree_sound.
