(** * Tracing: the three macros of src/utils/mod.rs as far as observable behaviour is concerned.

    [call!(callee, message, "fmt", args..)] expands, without the feature, to [callee(message)] and,
    with it, to [{ let message = <message>; tracing::trace!(..); callee(message); }];
    [trace!(..)] and [instrument!(..)] expand to nothing without the feature.  With the feature,
    [tracing::trace!] evaluates its field expressions only when a subscriber is interested.

    A handler body is a list of statements over an abstract state; message expressions may have
    effects (they contain e.g. [fetch_add]); the argument expressions of trace!/instrument! are
    arbitrary state transformers.  The theorem: if those argument expressions are PURE, the three
    builds (feature off; on without subscriber; on with a TRACE subscriber) perform the same
    effects, the same calls with the same values, and evaluate every message expression exactly
    once.  The purity premise is what lib/verif.py audits on the current source on every C20 run
    (every trace!/call! argument after the format string is an identifier, [name = identifier] or a
    macro metavariable); the refutation below is the shape of a change that breaks C20. *)

From Coq Require Import List.
Import ListNotations.

Set Implicit Arguments.

Section Tracing.
  Variable S : Type.      (* the state of the closure tree *)
  Variable V : Type.      (* messages *)

  Definition mexpr := S -> S * V.        (* a message expression: may have effects *)
  Definition texpr := S -> S.            (* an argument of trace!/instrument!: its effect *)

  Inductive stmt : Type :=
  | SEff (f : S -> S)                            (* any other Rust statement *)
  | SCall (callee : nat) (m : mexpr) (args : list texpr)   (* call!(callee, m, "..", args) *)
  | STrace (args : list texpr)                   (* trace!("..", args) *)
  | SInstr (args : list texpr).                  (* instrument!(..) *)

  Inductive mode : Type := Off | OnNoSub | OnSub.

  (** what is observable: a message expression was evaluated; a callee was called with a value *)
  Inductive oev : Type := OEval (callee : nat) | OCall (callee : nat) (v : V).

  Definition eval_args (args : list texpr) (s : S) : S := fold_left (fun s a => a s) args s.

  Definition exec1 (md : mode) (st : stmt) (s : S) : S * list oev :=
    match st with
    | SEff f => (f s, [])
    | SCall c m args =>
        let '(s1, v) := m s in                    (* [let message = $message;] or the argument itself *)
        let s2 := match md with OnSub => eval_args args s1 | _ => s1 end in
        (s2, [OEval c; OCall c v])
    | STrace args => (match md with OnSub => eval_args args s | _ => s end, [])
    | SInstr args => (match md with Off => s | _ => eval_args args s end, [])
    end.

  Fixpoint exec (md : mode) (body : list stmt) (s : S) : S * list oev :=
    match body with
    | [] => (s, [])
    | st :: body' =>
        let '(s1, o1) := exec1 md st s in
        let '(s2, o2) := exec md body' s1 in
        (s2, o1 ++ o2)
    end.

  Definition pure (a : texpr) : Prop := forall s, a s = s.
  Definition args_of (st : stmt) : list texpr :=
    match st with SCall _ _ a | STrace a | SInstr a => a | SEff _ => [] end.
  Definition body_pure (body : list stmt) : Prop :=
    forall st a, In st body -> In a (args_of st) -> pure a.

  Lemma eval_args_pure args s : (forall a, In a args -> pure a) -> eval_args args s = s.
  Proof.
    revert s. induction args as [|a args IH]; intros s H; cbn; [reflexivity|].
    rewrite (H a (or_introl eq_refl)). apply IH. intros b Hb. apply H. now right.
  Qed.

  (** the feature is observationally inert *)
  Theorem tracing_inert body md s : body_pure body -> exec md body s = exec Off body s.
  Proof.
    revert s. induction body as [|st body IH]; intros s Hp; cbn [exec]; [reflexivity|].
    assert (H1 : exec1 md st s = exec1 Off st s).
    { assert (Ha : forall a, In a (args_of st) -> pure a)
        by (intros a Ha; exact (Hp st a (or_introl eq_refl) Ha)).
      destruct st as [f|c m args|args|args]; cbn in *.
      - reflexivity.
      - destruct (m s) as [s1 v]. destruct md; try reflexivity. now rewrite eval_args_pure.
      - destruct md; try reflexivity. now rewrite eval_args_pure.
      - destruct md; try reflexivity; now rewrite eval_args_pure. }
    rewrite H1. destruct (exec1 Off st s) as [s1 o1].
    rewrite IH; [reflexivity|]. intros st' a Hs Ha. exact (Hp st' a (or_intror Hs) Ha).
  Qed.

  (** every message expression is evaluated exactly once per call, in every build *)
  Fixpoint count_calls (body : list stmt) : nat :=
    match body with
    | [] => 0
    | SCall _ _ _ :: b => Datatypes.S (count_calls b)
    | _ :: b => count_calls b
    end.
  Definition is_eval (e : oev) : bool := match e with OEval _ => true | _ => false end.
  Definition is_call (e : oev) : bool := match e with OCall _ _ => true | _ => false end.

  Theorem message_evaluated_once body md s :
    length (filter is_eval (snd (exec md body s))) = count_calls body /\
    length (filter is_call (snd (exec md body s))) = count_calls body.
  Proof.
    revert s. induction body as [|st body IH]; intros s; cbn [exec]; [split; reflexivity|].
    destruct (exec1 md st s) as [s1 o1] eqn:E1.
    specialize (IH s1). destruct (exec md body s1) as [s2 o2]. cbn [snd] in *.
    rewrite !filter_app, !app_length.
    destruct st as [f|c m args|args|args]; cbn in E1.
    - inversion E1; subst. cbn. exact IH.
    - destruct (m s) as [s' v]. inversion E1; subst. cbn. destruct IH. split; congruence.
    - inversion E1; subst. cbn. exact IH.
    - inversion E1; subst. cbn. exact IH.
  Qed.
End Tracing.

(** the premise is necessary: an effect inside a trace! argument (here: setting a flag that a later
    message expression reads) makes the build with a subscriber differ from the other two *)
Definition bad_body : list (stmt bool nat) :=
  [@STrace bool nat [fun _ => true]; @SCall bool nat 0 (fun s => (s, if s then 1 else 2)) []].

Example impure_trace_arg_refuted :
  exec OnSub bad_body false <> exec Off bad_body false /\
  exec OnNoSub bad_body false = exec Off bad_body false.
Proof. split; [discriminate | reflexivity]. Qed.
