(** * Inv_threads_always: the two halves together - every run of the driver ends (Inv_threads_total.v)
      and the finished trace passes the whole check (the [_driver_final] theorems): for every schedule,
      with enough fuel, unconditionally. *)
From CB Require Import Threads ThreadSpec ThreadsFine ThreadsTakeMerge ThreadsTakeCombine.
From CB Require Import Inv_threads_take Inv_threads_merge Inv_threads_combine Inv_threads_fine
  Inv_threads_takemerge Inv_threads_takecombine Inv_threads_total.

Set Implicit Arguments.

Lemma all_finished_first_unfinished S (finished : S -> nat -> bool) n s :
  (forall t, t < n -> finished s t = true) -> first_unfinished finished n s = None.
Proof.
  induction n as [|n IH]; intros H; [reflexivity|].
  cbn [first_unfinished]. rewrite IH by (intros t Ht; apply H; lia).
  rewrite (H n) by lia. reflexivity.
Qed.

Theorem merge_always_passes n qs fins sch fuel :
  1 <= n -> at_most_one_err n fins -> fuel >= merge_fuel n qs n ->
  merge_check n qs fins (rev (mgs_tr (run_full (mg_step n) mg_finished n sch fuel (mg_init n qs fins)))) = [].
Proof.
  intros Hn Ha Hf. apply (@merge_driver_final n qs fins n sch fuel Hn Ha).
  exact (@merge_run_full_total n qs fins n sch fuel Hf).
Qed.

Theorem merge_fine_always_passes n qs fins sch fuel :
  1 <= n -> at_most_one_err n fins -> fuel >= merge_fine_fuel n qs n ->
  merge_check_fine n qs fins
    (rev (mfs_tr (run_full (mf_step true n) mf_finished n sch fuel (mf_init true n qs fins)))) = [].
Proof.
  intros Hn Ha Hf. apply (@fine_driver_final n qs fins n sch fuel Hn Ha).
  exact (@merge_fine_run_full_total n qs fins n sch fuel Hf).
Qed.

Theorem combine_always_passes n qs fins sch fuel :
  1 <= n -> fuel >= combine_fuel n qs n ->
  combine_check n qs fins (rev (cbs_tr (run_full (cb_step true n) cb_finished n sch fuel (cb_init n qs fins)))) = [].
Proof.
  intros Hn Hf. apply (proj2 (@combine_threads_run_full_check n qs fins n sch fuel Hn)).
  exact (@combine_run_full_total n qs fins n sch fuel Hf).
Qed.

Theorem take_always_passes max qs n sch fuel :
  1 <= max -> (forall t, n <= t -> qs t = []) -> fuel >= take_fuel qs n ->
  take_check max (rev (tks_tr (run_full (tk_step true max) tk_finished n sch fuel (tk_init qs)))) = [].
Proof.
  intros Hm Hq Hf. apply (@run_full_check_n max qs n sch fuel Hm Hq).
  apply all_finished_first_unfinished. exact (@take_run_full_total max qs n sch fuel Hf).
Qed.

Theorem takemerge_always_passes max n qs fins sch fuel :
  1 <= max -> fuel >= takemerge_fuel n qs n ->
  takemerge_check max (rev (xms_tr (run_full (xm_step true max n) xm_finished n sch fuel (xm_init n qs fins)))) = [].
Proof.
  intros Hm Hf. apply (@takemerge_driver_final max n qs fins n sch fuel Hm).
  exact (@takemerge_run_full_total max n qs fins n sch fuel Hf).
Qed.

Theorem takecombine_always_passes max n qs fins sch fuel :
  1 <= n -> 1 <= max -> fuel >= takecombine_fuel n qs n ->
  takecombine_check max n qs
    (rev (xcs_tr (run_full (xc_step true max n) xc_finished n sch fuel (xc_init n qs fins)))) = [].
Proof.
  intros Hn Hm Hf. apply (proj2 (@takecombine_driver_final max n qs fins n sch fuel Hn Hm)).
  exact (@takecombine_run_full_total max n qs fins n sch fuel Hf).
Qed.

(** non-vacuity: the driver's fuel (400) is enough for three members with queues of four *)
Example always_passes_fuel :
  let qs := fun t : nat => if t <? 3 then [VN 1; VN 2; VN 3; VN 4] else [] in
  merge_fuel 3 qs 3 <= 400 /\ merge_fine_fuel 3 qs 3 <= 400 /\ combine_fuel 3 qs 3 <= 400 /\
  take_fuel qs 3 <= 400 /\ takemerge_fuel 3 qs 3 <= 400 /\ takecombine_fuel 3 qs 3 <= 400.
Proof. vm_compute. repeat split; lia. Qed.

Print Assumptions merge_always_passes.
Print Assumptions merge_fine_always_passes.
Print Assumptions combine_always_passes.
Print Assumptions take_always_passes.
Print Assumptions takemerge_always_passes.
Print Assumptions takecombine_always_passes.
