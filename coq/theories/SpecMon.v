(** * SpecMon: component-specific run-time monitors (C07-C12, C15, C16).

    The protocol monitor of Machine.v is the same for every component.  The
    functional content of the component-specific properties is checked by the
    monitor below.  It follows the trace with a stack of *activations*: an
    input ([EIn]) opens one, the calls the component makes while it runs
    ([ECall]) are attributed to the innermost open activation, [EDone] closes
    it.  Checks are made (a) when a call is made, against the activation that
    makes it, (b) when an activation closes, against the list of calls it made
    and a snapshot of the monitor state taken when it opened, and (c) at every
    control point (after [ECall] / [EDone]), on the state.

    These definitions are executable and extracted; they are run over the
    traces recorded from the real crate to turn a deviation into a replayable
    violation of a named property.  The theorems about the model are stated
    with the state predicates of Spec.v / Inv_*.v, not with this monitor. *)

From CB Require Export Spec.

Set Implicit Arguments.

(** what is checked: the component and its parameters *)
Inductive mspec : Type :=
| MsMap (f : val -> val)
| MsFilter (c : val -> bool)
| MsScan (r : val -> val -> val) (seed : val)
| MsTake (n : nat)
| MsSkip (n : nat)
| MsFromIter (it : nat -> option val)
| MsMerge (n : nat)
| MsConcat (n : nat)
| MsCombine (n : nat)
| MsFlatten
| MsShare
| MsInterval
| MsOther.

(** a violation: property number and a code (printed by the driver) *)
Inductive sviol : Type := SV (prop : nat) (code : nat).

Record arec : Type := mk_arec {
  a_in : input;
  a_calls : list call;        (* latest first *)
  a_ms : mstate;              (* monitor state when the activation opened (before the input) *)
  a_att : list nat;           (* share: attached sinks when it opened *)
  a_pulled : bool;            (* the sink had pulled before *)
}.

Record sstate : Type := mk_sstate {
  s_ms : mstate;
  s_acts : list arec;
  s_din : list val;           (* data received from upstreams while the sink was live, latest first
                                 (flatten: from inner sources only) *)
  s_dout : list val;          (* data delivered to sink 0, latest first *)
  s_latest : nat -> option val;   (* combine: latest datum of each member *)
  s_pulled : bool;
  s_att : list nat;           (* share: attached sinks *)
  s_nexts : nat;              (* from_iter: calls of next() so far *)
  s_pend : option (option val);   (* from_iter: a next() result not yet delivered *)
  s_sv : list sviol;          (* latest first *)
}.

#[export] Instance eta_sstate : Settable _ :=
  settable! mk_sstate <s_ms; s_acts; s_din; s_dout; s_latest; s_pulled; s_att; s_nexts; s_pend; s_sv>.
#[export] Instance eta_arec : Settable _ :=
  settable! mk_arec <a_in; a_calls; a_ms; a_att; a_pulled>.

Definition ss0 : sstate :=
  {| s_ms := ms0; s_acts := []; s_din := []; s_dout := []; s_latest := fun _ => None;
     s_pulled := false; s_att := []; s_nexts := 0; s_pend := None; s_sv := [] |}.

Definition flag (b : bool) (p c : nat) : list sviol := if b then [] else [SV p c].

Fixpoint list_val_eqb (a b : list val) : bool :=
  match a, b with
  | [], [] => true
  | x :: a', y :: b' => val_eqb x y && list_val_eqb a' b'
  | _, _ => false
  end.

Fixpoint list_call_eqb (a b : list call) : bool :=
  match a, b with
  | [], [] => true
  | x :: a', y :: b' => call_eqb x y && list_call_eqb a' b'
  | _, _ => false
  end.

Definition is_live (m : mstate) (i : nat) : bool := us_live (us m i).
Definition is_ended (m : mstate) (i : nat) : bool :=
  match us m i with UEnded => true | _ => false end.
Definition has_greeted (m : mstate) (i : nat) : bool :=
  match us m i with UNone | USubd => false | _ => true end.
Definition sink_live (m : mstate) : bool := match sk m 0 with SLive => true | _ => false end.
Definition sink_none (m : mstate) : bool := match sk m 0 with SNone => true | _ => false end.

Definition live_inners (m : mstate) : list nat :=
  filter (fun i => negb (Nat.eqb i 0) && is_live m i) (ports m).

Definition option_val_eqb (a b : option val) : bool :=
  match a, b with
  | Some x, Some y => val_eqb x y
  | None, None => true
  | _, _ => false
  end.

Definition expected_out (sp : mspec) (din : list val) : option (list val) :=
  match sp with
  | MsMap f => Some (map f din)
  | MsFilter c => Some (filter c din)
  | MsScan r seed => Some (scan_list r seed din)
  | MsTake n => Some (firstn n din)
  | MsSkip n => Some (skipn n din)
  | MsMerge _ | MsConcat _ | MsFlatten => Some din
  | _ => None
  end.

Definition is_pull (c : call) : bool := match c with CUp _ UP => true | _ => false end.
Definition pulled_port (calls : list call) (i : nat) : bool :=
  existsb (fun c => match c with CUp j UP => Nat.eqb i j | _ => false end) calls.

Definition head_in (st : sstate) : option input :=
  match s_acts st with a :: _ => Some (a_in a) | [] => None end.

(** ** (a) checks when a call is made *)
Definition check_on_call (sp : mspec) (st : sstate) (c : call) : list sviol :=
  let m := s_ms st in
  match sp, c with
  | MsMerge n, CDn 0 DT => flag (forallb (is_ended m) (seq 0 n)) 8 1
  | MsConcat n, CSub j =>
      flag (match head_in st, j with
            | Some (ISub _ _), 0 => true
            | Some (IDn k DT), S j' => Nat.eqb k j'
            | _, _ => false
            end) 9 1
  | MsConcat n, CDn 0 DT =>
      flag (match head_in st, n with
            | Some (ISub _ _), 0 => true
            | Some (IDn k DT), S n' => Nat.eqb k n'
            | _, _ => false
            end) 9 2
  | MsCombine n, CDn 0 DH => flag (forallb (has_greeted m) (seq 0 n)) 10 1
  | MsCombine n, CDn 0 (DD v) =>
      flag (match head_in st with Some (IDn _ (DD _)) => true | _ => false end) 10 2
      ++ flag (match v with
               | VT l => list_val_eqb l
                           (flat_map (fun j => match s_latest st j with Some x => [x] | None => [] end)
                                     (seq 0 n))
                         && Nat.eqb (length l) n
               | _ => false
               end) 10 3
  | MsCombine n, CDn 0 DT => flag (forallb (is_ended m) (seq 0 n)) 10 4
  | MsFlatten, CDn 0 DT =>
      flag (is_ended m 0 && match live_inners m with [] => true | _ => false end) 11 1
  | MsShare, CSub 0 =>
      flag (match s_acts st with
            | a :: _ => match a_in a, a_att a with ISub _ _, [] => true | _, _ => false end
            | [] => false
            end) 12 1
  | MsShare, CUp 0 UT =>
      flag (match head_in st with
            | Some (IUp _ u) => umsg_is_term u && match s_att st with [] => true | _ => false end
            | _ => false
            end) 12 2
  | MsFromIter _, CDn 0 (DD v) =>
      flag (option_val_eqb (match s_pend st with Some r => r | None => None end) (Some v)
            && match s_pend st with Some _ => true | None => false end) 15 1
  | MsFromIter _, CDn 0 DT =>
      flag (match s_pend st with Some None => true | _ => false end) 15 2
  | MsInterval, CDn 0 (DD v) =>
      flag (val_eqb v (VN (ndata m 0))) 16 1
      ++ flag (match head_in st with Some (ITick _) => true | _ => false end) 16 2
  | _, _ => []
  end.

(** ** (b) checks when an activation closes; [calls] in the order made *)
Definition check_on_close (sp : mspec) (st : sstate) (a : arec) : list sviol :=
  let m0 := a_ms a in           (* when it opened *)
  let m1 := s_ms st in          (* now *)
  let calls := rev (a_calls a) in
  let live0 := sink_live m0 in
  match sp, a_in a with
  (* Pull forwarding of the fan-ins: every member live before and after was pulled *)
  | MsMerge n, IUp 0 UP | MsCombine n, IUp 0 UP =>
      flag (forallb (fun i => negb (is_live m0 i && is_live m1 i) || pulled_port calls i) (seq 0 n))
           (match sp with MsMerge _ => 8 | _ => 10 end) 5
  (* merge: a member greeting after the output is over is disposed at once *)
  | MsMerge n, IDn i DH =>
      if sk_over (sk m0 0) then flag (list_call_eqb calls [CUp i UT]) 8 6 else []
  (* concat: the outstanding demand is carried to the next member *)
  | MsConcat n, IDn (S k) DH =>
      if live0 then
        flag (list_call_eqb (filter is_pull calls)
                            (if a_pulled a then [CUp (S k) UP] else [])) 9 3
      else []
  (* combine: exactly one tuple per member datum once every member has a value *)
  | MsCombine n, IDn i (DD _) =>
      if live0 && (i <? n) then
        let all := forallb (fun j => match s_latest st j with Some _ => true | None => false end)
                           (seq 0 n) in
        let k := length (filter (fun c => match c with CDn 0 (DD _) => true | _ => false end) calls) in
        flag (Nat.eqb k (if all then 1 else 0)) 10 6
      else []
  (* flatten *)
  | MsFlatten, IDn 0 (DD v) =>
      if live0 then
        flag (list_call_eqb calls
                (map (fun j => CUp j UT) (live_inners m0) ++ [CSub (S (inner_id v))])) 11 2
      else []
  | MsFlatten, IDn (S k) DH =>
      flag (match calls with CUp j UP :: _ => Nat.eqb j (S k) | _ => false end) 11 3
  | MsFlatten, IUp 0 UP =>
      flag (list_call_eqb (filter is_pull calls)
              (match live_inners m0 with
               | j :: _ => [CUp j UP]
               | [] => if is_live m0 0 then [CUp 0 UP] else []
               end)) 11 4
  (* share *)
  | MsShare, ISub s _ =>
      flag (list_call_eqb calls (match a_att a with [] => [CSub 0] | _ => [CDn s DH] end)) 12 3
  | MsShare, IDn 0 DH => []
  | MsShare, IDn 0 d => flag (list_call_eqb calls (map (fun s => CDn s d) (a_att a))) 12 4
  | MsShare, IUp s UP => flag (list_call_eqb calls [CUp 0 UP]) 12 5
  | MsShare, IUp s _ =>
      flag (list_call_eqb calls
              (match remove_first s (a_att a) with
               | [] => if is_live m0 0 then [CUp 0 UT] else []
               | _ => []
               end)) 12 6
  (* interval *)
  | MsInterval, ITick _ =>
      flag (Nat.eqb (length calls) (if live0 then 1 else 0)) 16 3
  | MsInterval, ISub 0 0 => flag (list_call_eqb calls [CDn 0 DH]) 16 4
  | MsInterval, ISub 0 aux => flag (list_call_eqb calls [CDn 0 (DE (spawn_err_id aux))]) 16 5
  | _, _ => []
  end.

(** ** (c) checks at every control point *)
Definition check_control (sp : mspec) (st : sstate) : list sviol :=
  let m := s_ms st in
  (match expected_out sp (rev (s_din st)) with
   | Some l => flag (list_val_eqb (rev (s_dout st)) l)
                    (match sp with
                     | MsMerge _ => 8 | MsConcat _ => 9 | MsFlatten => 11 | _ => 7 end) 10
   | None => []
   end)
  ++
  match sp with
  | MsMerge n =>
      flag (negb (existsb (is_live m) (seq 0 n)) || negb (sink_none m)) 8 11
      ++ flag (negb (sink_live m) || negb (forallb (is_ended m) (seq 0 n))) 8 12
  | MsConcat n =>
      flag (negb (sink_live m) || negb (forallb (is_ended m) (seq 0 n)) || Nat.eqb n 0) 9 12
  | MsCombine n =>
      flag (negb (forallb (has_greeted m) (seq 0 n)) || negb (sink_none m)) 10 11
      ++ flag (negb (sink_live m) || negb (forallb (is_ended m) (seq 0 n))) 10 12
  | MsFlatten =>
      flag (length (live_inners m) <=? 1) 11 11
      ++ flag (negb (sink_live m) || is_live m 0
               || negb (match live_inners m with [] => true | _ => false end)
               || existsb (fun i => match us m i with USubd => true | _ => false end) (ports m)
               || existsb (fun c => match c with CUp _ UT => true | _ => false end) (cstack m)) 11 12
  | _ => []
  end.

(** at a quiescent point *)
Definition check_quiet (sp : mspec) (st : sstate) : list sviol :=
  let m := s_ms st in
  match sp with
  | MsMap _ | MsFilter _ | MsScan _ _ | MsSkip _ =>
      flag (negb (is_ended m 0 && sink_live m)) 7 20
  | MsTake n =>
      flag (negb (is_ended m 0 && sink_live m)) 7 20
      ++ flag (negb ((n <=? ndata m 0) && sink_live m)) 7 21
      ++ flag (ndata m 0 <=? n) 7 22
  | _ => []
  end.

Definition add_sv (vs : list sviol) (st : sstate) : sstate := st <| s_sv := rev vs ++ s_sv st |>.

Definition counts_as_din (sp : mspec) (i : nat) : bool :=
  match sp with MsFlatten => negb (Nat.eqb i 0) | _ => true end.

Definition smon_event (p : mparams) (sp : mspec) (st : sstate) (ev : event) : sstate :=
  let m := s_ms st in
  let m' := mon_event p m ev in
  (* from_iter: between next() and the delivery of its result nothing else happens *)
  let pend_bad :=
    match sp, s_pend st, ev with
    | MsFromIter _, Some _, ECall (CDn 0 (DD _)) | MsFromIter _, Some _, ECall (CDn 0 DT) => []
    | MsFromIter _, Some _, _ => [SV 15 3]
    | _, _, _ => []
    end in
  let st := add_sv pend_bad st in
  match ev with
  | EIn i =>
      let a := {| a_in := i; a_calls := []; a_ms := m; a_att := s_att st;
                  a_pulled := s_pulled st |} in
      let st1 := st <| s_ms := m' |> <| s_acts := a :: s_acts st |> in
      match i with
      | IDn j (DD v) =>
          st1 <| s_din := if counts_as_din sp j && sink_live m then v :: s_din st else s_din st |>
              <| s_latest := upd (s_latest st) j (Some v) |>
      | IDn 0 DT | IDn 0 (DE _) =>
          match sp with MsShare => st1 <| s_att := [] |> | _ => st1 end
      | IUp _ UP => st1 <| s_pulled := true |>
      | IUp s _ => st1 <| s_att := remove_first s (s_att st) |>
      | ISub s _ => st1 <| s_att := s_att st ++ [s] |>
      | _ => st1
      end
  | ECall c =>
      let vs := check_on_call sp st c in
      let acts' := match s_acts st with
                   | a :: rest => (a <| a_calls := c :: a_calls a |>) :: rest
                   | [] => []
                   end in
      let st1 := st <| s_ms := m' |> <| s_acts := acts' |>
                    <| s_dout := match c with CDn 0 (DD v) => v :: s_dout st | _ => s_dout st end |>
                    <| s_pend := match c with CDn 0 (DD _) | CDn 0 DT => None | _ => s_pend st end |> in
      let st2 := add_sv vs st1 in
      add_sv (check_control sp st2) st2
  | ERet => st <| s_ms := m' |>
  | EDone =>
      match s_acts st with
      | a :: rest =>
          let st1 := st <| s_ms := m' |> <| s_acts := rest |> in
          let st2 := add_sv (check_on_close sp st1 a) st1 in
          let st3 := add_sv (check_control sp st2) st2 in
          match cstack m' with
          | [] => add_sv (check_quiet sp st3) st3
          | _ => st3
          end
      | [] => st <| s_ms := m' |>
      end
  | EObs (ONext r) =>
      let vs :=
        match sp with
        | MsFromIter it =>
            flag (sink_live m) 15 4
            ++ flag (option_val_eqb r (it (s_nexts st))) 15 5
            ++ flag (S (s_nexts st) <=? npull m 0) 15 6
        | _ => []
        end in
      add_sv vs (st <| s_ms := m' |> <| s_nexts := S (s_nexts st) |> <| s_pend := Some r |>)
  | EObs _ => st <| s_ms := m' |>
  | EPanic => st <| s_ms := m' |>
  end.

Definition smon_trace (p : mparams) (sp : mspec) (tr : list event) : list sviol :=
  rev (s_sv (fold_left (smon_event p sp) tr ss0)).
