(** * Inv_threads_take: C19 for take(max) fed by any number of threads, over all schedules *)

From CB Require Import Threads ThreadSpec.
From Coq Require Import List Arith Lia Bool.
Import ListNotations.

Set Implicit Arguments.

(** ** counting *)

Lemma count_cons A (f : A -> bool) x l :
  count f (x :: l) = (if f x then 1 else 0) + count f l.
Proof. unfold count. cbn. destruct (f x); reflexivity. Qed.

Lemma count_app A (f : A -> bool) l1 l2 : count f (l1 ++ l2) = count f l1 + count f l2.
Proof. unfold count. rewrite filter_app, app_length. reflexivity. Qed.

Lemma count_rev A (f : A -> bool) l : count f (rev l) = count f l.
Proof.
  induction l as [|x l IH]; [reflexivity|].
  cbn [rev]. rewrite count_app, IH, !count_cons. unfold count at 2. cbn. lia.
Qed.

Lemma existsb_rev A (f : A -> bool) l : existsb f (rev l) = existsb f l.
Proof.
  induction l as [|x l IH]; [reflexivity|].
  cbn [rev]. rewrite existsb_app, IH. cbn. rewrite orb_false_r. apply orb_comm.
Qed.

(** ** reachability over all schedules *)

Inductive tk_reach (max : nat) (qs : nat -> list val) : tk_state -> Prop :=
| tkr0 : tk_reach max qs (tk_init qs)
| tkrS s t : tk_reach max qs s -> tk_reach max qs (tk_step true max s t).

Section TakeProof.
  Variable max : nat.
  Variable qs : nat -> list val.

  Definition pc (s : tk_state) (t : nat) : tk_pc := tk_pcv (tks_th s t).

  (** the pcs of the thread that obtained the last ticket *)
  Definition is_hpc (p : tk_pc) : bool :=
    match p with
    | TkInData t' => Nat.eqb t' max
    | TkAtEndLoad | TkAtEndStore | TkInTerm => true
    | _ => false
    end.

  Definition b2n (b : bool) : nat := if b then 1 else 0.

  Record inv (s : tk_state) : Prop := {
    i_taken : tks_taken s = count is_begin_data (tks_tr s);
    i_le : tks_taken s <= max;
    i_hmax : forall t, is_hpc (pc s t) = true -> tks_taken s = max;
    i_huniq : forall t1 t2, is_hpc (pc s t1) = true -> is_hpc (pc s t2) = true -> t1 = t2;
    i_up : count is_up_term (tks_tr s) = b2n (tks_end s);
    i_bt : count is_begin_term (tks_tr s) = b2n (tks_end s);
    i_stopped : tks_stopped s = tks_end s;
    i_done : 1 <= max -> tks_taken s = max -> tks_end s = true \/ exists t, is_hpc (pc s t) = true;
    i_term : forall t, pc s t = TkInTerm -> tks_end s = true;
    i_store : forall t, pc s t = TkAtEndStore -> tks_end s = false;
    i_noinc : forall t, pc s t <> TkAtInc;
    i_nopanic : existsb is_panic (tks_tr s) = false;
  }.

  Lemma pc_same s t th : pc (tk_set s t th) t = tk_pcv th.
  Proof. unfold pc, tk_set. cbn. now rewrite upd_same. Qed.

  Lemma pc_other s t th t0 : t0 <> t -> pc (tk_set s t th) t0 = pc s t0.
  Proof. intros ne. unfold pc, tk_set. cbn. now rewrite upd_other. Qed.

  Lemma next_pc b th :
    tk_pcv (tk_next b th) = TkFinished \/ tk_pcv (tk_next b th) = TkAtLoad.
  Proof.
    unfold tk_next. destruct (tk_q th) as [|v [|w q]]; cbn; auto. destruct b; cbn; auto.
  Qed.

  Lemma init_pc q :
    tk_pcv (tk_init_thread q) = TkFinished \/ tk_pcv (tk_init_thread q) = TkAtLoad.
  Proof. destruct q; cbn; auto. Qed.

  (** a step of thread [t] that touches no shared cell and emits nothing that is counted *)
  Lemma inv_frame s s' t :
    inv s ->
    tks_taken s' = tks_taken s -> tks_end s' = tks_end s -> tks_stopped s' = tks_stopped s ->
    count is_begin_data (tks_tr s') = count is_begin_data (tks_tr s) ->
    count is_up_term (tks_tr s') = count is_up_term (tks_tr s) ->
    count is_begin_term (tks_tr s') = count is_begin_term (tks_tr s) ->
    existsb is_panic (tks_tr s') = existsb is_panic (tks_tr s) ->
    (forall t0, t0 <> t -> pc s' t0 = pc s t0) ->
    (is_hpc (pc s' t) = true -> is_hpc (pc s t) = true) ->
    (is_hpc (pc s t) = true -> is_hpc (pc s' t) = true \/ tks_end s = true) ->
    (pc s' t = TkInTerm -> tks_end s = true) ->
    (pc s' t = TkAtEndStore -> tks_end s = false) ->
    pc s' t <> TkAtInc ->
    inv s'.
  Proof.
    intros I Ht He Hs Hd Hu Hb Hp Ho Hh1 Hh2 Htm Hst Hni.
    assert (Hh : forall t0, is_hpc (pc s' t0) = true -> is_hpc (pc s t0) = true).
    { intros t0 H. destruct (Nat.eq_dec t0 t) as [->|ne]; [auto|]. now rewrite Ho in H. }
    destruct I. constructor.
    - congruence.
    - lia.
    - intros t0 H. rewrite Ht. eauto.
    - intros t1 t2 H1 H2. eauto.
    - congruence.
    - congruence.
    - congruence.
    - rewrite Ht, He. intros Hpos Hm. destruct (i_done0 Hpos Hm) as [H|[t0 H]]; [auto|].
      destruct (Nat.eq_dec t0 t) as [->|ne].
      + destruct (Hh2 H); eauto.
      + right. exists t0. now rewrite Ho.
    - intros t0 H. rewrite He. destruct (Nat.eq_dec t0 t) as [->|ne]; [auto|].
      rewrite Ho in H by exact ne. eauto.
    - intros t0 H. rewrite He. destruct (Nat.eq_dec t0 t) as [->|ne]; [auto|].
      rewrite Ho in H by exact ne. eauto.
    - intros t0. destruct (Nat.eq_dec t0 t) as [->|ne]; [auto|].
      rewrite Ho by exact ne. eauto.
    - congruence.
  Qed.

  Lemma inv_init : inv (tk_init qs).
  Proof.
    assert (Hn : forall t, is_hpc (pc (tk_init qs) t) = false).
    { intros t. unfold pc. cbn. destruct (init_pc (qs t)) as [-> | ->]; reflexivity. }
    assert (Hp : forall t p, is_hpc p = true -> pc (tk_init qs) t <> p).
    { intros t p H E. rewrite <- E, Hn in H. discriminate. }
    constructor; cbn [tk_init tks_taken tks_end tks_stopped tks_tr]; try reflexivity; try lia.
    - intros t H. rewrite Hn in H. discriminate.
    - intros t1 t2 H. rewrite Hn in H. discriminate.
    - intros t H. exfalso. revert H. now apply Hp.
    - intros t. unfold pc. cbn. destruct (init_pc (qs t)) as [-> | ->]; discriminate.
  Qed.

  Ltac frame I t :=
    apply (@inv_frame _ _ t I);
    [ reflexivity | reflexivity | reflexivity | reflexivity | reflexivity | reflexivity
    | reflexivity
    | let t0 := fresh "t0" in let ne := fresh "ne" in
      intros t0 ne; rewrite pc_other by exact ne; reflexivity
    | rewrite pc_same | rewrite pc_same | rewrite pc_same | rewrite pc_same | rewrite pc_same ].

  Ltac next_cases b th :=
    let E := fresh "E" in destruct (next_pc b th) as [E|E]; rewrite E.

  (** the holder of the last ticket sets the flag, stops the upstream and completes the sink *)
  Lemma inv_end_now s t :
    inv s -> is_hpc (pc s t) = true -> tks_end s = false -> inv (tk_end_now s t (tks_th s t)).
  Proof.
    intros I Hht Ee. unfold tk_end_now.
    set (s' := tk_set _ _ _).
    assert (Ho : forall t0, t0 <> t -> pc s' t0 = pc s t0).
    { intros t0 ne. unfold s'. rewrite pc_other by exact ne. reflexivity. }
    assert (Hs : pc s' t = TkInTerm).
    { unfold s'. rewrite pc_same. reflexivity. }
    assert (Hh : forall t0, is_hpc (pc s' t0) = true -> t0 = t).
    { intros t0 H. destruct (Nat.eq_dec t0 t) as [|ne]; [assumption|].
      rewrite Ho in H by exact ne. exact (i_huniq I _ _ H Hht). }
    destruct I. constructor.
    + change (tks_taken s = count is_begin_data ((t, TBegin DT) :: (t, TUp 0 UT) :: tks_tr s)).
      rewrite !count_cons. cbn -[count]. exact i_taken0.
    + exact i_le0.
    + intros t0 _. exact (i_hmax0 _ Hht).
    + intros t1 t2 H1 H2. apply Hh in H1, H2. congruence.
    + change (count is_up_term ((t, TBegin DT) :: (t, TUp 0 UT) :: tks_tr s) = 1).
      rewrite !count_cons. cbn -[count]. transitivity (S (b2n (tks_end s))); [f_equal; exact i_up0 | now rewrite Ee].
    + change (count is_begin_term ((t, TBegin DT) :: (t, TUp 0 UT) :: tks_tr s) = 1).
      rewrite !count_cons. cbn -[count]. transitivity (S (b2n (tks_end s))); [f_equal; exact i_bt0 | now rewrite Ee].
    + reflexivity.
    + intros _ _. left. reflexivity.
    + intros t0 _. reflexivity.
    + intros t0 H. exfalso. destruct (Nat.eq_dec t0 t) as [->|ne]; [congruence|].
      rewrite Ho in H by exact ne.
      assert (E : is_hpc (pc s t0) = true) by (rewrite H; reflexivity).
      exact (ne (i_huniq0 _ _ E Hht)).
    + intros t0. destruct (Nat.eq_dec t0 t) as [->|ne]; [congruence|].
      rewrite Ho by exact ne. eauto.
    + change (existsb is_panic ((t, TBegin DT) :: (t, TUp 0 UT) :: tks_tr s) = false).
      cbn. assumption.
  Qed.

  Lemma inv_step s t : inv s -> inv (tk_step true max s t).
  Proof.
    intros I. unfold tk_step.
    destruct (tk_pcv (tks_th s t)) eqn:Epc; fold (pc s t) in Epc.
    - (* TkAtLoad *)
      destruct (tk_q (tks_th s t)) as [|v q] eqn:Eq; [exact I|].
      destruct (Nat.ltb_spec (tks_taken s) max) as [Hlt|Hge].
      + (* a ticket is taken and the delivery begins *)
        assert (Hno : forall t0, is_hpc (pc s t0) = false).
        { intros t0. destruct (is_hpc (pc s t0)) eqn:E; [|reflexivity].
          apply (i_hmax I) in E. lia. }
        set (s' := tk_set _ _ _).
        assert (Ho : forall t0, t0 <> t -> pc s' t0 = pc s t0).
        { intros t0 ne. unfold s'. rewrite pc_other by exact ne. reflexivity. }
        assert (Hs : pc s' t = TkInData (S (tks_taken s))).
        { unfold s'. rewrite pc_same. reflexivity. }
        assert (Hh : forall t0, is_hpc (pc s' t0) = true -> t0 = t).
        { intros t0 H. destruct (Nat.eq_dec t0 t) as [|ne]; [assumption|].
          rewrite Ho, Hno in H by exact ne. discriminate. }
        destruct I. constructor.
        * change (S (tks_taken s) = count is_begin_data ((t, TBegin (DD v)) :: tks_tr s)).
          rewrite count_cons. cbn -[count]. f_equal. exact i_taken0.
        * change (S (tks_taken s) <= max). lia.
        * intros t0 H. pose proof (Hh _ H). subst t0. rewrite Hs in H. cbn [is_hpc] in H.
          apply Nat.eqb_eq in H. exact H.
        * intros t1 t2 H1 H2. apply Hh in H1, H2. congruence.
        * change (count is_up_term ((t, TBegin (DD v)) :: tks_tr s) = b2n (tks_end s)).
          rewrite count_cons. cbn -[count]. assumption.
        * change (count is_begin_term ((t, TBegin (DD v)) :: tks_tr s) = b2n (tks_end s)).
          rewrite count_cons. cbn -[count]. assumption.
        * exact i_stopped0.
        * change (1 <= max -> S (tks_taken s) = max -> tks_end s = true \/ exists t0, is_hpc (pc s' t0) = true).
          intros _ Hm. right. exists t. rewrite Hs. cbn [is_hpc]. now apply Nat.eqb_eq.
        * change (forall t0, pc s' t0 = TkInTerm -> tks_end s = true).
          intros t0 H. destruct (Nat.eq_dec t0 t) as [->|ne]; [congruence|].
          rewrite Ho in H by exact ne. eauto.
        * change (forall t0, pc s' t0 = TkAtEndStore -> tks_end s = false).
          intros t0 H. destruct (Nat.eq_dec t0 t) as [->|ne]; [congruence|].
          rewrite Ho in H by exact ne. eauto.
        * intros t0. destruct (Nat.eq_dec t0 t) as [->|ne]; [congruence|].
          rewrite Ho by exact ne. eauto.
        * change (existsb is_panic ((t, TBegin (DD v)) :: tks_tr s) = false).
          cbn. assumption.
      + (* take is full: the datum is dropped *)
        frame I t; rewrite ?Epc; next_cases (tks_stopped s) (tks_th s t); cbn; auto; discriminate.
    - (* TkAtInc: not reachable in the repaired code *)
      exfalso. exact (i_noinc I _ Epc).
    - (* TkInData t' *)
      destruct (Nat.eqb_spec t' max) as [->|Hne].
      + frame I t; rewrite ?Epc; cbn; auto; try discriminate.
        now rewrite Nat.eqb_refl.
      + frame I t; rewrite ?Epc; next_cases (tks_stopped s) (tks_th s t); cbn; auto; try discriminate.
        all: apply Nat.eqb_neq in Hne; rewrite Hne; discriminate.
    - (* TkAtEndLoad: [end.swap(true)] - whoever finds the flag unset completes the sink *)
      destruct (tks_end s) eqn:Ee.
      + frame I t; rewrite ?Epc; next_cases (tks_stopped s) (tks_th s t); cbn; auto; discriminate.
      + apply inv_end_now; [exact I | rewrite Epc; reflexivity | exact Ee].
    - (* TkAtEndStore: not reachable in the repaired code, same effect *)
      apply inv_end_now; [exact I | rewrite Epc; reflexivity | exact (i_store I _ Epc)].
    - (* TkInTerm *)
      pose proof (i_term I _ Epc) as Ee.
      frame I t; rewrite ?Epc; next_cases true (tks_th s t); cbn; auto; discriminate.
    - exact I.
  Qed.

  Lemma inv_reach s : tk_reach max qs s -> inv s.
  Proof. induction 1; [apply inv_init | now apply inv_step]. Qed.

  (** *** C19, safety: never more than [max] data, never two upstream terminations,
      never two completions -- in every reachable state, for every [max] *)
  Theorem take_threads_safe s :
    tk_reach max qs s ->
    count is_begin_data (tks_tr s) <= max
    /\ count is_up_term (tks_tr s) <= 1
    /\ count is_begin_term (tks_tr s) <= 1.
  Proof.
    intros R. destruct (inv_reach R). rewrite <- i_taken0, i_up0, i_bt0.
    destruct (tks_end s); cbn; lia.
  Qed.

  Theorem take_threads_no_panic s :
    tk_reach max qs s -> existsb is_panic (tks_tr s) = false.
  Proof. intros R. exact (i_nopanic (inv_reach R)). Qed.

  (** *** C19, completion: once every thread has returned and [max] data were delivered,
      the upstream was terminated and the sink completed, exactly once each *)
  Theorem take_threads_complete s :
    1 <= max ->
    tk_reach max qs s ->
    (forall t, tk_finished s t = true) ->
    max <= count is_begin_data (tks_tr s) ->
    count is_up_term (tks_tr s) = 1 /\ count is_begin_term (tks_tr s) = 1.
  Proof.
    intros Hpos R Hfin Hmax. destruct (inv_reach R).
    rewrite i_up0, i_bt0. rewrite <- i_taken0 in Hmax.
    assert (Hm : tks_taken s = max) by lia.
    destruct (i_done0 Hpos Hm) as [-> | [t H]]; [split; reflexivity|].
    exfalso. specialize (Hfin t). unfold tk_finished in Hfin. unfold pc in H.
    destruct (tk_pcv (tks_th s t)); discriminate.
  Qed.

  Corollary take_threads_check s :
    1 <= max ->
    tk_reach max qs s ->
    (forall t, tk_finished s t = true) ->
    take_check max (rev (tks_tr s)) = [].
  Proof.
    intros Hpos R Hfin. unfold take_check.
    rewrite !count_rev, existsb_rev, (take_threads_no_panic R).
    destruct (take_threads_safe R) as (H1 & H2 & H3).
    rewrite (proj2 (Nat.leb_le _ _) H1), (proj2 (Nat.leb_le _ _) H2),
      (proj2 (Nat.leb_le _ _) H3).
    destruct (Nat.leb_spec max (count is_begin_data (tks_tr s))) as [Hle|Hlt]; [|reflexivity].
    destruct (take_threads_complete Hpos R Hfin Hle) as [-> ->]. reflexivity.
  Qed.

  (** *** what the driver executes is a reachable state *)
  Lemma run_sched_reach sch : forall s,
    tk_reach max qs s -> tk_reach max qs (run_sched (tk_step true max) tk_finished sch s).
  Proof.
    induction sch as [|t sch IH]; intros s R; [exact R|].
    cbn [run_sched]. apply IH. destruct (tk_finished s t); [exact R | now constructor].
  Qed.

  Lemma drain_threads_reach n fuel : forall s,
    tk_reach max qs s -> tk_reach max qs (drain_threads (tk_step true max) tk_finished n fuel s).
  Proof.
    induction fuel as [|f IH]; intros s R; [exact R|].
    cbn [drain_threads]. destruct (first_unfinished tk_finished n s); [|exact R].
    apply IH. now constructor.
  Qed.

  Lemma run_full_reach n sch fuel s :
    tk_reach max qs s -> tk_reach max qs (run_full (tk_step true max) tk_finished n sch fuel s).
  Proof. intros R. unfold run_full. now apply drain_threads_reach, run_sched_reach. Qed.

  (** the statements, for the runs of the driver from the initial state *)
  Corollary run_full_safe n sch fuel :
    let s := run_full (tk_step true max) tk_finished n sch fuel (tk_init qs) in
    count is_begin_data (tks_tr s) <= max
    /\ count is_up_term (tks_tr s) <= 1
    /\ count is_begin_term (tks_tr s) <= 1.
  Proof. apply take_threads_safe, run_full_reach. constructor. Qed.

  Corollary run_full_check n sch fuel :
    1 <= max ->
    let s := run_full (tk_step true max) tk_finished n sch fuel (tk_init qs) in
    (forall t, tk_finished s t = true) ->
    take_check max (rev (tks_tr s)) = [].
  Proof. intros Hpos s. apply take_threads_check; [exact Hpos|]. apply run_full_reach. constructor. Qed.

  (** threads beyond the [n] the driver runs have empty queues and never start;
      "all of the first [n] finished" is what the driver's drain loop establishes *)
  Lemma tk_step_other s t t0 : t0 <> t -> tks_th (tk_step true max s t) t0 = tks_th s t0.
  Proof.
    intros ne. unfold tk_step.
    destruct (tk_pcv (tks_th s t)); destruct (tk_q (tks_th s t));
      try destruct (tks_taken s <? max); try destruct (_ =? max); try destruct (tks_end s);
      try reflexivity; unfold tk_set; cbn; now rewrite upd_other.
  Qed.

  Lemma empty_queue_finished s t :
    tk_reach max qs s -> qs t = [] -> tk_finished s t = true.
  Proof.
    intros R Hq. induction R as [|s t0 R IH].
    - unfold tk_finished. cbn. now rewrite Hq.
    - destruct (Nat.eq_dec t t0) as [->|ne].
      + assert (E : tk_step true max s t0 = s); [|now rewrite E].
        unfold tk_finished in IH. unfold tk_step.
        destruct (tk_pcv (tks_th s t0)); try discriminate.
        destruct (tk_q (tks_th s t0)); reflexivity.
      + unfold tk_finished in *. now rewrite tk_step_other.
  Qed.

  Lemma first_unfinished_none (s : tk_state) n :
    first_unfinished tk_finished n s = None -> forall t, t < n -> tk_finished s t = true.
  Proof.
    induction n as [|n IH]; intros H t Ht; [lia|].
    cbn [first_unfinished] in H.
    destruct (first_unfinished tk_finished n s); [discriminate|].
    destruct (tk_finished s n) eqn:E; [|discriminate].
    destruct (Nat.eq_dec t n) as [->|ne]; [exact E|]. apply IH; [reflexivity|lia].
  Qed.

  Corollary run_full_check_n n sch fuel :
    1 <= max ->
    (forall t, n <= t -> qs t = []) ->
    let s := run_full (tk_step true max) tk_finished n sch fuel (tk_init qs) in
    first_unfinished tk_finished n s = None ->
    take_check max (rev (tks_tr s)) = [].
  Proof.
    intros Hpos Hq s Hnone.
    assert (R : tk_reach max qs s) by (apply run_full_reach; constructor).
    apply take_threads_check; [exact Hpos | exact R |].
    intros t. destruct (Nat.lt_ge_cases t n) as [Hlt|Hge].
    - now apply (first_unfinished_none _ Hnone).
    - apply (empty_queue_finished R). now apply Hq.
  Qed.

End TakeProof.

Print Assumptions take_threads_safe.
Print Assumptions take_threads_no_panic.
Print Assumptions take_threads_complete.
Print Assumptions take_threads_check.
Print Assumptions run_sched_reach.
Print Assumptions drain_threads_reach.
Print Assumptions run_full_reach.
Print Assumptions run_full_safe.
Print Assumptions run_full_check.
Print Assumptions run_full_check_n.

(** ** the unrepaired code (load, then fetch_add) over-delivers: two threads, one item each *)

Definition unfixed_qs (t : nat) : list val :=
  match t with 0 => [VN 10] | 1 => [VN 20] | _ => [] end.
Definition unfixed_sch : list nat := [0;1;0;0;0;0;0;1;1].

Lemma take_threads_unfixed_run :
  let s := run_full (tk_step false 1) tk_finished 2 unfixed_sch 50 (tk_init unfixed_qs) in
  rev (tks_tr s) =
    [(0, TBegin (DD (VN 10))); (0, TEnd); (0, TUp 0 UT); (0, TBegin DT); (0, TEnd);
     (1, TBegin (DD (VN 20))); (1, TEnd)]
  /\ count is_begin_data (tks_tr s) = 2
  /\ tk_finished s 0 = true /\ tk_finished s 1 = true
  /\ take_check 1 (rev (tks_tr s)) = [TvOverDeliver].
Proof. vm_compute. repeat split; reflexivity. Qed.

Lemma take_threads_unfixed_refuted :
  exists qs sch,
    let s := run_full (tk_step false 1) tk_finished 2 sch 50 (tk_init qs) in
    count is_begin_data (tks_tr s) = 2 /\ ~ count is_begin_data (tks_tr s) <= 1.
Proof.
  exists unfixed_qs, unfixed_sch. vm_compute. split; [reflexivity|]. intros H.
  apply le_S_n in H. inversion H.
Qed.

Print Assumptions take_threads_unfixed_run.
Print Assumptions take_threads_unfixed_refuted.

(** [1 <= max] is needed for the completion statements: with [max = 0] this model never
    completes the sink (no thread ever obtains "the last ticket") *)
Lemma take_threads_complete_needs_pos :
  let s := tk_init (fun _ => []) in
  tk_reach 0 (fun _ => []) s /\ (forall t, tk_finished s t = true)
  /\ 0 <= count is_begin_data (tks_tr s) /\ count is_up_term (tks_tr s) = 0
  /\ take_check 0 (rev (tks_tr s)) = [TvNotCompleted].
Proof. cbn. repeat split; constructor. Qed.

Print Assumptions take_threads_complete_needs_pos.
