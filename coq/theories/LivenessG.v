(** * Liveness: a pull pipeline runs to completion, and computes its list function on the whole input.

    [pipeline_for_each] (Programs.v) is the safety half of C06: whenever the net
    from_iter -> stages -> for_each is at rest, the closure has been called on the list function of
    what from_iter has delivered so far.  This file proves the other half for the same nets: once
    for_each is applied, the net comes to rest after finitely many internal transfers (no environment
    move is needed or possible), for_each has then seen the end of the stream, and the closure has
    been called on the list function of the WHOLE input - "and then completes without stalling".

    The argument is a counting one, over the message counts of Flow.v.
    - Demand is never invented: at every node the Pulls sent up are bounded by the greetings and data
      received ([pulls_bounded]), by induction from for_each downward; so every node makes a bounded
      number of calls, every step of the net is a call delivered or a call returned, and the run is
      finite ([terminates]).
    - Demand is never lost: at rest, if every link were still live, for_each's one outstanding Pull
      would be outstanding at every link down to from_iter ([live_chain]), but from_iter at rest
      has served every Pull it received ([rf_served]) - under the discipline "one Pull per message"
      that the pipeline provably maintains towards it ([src_one_pull]).  So at rest some link is over,
      hence (status coupling of the stages at rest) for_each has seen the end.
    - The end came from from_iter's exhaustion or from a take whose quota was filled; in both cases
      the list function of the delivered prefix equals that of the whole input ([full_at]). *)

From CB Require Import ProofLib Spec Chain Programs Flow FlowLists Wire2 FlowGeneric.
From CB Require Import Flow_relay Flow_drop Flow_take Flow_ends Flow_take_bound.
From CB Require Inv_from_iter Inv_for_each.

Set Implicit Arguments.

(** ** Small list facts *)

Lemma list_sum_cons a l : list_sum (a :: l) = a + list_sum l.
Proof. reflexivity. Qed.

Lemma list_sum_bound A (f : A -> nat) (l : list A) B :
  (forall x, In x l -> f x <= B) -> list_sum (map f l) <= length l * B.
Proof.
  induction l as [|x l IH]; intros H; cbn [map length]; [apply Nat.le_0_l|].
  specialize (IH (fun y Hy => H y (or_intror Hy))). specialize (H x (or_introl eq_refl)).
  rewrite list_sum_cons, Nat.mul_succ_l, Nat.add_comm. now apply Nat.add_le_mono.
Qed.

Lemma list_sum_set_nth A (f : A -> nat) i x y (l : list A) :
  nth_error l i = Some y ->
  list_sum (map f (set_nth i x l)) + f y = list_sum (map f l) + f x.
Proof.
  revert i. induction l as [|z l IH]; intros [|i] H; cbn [nth_error] in H; try discriminate;
    cbn [set_nth map]; rewrite !list_sum_cons.
  - inversion H; subst. lia.
  - specialize (IH i H). lia.
Qed.

Lemma list_sum_le A (f g : A -> nat) (l : list A) :
  (forall x, In x l -> f x <= g x) -> list_sum (map f l) <= list_sum (map g l).
Proof.
  induction l as [|x l IH]; intros H; cbn [map]; [apply Nat.le_refl|].
  specialize (IH (fun y Hy => H y (or_intror Hy))). specialize (H x (or_introl eq_refl)).
  rewrite !list_sum_cons. lia.
Qed.

Lemma nth_error_app_len A (l : list A) x r : nth_error (l ++ x :: r) (length l) = Some x.
Proof. induction l as [|y l IH]; cbn; auto. Qed.

(** ** The pipeline and its closed runs *)

Section Pipe.
  Variable it : nat -> option val.
  Variable stages : list ustage.
  Hypothesis Hok : Forall ustage_ok stages.

  Definition sigs : list sigT3 := pipe_sigs it stages true.
  Definition NP : net := pipe_net it stages true.
  Definition last : nat := S (length stages).
  Definition kick : nmove := NEnv last (MIn (ISub 0 0)).

  Lemma Hsig : map nsig (map mk0 sigs) = sigs.
  Proof.
    rewrite map_map. rewrite <- (map_id sigs) at 2. apply map_ext. apply nsig_mk0.
  Qed.

  Lemma Hini : forall m, In m (map mk0 sigs) -> ninit m.
  Proof. intros m Hm. apply in_map_iff in Hm. destruct Hm as (s & <- & _). apply ninit_mk0. Qed.

  Definition Hsafe := @pipe_safe it stages true Hok.
  Definition Hreg := @pipe_regime it stages true.

  Lemma sigs_length : length sigs = S (S (length stages)).
  Proof. unfold sigs, pipe_sigs. cbn. rewrite app_length, map_length. cbn. lia. Qed.

  Lemma sigs_last : nth_error sigs last = Some sig_sink.
  Proof.
    unfold sigs, pipe_sigs, last. cbn [nth_error].
    replace (length stages) with (length (map sig_stage stages)) by apply map_length.
    apply nth_error_app_len.
  Qed.

  Lemma sigs_stage i s : nth_error stages i = Some s -> nth_error sigs (S i) = Some (sig_stage s).
  Proof.
    intros H. unfold sigs, pipe_sigs. cbn [nth_error].
    rewrite nth_error_app1 by (rewrite map_length; eapply nth_error_lt; eauto).
    now apply map_nth_error.
  Qed.

  (** the net after for_each has been applied, and then only internal transfers while there is one *)
  Inductive crun : net -> Prop :=
  | crun0 : crun (net_step NP kick)
  | crunS N : crun N -> pend N <> PIdle -> crun (net_step N NTau).

  Lemma kick_enabled : net_enabled NP kick = true.
  Proof.
    unfold net_enabled, NP, pipe_net, net0, kick. cbn [pend nodes gst].
    fold sigs. rewrite (map_nth_error mk0 _ _ sigs_last).
    rewrite map_length, sigs_length. unfold last.
    unfold ext_input_ok. rewrite Nat.eqb_refl. reflexivity.
  Qed.

  Lemma tau_enabled N : pend N <> PIdle -> net_enabled N NTau = true.
  Proof. unfold net_enabled. destruct (pend N); [congruence|reflexivity|reflexivity]. Qed.

  Lemma crun_reach N : crun N -> net_reach NP N.
  Proof.
    induction 1 as [|N Hc IH Hp].
    - apply nreachS; [apply nreach0 | apply kick_enabled].
    - apply nreachS; [exact IH | now apply tau_enabled].
  Qed.

  (** *** What the composition theorems say about a reachable net *)

  Lemma r_inv N : net_reach NP N -> Inv sigs N.
  Proof. intros Hr. exact (chain_inv Hsafe Hreg Hsig Hini Hr). Qed.

  Lemma r_wire N : net_reach NP N -> wire2_ok (nodes N) (pend N).
  Proof. intros Hr. exact (chain_wire2 Hsafe Hreg Hsig Hini Hr). Qed.

  Lemma r_nodes_sig N : net_reach NP N -> map nsig (nodes N) = sigs.
  Proof. intros Hr. destruct (r_inv Hr) as ([H _] & _). exact H. Qed.

  Lemma r_len N : net_reach NP N -> length (nodes N) = S (S (length stages)).
  Proof. intros Hr. rewrite <- sigs_length, <- (r_nodes_sig Hr). now rewrite map_length. Qed.

  Lemma r_nth_sig N i n :
    net_reach NP N -> nth_error (nodes N) i = Some n -> nth_error sigs i = Some (nsig n).
  Proof. intros Hr Hn. rewrite <- (r_nodes_sig Hr). now apply map_nth_error. Qed.

  Lemma r_reach N i n : net_reach NP N -> nth_error (nodes N) i = Some n -> nreach n.
  Proof. intros Hr Hn. destruct (r_inv Hr) as ([_ H] & _). now destruct (H i n Hn). Qed.

  (** which component sits where *)
  Inductive kind_at (i : nat) (n : node) : Prop :=
  | K_src : i = 0 -> nsig n = sig_src it -> kind_at i n
  | K_stage s : nth_error stages (pred i) = Some s -> 1 <= i <= length stages ->
                nsig n = sig_stage s -> kind_at i n
  | K_sink : i = last -> nsig n = sig_sink -> kind_at i n.

  Lemma r_kind N i n : net_reach NP N -> nth_error (nodes N) i = Some n -> kind_at i n.
  Proof.
    intros Hr Hn. pose proof (r_nth_sig i Hr Hn) as Hs.
    unfold sigs, pipe_sigs in Hs. destruct i as [|i].
    - cbn in Hs. inversion Hs. apply K_src; [reflexivity | congruence].
    - cbn [nth_error] in Hs.
      destruct (Nat.lt_ge_cases i (length stages)) as [Hlt|Hge].
      + rewrite nth_error_app1 in Hs by now rewrite map_length.
        destruct (nth_error stages i) as [s|] eqn:Es.
        2: { apply nth_error_None in Es. lia. }
        rewrite (map_nth_error sig_stage _ _ Es) in Hs. inversion Hs.
        apply K_stage with s; [exact Es | lia | congruence].
      + rewrite nth_error_app2 in Hs by now rewrite map_length.
        rewrite map_length in Hs.
        destruct (i - length stages) as [|d] eqn:Ed.
        * cbn in Hs. inversion Hs. apply K_sink; [unfold last; lia | congruence].
        * cbn in Hs. destruct d; discriminate.
  Qed.

  (** *** Concrete configurations behind the nodes *)

  Lemma node_src n : nsig n = sig_src it ->
    exists c : cfg (from_iter_op it), n = mk_node p_src g_std c.
  Proof.
    destruct n as [o p g c]. unfold nsig, sig_src. cbn [nop npar ngrd].
    intros E. inversion E; subst o p g. now exists c.
  Qed.

  Lemma node_stage n s : nsig n = sig_stage s ->
    exists c : cfg (ustage_op s), n = mk_node p_mid g_std c.
  Proof.
    destruct n as [o p g c]. unfold nsig, sig_stage. cbn [nop npar ngrd].
    intros E. inversion E; subst o p g. now exists c.
  Qed.

  Lemma node_sink n : nsig n = sig_sink ->
    exists c : cfg for_each_op, n = mk_node p_mid g_std c.
  Proof.
    destruct n as [o p g c]. unfold nsig, sig_sink. cbn [nop npar ngrd].
    intros E. inversion E; subst o p g. now exists c.
  Qed.

  Definition bound_of (s : ustage) : option nat :=
    match s with UTake k => Some k | _ => None end.

  Lemma stage_flow_of s : ustage_ok s -> stage_flow (ustage_op s) p_mid (bound_of s).
  Proof.
    destruct s as [f|cd|r seed|k|k]; cbn; intros H.
    - now apply map_stage_flow.
    - now apply filter_stage_flow.
    - now apply scan_stage_flow.
    - now apply take_stage_flow.
    - now apply skip_stage_flow.
  Qed.

  Lemma stage_ok_at i s : nth_error stages i = Some s -> ustage_ok s.
  Proof. intros H. rewrite Forall_forall in Hok. apply Hok. exact (nth_error_In _ _ H). Qed.


  (** *** Facts about one node of a reachable net *)

  Lemma calls_sat_impl (P Q : call -> Prop) o :
    (forall c, P c -> Q c) -> calls_sat P o -> calls_sat Q o.
  Proof. intros H [A B]. split; intros; apply H; eauto. Qed.

  Section Node.
    Variable N : net.
    Hypothesis Hr : net_reach NP N.
    Variable i : nat.
    Variable n : node.
    Hypothesis Hn : nth_error (nodes N) i = Some n.

    Definition n_facts := node_facts Hsafe Hreg (nodes N) i (r_nodes_sig Hr) Hn.
    Definition n_reach : nreach n := r_reach i Hr Hn.

    Lemma n_hout_le : hout (ntrace n) <= 1.
    Proof.
      destruct n_facts as (Hs & _ & Hres & _ & _ & _ & Hg). exact (greet_once Hs Hg Hres n_reach).
    Qed.

    Lemma n_dn_len : length (dn_out (ntrace n)) <= dout (ntrace n) + 2.
    Proof.
      destruct n_facts as (Hs & _ & Hres & _ & _ & _ & Hg). exact (dn_out_len Hs Hg Hres n_reach).
    Qed.

    Lemma n_up_len : length (up_out (ntrace n)) <= pout (ntrace n) + 2.
    Proof.
      destruct n_facts as (Hs & _ & Hres & _ & _ & _ & Hg). exact (up_out_len Hs Hg Hres n_reach).
    Qed.

    Lemma n_greeted : sk (nms n) 0 <> SNone -> hout (ntrace n) = 1.
    Proof.
      destruct n_facts as (Hs & _ & Hres & _ & _ & _ & Hg). exact (greeted_hout Hs Hg Hres n_reach).
    Qed.

    Lemma n_ret_call : n_ret (ntrace n) + length (stack (ncfg n)) = n_call (ntrace n).
    Proof. exact (ret_le_call n_reach). Qed.

    Lemma n_cstack : cstack (nms n) = map snd (stack (ncfg n)).
    Proof. exact (reach_cstack n_reach). Qed.
  End Node.

  (** the flow facts of Flow_*.v, transported to nodes *)
  Lemma ns_flow n s :
    nsig n = sig_stage s -> ustage_ok s -> nreach n ->
    pout (ntrace n) + dout (ntrace n) <= pin (ntrace n) + din (ntrace n) /\
    hout (ntrace n) <= hin (ntrace n) /\
    (stack (ncfg n) = [] -> sk (nms n) 0 = SLive ->
       pout (ntrace n) + dout (ntrace n) = pin (ntrace n) + din (ntrace n) /\ us (nms n) 0 = ULive) /\
    (stack (ncfg n) = [] -> subd (nms n) 0 = true -> sk (nms n) 0 = SNone -> us (nms n) 0 = USubd) /\
    (stack (ncfg n) = [] -> sk (nms n) 0 = SFinished ->
       us (nms n) 0 = UEnded \/ exists k, bound_of s = Some k /\ dout (ntrace n) = k) /\
    calls_sat port0 (nop n).
  Proof.
    intros E Hs Hre. destruct (node_stage E) as [c ->].
    pose proof (stage_flow_of s Hs) as F. unfold nreach, ntrace, nms in *. cbn [nop npar ngrd ncfg] in *.
    split; [exact (sf_demand_le F Hre)|]. split; [exact (sf_greet F Hre)|].
    split; [intros H1 H2; split; [exact (sf_demand_eq F Hre H1 H2) | exact (sf_live F Hre H1 H2)]|].
    split; [exact (sf_wait F Hre)|]. split; [exact (sf_fin F Hre)|]. exact (sf_calls F).
  Qed.

  Definition sink_flow_mid : sink_flow for_each_op p_mid :=
    for_each_sink_flow p_mid eq_refl eq_refl eq_refl eq_refl.

  Lemma nk_flow n :
    nsig n = sig_sink -> nreach n ->
    pout (ntrace n) = hin (ntrace n) + din (ntrace n) /\
    us (nms n) 0 <> UStopped /\ (subd (nms n) 0 = true -> us (nms n) 0 <> UNone) /\
    dn_out (ntrace n) = [] /\ calls_sat only_up (nop n).
  Proof.
    intros E Hre. destruct (node_sink E) as [c ->].
    unfold nreach, ntrace, nms in *. cbn [nop npar ngrd ncfg] in *.
    split; [exact (kf_pulls sink_flow_mid Hre)|]. split; [exact (kf_nostop sink_flow_mid Hre)|].
    split; [exact (kf_subd sink_flow_mid Hre)|].
    split; [exact (no_dn (kf_calls sink_flow_mid) Hre) | exact (kf_calls sink_flow_mid)].
  Qed.

  (** from_iter in the regime where its sink sends one Pull per message *)
  Definition p_src1 : mparams :=
    {| nsinks := 1; late_ok := true; pullable := false; one_pull := true; resub := false;
       no_nest := true; c14 := false |}.
  Definition source_flow1 : source_flow (from_iter_op it) p_src1 :=
    from_iter_source_flow it p_src1 eq_refl eq_refl eq_refl eq_refl eq_refl.

  Lemma nr_flow n :
    nsig n = sig_src it -> nreach n ->
    up_out (ntrace n) = [] /\ calls_sat only_dn (nop n).
  Proof.
    intros E Hre. destruct (node_src E) as [c ->].
    unfold nreach, ntrace, nms in *. cbn [nop npar ngrd ncfg] in *.
    split; [exact (no_up (rf_calls source_flow1) Hre) | exact (rf_calls source_flow1)].
  Qed.

  Lemma n_calls_port0 N i n :
    net_reach NP N -> nth_error (nodes N) i = Some n ->
    n_call (ntrace n) = length (up_out (ntrace n)) + length (dn_out (ntrace n)).
  Proof.
    intros Hr Hn. pose proof (r_reach i Hr Hn) as Hre.
    assert (Hc : calls_sat port0 (nop n)).
    { destruct (r_kind i Hr Hn) as [_ E|s Hs _ E|_ E].
      - destruct (nr_flow E Hre) as (_ & H).
        apply (calls_sat_impl (P := only_dn)); [|exact H]. intros c Hc. right. right. exact Hc.
      - destruct (ns_flow E (stage_ok_at _ Hs) Hre) as (_ & _ & _ & _ & _ & H). exact H.
      - destruct (nk_flow E Hre) as (_ & _ & _ & _ & H).
        apply (calls_sat_impl (P := only_up)); [|exact H].
        intros c [Hc|Hc]; [left; exact Hc | right; left; exact Hc]. }
    exact (calls_port0 Hc Hre).
  Qed.

  (** *** Nothing is invented: bounds on what crosses each link *)

  Lemma upstream_exists N i n :
    net_reach NP N -> nth_error (nodes N) (S i) = Some n -> exists U, nth_error (nodes N) i = Some U.
  Proof.
    intros Hr Hn. apply nth_error_lt in Hn.
    destruct (nth_error (nodes N) i) as [U|] eqn:E; [now exists U|].
    apply nth_error_None in E. lia.
  Qed.

  Lemma downstream_exists N i :
    net_reach NP N -> i < last -> exists D, nth_error (nodes N) (S i) = Some D.
  Proof.
    intros Hr Hi. destruct (nth_error (nodes N) (S i)) as [D|] eqn:E; [now exists D|].
    apply nth_error_None in E. rewrite (r_len Hr) in E. unfold last in Hi. lia.
  Qed.

  Definition r_counts N i U D (Hr : net_reach NP N) :=
    @chain_wire2_counts sigs Hsafe Hreg _ N i U D Hsig Hini Hr.
  Definition r_idle N i U D (Hr : net_reach NP N) :=
    @chain_wire2_idle sigs Hsafe Hreg _ N i U D Hsig Hini Hr.

  (** demand is never invented: by induction from for_each downward *)
  Lemma pulls_bounded N : net_reach NP N ->
    forall d i n, i + d = last -> 1 <= i -> nth_error (nodes N) i = Some n ->
      pout (ntrace n) <= hin (ntrace n) + din (ntrace n).
  Proof.
    intros Hr. induction d as [|d IH]; intros i n Hid Hi Hn; pose proof (r_reach _ Hr Hn) as Hre.
    - destruct (r_kind i Hr Hn) as [H0 _|s _ Hs _|_ E]; [lia|unfold last in Hid; lia|].
      destruct (nk_flow E Hre) as (H & _). lia.
    - destruct (r_kind i Hr Hn) as [H0 _|s Hs _ E|Hl _]; [lia| |lia].
      destruct (@downstream_exists N i Hr ltac:(lia)) as [D HD].
      specialize (IH (S i) D ltac:(lia) ltac:(lia) HD).
      destruct (r_counts i Hr Hn HD) as (H1 & H2 & H3).
      destruct (ns_flow E (stage_ok_at _ Hs) Hre) as (H4 & H5 & _). lia.
  Qed.

  (** *** Every step is a call delivered or a call returned, so the run is finite *)

  Definition tot (f : list event -> nat) (N : net) : nat :=
    list_sum (map (fun n => f (ntrace n)) (nodes N)).
  Definition pto (N : net) : nat := match pend N with PTo _ _ => 1 | _ => 0 end.
  Definition call_last (n : node) : nat := match nlast n with Some (ECall _) => 1 | _ => 0 end.

  Lemma after_step_nodes N x n' : nodes (after_step N x n') = set_nth x n' (nodes N).
  Proof.
    unfold after_step. destruct (nlast n') as [[i|c| | |ob|]|]; try reflexivity.
    - destruct (route _ _ _); reflexivity.
    - destruct (gst N) as [|[j [| |]] G]; reflexivity.
  Qed.

  Lemma after_step_pto N x n' : pto (after_step N x n') <= call_last n'.
  Proof.
    unfold after_step, pto, call_last. destruct (nlast n') as [[i|c| | |ob|]|]; cbn; try lia.
    - destruct (route _ _ _); cbn; lia.
    - destruct (gst N) as [|[j [| |]] G]; cbn; lia.
  Qed.

  Lemma step_counts (N1 : net) x n m :
    nth_error (nodes N1) x = Some n -> nenabled n m = true ->
    let N' := after_step N1 x (nstep n m) in
    tot n_in N' = tot n_in N1 + (match m with MIn _ => 1 | MRet => 0 end) /\
    tot n_ret N' = tot n_ret N1 + (match m with MIn _ => 0 | MRet => 1 end) /\
    tot n_call N' = tot n_call N1 + call_last (nstep n m) /\
    pto N' <= call_last (nstep n m).
  Proof.
    intros Hn He N'. unfold nenabled in He.
    destruct (moves_step (npar n) (ngrd n) (ncfg n) m He) as (H1 & H2 & H3).
    change (trace (step (npar n) (ncfg n) m)) with (ntrace (nstep n m)) in *.
    change (trace (ncfg n)) with (ntrace n) in *.
    change (hd_error (rtrace (step (npar n) (ncfg n) m))) with (nlast (nstep n m)) in *.
    fold (call_last (nstep n m)) in H2.
    unfold tot, N'. rewrite !after_step_nodes.
    pose proof (list_sum_set_nth (fun k => n_in (ntrace k)) x (nstep n m) _ Hn) as A1.
    pose proof (list_sum_set_nth (fun k => n_ret (ntrace k)) x (nstep n m) _ Hn) as A2.
    pose proof (list_sum_set_nth (fun k => n_call (ntrace k)) x (nstep n m) _ Hn) as A3.
    cbn beta in *.
    pose proof (after_step_pto N1 x (nstep n m)) as A4.
    destruct m as [inp|]; repeat split; try exact A4; lia.
  Qed.

  (** the pending transfer of a reachable net can always happen: which node moves, and how *)
  Lemma tau_shape N : net_reach NP N -> pend N <> PIdle ->
    exists x n m N1, nth_error (nodes N) x = Some n /\ nenabled n m = true /\
      nodes N1 = nodes N /\ net_step N NTau = after_step N1 x (nstep n m) /\
      pto N = (match m with MIn _ => 1 | MRet => 0 end) /\
      match pend N with
      | PTo t inp => x = t /\ m = MIn inp
      | PRet j => x = j /\ m = MRet
      | PIdle => False
      end.
  Proof.
    intros Hr Hp. destruct (r_inv Hr) as (Hnodes & Hst & Hwf & Hpend & Hlk).
    destruct N as [ns G pd]. cbn [nodes gst pend] in *. unfold net_step, pto. cbn [nodes gst pend].
    destruct pd as [|t inp|j]; [congruence| |].
    - destruct Hpend as [_ (n & Hn & Hen)]. rewrite Hn.
      exists t, n, (MIn inp), (mk_net ns G (PTo t inp)). repeat split; auto.
    - destruct Hpend as (k & Hhd & Hk).
      destruct G as [|e G']; [discriminate|]. cbn in Hhd. inversion Hhd; subst e.
      assert (Hj : j < length ns).
      { destruct Hwf as (Hko & _). destruct k; cbn in Hko; lia. }
      destruct (nth_error ns j) as [n|] eqn:Hn.
      2: { apply nth_error_None in Hn. lia. }
      pose proof (ret_enabled Hsafe Hreg Hnodes Hst Hk Hn) as Hen.
      exists j, n, MRet, (mk_net ns G' PIdle). repeat split; auto.
  Qed.

  Lemma tau_counts N : net_reach NP N -> pend N <> PIdle ->
    let N' := net_step N NTau in
    tot n_in N' + tot n_ret N' = S (tot n_in N + tot n_ret N) /\
    tot n_in N' + pto N' + tot n_call N <= tot n_in N + pto N + tot n_call N'.
  Proof.
    intros Hr Hp N'.
    destruct (tau_shape Hr Hp) as (x & n & m & N1 & Hn & He & Hnodes & Hstep & Hpto & _).
    unfold N'. rewrite Hstep. rewrite <- Hnodes in Hn.
    destruct (step_counts N1 x m Hn He) as (A1 & A2 & A3 & A4).
    assert (E : forall f, tot f N1 = tot f N) by (intros f; unfold tot; now rewrite Hnodes).
    rewrite !E in *. destruct m; lia.
  Qed.

  Lemma tot_NP f : f [] = 0 -> tot f NP = 0.
  Proof.
    intros Hf. unfold tot, NP, pipe_net, net0. cbn [nodes]. fold sigs.
    induction sigs as [|[[o p] g] l IH]; cbn; [reflexivity|].
    unfold ntrace, trace. cbn. rewrite Hf. exact IH.
  Qed.

  Lemma kick_counts :
    let N' := net_step NP kick in
    tot n_in N' + tot n_ret N' = 1 /\ tot n_in N' + pto N' <= 1 + tot n_call N'.
  Proof.
    intros N'. pose proof kick_enabled as He.
    unfold net_enabled, NP, pipe_net, net0, kick in He. cbn [pend nodes gst] in He. fold sigs in He.
    assert (Hn : nth_error (nodes NP) last = Some (mk0 sig_sink)).
    { unfold NP, pipe_net, net0. cbn [nodes]. fold sigs. exact (map_nth_error mk0 _ _ sigs_last). }
    unfold NP, pipe_net, net0 in Hn. cbn [nodes] in Hn. fold sigs in Hn. rewrite Hn in He.
    apply andb_prop in He. destruct He as [He _].
    assert (Hstep : N' = after_step NP last (nstep (mk0 sig_sink) (MIn (ISub 0 0)))).
    { unfold N', net_step, kick, NP, pipe_net, net0. cbn [pend nodes gst]. fold sigs.
      rewrite Hn. reflexivity. }
    assert (Hn' : nth_error (nodes NP) last = Some (mk0 sig_sink)).
    { unfold NP, pipe_net, net0. cbn [nodes]. fold sigs. exact Hn. }
    destruct (step_counts NP last (MIn (ISub 0 0)) Hn' He) as (A1 & A2 & A3 & A4).
    rewrite <- Hstep in *.
    rewrite (tot_NP n_in eq_refl) in A1. rewrite (tot_NP n_ret eq_refl) in A2.
    rewrite (tot_NP n_call eq_refl) in A3. lia.
  Qed.

  Lemma crun_counts N : crun N ->
    tot n_in N + pto N <= 1 + tot n_call N /\ 1 <= tot n_in N + tot n_ret N.
  Proof.
    induction 1 as [|N Hc IH Hp].
    - destruct kick_counts as [A B]. lia.
    - destruct (tau_counts (crun_reach Hc) Hp) as [A B]. lia.
  Qed.

  Lemma tot_ret_le N : net_reach NP N -> tot n_ret N <= tot n_call N.
  Proof.
    intros Hr. apply list_sum_le. intros n Hin. apply In_nth_error in Hin. destruct Hin as [i Hi].
    pose proof (n_ret_call Hr i Hi). lia.
  Qed.

  (** *** Termination, given a bound on what from_iter delivers *)

  Definition cmax (B : nat) : nat := 2 * B + 5.
  Definition steps_max (B : nat) : nat := 1 + 2 * (S (S (length stages)) * cmax B).

  Fixpoint taus (m : nat) (N : net) : net :=
    match m with 0 => N | S m' => taus m' (net_step N NTau) end.


  Section Bounded.
    Variable Bd : nat.
    Hypothesis Hdata : forall N, crun N ->
      forall n0, nth_error (nodes N) 0 = Some n0 -> dout (ntrace n0) <= Bd.

  Lemma dout_le N : crun N ->
    forall i n, nth_error (nodes N) i = Some n -> dout (ntrace n) <= Bd.
  Proof.
    intros Hc. pose proof (crun_reach Hc) as Hr.
    induction i as [|i IH]; intros n Hn; pose proof (r_reach _ Hr Hn) as Hre.
    - exact (Hdata Hc Hn).
    - destruct (upstream_exists i Hr Hn) as [U HU]. specialize (IH U HU).
      destruct (r_counts i Hr HU Hn) as (_ & Hd & _).
      destruct (r_kind (S i) Hr Hn) as [Hi _|s Hs _ E|_ E]; [lia| |].
      + rewrite dout_data_out, (stage_functional E (stage_ok_at _ Hs) Hre).
        pose proof (usem1_length s (data_in 0 (ntrace n))) as Hl.
        rewrite <- din_data_in in Hl. lia.
      + destruct (nk_flow E Hre) as (_ & _ & _ & H & _). unfold dout. rewrite H. cbn. lia.
  Qed.

  Lemma pout_le N i n : crun N -> nth_error (nodes N) i = Some n ->
    pout (ntrace n) <= 1 + Bd.
  Proof.
    intros Hc Hn. pose proof (crun_reach Hc) as Hr.
    pose proof (r_reach _ Hr Hn) as Hre. destruct i as [|i].
    - destruct (r_kind 0 Hr Hn) as [_ E|s _ Hi _|Hi _]; [|lia|unfold last in Hi; lia].
      destruct (nr_flow E Hre) as (H & _). unfold pout. rewrite H. cbn. lia.
    - destruct (upstream_exists i Hr Hn) as [U HU].
      destruct (r_counts i Hr HU Hn) as (H1 & H2 & _).
      pose proof (n_hout_le Hr i HU) as H3. pose proof (dout_le Hc i HU) as H4.
      assert (Hlast : S i <= last).
      { apply nth_error_lt in Hn. rewrite (r_len Hr) in Hn. unfold last. lia. }
      pose proof (@pulls_bounded N Hr (last - S i) (S i) n ltac:(lia) ltac:(lia) Hn). lia.
  Qed.


  Lemma calls_le N i n : crun N -> nth_error (nodes N) i = Some n ->
    n_call (ntrace n) <= cmax Bd.
  Proof.
    intros Hc Hn. pose proof (crun_reach Hc) as Hr. rewrite (n_calls_port0 i Hr Hn).
    pose proof (n_dn_len Hr i Hn). pose proof (n_up_len Hr i Hn).
    pose proof (dout_le Hc i Hn). pose proof (pout_le i Hc Hn). unfold cmax. lia.
  Qed.


  Lemma tot_call_le N : crun N -> tot n_call N <= S (S (length stages)) * cmax Bd.
  Proof.
    intros Hc. pose proof (crun_reach Hc) as Hr. rewrite <- (r_len Hr). unfold tot.
    apply list_sum_bound. intros n Hin. apply In_nth_error in Hin. destruct Hin as [i Hi].
    exact (calls_le i Hc Hi).
  Qed.


  Lemma moves_le N : crun N -> tot n_in N + tot n_ret N <= steps_max Bd.
  Proof.
    intros Hc. pose proof (crun_reach Hc) as Hr.
    destruct (crun_counts Hc) as [A _]. pose proof (tot_ret_le Hr). pose proof (tot_call_le Hc).
    unfold steps_max. lia.
  Qed.

  Lemma terminates_from N : crun N ->
    forall d, steps_max Bd < tot n_in N + tot n_ret N + d ->
      exists m, m <= d /\ crun (taus m N) /\ pend (taus m N) = PIdle.
  Proof.
    intros Hc d. revert N Hc. induction d as [|d IH]; intros N Hc Hd.
    - pose proof (moves_le Hc). lia.
    - destruct (pend N) eqn:Hp.
      + exists 0. cbn. repeat split; [lia | exact Hc | exact Hp].
      + assert (Hne : pend N <> PIdle) by congruence.
        destruct (tau_counts (crun_reach Hc) Hne) as [A _].
        destruct (IH _ (crunS Hc Hne)) as (m & Hm & Hc' & Hp'); [lia|].
        exists (S m). cbn. repeat split; [lia | exact Hc' | exact Hp'].
      + assert (Hne : pend N <> PIdle) by congruence.
        destruct (tau_counts (crun_reach Hc) Hne) as [A _].
        destruct (IH _ (crunS Hc Hne)) as (m & Hm & Hc' & Hp'); [lia|].
        exists (S m). cbn. repeat split; [lia | exact Hc' | exact Hp'].
  Qed.

  (** once for_each is applied the net comes to rest by itself, after at most [steps_max] transfers *)
  Theorem terminates :
    exists m, m <= steps_max Bd /\ crun (taus m (net_step NP kick)) /\
              pend (taus m (net_step NP kick)) = PIdle.
  Proof.
    apply (terminates_from crun0). destruct (crun_counts crun0) as [_ B]. lia.
  Qed.


  End Bounded.

  (** *** The net at rest *)

  Lemma route_src_dn d : route (S (S (length stages))) 0 (CDn 0 d) = KDn.
  Proof. reflexivity. Qed.

  Lemma rest_gst N : net_reach NP N -> pend N = PIdle -> gst N = [].
  Proof.
    intros Hr Hp. destruct (r_inv Hr) as (Hnodes & Hst & Hwf & Hpend & Hlk).
    rewrite Hp in Hpend. destruct (gst N) as [|[j k] G'] eqn:EG; [reflexivity|exfalso].
    destruct k; try contradiction.
    assert (Hj : j < length (nodes N)) by (destruct Hwf as (Hko & _); exact Hko).
    destruct (nth_error (nodes N) j) as [n|] eqn:Hn.
    2: { apply nth_error_None in Hn. lia. }
    specialize (Hst j n Hn). rewrite kinds_of_cons_same in Hst.
    pose proof (n_cstack Hr j Hn) as Hcs. pose proof (r_reach j Hr Hn) as Hre.
    destruct (cstack (nms n)) as [|cl rest] eqn:Ec; [discriminate|].
    cbn [map] in Hst. inversion Hst as [[Hroute _]]. rewrite (r_len Hr) in Hroute.
    destruct (stack (ncfg n)) as [|[fr cl'] st] eqn:Es; [discriminate|].
    cbn in Hcs. inversion Hcs; subst cl'.
    assert (Hsat : forall P, calls_sat P (nop n) -> P cl).
    { intros P HP. pose proof (stack_sat HP Hre) as HF. rewrite Es in HF. now inversion HF. }
    destruct (r_kind j Hr Hn) as [H0 E|s Hs Hi E|Hl E].
    - destruct (nr_flow E Hre) as (_ & HP). destruct (Hsat _ HP) as [d ->]. subst j.
      rewrite route_src_dn in Hroute. discriminate.
    - destruct (ns_flow E (stage_ok_at _ Hs) Hre) as (_ & _ & _ & _ & _ & HP).
      destruct (Hsat _ HP) as [->|[[u ->]|[d ->]]]; unfold route in Hroute.
      + destruct j; [lia|]. discriminate.
      + destruct j; [lia|]. discriminate.
      + assert (Hlt : (S j <? S (S (length stages))) = true) by (apply Nat.ltb_lt; lia).
        rewrite Hlt in Hroute. discriminate.
    - destruct (nk_flow E Hre) as (_ & _ & _ & _ & HP). subst j. unfold last in Hroute.
      destruct (Hsat _ HP) as [->|[u ->]]; unfold route in Hroute; discriminate.
  Qed.

  Section Rest.
    Variable N : net.
    Hypothesis Hc : crun N.
    Hypothesis Hp : pend N = PIdle.
    Let Hr : net_reach NP N := crun_reach Hc.

    Lemma rest_stack i n : nth_error (nodes N) i = Some n -> stack (ncfg n) = [].
    Proof.
      intros Hn. destruct (r_inv Hr) as (_ & Hst & _).
      specialize (Hst i n Hn). rewrite (rest_gst Hr Hp) in Hst. cbn in Hst.
      pose proof (n_cstack Hr i Hn) as Hcs.
      destruct (cstack (nms n)); [|discriminate].
      destruct (stack (ncfg n)); [reflexivity|discriminate].
    Qed.

    Lemma rest_link i U D :
      nth_error (nodes N) i = Some U -> nth_error (nodes N) (S i) = Some D -> link (nms U) (nms D).
    Proof.
      intros HU HD. destruct (r_inv Hr) as (_ & _ & _ & _ & Hlk).
      specialize (Hlk i U D HU HD). rewrite Hp in Hlk. exact Hlk.
    Qed.

    Lemma rest_wire i U D :
      nth_error (nodes N) i = Some U -> nth_error (nodes N) (S i) = Some D ->
      dn_in (ntrace D) = dn_out (ntrace U) /\ up_in (ntrace U) = up_out (ntrace D).
    Proof. intros HU HD. exact (r_idle i Hr HU HD Hp). Qed.

    Lemma rest_counts i U D :
      nth_error (nodes N) i = Some U -> nth_error (nodes N) (S i) = Some D ->
      hin (ntrace D) = hout (ntrace U) /\ din (ntrace D) = dout (ntrace U) /\
      pin (ntrace U) = pout (ntrace D) /\ data_in 0 (ntrace D) = data_out 0 (ntrace U).
    Proof.
      intros HU HD. destruct (rest_wire i HU HD) as [A B].
      unfold hin, hout, din, dout, pin, pout. rewrite A, B.
      rewrite data_in_payloads, data_out_payloads, A. repeat split.
    Qed.
  End Rest.


  (** *** The pipeline keeps the one-Pull-per-message discipline towards EVERY node: each node of a
      closed run is reachable in the environment whose sink sends a Pull only when it has credit *)

  Definition with_one_pull (p : mparams) : mparams :=
    {| nsinks := nsinks p; late_ok := late_ok p; pullable := pullable p; one_pull := true;
       resub := resub p; no_nest := no_nest p; c14 := c14 p |}.

  Definition nreach1 (n : node) : Prop := reach (with_one_pull (npar n)) (ngrd n) (ncfg n).

  Lemma enabled_one_pull o p g (c : cfg o) m :
    enabled p g c m = true ->
    (forall s, m = MIn (IUp s UP) -> 0 < credit (ms c) s) ->
    enabled (with_one_pull p) g c m = true.
  Proof.
    intros He Hcr. unfold enabled in *. destruct (dead c); [discriminate|]. cbn [negb andb] in *.
    destruct m as [[s a|s u|j d|s]|]; try exact He.
    destruct u as [|e|]; try exact He.
    apply andb_prop in He. destruct He as [H1 He]. apply andb_prop in He. destruct He as [H2 _].
    rewrite H1, H2. cbn. specialize (Hcr s eq_refl). destruct (credit (ms c) s); [lia|reflexivity].
  Qed.

  Lemma step_same o p (c : cfg o) m : step (with_one_pull p) c m = step p c m.
  Proof. reflexivity. Qed.

  Lemma set_nth_nth A i j (x : A) l :
    nth_error (set_nth i x l) j =
    if Nat.eqb j i then (match nth_error l j with Some _ => Some x | None => None end)
    else nth_error l j.
  Proof.
    revert i j. induction l as [|y l IH]; intros i j.
    - destruct i, j; cbn; try reflexivity; destruct (Nat.eqb j i); reflexivity.
    - destruct i as [|i], j as [|j]; cbn; try reflexivity. apply IH.
  Qed.

  (** an internal transfer always carries a port-0 message (the translation of a call) *)
  Lemma after_step_pend N x n' t inp :
    pend (after_step N x n') = PTo t inp -> exists c, inp = xlate c.
  Proof.
    unfold after_step. destruct (nlast n') as [[i|c| | |ob|]|]; cbn; try discriminate.
    - destruct (route _ _ _); cbn; intros H; inversion H; now exists c.
    - destruct (gst N) as [|[j [| |]] G]; discriminate.
  Qed.

  Lemma pend_port0 N : crun N -> forall t inp, pend N = PTo t inp -> exists c, inp = xlate c.
  Proof.
    induction 1 as [|N Hc IH Hp]; intros t inp Hpd.
    - unfold net_step, kick, NP, pipe_net, net0 in Hpd. cbn [pend nodes gst] in Hpd. fold sigs in Hpd.
      rewrite (map_nth_error mk0 _ _ sigs_last) in Hpd. exact (after_step_pend _ _ _ Hpd).
    - destruct (tau_shape (crun_reach Hc) Hp) as (x & n & m & N1 & _ & _ & _ & Hstep & _).
      rewrite Hstep in Hpd. exact (after_step_pend _ _ _ Hpd).
  Qed.

  Lemma all_one_pull N : crun N -> forall i n, nth_error (nodes N) i = Some n -> nreach1 n.
  Proof.
    induction 1 as [|N Hc IH Hp]; intros i ni Hni.
    - pose proof kick_enabled as He.
      unfold net_enabled, NP, pipe_net, net0, kick in He. cbn [pend nodes gst] in He. fold sigs in He.
      rewrite (map_nth_error mk0 _ _ sigs_last) in He.
      apply andb_prop in He. destruct He as [He _].
      unfold net_step, kick, NP, pipe_net, net0 in Hni. cbn [pend nodes gst] in Hni. fold sigs in Hni.
      rewrite (map_nth_error mk0 _ _ sigs_last), after_step_nodes in Hni. cbn [nodes] in Hni.
      rewrite set_nth_nth in Hni. destruct (Nat.eqb_spec i last) as [->|Hne].
      + rewrite (map_nth_error mk0 _ _ sigs_last) in Hni. inversion Hni; subst ni.
        unfold nreach1, nstep. cbn [npar ngrd ncfg]. rewrite <- step_same.
        apply reachS; [constructor|]. apply enabled_one_pull; [exact He | intros s E; discriminate].
      + apply nth_error_In, in_map_iff in Hni. destruct Hni as ([[o p] g] & <- & _).
        unfold nreach1. cbn. constructor.
    - pose proof (crun_reach Hc) as Hr.
      destruct (tau_shape Hr Hp) as (x & n & m & N1 & Hn & He & Hnodes & Hstep & _ & Hpd).
      rewrite Hstep, after_step_nodes, Hnodes, set_nth_nth in Hni.
      destruct (Nat.eqb_spec i x) as [->|Hne]; [|exact (IH _ _ Hni)].
      rewrite Hn in Hni. inversion Hni; subst ni. clear Hni.
      pose proof (IH _ _ Hn) as Hre1.
      unfold nreach1, nstep. cbn [npar ngrd ncfg]. rewrite <- step_same.
      apply reachS; [exact Hre1|]. apply enabled_one_pull; [exact He|]. intros s ->.
      destruct (pend N) as [|t inp|j] eqn:Epd; [contradiction| |destruct Hpd; discriminate].
      destruct Hpd as [<- Hinp]. inversion Hinp; subst inp. clear Hinp.
      destruct (pend_port0 Hc Epd) as [cl Hcl].
      assert (Hs0 : s = 0) by (destruct cl; cbn in Hcl; inversion Hcl; reflexivity). subst s.
      (* the receiver is not for_each: its sink is never live *)
      assert (Hx : x < last).
      { destruct (Nat.lt_ge_cases x last) as [H|H]; [exact H|exfalso].
        assert (Ex : x = last).
        { apply nth_error_lt in Hn. rewrite (r_len Hr) in Hn. unfold last in *. lia. }
        subst x. pose proof (r_reach _ Hr Hn) as Hre.
        destruct (r_kind last Hr Hn) as [H0 _|s' _ Hi _|_ E];
          [unfold last in H0; lia | unfold last in Hi; lia |].
        destruct (nk_flow E Hre) as (_ & _ & _ & Hdn & _).
        unfold nenabled, enabled in He. apply andb_prop in He. destruct He as [_ He].
        apply andb_prop in He. destruct He as [_ He]. apply andb_prop in He. destruct He as [He _].
        apply andb_prop in He. destruct He as [_ He].
        assert (Hg : hout (ntrace n) = 1).
        { apply (n_greeted Hr last Hn). unfold nms. destruct (sk (ms (ncfg n)) 0); congruence. }
        unfold hout in Hg. rewrite Hdn in Hg. cbn in Hg. lia. }
      destruct (@downstream_exists N x Hr Hx) as [D HD].
      destruct (r_wire Hr x Hn HD) as [Wd Wu]. rewrite Epd in Wd, Wu.
      cbn [infl_dn infl_up] in Wd, Wu. rewrite Nat.eqb_refl in Wu. rewrite app_nil_r in Wd.
      assert (Hpo : pout (ntrace D) = pin (ntrace n) + 1).
      { unfold pout, pin. rewrite Wu, cnt_app. reflexivity. }
      assert (Hh : hin (ntrace D) = hout (ntrace n) /\ din (ntrace D) = dout (ntrace n)).
      { unfold hin, hout, din, dout. rewrite Wd. split; reflexivity. }
      pose proof (@pulls_bounded N Hr (last - S x) (S x) D ltac:(lia) ltac:(lia) HD) as Hb.
      pose proof (credit_exact (p := with_one_pull (npar n)) eq_refl Hre1) as Hcr.
      change (trace (ncfg n)) with (ntrace n) in Hcr. change (ms (ncfg n)) with (nms n) in Hcr.
      destruct Hh as [Hh1 Hh2]. unfold nms in *. lia.
  Qed.

  Lemma node1_exists N : net_reach NP N -> exists D, nth_error (nodes N) 1 = Some D.
  Proof. intros Hr. apply downstream_exists; [exact Hr | unfold last; lia]. Qed.

  Lemma src_one_pull N : crun N ->
    exists c1 : cfg (from_iter_op it),
      nth_error (nodes N) 0 = Some (mk_node p_src g_std c1) /\ reach p_src1 g_std c1.
  Proof.
    intros Hc. pose proof (crun_reach Hc) as Hr.
    destruct (nth_error (nodes N) 0) as [n0|] eqn:H0.
    2: { apply nth_error_None in H0. rewrite (r_len Hr) in H0. lia. }
    destruct (r_kind 0 Hr H0) as [_ E|s _ Hi _|Hi _]; [|lia|unfold last in Hi; lia].
    destruct (node_src E) as [c1 ->]. exists c1. split; [reflexivity|].
    exact (all_one_pull Hc 0 H0).
  Qed.

  (** from_iter facts in node form *)
  Lemma nr_subd n : nsig n = sig_src it -> nreach n ->
    subd (nms n) 0 = true -> sk (nms n) 0 <> SNone.
  Proof.
    intros E Hre. destruct (node_src E) as [c ->].
    unfold nreach, nms in *. cbn [nop npar ngrd ncfg] in *.
    pose proof (Inv_from_iter.inv_reach (p := p_src) eq_refl eq_refl Hre) as HI.
    rewrite (Inv_from_iter.i_subd HI). destruct (sk (ms c) 0); congruence.
  Qed.

  (** the node at the end of the pipeline has been subscribed *)
  Lemma nstep_subd N i n m : net_reach NP N -> nth_error (nodes N) i = Some n ->
    nenabled n m = true -> subd (nms (nstep n m)) 0 = true.
  Proof.
    intros Hr Hn He. destruct (n_facts Hr i Hn) as (Hs & Hns & _).
    destruct (r_inv Hr) as ([_ Hnd] & _). destruct (Hnd i n Hn) as [Hre Hinit].
    assert (Hre' : nreach (nstep n m)) by (unfold nreach, nstep; cbn; now apply reachS).
    destruct (Hs _ Hre') as [Hv Hd].
    pose proof (step_summary _ _ _ _ He Hv Hd) as Hsum.
    destruct (sum_core Hsum) as [Hsd _].
    change (nms (nstep n m)) with (ms (step (npar n) (ncfg n) m)). rewrite Hsd.
    exact (subd_after_move m Hns Hinit He).
  Qed.

  Lemma sink_subd N : crun N ->
    exists n, nth_error (nodes N) last = Some n /\ subd (nms n) 0 = true.
  Proof.
    induction 1 as [|N Hc IH Hp].
    - unfold net_step, kick, NP, pipe_net, net0. cbn [pend nodes gst]. fold sigs.
      rewrite (map_nth_error mk0 _ _ sigs_last). rewrite after_step_nodes. cbn [nodes].
      rewrite set_nth_nth, Nat.eqb_refl, (map_nth_error mk0 _ _ sigs_last).
      eexists. split; [reflexivity|]. reflexivity.
    - destruct IH as (n0 & H0 & Hs0). pose proof (crun_reach Hc) as Hr.
      destruct (tau_shape Hr Hp) as (x & n & m & N1 & Hn & He & Hnodes & Hstep & _).
      rewrite Hstep, after_step_nodes, Hnodes, set_nth_nth.
      destruct (Nat.eqb_spec last x) as [<-|Hne].
      + rewrite H0. eexists. split; [reflexivity|]. exact (nstep_subd last m Hr Hn He).
      + exists n0. split; assumption.
  Qed.


  (** *** At rest for_each has seen the end *)

  Section RestChains.
    Variable N : net.
    Hypothesis Hc : crun N.
    Hypothesis Hp : pend N = PIdle.
    Let Hr : net_reach NP N := crun_reach Hc.

    (** nobody is still waiting for a greeting: from_iter greets inside the subscribing call *)
    Lemma no_wait : forall i U D,
      nth_error (nodes N) i = Some U -> nth_error (nodes N) (S i) = Some D ->
      us (nms D) 0 <> USubd.
    Proof.
      induction i as [|i IH]; intros U D HU HD Hw;
        pose proof (rest_link Hc Hp _ HU HD) as Hl; unfold link in Hl; rewrite Hw in Hl;
        destruct Hl as [Hsub Hsk]; pose proof (r_reach _ Hr HU) as Hre.
      - destruct (r_kind 0 Hr HU) as [_ E|s _ Hi _|Hi _]; [|lia|unfold last in Hi; lia].
        exact (nr_subd E Hre Hsub Hsk).
      - destruct (upstream_exists i Hr HU) as [U' HU'].
        destruct (r_kind (S i) Hr HU) as [H0 _|s Hs _ E|Hl E]; [lia| |].
        + destruct (ns_flow E (stage_ok_at _ Hs) Hre) as (_ & _ & _ & Hwait & _).
          exact (IH U' U HU' HU (Hwait (rest_stack Hc Hp _ HU) Hsub Hsk)).
        + apply nth_error_lt in HD. rewrite (r_len Hr) in HD. unfold last in Hl. lia.
    Qed.

    (** if for_each's source were still live, its one outstanding Pull would be outstanding at
        every link, all the way down *)
    Lemma live_chain nl : nth_error (nodes N) last = Some nl -> us (nms nl) 0 = ULive ->
      forall d j n U, j + d = length stages ->
        nth_error (nodes N) (S j) = Some n -> nth_error (nodes N) j = Some U ->
        us (nms n) 0 = ULive /\ pout (ntrace n) = 1 + dout (ntrace U) /\ sk (nms U) 0 = SLive.
    Proof.
      intros Hnl Hlive. induction d as [|d IH]; intros j n U Hjd Hn HU;
        pose proof (r_reach _ Hr Hn) as Hre;
        destruct (rest_counts Hc Hp _ HU Hn) as (W1 & W2 & W3 & _);
        pose proof (rest_link Hc Hp _ HU Hn) as Hl; unfold link in Hl.
      - assert (Ej : S j = last) by (unfold last; lia). rewrite Ej, Hnl in Hn. inversion Hn; subst n.
        rewrite Hlive in Hl. destruct Hl as [_ Hsk]. split; [exact Hlive|]. split; [|exact Hsk].
        rewrite <- Ej in Hnl.
        destruct (r_kind (S j) Hr Hnl) as [H0 _|s _ Hi _|_ E]; [lia|lia|].
        destruct (nk_flow E Hre) as (Hpull & _).
        assert (Hg : hout (ntrace U) = 1) by (apply (n_greeted Hr j HU); congruence). lia.
      - destruct (@downstream_exists N (S j) Hr ltac:(unfold last; lia)) as [D HD].
        destruct (IH (S j) D n ltac:(lia) HD Hn) as (_ & HpD & Hskn).
        destruct (r_kind (S j) Hr Hn) as [H0 _|s Hs _ E|Hlst _]; [lia| |unfold last in Hlst; lia].
        destruct (ns_flow E (stage_ok_at _ Hs) Hre) as (_ & _ & Hrest & _).
        destruct (Hrest (rest_stack Hc Hp _ Hn) Hskn) as [Heq Husn].
        destruct (rest_counts Hc Hp _ Hn HD) as (_ & _ & W3' & _).
        rewrite Husn in Hl. destruct Hl as [_ HskU].
        split; [exact Husn|]. split; [lia | exact HskU].
    Qed.

    Lemma not_live nl : nth_error (nodes N) last = Some nl -> us (nms nl) 0 <> ULive.
    Proof.
      intros Hnl Hlive.
      destruct (node1_exists Hr) as [D HD].
      destruct (src_one_pull Hc) as (c1 & H0 & Hre1).
      destruct (@live_chain nl Hnl Hlive (length stages) 0 D _ eq_refl HD H0) as (_ & Hpo & Hsk).
      destruct (rest_counts Hc Hp _ H0 HD) as (_ & _ & W3 & _).
      pose proof (rf_served source_flow1 Hre1) as Hserved.
      change (ntrace (mk_node p_src g_std c1)) with (trace c1) in *.
      change (nms (mk_node p_src g_std c1)) with (ms c1) in *.
      pose proof (rest_stack Hc Hp _ H0) as Hst. cbn [ncfg] in Hst.
      specialize (Hserved Hst Hsk). lia.
    Qed.

    Theorem rest_done nl : nth_error (nodes N) last = Some nl -> us (nms nl) 0 = UEnded.
    Proof.
      intros Hnl. pose proof (r_reach _ Hr Hnl) as Hre.
      destruct (r_kind last Hr Hnl) as [H0 _|s _ Hi _|_ E]; [unfold last in H0; lia|unfold last in Hi; lia|].
      destruct (nk_flow E Hre) as (_ & Hns & Hsub & _).
      destruct (sink_subd Hc) as (n' & Hn' & Hs'). rewrite Hnl in Hn'. inversion Hn'; subst n'.
      destruct (@upstream_exists N (length stages) nl Hr Hnl) as [U HU].
      pose proof (no_wait _ HU Hnl) as Hnw. pose proof (not_live Hnl) as Hnlv.
      specialize (Hsub Hs').
      destruct (us (nms nl) 0); congruence.
    Qed.

  End RestChains.

  (** at rest, whatever the iterator: f has been called on the list function of what from_iter
      delivered, and for_each has seen the end *)
  Theorem rest_value N : crun N -> pend N = PIdle ->
    forall nf n0, nth_error (nodes N) last = Some nf -> nth_error (nodes N) 0 = Some n0 ->
      us (nms nf) 0 = UEnded /\
      Inv_for_each.user_calls (ntrace nf) = usem stages (data_out 0 (ntrace n0)).
  Proof.
    intros Hc Hp nf n0 Hnf Hn0. split; [exact (rest_done Hc Hp Hnf)|].
    exact (proj1 (@pipeline_for_each it stages N Hok (crun_reach Hc) Hp nf n0 Hnf Hn0)).
  Qed.

  (** ** Finite inputs: the whole input is consumed, or a take had its quota *)
  Section Finite.
    Variable xs : list val.
    Hypothesis Hit : forall k, it k = nth_error xs k.

    Lemma map_it_xs l : map it l = map (fun k => nth_error xs k) l.
    Proof. apply map_ext. exact Hit. Qed.

    Lemma nr_prefix n : nsig n = sig_src it -> nreach n -> prefix (data_out 0 (ntrace n)) xs.
    Proof.
      intros E Hre. destruct (src_functional E Hre) as [pos Hpos].
      rewrite map_it_xs in Hpos. exact (finite_it_prefix _ _ _ Hpos).
    Qed.

    Lemma nr_done n : nsig n = sig_src it -> nreach n ->
      sk (nms n) 0 = SFinished -> data_out 0 (ntrace n) = xs.
    Proof.
      intros E Hre. destruct (node_src E) as [c ->].
      unfold nreach, nms, ntrace in *. cbn [nop npar ngrd ncfg] in *. intros Hfin.
      pose proof (@Inv_from_iter.from_iter_done_exact it p_src eq_refl eq_refl eq_refl eq_refl c Hre) as H1.
      destruct (@Inv_from_iter.from_iter_order it p_src eq_refl eq_refl eq_refl eq_refl c Hre) as [H2 _].
      rewrite Hfin, H2, map_it_xs in H1. exact (finite_it_all _ _ _ H1).
    Qed.

    Lemma data_fin N : crun N ->
      forall n0, nth_error (nodes N) 0 = Some n0 -> dout (ntrace n0) <= length xs.
    Proof.
      intros Hc n0 Hn0. pose proof (crun_reach Hc) as Hr. pose proof (r_reach _ Hr Hn0) as Hre.
      destruct (r_kind 0 Hr Hn0) as [_ E|s _ Hi _|Hi _]; [|lia|unfold last in Hi; lia].
      rewrite dout_data_out. exact (prefix_length (nr_prefix E Hre)).
    Qed.

    Section FullAt.
      Variable N : net.
      Hypothesis Hc : crun N.
      Hypothesis Hp : pend N = PIdle.
      Let Hr : net_reach NP N := crun_reach Hc.

      (** ... and the stream ended because the whole input had been consumed, or because a take
          had its quota: either way every stage's output is its list function of the WHOLE input *)
      Lemma full_at : forall i n, i <= length stages -> nth_error (nodes N) i = Some n ->
        sk (nms n) 0 = SFinished -> data_out 0 (ntrace n) = usem (firstn i stages) xs.
      Proof.
        induction i as [|i IH]; intros n Hi Hn Hfin; pose proof (r_reach _ Hr Hn) as Hre.
        - destruct (r_kind 0 Hr Hn) as [_ E|s _ H1 _|H1 _]; [|lia|unfold last in H1; lia].
          cbn. exact (nr_done E Hre Hfin).
        - destruct (upstream_exists i Hr Hn) as [U HU].
          destruct (rest_counts Hc Hp _ HU Hn) as (_ & _ & _ & Wd).
          pose proof (rest_link Hc Hp _ HU Hn) as Hl. unfold link in Hl.
          destruct (r_kind (S i) Hr Hn) as [H0 _|s Hs _ E|Hlst _]; [lia| |unfold last in Hlst; lia].
          cbn [pred] in Hs.
          rewrite (firstn_S_nth stages i Hs), usem_snoc.
          rewrite (stage_functional E (stage_ok_at _ Hs) Hre), Wd.
          destruct (ns_flow E (stage_ok_at _ Hs) Hre) as (_ & _ & _ & _ & Hf & _).
          destruct (Hf (rest_stack Hc Hp _ Hn) Hfin) as [Hue|(k & Hb & Hk)].
          + rewrite Hue in Hl. destruct Hl as [_ HskU].
            now rewrite (IH U ltac:(lia) HU HskU).
          + destruct s as [f|cd|r seed|k'|k']; try discriminate. cbn in Hb. inversion Hb; subst k'.
            cbn [usem1].
            destruct (src_one_pull Hc) as (c1 & H0 & _).
            pose proof (r_reach _ Hr H0) as Hre0.
            destruct (r_kind 0 Hr H0) as [_ E0|s' _ H1 _|H1 _]; [|lia|unfold last in H1; lia].
            pose proof (nr_prefix E0 Hre0) as Hpre.
            remember (data_out 0 (ntrace (mk_node p_src g_std c1))) as l eqn:Hl0. symmetry in Hl0.
            rewrite (pipeline_functional Hok Hr Hp (k:=i) ltac:(lia) HU H0), Hl0.
            apply firstn_full_prefix; [exact (usem_prefix _ Hpre)|].
            rewrite <- Hl0, <- (pipeline_functional Hok Hr Hp (k:=i) ltac:(lia) HU H0), <- Wd.
            change (firstn k (data_in 0 (ntrace n))) with (usem1 (UTake k) (data_in 0 (ntrace n))).
            rewrite <- (stage_functional E (stage_ok_at _ Hs) Hre), <- dout_data_out. exact Hk.
      Qed.
    End FullAt.

    (** pipe!(from_iter(xs), stages.., for_each(f)): after the one environment move that applies
        for_each, at most [steps_max (length xs)] internal transfers bring the net to rest; every
        intermediate state is one of the reachable states the safety theorems speak about; at rest
        for_each has received the end of the stream, and f has been called on exactly [usem stages xs] *)
    Theorem pipeline_completes :
      exists m N, m <= steps_max (length xs) /\ N = taus m (net_step NP kick) /\
        net_reach NP N /\ pend N = PIdle /\ gst N = [] /\
        exists nf, nth_error (nodes N) last = Some nf /\
          us (nms nf) 0 = UEnded /\ Inv_for_each.user_calls (ntrace nf) = usem stages xs.
    Proof.
      destruct (@terminates (length xs) data_fin) as (m & Hm & Hc & Hp).
      exists m, (taus m (net_step NP kick)). split; [exact Hm|]. split; [reflexivity|].
      pose proof (crun_reach Hc) as Hr. split; [exact Hr|]. split; [exact Hp|].
      split; [exact (rest_gst Hr Hp)|].
      destruct (sink_subd Hc) as (nf & Hnf & _). exists nf. split; [exact Hnf|].
      pose proof (rest_done Hc Hp Hnf) as Hend. split; [exact Hend|].
      destruct (@upstream_exists _ (length stages) nf Hr Hnf) as [U HU].
      destruct (rest_counts Hc Hp _ HU Hnf) as (_ & _ & _ & Wd).
      pose proof (rest_link Hc Hp _ HU Hnf) as Hl. unfold link in Hl. rewrite Hend in Hl.
      destruct Hl as [_ HskU].
      destruct (r_kind last Hr Hnf) as [H0 _|s _ Hi _|_ E]; [unfold last in H0; lia|unfold last in Hi; lia|].
      rewrite (sink_functional E (r_reach _ Hr Hnf)), Wd.
      rewrite (full_at Hc Hp (le_n _) HU HskU). now rewrite firstn_all.
    Qed.
  End Finite.

  (** ** Any iterator, cut by a take: "take over an unbounded iterator stops"

      [stages = pre ++ UTake n :: post] where the stages before the take pass every datum on (map,
      scan).  Then from_iter is pulled at most [n] times, whatever the iterator, so the run is finite;
      at rest for_each has seen the end and f was called on the list function of the at most [n]
      items consumed. *)
  Definition oneshot (s : ustage) : Prop :=
    match s with UMap _ | UScan _ _ => True | _ => False end.

  Section TakeBounded.
    Variable pre post : list ustage.
    Variable n : nat.
    Hypothesis Hst : stages = pre ++ UTake n :: post.
    Hypothesis Hone : Forall oneshot pre.

    Lemma nr_lazy n0 : nsig n0 = sig_src it -> nreach n0 ->
      dout (ntrace n0) <= pin (ntrace n0) /\
      length (Inv_from_iter.nexts (ntrace n0)) <= pin (ntrace n0).
    Proof.
      intros E Hre. destruct (node_src E) as [c ->].
      unfold nreach, ntrace, nms in *. cbn [nop npar ngrd ncfg] in *.
      pose proof (Inv_from_iter.inv_reach (p := p_src) eq_refl eq_refl Hre) as HI.
      pose proof (Inv_from_iter.i_lazy HI) as Hl. rewrite (Flow_ends.reach_npull_pin Hre) in Hl.
      pose proof (@Inv_from_iter.from_iter_done_exact it p_src eq_refl eq_refl eq_refl eq_refl c Hre) as H1.
      rewrite H1, app_length, map_length, <- dout_data_out in Hl. rewrite H1, app_length, map_length, <- dout_data_out.
      split; lia.
    Qed.

    Lemma stage_at_pre j s : nth_error stages j = Some s -> j < length pre -> oneshot s.
    Proof.
      intros Hs Hj. rewrite Hst, nth_error_app1 in Hs by exact Hj.
      rewrite Forall_forall in Hone. apply Hone. exact (nth_error_In _ _ Hs).
    Qed.

    Lemma stage_at_take : nth_error stages (length pre) = Some (UTake n).
    Proof. rewrite Hst. apply nth_error_app_len. Qed.

    Lemma oneshot_pulls nd s : nsig nd = sig_stage s -> ustage_ok s -> nreach nd -> oneshot s ->
      pout (ntrace nd) <= pin (ntrace nd).
    Proof.
      intros E Hs Hre Ho. destruct (ns_flow E Hs Hre) as (Hle & _).
      pose proof (stage_functional E Hs Hre) as Hf.
      assert (Hd : dout (ntrace nd) = din (ntrace nd)).
      { rewrite dout_data_out, din_data_in, Hf. destruct s as [f|cd|r seed|k|k]; try contradiction; cbn.
        - apply map_length.
        - apply scan_list_length. }
      lia.
    Qed.

    Lemma take_node_pulls N nd : crun N -> nth_error (nodes N) (S (length pre)) = Some nd ->
      pout (ntrace nd) <= n.
    Proof.
      intros Hc Hn. pose proof (crun_reach Hc) as Hr.
      destruct (r_kind _ Hr Hn) as [H0 _|s Hs _ E|Hl _]; [lia| |].
      - cbn [pred] in Hs. rewrite stage_at_take in Hs. inversion Hs; subst s.
        pose proof (all_one_pull Hc _ Hn) as H1.
        destruct (node_stage E) as [c ->]. unfold nreach1, ntrace in *. cbn [nop npar ngrd ncfg] in *.
        assert (Hk : 1 <= n) by exact (stage_ok_at _ stage_at_take).
        exact (@take_pulls_bounded n (with_one_pull p_mid) eq_refl eq_refl eq_refl eq_refl Hk eq_refl c H1).
      - unfold last in Hl. rewrite Hst, app_length in Hl. cbn in Hl. lia.
    Qed.

    Lemma pre_pulls N : crun N -> forall d j nd, j + d = length pre ->
      nth_error (nodes N) j = Some nd -> pin (ntrace nd) <= n.
    Proof.
      intros Hc. pose proof (crun_reach Hc) as Hr.
      assert (Hlen : length pre < length stages) by (rewrite Hst, app_length; cbn; lia).
      induction d as [|d IH]; intros j nd Hjd Hn.
      - assert (Ej : j = length pre) by lia. subst j.
        destruct (@downstream_exists N (length pre) Hr ltac:(unfold last; lia)) as [D HD].
        destruct (r_counts _ Hr Hn HD) as (_ & _ & H3).
        pose proof (take_node_pulls Hc HD). lia.
      - destruct (@downstream_exists N j Hr ltac:(unfold last; lia)) as [D HD].
        destruct (r_counts _ Hr Hn HD) as (_ & _ & H3).
        specialize (IH (S j) D ltac:(lia) HD).
        pose proof (r_reach _ Hr HD) as HreD.
        destruct (r_kind _ Hr HD) as [H0 _|s Hs _ E|Hl _]; [lia| |unfold last in Hl; lia].
        cbn [pred] in Hs.
        pose proof (oneshot_pulls E (stage_ok_at _ Hs) HreD (stage_at_pre Hs ltac:(lia))). lia.
    Qed.

    Lemma data_take N : crun N ->
      forall n0, nth_error (nodes N) 0 = Some n0 -> dout (ntrace n0) <= n.
    Proof.
      intros Hc n0 Hn0. pose proof (crun_reach Hc) as Hr. pose proof (r_reach _ Hr Hn0) as Hre.
      destruct (r_kind 0 Hr Hn0) as [_ E|s _ Hi _|Hi _]; [|lia|unfold last in Hi; lia].
      destruct (nr_lazy E Hre) as [H1 _].
      pose proof (@pre_pulls N Hc (length pre) 0 n0 eq_refl Hn0). lia.
    Qed.

    (** whatever the iterator - unbounded too - the run stops: at most [steps_max n] transfers, at most
        [n] calls of next(), for_each has seen the end, f was called on the list function of what was
        consumed *)
    Theorem take_stops :
      exists m N, m <= steps_max n /\ N = taus m (net_step NP kick) /\
        net_reach NP N /\ pend N = PIdle /\
        exists nf n0, nth_error (nodes N) last = Some nf /\ nth_error (nodes N) 0 = Some n0 /\
          us (nms nf) 0 = UEnded /\
          Inv_for_each.user_calls (ntrace nf) = usem stages (data_out 0 (ntrace n0)) /\
          length (Inv_from_iter.nexts (ntrace n0)) <= n.
    Proof.
      destruct (@terminates n data_take) as (m & Hm & Hc & Hp).
      exists m, (taus m (net_step NP kick)). split; [exact Hm|]. split; [reflexivity|].
      pose proof (crun_reach Hc) as Hr. split; [exact Hr|]. split; [exact Hp|].
      destruct (sink_subd Hc) as (nf & Hnf & _).
      destruct (nth_error (nodes (taus m (net_step NP kick))) 0) as [n0|] eqn:Hn0.
      2: { apply nth_error_None in Hn0. rewrite (r_len Hr) in Hn0. lia. }
      exists nf, n0. split; [exact Hnf|]. split; [reflexivity|].
      destruct (rest_value Hc Hp Hnf Hn0) as [H1 H2]. split; [exact H1|]. split; [exact H2|].
      pose proof (r_reach _ Hr Hn0) as Hre.
      destruct (r_kind 0 Hr Hn0) as [_ E|s _ Hi _|Hi _]; [|lia|unfold last in Hi; lia].
      destruct (nr_lazy E Hre) as [_ H3].
      pose proof (@pre_pulls _ Hc (length pre) 0 n0 eq_refl Hn0). lia.
    Qed.
  End TakeBounded.

End Pipe.

Print Assumptions pipeline_completes.
Print Assumptions take_stops.
