(** * Spec: component-specific trace monitors (the functional content of
      C07-C12, C15, C16) and the class predicates of the known findings.

    Like the protocol monitor of Machine.v these are boolean functions of the
    event trace alone: the theorems state them about every reachable
    configuration of the model, and the extracted code runs them over the
    traces recorded from the real crate. *)

From CB Require Export Ops.

Set Implicit Arguments.

(** ** Component-specific side conditions of the conformant environment
    (the [xguard] argument of [enabled]) *)

(** only interval's nursery can refuse a subscription *)
Definition g_std (m : mstate) (i : input) : bool :=
  match i with ISub _ (S _) => false | _ => true end.

Definition inner_fresh (m : mstate) (v : val) : bool :=
  match us m (S (inner_id v)) with UNone => true | _ => false end.

(** flatten: an inner source emitted by the outer is one not seen before *)
Definition g_flatten (m : mstate) (i : input) : bool :=
  g_std m i &&
  match i with
  | IDn 0 (DD v) => inner_fresh m v
  | _ => true
  end.

Definition pending_delivery (st : list call) : bool :=
  existsb (fun c => match c with CDn _ DH => false | CDn _ _ => true | _ => false end) st.

(** share as C12 quantifies it: the source does not emit from inside one of
    share's own deliveries (nested fan-out is the known finding under C02/C03) *)
Definition g_share (m : mstate) (i : input) : bool :=
  g_std m i &&
  match i with
  | IDn _ DH => true
  | IDn _ _ => negb (pending_delivery (cstack m))
  | _ => true
  end.

(** ** Projections of a trace: what went in, what came out *)

(** payloads upstream [i] sent, in order *)
Fixpoint data_in (i : nat) (tr : list event) : list val :=
  match tr with
  | [] => []
  | EIn (IDn j (DD v)) :: tr' => if Nat.eqb i j then v :: data_in i tr' else data_in i tr'
  | _ :: tr' => data_in i tr'
  end.

(** payloads delivered to sink [s], in order *)
Fixpoint data_out (s : nat) (tr : list event) : list val :=
  match tr with
  | [] => []
  | ECall (CDn s' (DD v)) :: tr' => if Nat.eqb s s' then v :: data_out s tr' else data_out s tr'
  | _ :: tr' => data_out s tr'
  end.

Lemma data_in_app i tr1 tr2 : data_in i (tr1 ++ tr2) = data_in i tr1 ++ data_in i tr2.
Proof.
  induction tr1 as [|e tr1 IH]; cbn; [reflexivity|].
  destruct e as [[s a|s u|j [|v|e|]|s]|c| | |ob|]; cbn; try exact IH.
  destruct (Nat.eqb i j); cbn; now rewrite IH.
Qed.

Lemma data_out_app s tr1 tr2 : data_out s (tr1 ++ tr2) = data_out s tr1 ++ data_out s tr2.
Proof.
  induction tr1 as [|e tr1 IH]; cbn; [reflexivity|].
  destruct e as [i|[j|j u|s' [|v|e|]]| | |ob|]; cbn; try exact IH.
  destruct (Nat.eqb s s'); cbn; now rewrite IH.
Qed.

(** the running fold of scan: every intermediate accumulator, without the seed *)
Fixpoint scan_list (r : val -> val -> val) (acc : val) (l : list val) : list val :=
  match l with
  | [] => []
  | x :: l' => let a := r acc x in a :: scan_list r a l'
  end.

Lemma scan_list_app r acc l1 l2 :
  scan_list r acc (l1 ++ l2) = scan_list r acc l1 ++ scan_list r (fold_left r l1 acc) l2.
Proof.
  revert acc. induction l1 as [|x l1 IH]; intros acc; cbn; [reflexivity|]. now rewrite IH.
Qed.

(** ** Classes of histories named by known findings (known_findings.json) *)

Inductive kclass : Type :=
| KMemberError      (* some upstream sent an Error *)
| KNestedFanout.    (* an upstream message arrived while a Data/Terminate/Error
                       delivery to a sink was still pending (share: the source
                       emits from inside one of share's own deliveries) *)

Definition is_err_input (e : event) : bool :=
  match e with EIn (IDn _ (DE _)) => true | _ => false end.

(** scan with the stack of pending calls *)
Fixpoint nested_fanout_from (st : list call) (tr : list event) : bool :=
  match tr with
  | [] => false
  | ECall c :: tr' => nested_fanout_from (c :: st) tr'
  | ERet :: tr' => nested_fanout_from (tl st) tr'
  | EIn (IDn _ DH) :: tr' => nested_fanout_from st tr'
  | EIn (IDn _ _) :: tr' => pending_delivery st || nested_fanout_from st tr'
  | _ :: tr' => nested_fanout_from st tr'
  end.

Definition classes (tr : list event) : list kclass :=
  (if existsb is_err_input tr then [KMemberError] else [])
  ++ (if nested_fanout_from [] tr then [KNestedFanout] else []).
