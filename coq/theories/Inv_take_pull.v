(** * Inv_take_pull: property C14 (demand conservation) for take in the pull
      regime.

    The invariant is the one of Inv_take.v (phases of (sk 0, us 0), the cells
    and the stack) plus the counting facts of Inv_relay_pull.v, restricted to
    the part of the run in which take still forwards Pulls:

      before the greeting nothing is counted;
      while sink 0 and upstream 0 are live and [tk_taken < max]

        owed 0 + ndata 0 = npull 0      (every Pull is answered or owed upstream)
        credit 0 + owed 0 = 1           (the single credit is with the sink or upstream)

    Once [tk_taken = max] take swallows the sink's Pulls, so the first equation
    breaks (a Pull the sink sends from inside the nth delivery is never
    answered by a Data).  This is harmless: in that phase the nth delivery is
    still pending (no quiescent point), and when it returns take stops the
    upstream and completes the sink, so at the next quiescent point the sink is
    no longer live and [VUnanswered] is not checked.  No Pull is forwarded and
    no Data is delivered after the nth item, so [VOverPull]/[VOverData] are not
    checked there either. *)
From CB Require Import ProofLib Spec.

Set Implicit Arguments.

(** decide the comparisons the C14 checks make, from the arithmetic facts in
    the context *)
Ltac solve_cmp :=
  repeat match goal with
         | |- context [?a <=? ?b] =>
             first [ rewrite (proj2 (Nat.leb_gt a b)) by lia
                   | rewrite (proj2 (Nat.leb_le a b)) by lia ]
         | |- context [?a <? ?b] =>
             first [ rewrite (proj2 (Nat.ltb_ge a b)) by lia
                   | rewrite (proj2 (Nat.ltb_lt a b)) by lia ]
         end.

(** rewrite with the known values of the demand counters *)
Ltac rw_cnt :=
  repeat match goal with
         | H : owed ?m 0 = _ |- context [owed ?m 0] => rewrite H
         | H : credit ?m 0 = _ |- context [credit ?m 0] => rewrite H
         end.

Section TakePull.
  Variable max : nat.
  Hypothesis Hmax : 1 <= max.
  Variable p : mparams.
  Hypothesis Hns : nsinks p = 1.
  Hypothesis Hresub : resub p = false.
  Hypothesis Hnonest : no_nest p = false.
  Hypothesis Hc14 : c14 p = true.
  Hypothesis Hpullable : pullable p = true.
  Hypothesis Hone : one_pull p = true.
  Let o := take_op max.

  (** ** The stack part (as in Inv_take.v).

      [fr_low]: a suspended activation that will do nothing more when it is
      resumed, whatever the state is then: the pass-through frames and the
      Data frames whose local [taken'] is below [max].
      [fr_nostop]: additionally the Data frame with [taken' = max], which is
      harmless once [tk_end] is set. *)
  Definition fr_low (fc : take_fr * call) : Prop :=
    match fst fc with TkDone => True | TkAfterData t => t <> max | TkAfterStop => False end.
  Definition fr_nostop (fc : take_fr * call) : Prop :=
    match fst fc with TkAfterStop => False | _ => True end.
  Definition low := Forall fr_low.
  Definition nostop := Forall fr_nostop.

  Lemma low_nostop stk : low stk -> nostop stk.
  Proof.
    apply Forall_impl. intros [k cl]. unfold fr_low, fr_nostop. cbn. destruct k; tauto.
  Qed.

  Lemma low_cons_done cl stk : low stk -> low ((TkDone, cl) :: stk).
  Proof. intros H. constructor; [exact I | exact H]. Qed.

  Lemma low_cons_data t cl stk : t <> max -> low stk -> low ((TkAfterData t, cl) :: stk).
  Proof. intros Ht H. constructor; [exact Ht | exact H]. Qed.

  Lemma nostop_cons_done cl stk : nostop stk -> nostop ((TkDone, cl) :: stk).
  Proof. intros H. constructor; [exact I | exact H]. Qed.

  Lemma nostop_cons_data t cl stk : nostop stk -> nostop ((TkAfterData t, cl) :: stk).
  Proof. intros H. constructor; [exact I | exact H]. Qed.

  Lemma low_inv k cl stk : low ((k, cl) :: stk) -> fr_low (k, cl) /\ low stk.
  Proof. intros H. inversion H. split; assumption. Qed.

  Lemma nostop_inv k cl stk : nostop ((k, cl) :: stk) -> fr_nostop (k, cl) /\ nostop stk.
  Proof. intros H. inversion H. split; assumption. Qed.

  Hint Resolve low_nostop low_cons_done low_cons_data nostop_cons_done nostop_cons_data : tk.

  (** ** The relation between (sk 0, us 0), the cells and the stack *)
  Definition phase (k : sks) (u : uss) (st : take_st) (stk : list (take_fr * call)) : Prop :=
    match k, u with
    | SNone, UNone => tk_taken st = 0 /\ low stk
    | SNone, USubd => tk_taken st = 0 /\ tk_end st = false /\ low stk
    | SLive, ULive =>
        tk_tb st = true /\ tk_end st = false /\
        ((tk_taken st < max /\ low stk) \/
         (* the nth delivery is pending: its frame is on top, the sink is in control *)
         (tk_taken st = max /\
          exists v rest, stk = (TkAfterData max, CDn 0 (DD v)) :: rest /\ low rest))
    | SFinished, UEnded => low stk                      (* upstream ended by itself *)
    | SDisposed, UStopped => tk_end st = true /\ nostop stk      (* the sink disposed *)
    | SLive, UStopped =>                                (* take completes: upstream is being stopped *)
        tk_end st = true /\ exists rest, stk = (TkAfterStop, CUp 0 UT) :: rest /\ nostop rest
    | SFinished, UStopped => tk_end st = true /\ nostop stk      (* take completed *)
    | _, _ => False
    end.

  Record Inv (c : cfg o) : Prop := {
    i_viols : viols (ms c) = [];
    i_dead : dead c = false;
    i_phase : phase (sk (ms c) 0) (us (ms c) 0) (cst c) (stack c);
    i_le : tk_taken (cst c) <= max;
    i_nd : ndata (ms c) 0 = tk_taken (cst c);
    i_subd : subd (ms c) 0 = false -> us (ms c) 0 = UNone;
    i_due : forall s, err_due (ms c) s = None;
    i_ports : forall i, In i (ports (ms c)) -> i = 0;
    i_inport : us (ms c) 0 <> UNone -> In 0 (ports (ms c));
    i_sk_other : forall s, s <> 0 -> sk (ms c) s = SNone;
    i_us_other : forall i, i <> 0 -> us (ms c) i = UNone;
    i_task : forall s, task (ms c) s = false;
    (* nothing is counted before the greeting *)
    i_zero : sk (ms c) 0 = SNone ->
             credit (ms c) 0 = 0 /\ owed (ms c) 0 = 0 /\ npull (ms c) 0 = 0;
    (* while both sides are live and take still forwards Pulls: every Pull is
       either answered or owed by the upstream, and the sink's one credit is
       either with the sink or travelling upstream *)
    i_cnt : sk (ms c) 0 = SLive -> us (ms c) 0 = ULive -> tk_taken (cst c) < max ->
            owed (ms c) 0 + ndata (ms c) 0 = npull (ms c) 0 /\
            credit (ms c) 0 + owed (ms c) 0 = 1;
  }.

  Lemma inv0 : Inv (cfg0 o).
  Proof.
    constructor; cbn; auto; intros; try tauto; try lia; try discriminate.
    split; [reflexivity | constructor].
  Qed.

  (** the quiescence check passes in every phase the empty stack allows: if
      the sink is live there, take has not yet delivered its nth item, so the
      counting equation holds and "nothing owed" means "every Pull answered" *)
  Lemma phase_quiescent (c : cfg o) :
    Inv c -> phase (sk (ms c) 0) (us (ms c) 0) (cst c) [] ->
    forall m', sk m' = sk (ms c) -> us m' = us (ms c) -> ports m' = ports (ms c) ->
    err_due m' = err_due (ms c) -> owed m' = owed (ms c) ->
    npull m' = npull (ms c) -> ndata m' = ndata (ms c) ->
    check_quiescent p m' = [].
  Proof.
    intros [] Hph m' E1 E2 E3 E4 E5 E6 E7. apply quiescent_nil.
    - intros _ Hov i Hi. rewrite E3 in Hi. rewrite (i_ports0 i Hi), E2.
      rewrite E1 in Hov.
      destruct (sk (ms c) 0), (us (ms c) 0); cbn in *; try discriminate; tauto.
    - intros s. now rewrite E4.
    - (* VUnanswered *)
      intros _ Hl Hall. rewrite E1 in Hl. rewrite Hl in Hph.
      destruct (us (ms c) 0) eqn:Eus; cbn in Hph; try tauto.
      + destruct Hph as (_ & _ & [[Hlt _] | [_ (v & rest & Hnil & _)]]); [|discriminate].
        destruct (i_cnt0 Hl eq_refl Hlt) as [Hn Hco].
        assert (Hin : In 0 (ports m')).
        { rewrite E3. apply i_inport0. discriminate. }
        specialize (Hall 0 Hin). rewrite E5 in Hall. rewrite E6, E7. lia.
      + destruct Hph as (_ & rest & Hnil & _). discriminate.
  Qed.

  Ltac phase_cases c Esk Eus :=
    destruct (sk (ms c) 0) eqn:Esk; destruct (us (ms c) 0) eqn:Eus;
    match goal with H : phase _ _ _ _ |- _ => cbn in H end.

  (** [crush] of ProofLib, except that implications are only specialised with
      proofs (there is a [nat] in the context here: [max]) *)
  Ltac crush' :=
    repeat match goal with
           | |- forall _, _ => intro
           | H : _ \/ _ |- _ => destruct H
           | H : _ /\ _ |- _ => destruct H
           | H : exists _, _ |- _ => destruct H
           | H : False |- _ => destruct H
           | H : In _ (_ :: _) |- _ => cbn in H
           | H : ?A -> _, H' : ?A |- _ =>
               match type of A with Prop => specialize (H H') end
           | |- context [upd _ ?k _ ?x] =>
               unfold upd; destruct (Nat.eqb_spec x k); subst
           | H : context [upd _ ?k _ ?x] |- _ =>
               unfold upd in H; destruct (Nat.eqb_spec x k); subst
           end;
    auto; try congruence; try lia; try (constructor; fail); try tauto;
    try (repeat split; eauto with tk; fail);
    try (repeat split; auto; left; split; [lia | eauto with tk]; fail);
    try (repeat split; auto; right; split; [lia | eauto 6 with tk]; fail);
    try (match goal with
         | |- context [(?s <=? 0)] => destruct s; cbn; auto; congruence
         end).

  Ltac fin' Hc Hm Hs Hd :=
    constructor; rewrite ?Hc, ?Hm, ?Hs, ?Hd;
    cbn -[Nat.ltb Nat.leb add_viols]; rewrite ?add_viols_eq; cbn -[Nat.ltb Nat.leb];
    unfold due_on_error;
    repeat (rw_st; rw_cnt; solve_cmp; cbn -[Nat.ltb Nat.leb]; rewrite ?Nat.eqb_refl;
            cbn -[Nat.ltb Nat.leb]);
    cbn; crush'.

  Lemma inv_sub c s aux : Inv c -> enabled p g_std c (MIn (ISub s aux)) = true ->
                          Inv (step p c (MIn (ISub s aux))).
  Proof.
    intros [] He. start_in He Hlive Hdel Hg.
    cbn in He, Hg. rewrite Hns in He. destruct aux; [|discriminate].
    destruct (at_top c) eqn:Htop; cbn in He; try discriminate.
    destruct s; cbn in He; try discriminate.
    apply negb_true_iff in He. specialize (i_subd0 He).
    phase_cases c Esk Eus; try congruence; try tauto.
    destruct (step_in p c (ISub 0 0) Hlive Hdel eq_refl) as (Hc & Hs & Hm & Hd).
    fin' Hc Hm Hs Hd.
  Qed.

  Lemma top_sink_not_up (c : cfg o) k s d rest :
    stack c = (k, CDn s d) :: rest -> top_peer_is c (PUp 0) = true -> False.
  Proof. unfold top_peer_is. intros ->. cbn. discriminate. Qed.

  Lemma top_up_not_sink (c : cfg o) k i u rest :
    stack c = (k, CUp i u) :: rest -> top_peer_is c (PSink 0) = true -> False.
  Proof. unfold top_peer_is. intros ->. cbn. discriminate. Qed.

  Lemma inv_up c s u :
    cstack (ms c) = map snd (stack c) ->
    Inv c -> enabled p g_std c (MIn (IUp s u)) = true ->
    Inv (step p c (MIn (IUp s u))).
  Proof.
    intros Hcs HI He. destruct HI.
    start_in He Hlive Hdel Hg.
    cbn -[Nat.ltb] in He. apply andb_prop in He. destruct He as [He Hu].
    apply andb_prop in He. destruct He as [Htop Hsk].
    destruct s as [|s]; [|rewrite i_sk_other0 in Hsk by lia; discriminate].
    phase_cases c Esk Eus; try discriminate; try tauto.
    - (* live *)
      assert (Hp0 : In 0 (ports (ms c))) by (apply i_inport0; discriminate).
      destruct i_phase0 as (Htb & Hend & [[Hlt Hlow] | [Heq (v & rest & Hst & Hlow)]]).
      + destruct (i_cnt0 eq_refl eq_refl Hlt) as [Hn Hco].
        destruct u as [|e|].
        * (* Pull, forwarded: the sink holds the credit, so nothing is owed upstream *)
          rewrite Hone in Hu. cbn -[Nat.ltb] in Hu. apply Nat.ltb_lt in Hu.
          assert (Hcr : credit (ms c) 0 = 1) by lia.
          assert (How : owed (ms c) 0 = 0) by lia.
          assert (Hh : handle o (IUp 0 UP) (cst c) = (cst c, [], ACall (CUp 0 UP) TkDone)).
          { cbn -[Nat.ltb]. apply Nat.ltb_lt in Hlt. now rewrite Hlt, Htb. }
          destruct (step_in p c (IUp 0 UP) Hlive Hdel Hh) as (Hc & Hs & Hm & Hd).
          fin' Hc Hm Hs Hd.
        * assert (Hh : handle o (IUp 0 (UE e)) (cst c) =
                       ({| tk_taken := tk_taken (cst c); tk_tb := tk_tb (cst c); tk_end := true |},
                        [], ACall (CUp 0 (UE e)) TkDone)).
          { cbn. now rewrite Htb. }
          destruct (step_in p c (IUp 0 (UE e)) Hlive Hdel Hh) as (Hc & Hs & Hm & Hd).
          fin' Hc Hm Hs Hd.
        * assert (Hh : handle o (IUp 0 UT) (cst c) =
                       ({| tk_taken := tk_taken (cst c); tk_tb := tk_tb (cst c); tk_end := true |},
                        [], ACall (CUp 0 UT) TkDone)).
          { cbn. now rewrite Htb. }
          destruct (step_in p c (IUp 0 UT) Hlive Hdel Hh) as (Hc & Hs & Hm & Hd).
          fin' Hc Hm Hs Hd.
      + destruct u as [|e|].
        * (* Pull, swallowed: the nth delivery is still pending, so this
             activation's return is not a quiescent point *)
          assert (Hh : handle o (IUp 0 UP) (cst c) = (cst c, [], ARet)).
          { cbn -[Nat.ltb]. rewrite Heq, Nat.ltb_irrefl. reflexivity. }
          destruct (step_in p c (IUp 0 UP) Hlive Hdel Hh) as (Hc & Hs & Hm & Hd).
          rewrite Hst in Hcs. cbn in Hcs.
          constructor; rewrite ?Hc, ?Hm, ?Hs, ?Hd; cbn; rewrite ?Hcs; cbn; auto.
          all: rw_st; cbn; try (intros; lia); crush'.
        * assert (Hh : handle o (IUp 0 (UE e)) (cst c) =
                       ({| tk_taken := tk_taken (cst c); tk_tb := tk_tb (cst c); tk_end := true |},
                        [], ACall (CUp 0 (UE e)) TkDone)).
          { cbn. now rewrite Htb. }
          destruct (step_in p c (IUp 0 (UE e)) Hlive Hdel Hh) as (Hc & Hs & Hm & Hd).
          fin' Hc Hm Hs Hd. rewrite Hst. crush'.
        * assert (Hh : handle o (IUp 0 UT) (cst c) =
                       ({| tk_taken := tk_taken (cst c); tk_tb := tk_tb (cst c); tk_end := true |},
                        [], ACall (CUp 0 UT) TkDone)).
          { cbn. now rewrite Htb. }
          destruct (step_in p c (IUp 0 UT) Hlive Hdel Hh) as (Hc & Hs & Hm & Hd).
          fin' Hc Hm Hs Hd. rewrite Hst. crush'.
    - (* stopping: the upstream is in control *)
      destruct i_phase0 as (_ & rest & Hst & _).
      exfalso. eapply top_up_not_sink; eassumption.
  Qed.

  Lemma inv_dn c i d : Inv c -> enabled p g_std c (MIn (IDn i d)) = true ->
                       Inv (step p c (MIn (IDn i d))).
  Proof.
    intros HI He. destruct HI.
    start_in He Hlive Hdel Hg.
    cbn -[Nat.ltb] in He. apply andb_prop in He. destruct He as [Htop He].
    destruct i as [|i].
    2: { rewrite i_us_other0 in He by lia. destruct d; cbn in He; discriminate. }
    phase_cases c Esk Eus; destruct d as [|v|e|]; cbn -[Nat.ltb] in He;
      try discriminate; try tauto.
    all: assert (Hp0 : In 0 (ports (ms c))) by (apply i_inport0; discriminate).
    - (* greeting *)
      destruct i_phase0 as (Ht0 & Hend & Hlow).
      destruct (i_zero0 eq_refl) as (Hcr & How & Hnp).
      destruct (step_in p c (IDn 0 DH) Hlive Hdel eq_refl) as (Hc & Hs & Hm & Hd).
      fin' Hc Hm Hs Hd.
    - (* data: the upstream answers the one Pull it owes *)
      destruct i_phase0 as (Htb & Hend & [[Hlt Hlow] | [Heq (v0 & rest & Hst & Hlow)]]).
      2: { exfalso. eapply top_sink_not_up; eassumption. }
      destruct (i_cnt0 eq_refl eq_refl Hlt) as [Hn Hco].
      rewrite Hpullable in He. cbn -[Nat.ltb] in He. apply Nat.ltb_lt in He.
      assert (Hcr : credit (ms c) 0 = 0) by lia.
      assert (How : owed (ms c) 0 = 1) by lia.
      assert (Hh : handle o (IDn 0 (DD v)) (cst c) =
                   ({| tk_taken := S (tk_taken (cst c)); tk_tb := tk_tb (cst c);
                       tk_end := tk_end (cst c) |}, [],
                    ACall (CDn 0 (DD v)) (TkAfterData (S (tk_taken (cst c)))))).
      { cbn -[Nat.ltb]. apply Nat.ltb_lt in Hlt. now rewrite Hlt. }
      destruct (step_in p c (IDn 0 (DD v)) Hlive Hdel Hh) as (Hc & Hs & Hm & Hd).
      fin' Hc Hm Hs Hd.
      repeat split; auto.
      destruct (Nat.eq_dec (S (tk_taken (cst c))) max) as [E|E].
      + right. split; [exact E|]. rewrite E. eauto.
      + left. split; [lia|]. apply low_cons_data; [exact E | exact Hlow].
    - (* error *)
      destruct i_phase0 as (Htb & Hend & [[Hlt Hlow] | [Heq (v0 & rest & Hst & Hlow)]]).
      2: { exfalso. eapply top_sink_not_up; eassumption. }
      assert (Hh : handle o (IDn 0 (DE e)) (cst c) =
                   ({| tk_taken := tk_taken (cst c); tk_tb := tk_tb (cst c); tk_end := true |}, [],
                    ACall (CDn 0 (DE e)) TkDone)).
      { cbn. now rewrite Hend. }
      destruct (step_in p c (IDn 0 (DE e)) Hlive Hdel Hh) as (Hc & Hs & Hm & Hd).
      fin' Hc Hm Hs Hd.
    - (* completion *)
      destruct i_phase0 as (Htb & Hend & [[Hlt Hlow] | [Heq (v0 & rest & Hst & Hlow)]]).
      2: { exfalso. eapply top_sink_not_up; eassumption. }
      assert (Hh : handle o (IDn 0 DT) (cst c) =
                   ({| tk_taken := tk_taken (cst c); tk_tb := tk_tb (cst c); tk_end := true |}, [],
                    ACall (CDn 0 DT) TkDone)).
      { cbn. now rewrite Hend. }
      destruct (step_in p c (IDn 0 DT) Hlive Hdel Hh) as (Hc & Hs & Hm & Hd).
      fin' Hc Hm Hs Hd.
  Qed.

  (** frames that do nothing when resumed *)
  Lemma resume_low k cl s : fr_low (k, cl) -> resume o k s = (s, [], ARet).
  Proof.
    unfold fr_low. cbn. destruct k as [|t|]; cbn; intros H; try reflexivity; try tauto.
    apply Nat.eqb_neq in H. now rewrite H.
  Qed.

  Lemma resume_nostop k cl s :
    fr_nostop (k, cl) -> tk_end s = true -> resume o k s = (s, [], ARet).
  Proof.
    unfold fr_nostop. cbn. destruct k as [|t|]; cbn; intros H E; try reflexivity; try tauto.
    rewrite E. now rewrite andb_false_r.
  Qed.

  (** the return of a call whose frame does nothing: the phase is kept, with
      the rest of the stack; if that rest is empty this is a quiescent point *)
  Lemma inv_ret_quiet c k cl rest :
    cstack (ms c) = map snd (stack c) ->
    Inv c -> stack c = (k, cl) :: rest ->
    resume o k (cst c) = (cst c, [], ARet) ->
    phase (sk (ms c) 0) (us (ms c) 0) (cst c) rest ->
    Inv (step p c MRet).
  Proof.
    intros Hcs HI Hst Hres Hph. pose proof (phase_quiescent HI) as Hq. destruct HI.
    destruct (step_ret p c i_dead0 Hst Hres) as (Hc & Hs & Hm & Hd).
    rewrite Hst in Hcs. cbn in Hcs.
    destruct rest as [|fc rest'].
    - specialize (Hq Hph).
      constructor; rewrite ?Hc, ?Hm, ?Hs, ?Hd; cbn; rewrite ?Hcs; cbn;
        rewrite ?add_viols_eq; cbn; rewrite ?Hq; auto.
    - constructor; rewrite ?Hc, ?Hm, ?Hs, ?Hd; cbn; rewrite ?Hcs; cbn; auto.
  Qed.

  Lemma inv_ret c :
    cstack (ms c) = map snd (stack c) ->
    Inv c -> enabled p g_std c MRet = true -> Inv (step p c MRet).
  Proof.
    intros Hcs HI He.
    pose proof (enabled_live _ _ _ _ He) as Hlive.
    destruct (enabled_ret_stack _ _ _ He) as (k & cl & rest & Hst).
    pose proof (i_phase HI) as Hph.
    destruct (sk (ms c) 0) eqn:Esk; destruct (us (ms c) 0) eqn:Eus; cbn in Hph; try tauto.
    - (* not subscribed *)
      destruct Hph as (Ht0 & Hlow). rewrite Hst in Hlow. apply low_inv in Hlow.
      destruct Hlow as [Hk Hlow].
      apply (inv_ret_quiet Hcs HI Hst (@resume_low k cl (cst c) Hk)). rewrite Esk, Eus. cbn. auto.
    - (* subscribed, not greeted *)
      destruct Hph as (Ht0 & Hend & Hlow). rewrite Hst in Hlow. apply low_inv in Hlow.
      destruct Hlow as [Hk Hlow].
      apply (inv_ret_quiet Hcs HI Hst (@resume_low k cl (cst c) Hk)). rewrite Esk, Eus. cbn. auto.
    - (* live *)
      destruct Hph as (Htb & Hend & [[Hlt Hlow] | [Heq (v & rest' & Hst' & Hlow)]]).
      + rewrite Hst in Hlow. apply low_inv in Hlow. destruct Hlow as [Hk Hlow].
        apply (inv_ret_quiet Hcs HI Hst (@resume_low k cl (cst c) Hk)). rewrite Esk, Eus. cbn. auto.
      + (* the nth delivery returns and the sink did not dispose: stop upstream *)
        rewrite Hst in Hst'. injection Hst' as -> -> ->.
        assert (Hres : resume o (TkAfterData max) (cst c) =
                       ({| tk_taken := tk_taken (cst c); tk_tb := tk_tb (cst c);
                           tk_end := true |}, [], ACall (CUp 0 UT) TkAfterStop)).
        { cbn. now rewrite Nat.eqb_refl, Hend, Htb. }
        destruct HI.
        assert (Hp0 : In 0 (ports (ms c))) by (apply i_inport0; rewrite Eus; discriminate).
        destruct (step_ret p c Hlive Hst Hres) as (Hc & Hs & Hm & Hd).
        fin' Hc Hm Hs Hd.
    - (* completing: upstream was stopped, now complete the sink *)
      destruct Hph as (Hend & rest' & Hst' & Hns').
      rewrite Hst in Hst'. injection Hst' as -> -> ->.
      destruct HI.
      assert (Hp0 : In 0 (ports (ms c))) by (apply i_inport0; rewrite Eus; discriminate).
      destruct (step_ret p c Hlive Hst eq_refl) as (Hc & Hs & Hm & Hd).
      fin' Hc Hm Hs Hd.
    - (* disposed *)
      destruct Hph as (Hend & Hns'). rewrite Hst in Hns'. apply nostop_inv in Hns'.
      destruct Hns' as [Hk Hns'].
      apply (inv_ret_quiet Hcs HI Hst (@resume_nostop k cl (cst c) Hk Hend)).
      rewrite Esk, Eus. cbn. auto.
    - (* upstream ended *)
      rewrite Hst in Hph. apply low_inv in Hph. destruct Hph as [Hk Hlow].
      apply (inv_ret_quiet Hcs HI Hst (@resume_low k cl (cst c) Hk)). rewrite Esk, Eus. cbn. auto.
    - (* completed *)
      destruct Hph as (Hend & Hns'). rewrite Hst in Hns'. apply nostop_inv in Hns'.
      destruct Hns' as [Hk Hns'].
      apply (inv_ret_quiet Hcs HI Hst (@resume_nostop k cl (cst c) Hk Hend)).
      rewrite Esk, Eus. cbn. auto.
  Qed.

  Lemma inv_step c m :
    cstack (ms c) = map snd (stack c) ->
    Inv c -> enabled p g_std c m = true -> Inv (step p c m).
  Proof.
    intros Hcs HI He. destruct m as [[s aux|s u|i d|s]|].
    - now apply inv_sub.
    - now apply inv_up.
    - now apply inv_dn.
    - exfalso. destruct HI. unfold enabled in He.
      repeat (apply andb_prop in He; destruct He as [? He]).
      cbn in He. now rewrite i_task0 in He.
    - now apply inv_ret.
  Qed.

  Theorem inv_reach c : reach p g_std c -> Inv c.
  Proof.
    induction 1 as [|c m Hr IH He]; [apply inv0|].
    apply inv_step; [exact (reach_cstack Hr) | exact IH | exact He].
  Qed.

  (** the counting facts, for use by other files *)
  Theorem take_counts_sec (c : cfg o) :
    reach p g_std c ->
    sk (ms c) 0 = SLive -> us (ms c) 0 = ULive -> ndata (ms c) 0 < max ->
    owed (ms c) 0 + ndata (ms c) 0 = npull (ms c) 0 /\ credit (ms c) 0 + owed (ms c) 0 = 1.
  Proof.
    intros Hr Hl Hu Hlt. destruct (inv_reach Hr). apply i_cnt0; auto. lia.
  Qed.

End TakePull.

(** C14 for take: no over-pull, no unrequested data, no unanswered pull (and
    none of the C01-C05, C17 violations either) in the pull regime *)
Theorem take_safe_pull p :
  nsinks p = 1 -> resub p = false -> no_nest p = false ->
  c14 p = true -> pullable p = true -> one_pull p = true ->
  forall max, 1 <= max ->
  forall c : cfg (take_op max), reach p g_std c -> viols (ms c) = [] /\ dead c = false.
Proof.
  intros H1 H2 H3 H4 H5 H6 max Hmax c Hr.
  destruct (inv_reach Hmax H1 H2 H3 H4 H5 H6 Hr). split; assumption.
Qed.
Print Assumptions take_safe_pull.

(** the demand-conservation equations themselves, while take still forwards *)
Theorem take_counts_pull p :
  nsinks p = 1 -> resub p = false -> no_nest p = false ->
  c14 p = true -> pullable p = true -> one_pull p = true ->
  forall max, 1 <= max ->
  forall c : cfg (take_op max), reach p g_std c ->
  sk (ms c) 0 = SLive -> us (ms c) 0 = ULive -> ndata (ms c) 0 < max ->
  owed (ms c) 0 + ndata (ms c) 0 = npull (ms c) 0 /\ credit (ms c) 0 + owed (ms c) 0 = 1.
Proof.
  intros H1 H2 H3 H4 H5 H6 max Hmax c Hr.
  exact (take_counts_sec Hmax H1 H2 H3 H4 H5 H6 Hr).
Qed.
Print Assumptions take_counts_pull.

(** a sanity check that the theorem is not vacuous: the fully nested run of
    take(2) is a conformant script of the pull regime.  Every message is sent
    from inside the handler of the previous one; the sink's third Pull, sent
    from inside the second (= nth) delivery, is swallowed by take, and yet no
    [VUnanswered] is due: when the run is quiescent again the sink has been
    completed.  The counts end at npull = 3, ndata = 2. *)
Module TakePullSanity.
  Definition p0 : mparams :=
    {| nsinks := 1; late_ok := false; pullable := true; one_pull := true;
       resub := false; no_nest := false; c14 := true |}.
  Definition script : list move :=
    [MIn (ISub 0 0); MIn (IDn 0 DH); MIn (IUp 0 UP); MIn (IDn 0 (DD (VN 1)));
     MIn (IUp 0 UP); MIn (IDn 0 (DD (VN 2))); MIn (IUp 0 UP);
     MRet; MRet; MRet; MRet; MRet; MRet; MRet; MRet].
  Example script_enabled : all_enabled p0 g_std (cfg0 (take_op 2)) script = true.
  Proof. vm_compute. reflexivity. Qed.
  Example script_end :
    let c := run p0 (take_op 2) script in
    stack c = [] /\ data_out 0 (trace c) = [VN 1; VN 2] /\
    sk (ms c) 0 = SFinished /\ us (ms c) 0 = UStopped /\
    npull (ms c) 0 = 3 /\ ndata (ms c) 0 = 2 /\ viols (ms c) = [].
  Proof. vm_compute. repeat split; reflexivity. Qed.
  (** the regime's restrictions bite: a second Pull without a message in
      between, and a Data nobody asked for, are not conformant moves *)
  Example double_pull_disabled :
    all_enabled p0 g_std (cfg0 (take_op 2))
      [MIn (ISub 0 0); MIn (IDn 0 DH); MIn (IUp 0 UP); MRet; MRet; MRet; MIn (IUp 0 UP)] = false.
  Proof. vm_compute. reflexivity. Qed.
  Example unasked_data_disabled :
    all_enabled p0 g_std (cfg0 (take_op 2))
      [MIn (ISub 0 0); MIn (IDn 0 DH); MRet; MRet; MIn (IDn 0 (DD (VN 1)))] = false.
  Proof. vm_compute. reflexivity. Qed.
End TakePullSanity.
