(** * ClosedDemand: property C14 inside every pipeline under for_each.

    In every state of the run of pipe!(from_iter(it), stages.., for_each(f)) - any iterator, any stages
    from map/filter/scan/take/skip - the sink of every node has never received more Data than it sent
    Pulls, and every node is driven by a sink that sends one Pull per message it received
    ([all_one_pull]): the premise of C14 holds at every link, and so does its first conclusion. *)

From CB Require Import ProofLib Spec Chain Programs Flow FlowLists Wire2 FlowGeneric LivenessG.
From CB Require Inv_from_iter Flow_ends.

Set Implicit Arguments.

Section Closed.
  Variable it : nat -> option val.
  Variable stages : list ustage.
  Hypothesis Hok : Forall ustage_ok stages.

  Theorem closed_no_overdata N : crun it stages N ->
    forall i n, i <= length stages -> nth_error (nodes N) i = Some n ->
      dout (ntrace n) <= pin (ntrace n).
  Proof.
    intros Hc. pose proof (crun_reach Hc) as Hr.
    induction i as [|i IH]; intros n Hi Hn; pose proof (r_reach Hok _ Hr Hn) as Hre.
    - destruct (r_kind Hok 0 Hr Hn) as [_ E|s _ H1 _|H1 _]; [|lia|unfold last in H1; lia].
      destruct (node_src E) as [c ->].
      unfold nreach, ntrace in *. cbn [nop npar ngrd ncfg] in *.
      pose proof (Inv_from_iter.inv_reach (p := p_src) eq_refl eq_refl Hre) as HI.
      pose proof (Inv_from_iter.i_lazy HI) as Hl. rewrite (Flow_ends.reach_npull_pin Hre) in Hl.
      pose proof (@Inv_from_iter.from_iter_done_exact it p_src eq_refl eq_refl eq_refl eq_refl c Hre) as H1.
      rewrite H1, app_length, map_length, <- dout_data_out in Hl. lia.
    - destruct (upstream_exists i Hr Hn) as [U HU]. specialize (IH U ltac:(lia) HU).
      destruct (r_counts Hok i Hr HU Hn) as (_ & H2 & H3).
      destruct (r_kind Hok (S i) Hr Hn) as [H0 _|s Hs _ E|Hl _]; [lia| |unfold last in Hl; lia].
      destruct (ns_flow E (stage_ok_at Hok _ Hs) Hre) as (H4 & _). lia.
  Qed.

  (** at every link the sink side keeps the discipline that C14 assumes of sinks *)
  Theorem closed_disciplined N : crun it stages N ->
    forall i n, nth_error (nodes N) i = Some n ->
      nreach1 n /\ credit (nms n) 0 + pin (ntrace n) = hout (ntrace n) + dout (ntrace n).
  Proof.
    intros Hc i n Hn. pose proof (all_one_pull Hok Hc i Hn) as H1. split; [exact H1|].
    exact (credit_exact (p := with_one_pull (npar n)) eq_refl H1).
  Qed.
End Closed.

Print Assumptions closed_no_overdata.
Print Assumptions closed_disciplined.
